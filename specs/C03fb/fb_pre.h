/* Part of C03 (part_c03_fb): the hand-managed lazy cache of MobilizedBody::FunctionBasedImpl (Simbody/src/MobilizedBodyImpl.h).
   The hinge matrix H_FM(q) and its time derivative HDot_FM(q,u) of a FunctionBased mobilizer live in ONE topology-stage cache
   entry Value<CacheInfo<N>> guarded by two bools; realizePosition / realizeVelocity clear them, multiplyByH* / multiplyByHDot*
   rebuild on demand.  C03 (velocity = d/dt pose) needs: the H used by every multiplyByH* at stage >= Position was built from the
   CURRENT q, the HDot used at stage >= Velocity from the CURRENT q and u -- for every history of the State.

   Stand-ins (the nine real member functions are cut from the tree and rewritten by the logged rules of checks/part_c03_fb.py):
   kinematic values are replaced by VERSION TAGS: s->q_tag / s->u_tag name the current values of this mobilizer's q and u,
   a matrix carries the tags of the values it was built from (HTag).  Mat<2,N,Vec3> -> HTag, Vector q/u -> int tag,
   SpatialVec result of h*u -> the tag of the h used.  */
#include <stdbool.h>
typedef double Real;
typedef struct { int q, u; } HTag;
struct CacheInfo { bool isValidH, isValidHdot; HTag h, hdot; };
struct State { int allocN;            /* N of the Value<CacheInfo<N>> allocated at (subsystem, cacheIndex); 0 = none */
               struct CacheInfo ci;   /* the cache entry (mutable through a const State, as in Simbody) */
               int q_tag, u_tag;      /* current versions of this mobilizer's q and u */
               int stage; };          /* realized stage of the State */
struct FB { int nu; };
struct SpatialVecIn { int opaque; };
enum { ST_Topology = 1, ST_Model = 2, ST_Instance = 3, ST_Time = 4, ST_Position = 5, ST_Velocity = 6, ST_Dynamics = 7 };

/* ghosts */
int g_badcast;      /* Value<CacheInfo<N>>::downcast on an entry allocated with another N (std::bad_cast in the real code) */
int g_threw;        /* SimTK_THROW5 reached */
int g_buildH, g_buildHdot;   /* calls */
int g_inconsistent; /* buildH / buildHdot handed q, u, X_FM that do not belong to the current state */
HTag g_outT;        /* tag of the matrix used by the last transposed product (result goes through Real* f) */
int g_outT_N, g_mul_N;

/* ---- State cache access [assumed contract of State::updCacheEntry/getCacheEntry + Value<T>::downcast: same entry, checked type] ---- */
static struct CacheInfo* fb_updCache(const struct FB* self, const struct State* s, int N)
{ if (N != s->allocN) g_badcast = 1; return (struct CacheInfo*)&s->ci; }
static const struct CacheInfo* fb_getCache(const struct FB* self, const struct State* s, int N)
{ if (N != s->allocN) g_badcast = 1; return &s->ci; }
/* s.allocateCacheEntry(subsystem, Stage::Topology, new Value<CacheInfo<N> >()): runs CacheInfo<N>::CacheInfo(), whose initialiser list
   is read from the tree on every run (fb_ctor) */
static void fb_ctor(struct CacheInfo* c);      /* generated from the constructor text of the tree by checks/part_c03_fb.py */
static void fb_allocate(const struct FB* self, struct State* s, int N)
{ s->allocN = N; fb_ctor(&s->ci); }
/* ---- mobilizer kinematics handed to buildH/buildHdot [assumed: Custom::Implementation::getQ/getU/getMobilizerTransform return the
        current values of the state] ---- */
static int fb_getQ(const struct FB* self, const struct State* s) { return s->q_tag; }
static int fb_getU(const struct FB* self, const struct State* s) { return s->u_tag; }
static int fb_getMobilizerTransform(const struct FB* self, const struct State* s) { return s->q_tag; }
/* ---- CacheInfo<N>::buildH / buildHdot [abstract: H is a function of q (and X_FM(q)), HDot of q and u; the formulas are NOT under
        contract here] ---- */
static void fb_buildH(struct CacheInfo* c, int q, int u, int x_fm)    { g_buildH++;    if (x_fm != q) g_inconsistent = 1; c->h.q = q; c->h.u = 0; }
static void fb_buildHdot(struct CacheInfo* c, int q, int u, int x_fm) { g_buildHdot++; if (x_fm != q) g_inconsistent = 1; c->hdot.q = q; c->hdot.u = u; }
/* ---- products: the result carries the tag of the matrix used; N must be the N of the cast ---- */
static HTag fb_mul(HTag m, int N, const Real* u) { g_mul_N = N; return m; }
static void fb_mulT(HTag m, int N, const struct SpatialVecIn* F, Real* f) { g_outT = m; g_outT_N = N; }
static HTag fb_none(void) { HTag t; t.q = -1; t.u = -1; return t; }
