/* Plain harnesses (every cut function is loop-free: a full-domain symbolic run is a complete proof). */
int nondet_int(void); bool nondet_bool(void);
static void havoc(struct State* s, struct FB* self) {
  s->allocN = nondet_int(); s->ci.isValidH = nondet_bool(); s->ci.isValidHdot = nondet_bool();
  s->ci.h.q = nondet_int(); s->ci.h.u = nondet_int(); s->ci.hdot.q = nondet_int(); s->ci.hdot.u = nondet_int();
  s->q_tag = nondet_int(); s->u_tag = nondet_int(); s->stage = nondet_int(); self->nu = nondet_int();
  g_badcast = 0; g_threw = 0; g_buildH = 0; g_buildHdot = 0; g_inconsistent = 0;
  g_outT.q = nondet_int(); g_outT.u = nondet_int(); g_outT_N = 0; g_mul_N = 0;
}
/* class invariant of (FunctionBasedImpl, State) from Stage::Topology on */
#define INV(s, self) ( 1 <= (self)->nu && (self)->nu <= 6 && (s)->allocN == (self)->nu \
   && (!((s)->stage >= ST_Position && (s)->ci.isValidH)    || (s)->ci.h.q == (s)->q_tag) \
   && (!((s)->stage >= ST_Velocity && (s)->ci.isValidHdot) || ((s)->ci.hdot.q == (s)->q_tag && (s)->ci.hdot.u == (s)->u_tag)) )
#define CLEAN() (!g_badcast && !g_threw && !g_inconsistent)

void h_realizeTopology(void) {
  struct State s; struct FB self; havoc(&s, &self);
  __CPROVER_assume(1 <= self.nu && self.nu <= 6);
  FB_realizeTopology(&self, &s);
  s.stage = ST_Topology;
  __CPROVER_assert(s.allocN == self.nu, "realizeTopology allocates Value<CacheInfo<nu>> (the N every later downcast uses)");
  __CPROVER_assert(!s.ci.isValidH && !s.ci.isValidHdot, "a fresh cache entry holds no valid H / HDot");
  __CPROVER_assert(INV(&s, &self) && CLEAN(), "invariant established");
}
void h_realizePosition(void) {      /* q may have changed arbitrarily since the cache was filled: stage < Position on entry */
  struct State s; struct FB self; havoc(&s, &self);
  __CPROVER_assume(INV(&s, &self) && s.stage == ST_Position - 1);
  struct CacheInfo o = s.ci; int q0 = s.q_tag, u0 = s.u_tag;
  FB_realizePosition(&self, &s);
  s.stage = ST_Position;            /* what System::realize does after the subsystem's realizePosition */
  __CPROVER_assert(!s.ci.isValidH, "realizePosition invalidates H (built from an older q)");
  __CPROVER_assert(INV(&s, &self), "invariant at Stage::Position: a valid H belongs to the current q");
  __CPROVER_assert(s.ci.isValidHdot == o.isValidHdot && s.ci.hdot.q == o.hdot.q && s.ci.hdot.u == o.hdot.u && s.ci.h.q == o.h.q
                   && s.q_tag == q0 && s.u_tag == u0 && s.allocN == self.nu, "frame");
  __CPROVER_assert(CLEAN() && g_buildH == 0 && g_buildHdot == 0, "no throw, casts match the allocated type, nothing rebuilt");
}
void h_realizeVelocity(void) {
  struct State s; struct FB self; havoc(&s, &self);
  __CPROVER_assume(INV(&s, &self) && s.stage == ST_Velocity - 1);
  struct CacheInfo o = s.ci; int q0 = s.q_tag, u0 = s.u_tag;
  FB_realizeVelocity(&self, &s);
  s.stage = ST_Velocity;
  __CPROVER_assert(!s.ci.isValidHdot, "realizeVelocity invalidates HDot (built from older q, u)");
  __CPROVER_assert(INV(&s, &self), "invariant at Stage::Velocity: a valid HDot belongs to the current q and u, a valid H to the current q");
  __CPROVER_assert(s.ci.isValidH == o.isValidH && s.ci.h.q == o.h.q && s.ci.hdot.q == o.hdot.q && s.ci.hdot.u == o.hdot.u
                   && s.q_tag == q0 && s.u_tag == u0 && s.allocN == self.nu, "frame");
  __CPROVER_assert(CLEAN() && g_buildH == 0 && g_buildHdot == 0, "no throw, casts match, nothing rebuilt");
}
void h_multiplyByHMatrix(void) {
  struct State s; struct FB self; havoc(&s, &self); Real* u;
  __CPROVER_assume(INV(&s, &self) && s.stage >= ST_Position);
  struct CacheInfo o = s.ci;
  HTag r = FB_multiplyByHMatrix(&self, &s, self.nu, u);
  __CPROVER_assert(r.q == s.q_tag, "H*u uses the H of the CURRENT q");
  __CPROVER_assert(g_mul_N == self.nu, "product taken with nu columns");
  __CPROVER_assert(INV(&s, &self) && s.ci.isValidH && CLEAN(), "invariant kept; H valid afterwards; no throw / bad cast");
  __CPROVER_assert(g_buildH == (o.isValidH ? 0 : 1) && g_buildHdot == 0, "H rebuilt exactly when it was invalid");
  __CPROVER_assert(s.ci.isValidHdot == o.isValidHdot && s.ci.hdot.q == o.hdot.q && s.ci.hdot.u == o.hdot.u, "frame: HDot part untouched");
}
void h_multiplyByHTranspose(void) {
  struct State s; struct FB self; havoc(&s, &self); Real* f; struct SpatialVecIn F;
  __CPROVER_assume(INV(&s, &self) && s.stage >= ST_Position);
  struct CacheInfo o = s.ci;
  FB_multiplyByHTranspose(&self, &s, &F, self.nu, f);
  __CPROVER_assert(g_outT_N == self.nu && g_outT.q == s.q_tag, "~H*F uses the H of the CURRENT q and writes nu elements");
  __CPROVER_assert(INV(&s, &self) && s.ci.isValidH && CLEAN(), "invariant kept; no throw / bad cast");
  __CPROVER_assert(g_buildH == (o.isValidH ? 0 : 1) && g_buildHdot == 0, "H rebuilt exactly when it was invalid");
  __CPROVER_assert(s.ci.isValidHdot == o.isValidHdot && s.ci.hdot.q == o.hdot.q && s.ci.hdot.u == o.hdot.u, "frame: HDot part untouched");
}
void h_multiplyByHDotMatrix(void) {
  struct State s; struct FB self; havoc(&s, &self); Real* u;
  __CPROVER_assume(INV(&s, &self) && s.stage >= ST_Velocity);
  struct CacheInfo o = s.ci;
  HTag r = FB_multiplyByHDotMatrix(&self, &s, self.nu, u);
  __CPROVER_assert(r.q == s.q_tag && r.u == s.u_tag, "HDot*u uses the HDot of the CURRENT q and u");
  __CPROVER_assert(g_mul_N == self.nu, "product taken with nu columns");
  __CPROVER_assert(INV(&s, &self) && s.ci.isValidHdot && CLEAN(), "invariant kept; no throw / bad cast");
  __CPROVER_assert(g_buildHdot == (o.isValidHdot ? 0 : 1) && g_buildH == 0, "HDot rebuilt exactly when it was invalid");
  __CPROVER_assert(s.ci.isValidH == o.isValidH && s.ci.h.q == o.h.q, "frame: H part untouched");
}
void h_multiplyByHDotTranspose(void) {
  struct State s; struct FB self; havoc(&s, &self); Real* f; struct SpatialVecIn F;
  __CPROVER_assume(INV(&s, &self) && s.stage >= ST_Velocity);
  struct CacheInfo o = s.ci;
  FB_multiplyByHDotTranspose(&self, &s, &F, self.nu, f);
  __CPROVER_assert(g_outT_N == self.nu && g_outT.q == s.q_tag && g_outT.u == s.u_tag, "~HDot*F uses the HDot of the CURRENT q and u");
  __CPROVER_assert(INV(&s, &self) && s.ci.isValidHdot && CLEAN(), "invariant kept; no throw / bad cast");
  __CPROVER_assert(g_buildHdot == (o.isValidHdot ? 0 : 1) && g_buildH == 0, "HDot rebuilt exactly when it was invalid");
  __CPROVER_assert(s.ci.isValidH == o.isValidH && s.ci.h.q == o.h.q, "frame: H part untouched");
}
void h_nu_out_of_range(void) {
  struct State s; struct FB self; havoc(&s, &self); Real* u; int nu = nondet_int();
  __CPROVER_assume(INV(&s, &self) && s.stage >= ST_Velocity && (nu < 1 || nu > 6));
  struct CacheInfo o = s.ci;
  FB_multiplyByHMatrix(&self, &s, nu, u);
  __CPROVER_assert(g_threw == 1 && g_buildH == 0 && s.ci.isValidH == o.isValidH, "nu outside 1..6 is refused (throws), cache untouched");
}
/* history lemma: the State-side operations (assumed contract of State, C18: a write to q lowers the stage below Position and gives
   q a new value; a write to u lowers it below Velocity) keep INV, whatever the new values are */
void h_history_state_ops(void) {
  struct State s; struct FB self; havoc(&s, &self);
  __CPROVER_assume(INV(&s, &self) && s.stage >= ST_Topology);
  if (nondet_bool()) { s.q_tag = nondet_int(); if (s.stage > ST_Position - 1) s.stage = ST_Position - 1; }
  else               { s.u_tag = nondet_int(); if (s.stage > ST_Velocity - 1) s.stage = ST_Velocity - 1; }
  __CPROVER_assert(INV(&s, &self), "updQ / updU keep the invariant (by lowering the stage)");
}
void h_cover(void) {
  struct State s; struct FB self; havoc(&s, &self);
  __CPROVER_assume(INV(&s, &self));
  if (s.stage == ST_Position - 1 && s.ci.isValidH && s.ci.h.q != s.q_tag && self.nu == 5) __CPROVER_cover(1);  /* stale H before realizePosition */
  if (s.stage == ST_Position && s.ci.isValidHdot && s.ci.hdot.u != s.u_tag) __CPROVER_cover(1);              /* stale HDot before realizeVelocity */
  if (s.stage >= ST_Velocity && !s.ci.isValidH && s.ci.isValidHdot) __CPROVER_cover(1);
  if (s.stage >= ST_Position && s.ci.isValidH && self.nu == 6) __CPROVER_cover(1);
  if (s.stage >= ST_Velocity && !s.ci.isValidHdot && self.nu == 1) __CPROVER_cover(1);
}
