/* C26 - harnesses for ClonePtr / CloneOnWritePtr / ReferencePtr (included after the cut member functions). All code under test is loop-free, every
   handle state is symbolic => these are complete (UNBOUNDED) proofs over the modelled world:
   CloneOnWritePtr world: two managed objects A, B with counters cA, cB; up to three handles each empty / on A / on B (symbolic choice) plus an ARBITRARY
   number extA, extB >= 0 of further, unseen handles on A and B (so "number of live handles" is unbounded). Invariant COW_WF (checked after every operation):
     handle: count == 0 iff p == 0;  held object live, counter not deleted;  *count == number of live handles holding that object (seen + unseen);
     same object <=> same counter;  an object (and its counter) is deleted exactly when its last handle went away, never earlier, never twice.
   ClonePtr world: each handle exclusively owns its object (or is empty). ReferencePtr world: handles never own. */
#define NH 3
static Obj *A, *B, *N;            /* N: an unmanaged live object (argument for T* / const T& overloads) */
static long *cA, *cB;
static long extA, extB;
static struct CloneOnWritePtr h[NH];
static bool alive[NH];            /* constructed and not yet destroyed */
static bool releasedA, releasedB; /* ownership handed to the caller by release() */
static bool managedA, managedB;

static void havoc_ghosts(void) { ghost_nclone = ghost_ndelete = ghost_nnewcount = ghost_ndelcount = 0; }
static Obj* mk_obj(void) { Obj* o = (Obj*)malloc(sizeof(Obj)); o->val = nondet_int(); o->life = LIVE; return o; }

static void mk_cow_world(int nalive) {
  havoc_ghosts();
  A = mk_obj(); B = mk_obj(); N = mk_obj();
  cA = (long*)malloc(sizeof(long)); cB = (long*)malloc(sizeof(long));
  extA = nondet_long(); extB = nondet_long();
  __CPROVER_assume(0 <= extA && extA <= 1000000000L && 0 <= extB && extB <= 1000000000L);
  long nA = 0, nB = 0;
  for (int i = 0; i < NH; i++) {
    alive[i] = i < nalive;
    int st = nondet_int();
    if (!alive[i]) { h[i].p = (Obj*)0; h[i].count = (long*)0; /* raw memory before construction: contents irrelevant, overwritten by the constructor */
                     if (nondet_bool()) { h[i].p = N; h[i].count = cB; } continue; }
    if (st == 1) { h[i].p = A; h[i].count = cA; nA++; }
    else if (st == 2) { h[i].p = B; h[i].count = cB; nB++; }
    else { h[i].p = 0; h[i].count = 0; }
  }
  *cA = nA + extA; *cB = nB + extB;
  managedA = *cA > 0; managedB = *cB > 0;
  releasedA = releasedB = false;
}
static long ext_of(const Obj* p) { return p == A ? extA : p == B ? extB : 0; }
static long holders(const Obj* p) { long n = 0; for (int j = 0; j < NH; j++) if (alive[j] && h[j].p == p) n++; return n; }

static void check_cow_world(void) {
  for (int i = 0; i < NH; i++) if (alive[i]) {
    __CPROVER_assert((h[i].p == 0) == (h[i].count == 0), "COW_WF: count is null iff p is null");
    if (h[i].p) {
      __CPROVER_assert(h[i].p->life == LIVE, "COW_WF: a held object is live (not deleted while a handle refers to it)");
      __CPROVER_assert(*h[i].count != COUNT_DELETED, "COW_WF: the counter of a held object is not deleted");
      __CPROVER_assert(*h[i].count == holders(h[i].p) + ext_of(h[i].p), "COW_WF: use count == number of live handles on the object");
      __CPROVER_assert((h[i].p == A) == (h[i].count == cA) && (h[i].p == B) == (h[i].count == cB), "COW_WF: same object <=> same counter");
      for (int j = 0; j < NH; j++) if (alive[j] && j != i)
        __CPROVER_assert((h[j].p == h[i].p) == (h[j].count == h[i].count), "COW_WF: same object <=> same counter (between handles)");
    }
  }
  if (managedA && !releasedA) {
    __CPROVER_assert((A->life == LIVE) == (holders(A) + extA > 0), "object deleted exactly when its last handle is gone (A)");
    __CPROVER_assert((*cA != COUNT_DELETED) == (holders(A) + extA > 0), "counter deleted exactly when its last handle is gone (A)");
  }
  if (managedB && !releasedB) {
    __CPROVER_assert((B->life == LIVE) == (holders(B) + extB > 0), "object deleted exactly when its last handle is gone (B)");
    __CPROVER_assert((*cB != COUNT_DELETED) == (holders(B) + extB > 0), "counter deleted exactly when its last handle is gone (B)");
  }
  if (holders(N) == 0) __CPROVER_assert(N->life == LIVE, "an object never given to a handle is not touched");
}

/* ---------------- CloneOnWritePtr ---------------- */
void h_cow_copy_ctor(void) {
  mk_cow_world(2);
  struct CloneOnWritePtr s0 = h[0];
  CloneOnWritePtr_init_copy(&h[2], &h[0]); alive[2] = true;
  __CPROVER_assert(h[2].p == s0.p && h[2].count == s0.count && h[0].p == s0.p && h[0].count == s0.count, "copy constructor shares the source's object (or is empty), source unchanged");
  __CPROVER_assert(ghost_nclone == 0 && ghost_ndelete == 0, "copy constructor: no clone yet (deferred), nothing deleted");
  check_cow_world();
}
void h_cow_assign_copy(void) {
  mk_cow_world(2);
  struct CloneOnWritePtr s0 = h[0];
  struct CloneOnWritePtr* r = CloneOnWritePtr_assign_copy(&h[1], &h[0]);
  __CPROVER_assert(r == &h[1] && h[1].p == s0.p && h[1].count == s0.count && h[0].p == s0.p && h[0].count == s0.count, "copy assignment: destination shares the source's object, source unchanged");
  __CPROVER_assert(ghost_nclone == 0, "copy assignment: no clone (deferred)");
  check_cow_world();
}
void h_cow_assign_self(void) {
  mk_cow_world(2);
  struct CloneOnWritePtr s0 = h[0];
  CloneOnWritePtr_assign_copy(&h[0], &h[0]);
  __CPROVER_assert(h[0].p == s0.p && h[0].count == s0.count && ghost_nclone + ghost_ndelete + ghost_ndelcount + ghost_nnewcount == 0, "self copy-assignment changes nothing");
  check_cow_world();
  CloneOnWritePtr_assign_move(&h[0], &h[0]);
  __CPROVER_assert(h[0].p == s0.p && h[0].count == s0.count && ghost_nclone + ghost_ndelete + ghost_ndelcount + ghost_nnewcount == 0, "self move-assignment changes nothing");
  check_cow_world();
}
void h_cow_upd(void) {
  mk_cow_world(3);
  struct CloneOnWritePtr s0 = h[0], s1 = h[1], s2 = h[2];
  long uc0 = CloneOnWritePtr_use_count(&h[0]);
  __CPROVER_assert(uc0 == (s0.p ? *s0.count : 0), "use_count() is the shared counter, 0 for an empty handle");
  int v0 = s0.p ? s0.p->val : 0, v1 = s1.p ? s1.p->val : 0, v2 = s2.p ? s2.p->val : 0;
  Obj* x = CloneOnWritePtr_upd(&h[0]);
  __CPROVER_assert(x == h[0].p && (x == 0) == (s0.p == 0), "upd() returns the held object, null iff empty");
  __CPROVER_assert(h[1].p == s1.p && h[1].count == s1.count && h[2].p == s2.p && h[2].count == s2.count, "upd() leaves every other handle alone");
  __CPROVER_assert(ghost_nclone == (uc0 > 1 ? 1 : 0) && ghost_ndelete == 0, "upd() clones exactly when the object was shared");
  if (x) {
    __CPROVER_assert(x->life == LIVE && x->val == v0, "upd(): writable object has the same value");
    __CPROVER_assert(CloneOnWritePtr_use_count(&h[0]) == 1 && CloneOnWritePtr_unique(&h[0]), "after upd() the handle is the only owner of its object");
    __CPROVER_assert(x != h[1].p && x != h[2].p && (uc0 > 1 ? x != A && x != B : x == s0.p), "after upd() no other handle refers to the writable object (NOT SHARED after a write access)");
    x->val = nondet_int();                                                  /* the write */
    __CPROVER_assert((!s1.p || s1.p->val == v1) && (!s2.p || s2.p->val == v2), "a write through upd() is invisible through every other handle");
  }
  check_cow_world();
}
void h_cow_copy_then_write(void) {          /* the property statement: copies share only until the first write, on either side */
  mk_cow_world(2);
  __CPROVER_assume(h[0].p != 0);
  int v = h[0].p->val;
  CloneOnWritePtr_init_copy(&h[2], &h[0]); alive[2] = true;
  __CPROVER_assert(CloneOnWritePtr_get(&h[2]) == CloneOnWritePtr_get(&h[0]) && ghost_nclone == 0, "copy shares until the first write");
  bool w = nondet_bool();
  struct CloneOnWritePtr* wr = w ? &h[2] : &h[0]; struct CloneOnWritePtr* ro = w ? &h[0] : &h[2];
  Obj* x = CloneOnWritePtr_upd(wr);
  __CPROVER_assert(x != CloneOnWritePtr_get(ro) && x->val == v && CloneOnWritePtr_get(ro)->val == v, "after the first upd() on either handle: distinct objects, equal values");
  x->val = nondet_int();
  __CPROVER_assert(CloneOnWritePtr_get(ro)->val == v, "observational independence: the other copy keeps its value");
  __CPROVER_assert(CloneOnWritePtr_use_count(wr) == 1, "writer is unique");
  check_cow_world();
}
void h_cow_reset(void) {
  mk_cow_world(3);
  CloneOnWritePtr_reset(&h[0]);
  __CPROVER_assert(h[0].p == 0 && h[0].count == 0 && ghost_nclone == 0, "reset(): handle empty");
  check_cow_world();
  CloneOnWritePtr_destroy(&h[1]); alive[1] = false;
  check_cow_world();
  CloneOnWritePtr_destroy(&h[2]); alive[2] = false;
  check_cow_world();
  __CPROVER_assert(ghost_ndelete == ghost_ndelcount && ghost_ndelete == (managedA && extA == 0 ? 1u : 0u) + (managedB && extB == 0 ? 1u : 0u), "after all seen handles are gone: each object without unseen holders deleted exactly once");
}
void h_cow_reset_ptr(void) {
  mk_cow_world(3);
  Obj* x = nondet_bool() ? N : nondet_bool() ? (Obj*)0 : h[0].p;
  struct CloneOnWritePtr s0 = h[0];
  CloneOnWritePtr_reset_ptr(&h[0], x);
  __CPROVER_assert(h[0].p == x, "reset(x): handle manages x");
  if (x == s0.p) __CPROVER_assert(h[0].count == s0.count && ghost_ndelete + ghost_nnewcount + ghost_ndelcount == 0, "reset(x) with the pointer already managed does nothing");
  if (x == N) __CPROVER_assert(*h[0].count == 1, "reset(x): use count 1 for a newly adopted object");
  check_cow_world();
}
void h_cow_release(void) {
  mk_cow_world(3);
  struct CloneOnWritePtr s0 = h[0]; int v0 = s0.p ? s0.p->val : 0; long uc0 = CloneOnWritePtr_use_count(&h[0]);
  Obj* r = CloneOnWritePtr_release(&h[0]);
  __CPROVER_assert(h[0].p == 0 && h[0].count == 0 && (r == 0) == (s0.p == 0), "release(): handle empty, returns the object (null iff it was empty)");
  if (r) {
    __CPROVER_assert(r->life == LIVE && r->val == v0 && holders(r) == 0 && (uc0 > 1 ? r != A && r != B : r == s0.p), "release(): caller gets an unshared live object with the same value");
    if (r == A) releasedA = true; if (r == B) releasedB = true;
    if (uc0 == 1) __CPROVER_assert(*s0.count == COUNT_DELETED, "release() of a unique object deletes its counter");
  }
  __CPROVER_assert(ghost_ndelete == 0 && ghost_ndelcount == (s0.p ? 1u : 0u) && ghost_nnewcount == (uc0 > 1 ? 1u : 0u) && ghost_nclone == (uc0 > 1 ? 1u : 0u),
                   "release(): no object destroyed; the handle's own counter (the old one if unique, the detached one if shared) is deleted: no counter leaked");
  check_cow_world();
}
void h_cow_move(void) {
  mk_cow_world(2);
  struct CloneOnWritePtr s0 = h[0];
  CloneOnWritePtr_init_move(&h[2], &h[0]); alive[2] = true;
  __CPROVER_assert(h[2].p == s0.p && h[2].count == s0.count && h[0].p == 0 && h[0].count == 0, "move constructor: ownership transferred, source empty");
  __CPROVER_assert(ghost_nclone + ghost_ndelete + ghost_ndelcount + ghost_nnewcount == 0, "move constructor: no heap activity");
  check_cow_world();
  struct CloneOnWritePtr s2 = h[2];
  CloneOnWritePtr_assign_move(&h[1], &h[2]);
  __CPROVER_assert(h[1].p == s2.p && h[1].count == s2.count && h[2].p == 0 && h[2].count == 0 && ghost_nclone == 0, "move assignment: ownership transferred, source empty");
  check_cow_world();
}
void h_cow_from_object(void) {
  mk_cow_world(2);
  int vN = N->val;
  if (nondet_bool()) {
    CloneOnWritePtr_init_ptr(&h[2], nondet_bool() ? N : (Obj*)0); alive[2] = true;
    __CPROVER_assert(ghost_nclone == 0 && (h[2].p == 0 || (h[2].p == N && *h[2].count == 1)), "CloneOnWritePtr(T*) takes ownership, use count 1, no clone");
  } else if (nondet_bool()) {
    CloneOnWritePtr_init_cloneptr(&h[2], N); alive[2] = true;
    __CPROVER_assert(ghost_nclone == 1 && h[2].p != N && h[2].p->val == vN && *h[2].count == 1 && N->life == LIVE, "CloneOnWritePtr(const T*) holds a clone, original untouched");
  } else {
    CloneOnWritePtr_assign_cloneref(&h[1], N);
    __CPROVER_assert(ghost_nclone == 1 && h[1].p != N && h[1].p->val == vN && *h[1].count == 1 && N->life == LIVE, "operator=(const T&) holds a clone, original untouched");
  }
  check_cow_world();
}
void h_cow_swap(void) {
  mk_cow_world(3);
  struct CloneOnWritePtr s0 = h[0], s1 = h[1];
  CloneOnWritePtr_swap(&h[0], &h[1]);
  __CPROVER_assert(h[0].p == s1.p && h[0].count == s1.count && h[1].p == s0.p && h[1].count == s0.count && ghost_nclone + ghost_ndelete + ghost_ndelcount + ghost_nnewcount == 0, "swap exchanges the two handles, no heap activity");
  check_cow_world();
}

/* ---------------- ClonePtr ---------------- */
static struct ClonePtr c[NH];
static bool calive[NH];
static void mk_clone_world(int nalive) {
  havoc_ghosts();
  A = mk_obj(); B = mk_obj(); N = mk_obj();
  for (int i = 0; i < NH; i++) { calive[i] = i < nalive; c[i].p = nondet_bool() ? N : (Obj*)0; }   /* raw memory / empty */
  c[0].p = nondet_bool() ? A : (Obj*)0;
  if (nalive > 1) c[1].p = nondet_bool() ? B : (Obj*)0;
  managedA = c[0].p == A; managedB = nalive > 1 && c[1].p == B; releasedA = releasedB = false;
}
static long cholders(const Obj* p) { long n = 0; for (int j = 0; j < NH; j++) if (calive[j] && c[j].p == p) n++; return n; }
static void check_clone_world(void) {
  for (int i = 0; i < NH; i++) if (calive[i] && c[i].p) {
    __CPROVER_assert(c[i].p->life == LIVE, "ClonePtr_WF: held object is live");
    __CPROVER_assert(cholders(c[i].p) == 1, "ClonePtr_WF: exclusive ownership (no two handles hold the same object)");
  }
  if (managedA && !releasedA) __CPROVER_assert((A->life == LIVE) == (cholders(A) == 1), "ClonePtr: object deleted exactly when its owner let go (A)");
  if (managedB && !releasedB) __CPROVER_assert((B->life == LIVE) == (cholders(B) == 1), "ClonePtr: object deleted exactly when its owner let go (B)");
  if (cholders(N) == 0) __CPROVER_assert(N->life == LIVE, "an object never given to a handle is not touched");
}
void h_clone_copy_ctor(void) {
  mk_clone_world(2);
  int vA = A->val;
  ClonePtr_init_copy(&c[2], &c[0]); calive[2] = true;
  __CPROVER_assert((c[2].p == 0) == (c[0].p == 0) && ghost_nclone == (c[0].p ? 1u : 0u) && ghost_ndelete == 0, "copy constructor clones iff the source is non-empty");
  if (c[0].p) {
    __CPROVER_assert(c[0].p == A && c[2].p != A && c[2].p != B && c[2].p != N && c[2].p->val == vA, "copy: DISTINCT object with EQUAL value, immediately");
    Obj* x = ClonePtr_upd(&c[2]); x->val = nondet_int();
    __CPROVER_assert(x == c[2].p && ClonePtr_get(&c[0])->val == vA, "observational independence: writing to the copy leaves the original alone");
    ClonePtr_upd(&c[0])->val = nondet_int();
  }
  check_clone_world();
}
void h_clone_assign_copy(void) {
  mk_clone_world(2);
  int vA = A->val; struct ClonePtr s1 = c[1];
  struct ClonePtr* r = ClonePtr_assign_copy(&c[1], &c[0]);
  __CPROVER_assert(r == &c[1] && (c[1].p == 0) == (c[0].p == 0), "copy assignment: empty iff source empty");
  __CPROVER_assert(ghost_nclone == (c[0].p ? 1u : 0u) && ghost_ndelete == (s1.p ? 1u : 0u), "copy assignment: one clone of the source object, previous object deleted exactly once");
  if (c[0].p) __CPROVER_assert(c[1].p != A && c[1].p != B && c[1].p->val == vA && A->val == vA, "copy assignment: distinct object, equal value");
  check_clone_world();
  struct ClonePtr s0 = c[0];
  ClonePtr_assign_copy(&c[0], &c[0]);
  __CPROVER_assert(c[0].p == s0.p && ghost_nclone == (s0.p ? 1u : 0u), "self copy-assignment changes nothing");
  check_clone_world();
}
void h_clone_move(void) {
  mk_clone_world(2);
  struct ClonePtr s0 = c[0], s1 = c[1];
  ClonePtr_init_move(&c[2], &c[0]); calive[2] = true;
  __CPROVER_assert(c[2].p == s0.p && c[0].p == 0 && ghost_nclone + ghost_ndelete == 0, "move constructor: ownership transferred, source empty, no heap activity");
  check_clone_world();
  ClonePtr_assign_move(&c[1], &c[2]);
  __CPROVER_assert(c[1].p == s0.p && c[2].p == 0 && ghost_nclone == 0 && ghost_ndelete == (s1.p ? 1u : 0u), "move assignment: previous object deleted once, ownership transferred");
  check_clone_world();
  struct ClonePtr s = c[1];
  ClonePtr_assign_move(&c[1], &c[1]);
  __CPROVER_assert(c[1].p == s.p, "self move-assignment changes nothing");
  check_clone_world();
}
void h_clone_reset_release(void) {
  mk_clone_world(2);
  struct ClonePtr s0 = c[0], s1 = c[1];
  Obj* r = ClonePtr_release(&c[0]);
  __CPROVER_assert(r == s0.p && c[0].p == 0 && ghost_ndelete == 0 && (!r || r->life == LIVE), "release(): ownership to the caller, nothing deleted");
  if (r == A) releasedA = true;
  check_clone_world();
  Obj* x = nondet_bool() ? N : nondet_bool() ? (Obj*)0 : c[1].p;
  ClonePtr_reset_ptr(&c[1], x);
  __CPROVER_assert(c[1].p == x && ghost_ndelete == (s1.p && x != s1.p ? 1u : 0u), "reset(x): previous object deleted once unless x is already managed");
  check_clone_world();
  unsigned d0 = ghost_ndelete; Obj* held = c[1].p;
  ClonePtr_destroy(&c[1]); calive[1] = false;
  __CPROVER_assert(ghost_ndelete == d0 + (held ? 1u : 0u) && (!held || held->life == DELETED), "destructor deletes the held object exactly once");
  if (held == N) N = mk_obj();
  check_clone_world();
}
void h_clone_from_object(void) {
  mk_clone_world(2);
  int vN = N->val;
  if (nondet_bool()) {
    ClonePtr_init_cloneref(&c[2], N); calive[2] = true;
    __CPROVER_assert(ghost_nclone == 1 && c[2].p != N && c[2].p != A && c[2].p != B && c[2].p->val == vN && N->life == LIVE, "ClonePtr(const T&) holds a clone, original untouched");
  } else if (nondet_bool()) {
    ClonePtr_init_ptr(&c[2], N); calive[2] = true;
    __CPROVER_assert(ghost_nclone == 0 && c[2].p == N, "ClonePtr(T*) takes ownership, no clone");
  } else {
    struct ClonePtr s1 = c[1];
    ClonePtr_assign_cloneref(&c[1], N);
    __CPROVER_assert(ghost_nclone == 1 && ghost_ndelete == (s1.p ? 1u : 0u) && c[1].p != N && c[1].p->val == vN && N->life == LIVE, "operator=(const T&): clone held, previous object deleted once");
  }
  check_clone_world();
  ClonePtr_swap(&c[0], &c[1]);
  check_clone_world();
}

/* ---------------- ReferencePtr ---------------- */
void h_ref(void) {
  havoc_ghosts();
  A = mk_obj(); B = mk_obj();
  struct ReferencePtr r0, r1, r2;
  r0.p = nondet_bool() ? A : (Obj*)0; r1.p = nondet_bool() ? B : nondet_bool() ? A : (Obj*)0; r2.p = B;   /* r2: raw memory before construction */
  struct ReferencePtr s0 = r0;
  ReferencePtr_init_copy(&r2, &r0);
  __CPROVER_assert(r2.p == 0 && ReferencePtr_empty(&r2) && r0.p == s0.p, "ReferencePtr copy constructor: the copy is EMPTY (reference not carried through a copy), source unchanged");
  struct ReferencePtr* r = ReferencePtr_assign_copy(&r1, &r0);
  __CPROVER_assert(r == &r1 && r1.p == 0 && r0.p == s0.p, "ReferencePtr copy assignment: destination is reset to empty, source unchanged");
  ReferencePtr_assign_copy(&r0, &r0);
  __CPROVER_assert(r0.p == s0.p, "ReferencePtr self-assignment keeps the reference");
  ReferencePtr_init_move(&r2, &r0);
  __CPROVER_assert(r2.p == s0.p && r0.p == 0, "ReferencePtr move constructor: reference transferred, source empty");
  ReferencePtr_assign_move(&r1, &r2);
  __CPROVER_assert(r1.p == s0.p && r2.p == 0 && ReferencePtr_get(&r1) == s0.p, "ReferencePtr move assignment: reference transferred, source empty");
  ReferencePtr_assign_move(&r1, &r1);
  __CPROVER_assert(r1.p == s0.p, "ReferencePtr self move-assignment keeps the reference");
  ReferencePtr_reset_ptr(&r0, B);
  ReferencePtr_swap(&r0, &r1);
  __CPROVER_assert(r0.p == s0.p && r1.p == B, "ReferencePtr reset/swap");
  Obj* q = ReferencePtr_release(&r1);
  __CPROVER_assert(q == B && r1.p == 0, "ReferencePtr release");
  ReferencePtr_destroy(&r0); ReferencePtr_destroy(&r1); ReferencePtr_destroy(&r2);
  __CPROVER_assert(ghost_nclone + ghost_ndelete + ghost_nnewcount + ghost_ndelcount == 0 && A->life == LIVE && B->life == LIVE, "ReferencePtr never owns: no clone, no delete, referenced objects untouched");
}

/* ---------------- vacuity guard ---------------- */
void h_ptr_cover(void) {
  mk_cow_world(3);
  if (h[0].p == A && h[1].p == A && h[2].p == B && extA == 0 && extB == 5) __CPROVER_cover(1);   /* shared by two seen handles */
  if (h[0].p == A && h[1].p == 0 && h[2].p == 0 && extA == 0) __CPROVER_cover(1);               /* unique */
  if (h[0].p == 0) __CPROVER_cover(1);                                                           /* empty */
  if (h[0].p == B && extB == 1000000000L) __CPROVER_cover(1);                                    /* many unseen sharers */
}
