/* C26 - ClonePtr / CloneOnWritePtr / ReferencePtr: model of T and of the heap primitives they use.
   T := Obj (payload + ghost life cell). T::clone(), `delete p`, `new long(1)`, `delete count` are contracted stubs; everything else is cut
   from ClonePtr.h / CloneOnWritePtr.h / ReferencePtr.h each run (route M2, constructor mem-initialiser lists turned into statements). */
#include <limits.h>
#include <stdbool.h>
#include <stdlib.h>
enum { NOTOBJ = 0, LIVE = 1, DELETED = 2 };
typedef struct Obj { int val; int life; } Obj;
struct ClonePtr { Obj* p; };
struct CloneOnWritePtr { Obj* p; long* count; };
struct ReferencePtr { Obj* p; };
#define COUNT_DELETED LONG_MIN
int nondet_int(void); long nondet_long(void); bool nondet_bool(void);
unsigned ghost_nclone, ghost_ndelete, ghost_nnewcount, ghost_ndelcount;
#define VF_SWAP(a, b) do { void* t_ = (void*)(a); (a) = (b); (b) = t_; } while (0)        /* std::swap on two pointers of the same type */
#define VERIF_ASSERT(c, what) __CPROVER_assert(c, "assert(): " what)

static Obj* Obj_clone(const Obj* src) {        /* T::clone(): a NEW heap object, equal value */
  __CPROVER_assert(src != 0 && src->life == LIVE, "clone(): source is a live object");
  Obj* q = (Obj*)malloc(sizeof(Obj));
  q->val = src->val; q->life = LIVE; ghost_nclone++;
  return q;
}
static void Obj_delete(Obj* p) {               /* delete p */
  if (p == 0) return;
  __CPROVER_assert(p->life == LIVE, "delete p: object is live (never deleted twice, never a stale pointer)");
  p->life = DELETED; ghost_ndelete++;
}
static long* new_long(long v) { long* c = (long*)malloc(sizeof(long)); *c = v; ghost_nnewcount++; return c; }
static void delete_long(long* c) {
  if (c == 0) return;
  __CPROVER_assert(*c != COUNT_DELETED, "delete count: counter not deleted twice");
  *c = COUNT_DELETED; ghost_ndelcount++;
}
