/* C26 - Array_<T,X> element-moving operations: model of T, of the allocator and of the index traits.
   T := Elem  (payload `val` + ghost life-cycle cell `life` per slot: RAW storage / LIVE object)
   X := unsigned (size_type = packed_size_type = unsigned); ArrayIndexTraits<X>::max_size() := ghost_max_size, an arbitrary but fixed
   value in [1, INT_MAX] (INT_MAX is the real ArrayIndexTraits<unsigned> value; smaller values stand for narrower index types and make
   the "would exceed max_size" exception paths reachable with small arrays).
   Everything from "static size_type size(" on is cut from Array.h each run (route M2); this file only has what the cut code calls
   at its lower boundary:
     - T's special member functions (placement-new expressions / explicit destructor calls in Array.h are rewritten to these stubs);
       their pre/postconditions are the life-cycle protocol: construct only into RAW storage, destroy / read only LIVE objects. Along
       every path of every method that is exactly "each element constructed exactly once and destroyed exactly once".
     - allocN / freeN (operator new[] / delete[] on raw bytes): fresh all-RAW storage / storage handed back must be all-RAW (no leak of
       live objects), each block freed exactly once.
   Ghost counters count constructions / destructions / allocations so the documented complexity ("one move constructor and destructor
   call per moved element") is a postcondition too. */
#include <limits.h>
#include <stdbool.h>
#include <stddef.h>
#include <stdlib.h>
typedef unsigned size_type;
typedef unsigned packed_size_type;
enum { RAW = 0, LIVE = 1, FREED = 2 };   /* FREED: slot of a block handed back to freeN (any later use fails T's RAW/LIVE precondition) */
typedef struct Elem { int val; int life; } Elem;
struct Arr { Elem* pData; packed_size_type nUsed; packed_size_type nAllocated; };

int nondet_int(void);
unsigned nondet_unsigned(void);

/* ---- ghosts (file scope => zero-initialised: every harness havocs them through havoc_ghosts()) ---- */
int ghost_threw;                 /* exception plumbing: SimTK_ERRCHK*_ALWAYS -> flag + return */
size_type ghost_max_size;        /* ArrayIndexTraits<X>::max_size() */
unsigned ghost_ncopy, ghost_nmove, ghost_ndefault, ghost_ndtor;   /* T(const T&), T(T&&), T(), ~T() calls */
unsigned ghost_nalloc, ghost_nfree;                               /* non-null allocN results, non-null freeN arguments */

static size_type max_size_(void) { return ghost_max_size; }
static size_type vf_max(size_type a, size_type b) { return (a < b) ? b : a; }   /* std::max */
static size_type vf_min(size_type a, size_type b) { return (b < a) ? b : a; }   /* std::min */
#define ull(x) ((unsigned long long)(x))
#define VERIF_ERRCHK(c, what) __CPROVER_assert(c, "SimTK_ERRCHK (Debug-build argument check, must hold for every call): " what)
#define VERIF_ASSERT(c, what) __CPROVER_assert(c, "assert(): " what)

/* ---- T's special members (contracted stubs with executable contract bodies: assert requires, effect, havoc of what is unspecified) ---- */
#define SLOT_OK(p) __CPROVER_assert((p) != 0 && __CPROVER_POINTER_OFFSET(p) >= 0 && __CPROVER_POINTER_OFFSET(p) % sizeof(Elem) == 0 && \
                                    (unsigned long)__CPROVER_POINTER_OFFSET(p) + sizeof(Elem) <= __CPROVER_OBJECT_SIZE(p), \
                                    "T's special member: pointer addresses a slot inside its block (no null / out-of-bounds access; freed blocks are caught by the FREED life-cycle state)")
static void Elem_default_construct(Elem* p) {
  SLOT_OK(p);
  __CPROVER_assert(p->life == RAW, "T(): target slot is raw storage (no element constructed twice)");
  p->val = 0; p->life = LIVE; ghost_ndefault++;
}
static void Elem_copy_construct(Elem* p, const Elem* v) {
  SLOT_OK(p); SLOT_OK(v);
  __CPROVER_assert(p->life == RAW, "T(const T&): target slot is raw storage (no element constructed twice)");
  __CPROVER_assert(v->life == LIVE, "T(const T&): source is a live object");
  p->val = v->val; p->life = LIVE; ghost_ncopy++;
}
static void Elem_move_construct(Elem* p, Elem* v) {
  SLOT_OK(p); SLOT_OK(v);
  __CPROVER_assert(p->life == RAW, "T(T&&): target slot is raw storage (no element constructed twice)");
  __CPROVER_assert(v->life == LIVE, "T(T&&): source is a live object");
  p->val = v->val; p->life = LIVE; ghost_nmove++;
  v->val = nondet_int();          /* moved-from object: still live (must be destroyed), value unspecified */
}
static void Elem_destruct(Elem* p) {
  SLOT_OK(p);
  __CPROVER_assert(p->life == LIVE, "~T(): object is live (no element destroyed twice, no raw slot destroyed)");
  p->life = RAW; p->val = nondet_int(); ghost_ndtor++;
}

/* ---- allocator ---- */
static Elem* allocN(size_type n) {
  if (n == 0) return 0;
  Elem* p = (Elem*)calloc(n, sizeof(Elem));      /* n slots, all RAW (== 0); std::bad_alloc not modelled (cbmc --no-malloc-may-fail) */
  ghost_nalloc++;
  return p;
}
static void freeN(Elem* p) {
  if (p == 0) return;
  __CPROVER_assert(__CPROVER_POINTER_OFFSET(p) == 0, "freeN: pointer is the start of an allocN block");
  for (size_type k = 0; k < __CPROVER_OBJECT_SIZE(p) / sizeof(Elem); k++) {
    __CPROVER_assert(p[k].life != FREED, "freeN: block not freed twice");
    __CPROVER_assert(p[k].life != LIVE, "freeN: every slot of the freed block is raw (no live element leaked/lost)");
    p[k].life = FREED;      /* instead of free(): CBMC's deallocation tracking makes symbolic execution quadratic in the number of frees */
  }
  ghost_nfree++;
}
