/* C26 - bounded stand-ins for the Array_ mutators (included after the cut functions).
   BOUND (stated in every obligation of these units): capacity <= CAPMAX (6), inserted count n <= NMAX (3), resize/reserve target <= 9;
   every size <= capacity, every position, every element value, every max_size in [1, INT_MAX]. Loops of the real code are unwound with
   unwinding assertions. Each harness: arbitrary well-formed owner array -> one call of the REAL method -> representation invariant WF,
   std::vector postcondition over the WHOLE abstract sequence, life-cycle (T's stubs + freeN assert it on the way), exact
   constructor/destructor/allocation counts. */
#ifndef CAPMAX
#define CAPMAX 6
#endif
#ifndef NMAX
#define NMAX 3
#endif
#define BIG 12          /* >= largest capacity reachable: max(cap+n, 2*cap, 4, resize target 9) */
#define OLDN (2 * BIG)   /* snapshot buffers: large enough for every index expression below */

static size_type g_maxsize;
static void havoc_ghosts(void) {
  ghost_threw = 0;                                  /* precondition: no exception in flight */
  ghost_max_size = g_maxsize;                       /* chosen by the driver (concrete: keeps every size and pointer concrete) */
  ghost_ncopy = ghost_nmove = ghost_ndefault = ghost_ndtor = ghost_nalloc = ghost_nfree = 0;
}

/* arbitrary well-formed owner array within the bound; old[] := its abstract sequence */
static bool mk_array(struct Arr* a, int old[OLDN], size_type cap, size_type sz) {
  if (!(cap <= CAPMAX && sz <= cap && cap <= ghost_max_size)) return false;       /* WF precondition: size <= capacity <= max_size */
  a->pData = cap ? (Elem*)calloc(cap, sizeof(Elem)) : 0;
  for (size_type k = 0; k < sz; k++) { a->pData[k].life = LIVE; a->pData[k].val = nondet_int(); old[k] = a->pData[k].val; }
  a->nUsed = sz; a->nAllocated = cap;
  return true;
}

#define CHECK_WF(a) do { \
  __CPROVER_assert((a)->nUsed <= (a)->nAllocated && (a)->nAllocated <= ghost_max_size, "WF: size <= capacity <= max_size"); \
  __CPROVER_assert(((a)->pData == 0) == ((a)->nAllocated == 0), "WF: data == 0 iff capacity == 0"); \
  if ((a)->pData) { \
    __CPROVER_assert(__CPROVER_POINTER_OFFSET((a)->pData) == 0 && __CPROVER_OBJECT_SIZE((a)->pData) == (a)->nAllocated * sizeof(Elem), \
                     "WF: data is one allocN block of exactly capacity slots"); \
    for (size_type k_ = 0; k_ < (a)->nAllocated; k_++) \
      __CPROVER_assert((a)->pData[k_].life == (k_ < (a)->nUsed ? LIVE : RAW), "WF: slots [0,size) live, [size,capacity) raw"); \
  } } while (0)

/* whole abstract sequence equals expect[0..m) */
#define CHECK_SEQ(a, expect, m, what) do { \
  __CPROVER_assert((a)->nUsed == (m), what ": size"); \
  for (size_type k_ = 0; k_ < (m) && k_ < (a)->nUsed; k_++) \
    __CPROVER_assert((a)->pData[k_].val == (expect)[k_], what ": every element value (whole sequence, order preserved)"); \
  } while (0)

/* nothing changed (strong exception guarantee / no-op) */
#define CHECK_UNCHANGED(a, old, sz0, cap0, data0, what) do { \
  __CPROVER_assert((a)->pData == (data0) && (a)->nAllocated == (cap0), what ": storage and capacity unchanged"); \
  CHECK_SEQ(a, old, sz0, what); CHECK_WF(a); \
  __CPROVER_assert(ghost_ncopy + ghost_nmove + ghost_ndefault + ghost_ndtor + ghost_nalloc + ghost_nfree == 0, what ": no constructor/destructor/allocator call"); \
  } while (0)

/* exactly one block is owned afterwards iff data != 0; everything else that was allocated has been freed exactly once */
#define CHECK_BLOCKS(a, cap0) \
  __CPROVER_assert(((cap0) ? 1u : 0u) + ghost_nalloc - ghost_nfree == ((a)->pData ? 1u : 0u), "no storage block leaked or freed twice")
#define CHECK_COUNTS(ncopy, nmove, ndefault, ndtor, what) \
  __CPROVER_assert(ghost_ncopy == (ncopy) && ghost_nmove == (nmove) && ghost_ndefault == (ndefault) && ghost_ndtor == (ndtor), \
                   what ": exact numbers of copy/move/default constructions and destructions (documented complexity)")

/* ------------------------------------------------------------------ insert ------------------------------------------------------------------ */
static void insert_post(struct Arr* a, int* old, size_type sz0, size_type cap0, Elem* data0, size_type k, size_type n, const Elem* v, int vval, Elem* r) {
  /* must throw when the result cannot be indexed; may throw only under the documented growth policy (capacity+n > max_size when growing) */
  if (ull(sz0) + ull(n) > ull(ghost_max_size)) __CPROVER_assert(ghost_threw, "insert: size+n > max_size throws");
  if (ull(sz0) + ull(n) <= ull(cap0)) __CPROVER_assert(!ghost_threw, "insert: never throws when the elements fit in the current capacity");
  if (ghost_threw) {
    __CPROVER_assert(n > 0 && ull(cap0) + ull(n) > ull(ghost_max_size), "insert: throws only if capacity+n > max_size (growth policy)");
    ghost_threw = 0;
    CHECK_UNCHANGED(a, old, sz0, cap0, data0, "insert that throws leaves the array unchanged");
    return;
  }
  int expect[BIG];
  for (size_type i = 0; i < sz0 + n; i++) expect[i] = i < k ? old[i] : i < k + n ? vval : old[i - n];
  CHECK_WF(a);
  CHECK_SEQ(a, expect, sz0 + n, "insert(p,n,v): seq' == seq[0..k) ++ [v]^n ++ seq[k..)");
  __CPROVER_assert(r == a->pData + k, "insert returns a pointer to the first inserted element");
  __CPROVER_assert(v->val == vval && v->life == LIVE, "insert leaves the source value alone");
  bool realloc_ = sz0 + n > cap0;
  if (!realloc_) __CPROVER_assert(a->pData == data0 && a->nAllocated == cap0, "insert within capacity does not reallocate");
  else __CPROVER_assert(a->nAllocated >= sz0 + n && (cap0 <= ghost_max_size / 2 ? a->nAllocated >= 2 * cap0 : a->nAllocated == ghost_max_size),
                        "insert that grows: new capacity holds the result and at least doubles (or saturates at max_size)");
  size_type moved = n == 0 ? 0 : realloc_ ? sz0 : sz0 - k;
  CHECK_COUNTS(n, moved, 0, moved, "insert");
  CHECK_BLOCKS(a, cap0);
}
static void t_insert_n(size_type cap_, size_type sz_, size_type p1, size_type p2) {
  struct Arr a; int old[OLDN]; havoc_ghosts(); if (!mk_array(&a, old, cap_, sz_)) return;
  size_type sz0 = a.nUsed, cap0 = a.nAllocated; Elem* data0 = a.pData;
  size_type k = p1, n = p2; if (!(k <= sz0 && n <= NMAX)) return;
  Elem v; v.val = nondet_int(); v.life = LIVE; int vval = v.val;
  Elem* r = insert_n(&a, a.pData + k, n, &v);
  insert_post(&a, old, sz0, cap0, data0, k, n, &v, vval, r);
}
static void t_insert_one(size_type cap_, size_type sz_, size_type p1, size_type p2) {
  struct Arr a; int old[OLDN]; havoc_ghosts(); if (!mk_array(&a, old, cap_, sz_)) return;
  size_type sz0 = a.nUsed, cap0 = a.nAllocated; Elem* data0 = a.pData;
  size_type k = p1; if (!(k <= sz0)) return;
  Elem v; v.val = nondet_int(); v.life = LIVE; int vval = v.val;
  Elem* r = insert_one(&a, a.pData + k, &v);
  insert_post(&a, old, sz0, cap0, data0, k, 1, &v, vval, r);
}

/* gap makers used by insert (and growWithGap, which no method calls any more): size unchanged, gap raw, everything else moved in order */
static void gap_post(struct Arr* a, int* old, size_type sz0, size_type cap0, size_type k, size_type n, Elem* r, bool must_grow) {
  if (ghost_threw) { __CPROVER_assert(ull(cap0) + ull(n) > ull(ghost_max_size), "gap: throws only if capacity+n > max_size"); return; }
  __CPROVER_assert(a->nUsed == sz0 && a->nAllocated >= sz0 + n && a->nAllocated <= ghost_max_size, "gap: size unchanged, capacity holds size+n, <= max_size");
  if (must_grow) __CPROVER_assert(a->nAllocated >= cap0 + n, "growWithGap/growAtEnd: capacity grows by at least n");
  __CPROVER_assert(r == a->pData + k, "gap: returns the gap position");
  __CPROVER_assert(__CPROVER_POINTER_OFFSET(a->pData) == 0 && __CPROVER_OBJECT_SIZE(a->pData) == a->nAllocated * sizeof(Elem), "gap: data is one block of capacity slots");
  for (size_type i = 0; i < a->nAllocated; i++) {
    bool live = i < k || (i >= k + n && i < sz0 + n);
    __CPROVER_assert(a->pData[i].life == (live ? LIVE : RAW), "gap: [0,k) and [k+n,size+n) live, the gap and the tail raw");
    if (live) __CPROVER_assert(a->pData[i].val == old[i < k ? i : i - n], "gap: elements keep value and order");
  }
  CHECK_BLOCKS(a, cap0);
}
static void t_insertGapAt(size_type cap_, size_type sz_, size_type p1, size_type p2) {
  struct Arr a; int old[OLDN]; havoc_ghosts(); if (!mk_array(&a, old, cap_, sz_)) return;
  size_type sz0 = a.nUsed, cap0 = a.nAllocated;
  size_type k = p1, n = p2; if (!(k <= sz0 && 1 <= n && n <= NMAX)) return;
  Elem* r = insertGapAt(&a, a.pData + k, n);
  gap_post(&a, old, sz0, cap0, k, n, r, false);
}
static void t_growWithGap(size_type cap_, size_type sz_, size_type p1, size_type p2) {
  struct Arr a; int old[OLDN]; havoc_ghosts(); if (!mk_array(&a, old, cap_, sz_)) return;
  size_type sz0 = a.nUsed, cap0 = a.nAllocated;
  size_type k = p1, n = p2; if (!(k <= sz0 && 1 <= n && n <= NMAX)) return;
  Elem* r = growWithGap(&a, a.pData + k, n);
  gap_post(&a, old, sz0, cap0, k, n, r, true);
  if (!ghost_threw) CHECK_COUNTS(0, sz0, 0, sz0, "growWithGap");
}
static void t_growAtEnd(size_type cap_, size_type sz_, size_type p1, size_type p2) {
  struct Arr a; int old[OLDN]; havoc_ghosts(); if (!mk_array(&a, old, cap_, sz_)) return;
  size_type sz0 = a.nUsed, cap0 = a.nAllocated;
  size_type n = p1; if (!(1 <= n && n <= NMAX)) return;
  growAtEnd(&a, n);
  gap_post(&a, old, sz0, cap0, sz0, n, a.pData + sz0, true);
  if (!ghost_threw) { CHECK_WF(&a); CHECK_COUNTS(0, sz0, 0, sz0, "growAtEnd"); }
}

/* ------------------------------------------------------------------ erase ------------------------------------------------------------------- */
static void t_erase_range(size_type cap_, size_type sz_, size_type p1, size_type p2) {
  struct Arr a; int old[OLDN]; havoc_ghosts(); if (!mk_array(&a, old, cap_, sz_)) return;
  size_type sz0 = a.nUsed, cap0 = a.nAllocated; Elem* data0 = a.pData;
  size_type i = p1, j = p2; if (!(i <= j && j <= sz0)) return;
  Elem* r = erase_range(&a, a.pData + i, a.pData + j);
  int expect[BIG];
  for (size_type q = 0; q < sz0 - (j - i); q++) expect[q] = q < i ? old[q] : old[q + (j - i)];
  __CPROVER_assert(!ghost_threw, "erase never throws");
  CHECK_WF(&a);
  CHECK_SEQ(&a, expect, sz0 - (j - i), "erase(first,last): seq' == seq[0..i) ++ seq[j..)");
  __CPROVER_assert(a.pData == data0 && a.nAllocated == cap0 && r == data0 + i, "erase: no reallocation, capacity unchanged, returns first");
  size_type moved = j > i ? sz0 - j : 0;
  CHECK_COUNTS(0, moved, 0, (j - i) + moved, "erase(first,last): one destructor per erased element, one move+destructor per follower");
  CHECK_BLOCKS(&a, cap0);
}
static void t_erase_one(size_type cap_, size_type sz_, size_type p1, size_type p2) {
  struct Arr a; int old[OLDN]; havoc_ghosts(); if (!mk_array(&a, old, cap_, sz_)) return;
  size_type sz0 = a.nUsed, cap0 = a.nAllocated; Elem* data0 = a.pData;
  size_type i = p1; if (!(i < sz0)) return;
  Elem* r = erase_one(&a, a.pData + i);
  int expect[BIG];
  for (size_type q = 0; q < sz0 - 1; q++) expect[q] = q < i ? old[q] : old[q + 1];
  __CPROVER_assert(!ghost_threw, "erase never throws");
  CHECK_WF(&a);
  CHECK_SEQ(&a, expect, sz0 - 1, "erase(p): seq' == seq[0..i) ++ seq[i+1..)");
  __CPROVER_assert(a.pData == data0 && a.nAllocated == cap0 && r == data0 + i, "erase(p): no reallocation, capacity unchanged, returns p");
  CHECK_COUNTS(0, sz0 - 1 - i, 0, sz0 - i, "erase(p)");
  CHECK_BLOCKS(&a, cap0);
}
static void t_eraseFast(size_type cap_, size_type sz_, size_type p1, size_type p2) {
  struct Arr a; int old[OLDN]; havoc_ghosts(); if (!mk_array(&a, old, cap_, sz_)) return;
  size_type sz0 = a.nUsed, cap0 = a.nAllocated; Elem* data0 = a.pData;
  size_type i = p1; if (!(i < sz0)) return;
  Elem* r = eraseFast(&a, a.pData + i);
  int expect[BIG];
  for (size_type q = 0; q < sz0 - 1; q++) expect[q] = (q == i) ? old[sz0 - 1] : old[q];
  __CPROVER_assert(!ghost_threw, "eraseFast never throws");
  CHECK_WF(&a);
  CHECK_SEQ(&a, expect, sz0 - 1, "eraseFast(p): last element replaces the erased one, all others stay in place");
  __CPROVER_assert(a.pData == data0 && a.nAllocated == cap0 && r == data0 + i, "eraseFast: no reallocation, returns p");
  CHECK_COUNTS(0, i + 1 != sz0 ? 1 : 0, 0, i + 1 != sz0 ? 2 : 1, "eraseFast: constant number of constructor/destructor calls");
  CHECK_BLOCKS(&a, cap0);
}
static void t_pop_back(size_type cap_, size_type sz_, size_type p1, size_type p2) {
  struct Arr a; int old[OLDN]; havoc_ghosts(); if (!mk_array(&a, old, cap_, sz_)) return;
  size_type sz0 = a.nUsed, cap0 = a.nAllocated; Elem* data0 = a.pData;
  if (!(sz0 > 0)) return;
  pop_back(&a);
  CHECK_WF(&a);
  CHECK_SEQ(&a, old, sz0 - 1, "pop_back: seq' == seq[0..size-1)");
  __CPROVER_assert(a.pData == data0 && a.nAllocated == cap0 && !ghost_threw, "pop_back: storage and capacity unchanged");
  CHECK_COUNTS(0, 0, 0, 1, "pop_back");
  CHECK_BLOCKS(&a, cap0);
}
static void t_clear(size_type cap_, size_type sz_, size_type p1, size_type p2) {
  struct Arr a; int old[OLDN]; havoc_ghosts(); if (!mk_array(&a, old, cap_, sz_)) return;
  size_type sz0 = a.nUsed, cap0 = a.nAllocated; Elem* data0 = a.pData;
  clear(&a);
  CHECK_WF(&a);
  __CPROVER_assert(a.nUsed == 0 && a.pData == data0 && a.nAllocated == cap0 && !ghost_threw, "clear: empty, capacity unchanged");
  CHECK_COUNTS(0, 0, 0, sz0, "clear: exactly one destructor call per element");
  CHECK_BLOCKS(&a, cap0);
}

/* ------------------------------------------------------------------ push_back ---------------------------------------------------------------- */
static void push_post(struct Arr* a, int* old, size_type sz0, size_type cap0, Elem* data0, int vval, int kind) {
  if (sz0 < cap0) __CPROVER_assert(!ghost_threw, "push_back: never throws when there is spare capacity");
  if (ull(sz0) + 1 > ull(ghost_max_size)) __CPROVER_assert(ghost_threw, "push_back: size+1 > max_size throws");
  if (ghost_threw) {
    __CPROVER_assert(ull(cap0) + 1 > ull(ghost_max_size), "push_back: throws only if capacity+1 > max_size");
    ghost_threw = 0;
    CHECK_UNCHANGED(a, old, sz0, cap0, data0, "push_back that throws leaves the array unchanged");
    return;
  }
  int expect[BIG];
  for (size_type i = 0; i < sz0 + 1; i++) expect[i] = i < sz0 ? old[i] : vval;
  CHECK_WF(a);
  CHECK_SEQ(a, expect, sz0 + 1, "push_back: seq' == seq ++ [v]");
  if (sz0 < cap0) __CPROVER_assert(a->pData == data0 && a->nAllocated == cap0, "push_back with spare capacity does not reallocate");
  else __CPROVER_assert(a->nAllocated > cap0 && (cap0 <= ghost_max_size / 2 ? a->nAllocated >= 2 * cap0 : a->nAllocated == ghost_max_size),
                        "push_back on a full array GROWS: capacity at least doubles (or saturates at max_size)");
  size_type moved = sz0 < cap0 ? 0 : sz0;
  CHECK_COUNTS(kind == 0 ? 1 : 0, moved + (kind == 1 ? 1 : 0), kind == 2 ? 1 : 0, moved, "push_back");
  CHECK_BLOCKS(a, cap0);
}
static void t_push_back(size_type cap_, size_type sz_, size_type p1, size_type p2) {
  struct Arr a; int old[OLDN]; havoc_ghosts(); if (!mk_array(&a, old, cap_, sz_)) return;
  size_type sz0 = a.nUsed, cap0 = a.nAllocated; Elem* data0 = a.pData;
  Elem v; v.val = nondet_int(); v.life = LIVE; int vval = v.val;
  push_back(&a, &v);
  __CPROVER_assert(v.val == vval && v.life == LIVE, "push_back(const T&) leaves the source value alone");
  push_post(&a, old, sz0, cap0, data0, vval, 0);
}
static void t_push_back_move(size_type cap_, size_type sz_, size_type p1, size_type p2) {
  struct Arr a; int old[OLDN]; havoc_ghosts(); if (!mk_array(&a, old, cap_, sz_)) return;
  size_type sz0 = a.nUsed, cap0 = a.nAllocated; Elem* data0 = a.pData;
  Elem v; v.val = nondet_int(); v.life = LIVE; int vval = v.val;
  push_back_move(&a, &v);
  __CPROVER_assert(v.life == LIVE, "push_back(T&&): the moved-from source is still a live object (its owner destroys it)");
  push_post(&a, old, sz0, cap0, data0, vval, 1);
}
static void t_push_back_default(size_type cap_, size_type sz_, size_type p1, size_type p2) {
  struct Arr a; int old[OLDN]; havoc_ghosts(); if (!mk_array(&a, old, cap_, sz_)) return;
  size_type sz0 = a.nUsed, cap0 = a.nAllocated; Elem* data0 = a.pData;
  push_back_default(&a);
  push_post(&a, old, sz0, cap0, data0, 0, 2);
}

/* ------------------------------------------------------------------ resize / reserve / shrink_to_fit / swap ------------------------------------ */
#define NRESIZE (CAPMAX + NMAX)
static void resize_post(struct Arr* a, int* old, size_type sz0, size_type cap0, Elem* data0, size_type n, int fillval, bool fill) {
  int expect[BIG];
  for (size_type i = 0; i < n; i++) expect[i] = i < sz0 ? old[i] : fillval;
  __CPROVER_assert(!ghost_threw, "resize: no exception for n <= max_size");
  CHECK_WF(a);
  CHECK_SEQ(a, expect, n, "resize(n): seq' == seq[0..min(n,size)) ++ [T() or v]^(n-size)");
  if (n <= cap0) __CPROVER_assert(a->pData == data0 && a->nAllocated == cap0, "resize within capacity does not reallocate");
  else __CPROVER_assert(a->nAllocated >= n, "resize beyond capacity: capacity >= n");
  size_type moved = n > cap0 ? sz0 : 0, added = n > sz0 ? n - sz0 : 0, removed = n < sz0 ? sz0 - n : 0;
  CHECK_COUNTS(fill ? added : 0, moved, fill ? 0 : added, moved + removed, "resize");
  CHECK_BLOCKS(a, cap0);
}
static void t_resize(size_type cap_, size_type sz_, size_type p1, size_type p2) {
  struct Arr a; int old[OLDN]; havoc_ghosts(); if (!mk_array(&a, old, cap_, sz_)) return;
  size_type sz0 = a.nUsed, cap0 = a.nAllocated; Elem* data0 = a.pData;
  size_type n = p1; if (!(n <= NRESIZE && n <= ghost_max_size)) return;
  resize(&a, n);
  resize_post(&a, old, sz0, cap0, data0, n, 0, false);
}
static void t_resize_fill(size_type cap_, size_type sz_, size_type p1, size_type p2) {
  struct Arr a; int old[OLDN]; havoc_ghosts(); if (!mk_array(&a, old, cap_, sz_)) return;
  size_type sz0 = a.nUsed, cap0 = a.nAllocated; Elem* data0 = a.pData;
  size_type n = p1; if (!(n <= NRESIZE && n <= ghost_max_size)) return;
  Elem v; v.val = nondet_int(); v.life = LIVE; int vval = v.val;
  resize_fill(&a, n, &v);
  __CPROVER_assert(v.val == vval && v.life == LIVE, "resize(n,v) leaves the source value alone");
  resize_post(&a, old, sz0, cap0, data0, n, vval, true);
}
static void t_reserve(size_type cap_, size_type sz_, size_type p1, size_type p2) {
  struct Arr a; int old[OLDN]; havoc_ghosts(); if (!mk_array(&a, old, cap_, sz_)) return;
  size_type sz0 = a.nUsed, cap0 = a.nAllocated; Elem* data0 = a.pData;
  size_type n = p1; if (!(n <= NRESIZE && n <= ghost_max_size)) return;
  reserve(&a, n);
  __CPROVER_assert(!ghost_threw, "reserve: no exception for n <= max_size");
  CHECK_WF(&a);
  CHECK_SEQ(&a, old, sz0, "reserve: sequence unchanged");
  if (n <= cap0) __CPROVER_assert(a.pData == data0 && a.nAllocated == cap0, "reserve never reduces the capacity / does nothing if capacity >= n");
  else __CPROVER_assert(a.nAllocated >= n, "reserve: capacity >= n afterwards");
  CHECK_COUNTS(0, n > cap0 ? sz0 : 0, 0, n > cap0 ? sz0 : 0, "reserve");
  CHECK_BLOCKS(&a, cap0);
}
static void t_shrink_to_fit(size_type cap_, size_type sz_, size_type p1, size_type p2) {
  struct Arr a; int old[OLDN]; havoc_ghosts(); if (!mk_array(&a, old, cap_, sz_)) return;
  size_type sz0 = a.nUsed, cap0 = a.nAllocated; Elem* data0 = a.pData;
  shrink_to_fit(&a);
  __CPROVER_assert(!ghost_threw, "shrink_to_fit never throws");
  CHECK_WF(&a);
  CHECK_SEQ(&a, old, sz0, "shrink_to_fit: sequence unchanged");
  __CPROVER_assert(a.nAllocated <= cap0 && (a.nAllocated == cap0 ? a.pData == data0 : a.nAllocated == sz0), "shrink_to_fit: capacity unchanged (same storage) or reduced to exactly size");
  if (sz0 == 0) __CPROVER_assert(a.pData == 0 && a.nAllocated == 0, "shrink_to_fit of an empty array frees all heap space (documented guarantee)");
  bool moved = a.nAllocated != cap0;
  CHECK_COUNTS(0, moved ? sz0 : 0, 0, moved ? sz0 : 0, "shrink_to_fit");
  CHECK_BLOCKS(&a, cap0);
}
/* swap is loop-free and touches no element: UNBOUNDED (arbitrary pointers, sizes, capacities; the abstract sequence is a function of (data,size)) */
void h_swap(void) {
  struct Arr a, b; havoc_ghosts();
  struct Arr a0 = a, b0 = b;
  swap(&a, &b);
  __CPROVER_assert(a.pData == b0.pData && a.nUsed == b0.nUsed && a.nAllocated == b0.nAllocated, "swap: a' has b's storage, size and capacity (so a' == b as sequences, WF carried over)");
  __CPROVER_assert(b.pData == a0.pData && b.nUsed == a0.nUsed && b.nAllocated == a0.nAllocated, "swap: b' has a's storage, size and capacity");
  __CPROVER_assert(ghost_ncopy + ghost_nmove + ghost_ndefault + ghost_ndtor + ghost_nalloc + ghost_nfree == 0 && !ghost_threw, "swap: no constructor/destructor/allocator call, no exception");
}

/* ------------------------------------------------------------------ drivers ------------------------------------------------------------------
   Every (max_size, capacity, size, position/count) combination within the bound is run with CONCRETE sizes and positions (CBMC then
   resolves every pointer and every loop trip count during symbolic execution) and SYMBOLIC element values, source value and
   moved-from/destroyed garbage.
   variant MAIN  : max_size = INT_MAX (ArrayIndexTraits<unsigned>), capacity <= CAPMAX, all sizes/positions, n <= NMAX
   variant SMALLMAX: max_size in [1, CAPMAX+NMAX] (narrow index types: exception + saturation paths of the growth policy), capacity <= min(CAPMAX, max_size) */
#ifndef PAIR_LO          /* chunking: (capacity,size) pairs are numbered cap*(cap+1)/2+size; one cbmc run covers pairs [PAIR_LO, PAIR_HI] */
#define PAIR_LO 0
#endif
#ifndef PAIR_HI
#define PAIR_HI 100000
#endif
#ifdef SMALLMAX
#ifndef MX_LO
#define MX_LO 1u
#endif
#ifndef MX_HI
#define MX_HI (CAPMAX + NMAX)
#endif
#else
#define MX_LO ((unsigned)INT_MAX)
#define MX_HI ((unsigned)INT_MAX)
#endif
#define DRIVER(name, P1MAX, P2MAX) \
  void h_##name(void) { \
    for (size_type mx = MX_LO; mx <= MX_HI && mx >= MX_LO; mx++) { g_maxsize = mx; size_type pair = 0; \
    for (size_type cap = 0; cap <= CAPMAX; cap++) for (size_type sz = 0; sz <= cap; sz++, pair++) if (pair >= PAIR_LO && pair <= PAIR_HI) \
      for (size_type p1 = 0; p1 <= (P1MAX); p1++) for (size_type p2 = 0; p2 <= (P2MAX); p2++) t_##name(cap, sz, p1, p2); } }
DRIVER(insert_n, sz, NMAX)            /* p1 = position k <= size, p2 = n */
DRIVER(insert_one, sz, 0)
DRIVER(insertGapAt, sz, NMAX)
DRIVER(growWithGap, sz, NMAX)
DRIVER(growAtEnd, NMAX, 0)
DRIVER(erase_range, sz, sz)           /* p1 = i <= p2 = j <= size */
DRIVER(erase_one, sz, 0)
DRIVER(eraseFast, sz, 0)
DRIVER(pop_back, 0, 0)
DRIVER(clear, 0, 0)
DRIVER(push_back, 0, 0)
DRIVER(push_back_move, 0, 0)
DRIVER(push_back_default, 0, 0)
DRIVER(resize, cap + NMAX, 0)            /* p1 = n <= capacity + NMAX (<= NRESIZE) */
DRIVER(resize_fill, cap + NMAX, 0)
DRIVER(reserve, cap + NMAX, 0)
DRIVER(shrink_to_fit, 0, 0)

/* ------------------------------------------------------------------ huge insert count (finding F10, fixed) --------------------------------------
   insert(p,n,v) with n > max_size - size(): the documented "would exceed max_size" exception, array unchanged. Concrete representative counts p2:
   the smallest offending n, the largest n without size_type wrap-around, and the counts for which size()+n wraps to 0, to capacity-size (looks
   like "fits exactly"), and to size-1 (n = UINT_MAX); capacity <= CAPMAX, every size and position. */
static void t_insert_huge(size_type cap_, size_type sz_, size_type p1, size_type p2) {
  struct Arr a; int old[OLDN]; havoc_ghosts(); if (!mk_array(&a, old, cap_, sz_)) return;
  size_type sz0 = a.nUsed, cap0 = a.nAllocated; Elem* data0 = a.pData;
  size_type k = p1; if (!(k <= sz0)) return;
  size_type n = p2 == 0 ? ghost_max_size - sz0 + 1u : p2 == 1 ? UINT_MAX - sz0 : p2 == 2 ? UINT_MAX - sz0 + 1u : p2 == 3 ? UINT_MAX - sz0 + 1u + (cap0 - sz0) : UINT_MAX;
  if (!(ull(n) > ull(ghost_max_size) - ull(sz0))) return;       /* (only n = 0 when size == 0 and p2 == 2,3 is filtered) */
  Elem v; v.val = nondet_int(); v.life = LIVE;
  insert_n(&a, a.pData + k, n, &v);
  __CPROVER_assert(ghost_threw, "insert(p,n,v) with n > max_size - size() throws the documented exception (no size_type wrap-around of size()+n)");
  ghost_threw = 0;
  CHECK_UNCHANGED(&a, old, sz0, cap0, data0, "insert with a huge count leaves the array unchanged");
}
DRIVER(insert_huge, sz, 4)

/* ------------------------------------------------------------------ value argument aliases an element (finding F11, OPEN) -----------------------
   std::vector semantics: v.push_back(v[i]) and v.insert(p, n, v[i]) are valid calls; the inserted value is the value v[i] had AT THE CALL and no
   destroyed/raw element is read. These two units FAIL on the pinned tree (known finding F11). */
static void t_alias_push_back_full(size_type cap_, size_type sz_, size_type p1, size_type p2) {
  if (!(sz_ == cap_ && p1 < sz_)) return;                        /* full array, value = element p1 */
  struct Arr a; int old[OLDN]; havoc_ghosts(); if (!mk_array(&a, old, cap_, sz_)) return;
  size_type sz0 = a.nUsed;
  push_back(&a, a.pData + p1);
  __CPROVER_assert(!ghost_threw, "push_back(a[i]) on a full array: no exception");
  int expect[BIG];
  for (size_type i = 0; i < sz0 + 1; i++) expect[i] = i < sz0 ? old[i] : old[p1];
  CHECK_WF(&a);
  CHECK_SEQ(&a, expect, sz0 + 1, "push_back(a[i]) on a full array: seq' == seq ++ [ORIGINAL a[i]]");
}
DRIVER(alias_push_back_full, sz, 0)
static void t_alias_insert_within_capacity(size_type cap_, size_type sz_, size_type p1, size_type p2) {
  size_type k = p1, n = p2;
  if (!(k <= sz_ && n >= 1 && sz_ + n <= cap_)) return;          /* no reallocation */
  for (size_type src = 0; src < sz_; src++) {                    /* value = element src */
    struct Arr a; int old[OLDN]; havoc_ghosts(); if (!mk_array(&a, old, cap_, sz_)) return;
    size_type sz0 = a.nUsed;
    insert_n(&a, a.pData + k, n, a.pData + src);
    __CPROVER_assert(!ghost_threw, "insert(p,n,a[i]) within capacity: no exception");
    int expect[BIG];
    for (size_type i = 0; i < sz0 + n; i++) expect[i] = i < k ? old[i] : i < k + n ? old[src] : old[i - n];
    CHECK_WF(&a);
    CHECK_SEQ(&a, expect, sz0 + n, "insert(p,n,a[i]) within capacity: seq' == seq[0..k) ++ [ORIGINAL a[i]]^n ++ seq[k..)");
  }
}
DRIVER(alias_insert_within_capacity, sz, NMAX)

/* ------------------------------------------------------------------ vacuity guard ------------------------------------------------------------
   the harness preconditions are satisfiable for the interesting shapes, with the ghosts really havocked (file-scope ghosts are zero-initialised) */
void h_cover(void) {
  struct Arr a; int old[OLDN];
  g_maxsize = nondet_unsigned(); havoc_ghosts();
  size_type cap = nondet_unsigned(), sz = nondet_unsigned();
  if (!mk_array(&a, old, cap, sz)) return;
  if (a.nUsed == CAPMAX && ghost_max_size == (unsigned)INT_MAX) __CPROVER_cover(1);                           /* full array: insert/push_back must grow */
  if (a.nUsed == 3 && a.nAllocated == CAPMAX) __CPROVER_cover(1);                                            /* insert within capacity: overlapping move up */
  if (a.nUsed == CAPMAX && ghost_max_size == CAPMAX + 1) __CPROVER_cover(1);                                 /* growth beyond max_size: exception path */
  if (a.nUsed == 0 && a.nAllocated == 0 && a.pData == 0) __CPROVER_cover(1);                                 /* default-constructed array */
  if (a.nUsed == 0 && a.nAllocated == CAPMAX) __CPROVER_cover(1);
  if (a.nUsed > 1 && a.pData[0].val != a.pData[1].val && a.pData[1].life == LIVE) __CPROVER_cover(1);        /* distinguishable elements */
}
