/* Harnesses for the scalar specialisations ReinitOnCopyHelper<T,true> / ResetOnCopyHelper<T,true> (T := int; the
   bodies are cut from ReinitOnCopy.h / ResetOnCopy.h on every run and follow this header's struct definitions).
   Loop-free, full-domain symbolic inputs: a complete proof for T = int.
   Documented semantics (class comments of ReinitOnCopy.h / ResetOnCopy.h):
     ReinitOnCopy: copy construction -> value and remembered initial value := the SOURCE's initial value (its current value is ignored);
                   copy assignment   -> value := the TARGET's OWN remembered initial value, source ignored, initial value kept;
                   move construction/assignment -> value moved from the source (assignment keeps the target's initial value);
                   assignment from T -> only the current value changes.
     ResetOnCopy:  copy assignment -> value := T{} (zero), source ignored; move -> value taken; assignment from T -> value. */
int nondet_int(void);

void h_reinit(void) {
  struct ReinitOnCopyHelper a, b, a0, b0;
  a.m_value = nondet_int(); a.m_reinitValue = nondet_int();
  b.m_value = nondet_int(); b.m_reinitValue = nondet_int();
  a0 = a; b0 = b;
  int which = nondet_int();
  if (which == 0) {            /* copy assignment a = b */
    struct ReinitOnCopyHelper* r = ReinitOnCopyHelper_assign_copy(&a, &b);
    __CPROVER_assert(r == &a, "copy assignment returns *this");
    __CPROVER_assert(a.m_value == a0.m_reinitValue, "copy assignment: target value reset to the target's OWN remembered initial value");
    __CPROVER_assert(a.m_reinitValue == a0.m_reinitValue, "copy assignment: remembered initial value of the target unchanged");
    __CPROVER_assert(b.m_value == b0.m_value && b.m_reinitValue == b0.m_reinitValue, "copy assignment: source untouched");
  } else if (which == 1) {     /* move assignment a = std::move(b) */
    struct ReinitOnCopyHelper* r = ReinitOnCopyHelper_assign_move(&a, &b);
    __CPROVER_assert(r == &a, "move assignment returns *this");
    __CPROVER_assert(a.m_value == b0.m_value, "move assignment: value taken from the source");
    __CPROVER_assert(a.m_reinitValue == a0.m_reinitValue, "move assignment: remembered initial value of the target unchanged");
  } else if (which == 2) {     /* a = value */
    int v = nondet_int();
    struct ReinitOnCopyHelper* r = ReinitOnCopyHelper_assign_value(&a, &v);
    __CPROVER_assert(r == &a, "assignment from T returns *this");
    __CPROVER_assert(a.m_value == v && a.m_reinitValue == a0.m_reinitValue, "assignment from T changes the current value only");
  } else if (which == 3) {     /* copy construction c(b) */
    struct ReinitOnCopyHelper c; c.m_value = nondet_int(); c.m_reinitValue = nondet_int();
    ReinitOnCopyHelper_init_copy(&c, &b);
    __CPROVER_assert(c.m_value == b0.m_reinitValue && c.m_reinitValue == b0.m_reinitValue, "copy construction: value and initial value := the source's initial value");
    __CPROVER_assert(b.m_value == b0.m_value && b.m_reinitValue == b0.m_reinitValue, "copy construction: source untouched");
  } else if (which == 4) {     /* move construction c(std::move(b)) */
    struct ReinitOnCopyHelper c; c.m_value = nondet_int(); c.m_reinitValue = nondet_int();
    ReinitOnCopyHelper_init_move(&c, &b);
    __CPROVER_assert(c.m_value == b0.m_value && c.m_reinitValue == b0.m_reinitValue, "move construction: value and initial value moved");
  } else if (which == 5) {     /* construction from a value */
    struct ReinitOnCopyHelper c; c.m_value = nondet_int(); c.m_reinitValue = nondet_int(); int v = nondet_int();
    ReinitOnCopyHelper_init_value(&c, &v);
    __CPROVER_assert(c.m_value == v && c.m_reinitValue == v, "construction from T: value and remembered initial value := the given value");
  } else {
    __CPROVER_assert(*ReinitOnCopyHelper_getT(&a) == a0.m_value && *ReinitOnCopyHelper_getReinitT(&a) == a0.m_reinitValue, "getT / getReinitT return the stored members");
  }
}

void h_reset(void) {
  struct ResetOnCopyHelper a, b, a0, b0;
  a.m_value = nondet_int(); b.m_value = nondet_int(); a0 = a; b0 = b;
  int which = nondet_int();
  if (which == 0) {
    struct ResetOnCopyHelper* r = ResetOnCopyHelper_assign_copy(&a, &b);
    __CPROVER_assert(r == &a && a.m_value == 0, "copy assignment: target value-initialised (zero), source ignored");
    __CPROVER_assert(b.m_value == b0.m_value, "copy assignment: source untouched");
  } else if (which == 1) {
    struct ResetOnCopyHelper* r = ResetOnCopyHelper_assign_move(&a, &b);
    __CPROVER_assert(r == &a && a.m_value == b0.m_value, "move assignment: value taken from the source");
  } else if (which == 2) {
    int v = nondet_int();
    struct ResetOnCopyHelper* r = ResetOnCopyHelper_assign_value(&a, &v);
    __CPROVER_assert(r == &a && a.m_value == v, "assignment from T");
  } else if (which == 3) {
    struct ResetOnCopyHelper c; c.m_value = nondet_int();
    ResetOnCopyHelper_init_move(&c, &b);
    __CPROVER_assert(c.m_value == b0.m_value, "move construction: value moved");
  } else if (which == 4) {
    struct ResetOnCopyHelper c; c.m_value = nondet_int(); int v = nondet_int();
    ResetOnCopyHelper_init_value(&c, &v);
    __CPROVER_assert(c.m_value == v, "construction from T");
  } else {
    __CPROVER_assert(*ResetOnCopyHelper_getT(&a) == a0.m_value, "getT returns the stored member");
  }
}
