/* C26 - Array_<T,X> growth policy (X := unsigned, so size_type = unsigned, max_size() = INT_MAX as in
   ArrayIndexTraits<unsigned>).  Bodies of calcNewCapacityForGrowthBy / isGrowthOK / isSizeOK / minAlloc are cut from
   Array.h each run.  Unbounded: all capacities 0..max_size and all n. */
#include <limits.h>
#include <stdbool.h>
typedef unsigned size_type;
struct Arr { size_type cap; };              /* the only state the growth policy reads: capacity() */
extern int ghost_threw;                      /* exception plumbing: SimTK_ERRCHK3_ALWAYS -> ghost flag */
static size_type max_size_(void) { return (unsigned)INT_MAX; }       /* ArrayIndexTraits<unsigned>::max_size() */
static size_type vf_max(size_type a, size_type b) { return (a < b) ? b : a; }   /* std::max */
static size_type vf_min(size_type a, size_type b) { return (b < a) ? b : a; }   /* std::min */
#define ull(x) ((unsigned long long)(x))

size_type calcNewCapacityForGrowthBy(const struct Arr* self, size_type n)
__CPROVER_requires(__CPROVER_is_fresh(self, sizeof(*self)) && self->cap <= (unsigned)INT_MAX && ghost_threw == 0)     /* representation invariant: capacity <= max_size */
__CPROVER_assigns(ghost_threw)
/* throws exactly when the request cannot be met */
__CPROVER_ensures((ghost_threw != 0) == (ull(self->cap) + ull(n) > ull((unsigned)INT_MAX)))
/* otherwise: room for the request, never beyond max_size, no size_type wrap-around */
__CPROVER_ensures(ghost_threw == 0 ==> (ull(__CPROVER_return_value) >= ull(self->cap) + ull(n) && __CPROVER_return_value <= (unsigned)INT_MAX))
/* at least doubles unless that would exceed max_size (then max_size): amortised O(1) push_back */
__CPROVER_ensures(ghost_threw == 0 ==> (self->cap <= (unsigned)INT_MAX / 2 ? __CPROVER_return_value >= 2 * self->cap : __CPROVER_return_value == (unsigned)INT_MAX))
/* minimum allocation 4, and exactly the largest of the three candidates (nothing bigger) */
__CPROVER_ensures(ghost_threw == 0 ==> __CPROVER_return_value >= 4)
__CPROVER_ensures(ghost_threw == 0 ==> (__CPROVER_return_value == self->cap + n || __CPROVER_return_value == 4 || __CPROVER_return_value == 2 * self->cap || __CPROVER_return_value == (unsigned)INT_MAX))
;
