/* Part of C37: control slice of HuntCrossleyForceImpl::calcForce (HuntCrossleyForce.cpp).
   The loop over the contacts of the set is kept verbatim (for header, the two `continue`s,
   the `if (f <= 0)` exit, the friction `if`, the two applyForceToBodyPoint calls); the float law
   is abstracted by contracted stubs, every other statement of the body (pure local float/vector
   computations) is dropped by the slicer and listed in extraction_report.json.

   Ghost contact index gj (universally quantified through the harness): the contract follows one
   arbitrary contact j of the set and counts the body forces applied for it, whatever the other
   contacts do (their kind and their force value are unconstrained). */
#include <stdbool.h>
typedef double Real;
struct Contacts { int n; };          /* Array_<Contact>: only its size is modelled */
struct HCImpl { const struct Contacts* contacts; };   /* subsystem.getContacts(state,set) reached through the impl */
struct State { int opaque; };
struct BodyForces { int opaque; };

/* ghost: the followed contact, its kind, the value of the Hunt-Crossley law for it */
extern int  gj;
extern bool g_isPoint;
extern Real g_f;
/* ghost counters: forces applied for contact gj */
extern int cnt_b1;    /* body1.applyForceToBodyPoint(.., -force, ..) */
extern int cnt_b2;    /* body2.applyForceToBodyPoint(.., +force, ..) */
extern int cnt_bad;   /* any other (body, sign) combination */
#define HIT ((g_isPoint && g_f > 0) ? 1 : 0)

/* ---- subsystem.getContacts(state,set), Array_::size()  [assumed container contract] ---- */
static const struct Contacts* hc_getContacts(const struct HCImpl* self, const struct State* state) { return self->contacts; }
static int contacts_size(const struct Contacts* c) { return c->n; }

/* ---- PointContact::isInstance(contacts[i])  [assumed; index in range is an obligation] ---- */
bool PointContact_isInstance(const struct Contacts* c, int i)
__CPROVER_requires(__CPROVER_r_ok(c, sizeof(*c)) && 0 <= i && i < c->n)
__CPROVER_assigns()
__CPROVER_ensures(i == gj ==> __CPROVER_return_value == g_isPoint)
;
/* ---- the float law f = fH*(1+1.5*c*vnormal) of contact i, abstracted (law itself: back end B) ---- */
Real hc_law_f(const struct Contacts* c, int i)
__CPROVER_requires(__CPROVER_r_ok(c, sizeof(*c)) && 0 <= i && i < c->n)
__CPROVER_assigns()
__CPROVER_ensures(i == gj ==> __CPROVER_return_value == g_f)
;
/* slip speed |vtangent| of contact i: any non-negative value or NaN */
Real hc_vslip(const struct Contacts* c, int i)
__CPROVER_requires(__CPROVER_r_ok(c, sizeof(*c)) && 0 <= i && i < c->n)
__CPROVER_assigns()
__CPROVER_ensures(1)
;
/* ---- MobilizedBody::applyForceToBodyPoint(state, station, +-force, bodyForces) for the pair of
   bodies of contact i: only counted (the force value is back end B's business) ---- */
void applyForceToBodyPoint(const struct Contacts* c, int i, int body, int sign, struct BodyForces* bodyForces)
__CPROVER_requires(__CPROVER_r_ok(c, sizeof(*c)) && 0 <= i && i < c->n)
__CPROVER_requires(cnt_b1 < 1000 && cnt_b2 < 1000 && cnt_bad < 1000)
__CPROVER_assigns(cnt_b1, cnt_b2, cnt_bad)
__CPROVER_ensures(cnt_b1 == __CPROVER_old(cnt_b1) + ((i == gj && body == 1 && sign == -1) ? 1 : 0))
__CPROVER_ensures(cnt_b2 == __CPROVER_old(cnt_b2) + ((i == gj && body == 2 && sign == 1) ? 1 : 0))
__CPROVER_ensures(cnt_bad == __CPROVER_old(cnt_bad) + ((i == gj && !((body == 1 && sign == -1) || (body == 2 && sign == 1))) ? 1 : 0))
;

/* ---- HuntCrossleyForceImpl::calcForce: the contract (from property C37: "normal forces are never
   attractive", every contact of the set contributes its force pair; and C13 orientation) ---- */
void HC_calcForce(const struct HCImpl* self, const struct State* state, struct BodyForces* bodyForces)
__CPROVER_requires(__CPROVER_is_fresh(self, sizeof(*self)) && __CPROVER_is_fresh(state, sizeof(*state)) && __CPROVER_is_fresh(bodyForces, sizeof(*bodyForces)))
__CPROVER_requires(__CPROVER_is_fresh(self->contacts, sizeof(struct Contacts)))
__CPROVER_requires(0 <= self->contacts->n && self->contacts->n < 2147483647 && 0 <= gj && gj < self->contacts->n)
__CPROVER_requires(!__CPROVER_isnand(g_f))
__CPROVER_requires(cnt_b1 == 0 && cnt_b2 == 0 && cnt_bad == 0)
__CPROVER_assigns(cnt_b1, cnt_b2, cnt_bad)
/* 1: a point contact with positive force gets its pair of body forces exactly once, whatever the other contacts do */
__CPROVER_ensures((g_isPoint && g_f > 0) ==> (cnt_b1 == 1 && cnt_b2 == 1))
/* 2: nothing is applied for a contact that is not a point contact or whose force is <= 0 (never attractive) */
__CPROVER_ensures(!(g_isPoint && g_f > 0) ==> (cnt_b1 == 0 && cnt_b2 == 0))
/* 3: orientation: body1 receives -force and body2 +force, no other combination */
__CPROVER_ensures(cnt_bad == 0)
;
