/* Harness + ghost definitions for the HuntCrossley control slice. */
int gj; bool g_isPoint; Real g_f; int cnt_b1, cnt_b2, cnt_bad;
int nondet_int(void); bool nondet_bool(void); Real nondet_real(void);
/* ghosts are universally quantified: havoc them (file-scope objects start at 0 otherwise) */
static void havoc_ghosts(void) { gj = nondet_int(); g_isPoint = nondet_bool(); g_f = nondet_real(); }
void h_calcForce(void) {
  const struct HCImpl* self; const struct State* st; struct BodyForces* bf;
  havoc_ghosts();
  HC_calcForce(self, st, bf);
}
/* reachability behind the precondition: the interesting situations exist */
void h_cover(void) {
  struct Contacts c;
  havoc_ghosts();
  __CPROVER_assume(0 <= c.n && c.n < 2147483647 && 0 <= gj && gj < c.n && !__CPROVER_isnand(g_f));
  if (gj > 0 && g_isPoint && g_f > 0) __CPROVER_cover(1);     /* a later contact that must get its force */
  if (g_isPoint && g_f <= 0) __CPROVER_cover(1);
  if (!g_isPoint) __CPROVER_cover(1);
}
