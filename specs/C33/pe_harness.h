#ifndef TFIX
#define TFIX 1
#endif
int ghost_k, g_count, g_T, g_me, g_cnt, g_bad, g_last, g_phase, g_ninit, g_nfin;
void h_stripe(void) { int a, b; stripe(a, b, TFIX); }
void h_serial(void) { int t; serial_execute(t); }
/* partition lemma: for T >= 1 and k >= 0 exactly one thread index me in [0,T) has k mod T == me */
void h_partition(void) {
  int k, T, me1, me2; __CPROVER_assume(k >= 0 && T >= 1 && 0 <= me1 && me1 < T && 0 <= me2 && me2 < T);
  __CPROVER_assert(0 <= k % T && k % T < T, "partition: k mod T names a thread");
  __CPROVER_assert(!(k % T == me1 && k % T == me2) || me1 == me2, "partition: no index belongs to two stripes");
}
