/* C33 - Parallel2DExecutor partition (sequential clauses). Model of the containers used by
   Parallel2DExecutorImpl: Array_<int> binStart -> bounds-checked array with ghost length; Array_<Array_<pair<int,int>>> squares
   -> append-only list of (pass, x, y) triples with ghost outer length. Function bodies are cut from /repo each run. */
#include <math.h>
#include <limits.h>
enum { BS_CAP = 66, SQ_CAP = 2048 };
struct IntPair { int first, second; };
struct P2 { int gridSize; int binStart[BS_CAP]; int binStart_n; int squares_n; int nsq; int sq_pass[SQ_CAP], sq_x[SQ_CAP], sq_y[SQ_CAP]; };
static void binStart_resize(struct P2* self, int n) { __CPROVER_assert(0 <= n && n <= BS_CAP, "binStart.resize within the stand-in capacity (bins <= 64)"); self->binStart_n = n; }
static int* binStart_ref(struct P2* self, int i) { __CPROVER_assert(0 <= i && i < self->binStart_n, "binStart index in range (Array_ bounds)"); return &self->binStart[i]; }
static void squares_resize(struct P2* self, int n) { __CPROVER_assert(n >= 0, "squares.resize(n>=0)"); self->squares_n = n; }
static void squares_push(struct P2* self, int pass, int x, int y) {
  __CPROVER_assert(0 <= pass && pass < self->squares_n, "squares[pass-1]: pass index in range (Array_ bounds)");
  __CPROVER_assert(self->nsq < SQ_CAP, "stand-in capacity of the square list");
  self->sq_pass[self->nsq] = pass; self->sq_x[self->nsq] = x; self->sq_y[self->nsq] = y; self->nsq++;
}
/* user task of the 2D executor: ghost bookkeeping only */
extern int gi, gj, g2_cnt, g2_bad, g_lo, g_hi;
static void Task2_execute(int i, int j) { if (i == gi && j == gj) g2_cnt++; if (i < g_lo || i >= g_hi || j < g_lo || j >= g_hi) g2_bad = 1; }
struct TriangleTask { const struct P2* executor; int rangeType; int width; };
struct SquareTask { const struct P2* executor; const struct IntPair* squares; int squares_n; int rangeType; };
static struct IntPair SquareList_get(const struct SquareTask* t, int index) { __CPROVER_assert(0 <= index && index < t->squares_n, "squares[index] in range"); return t->squares[index]; }

/* the call addTriangle(0,0,0,levels) inside init: the real recursion, or (levels unit, -DNO_REC) a recorder of its arguments,
   so that "what init passes to the recursion" is decided for ALL numProcessors while the recursion itself is unwound per levels value */
extern int g_at_calls, g_at_x, g_at_y, g_at_pass, g_at_level;
#ifdef NO_REC
#define INIT_ADDTRIANGLE(self, x, y, pass, level) (g_at_calls++, g_at_x = (x), g_at_y = (y), g_at_pass = (pass), g_at_level = (level))
#else
#define INIT_ADDTRIANGLE(self, x, y, pass, level) addTriangle(self, x, y, pass, level)
#endif
