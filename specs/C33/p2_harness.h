int gi, gj, g2_cnt, g2_bad, g_lo, g_hi, g_at_calls, g_at_x, g_at_y, g_at_pass, g_at_level;
int nondet_int(void);
static int bs_c(const struct P2* p, int i) { __CPROVER_assert(0 <= i && i < p->binStart_n, "harness read of binStart in range"); return p->binStart[i]; }
/* ---- init: levels / bins / binStart ------------------------------------------------------------- */
void h_init(void) {
  struct P2 p; int np = nondet_int(), gs = nondet_int(); p.nsq = 0; p.squares_n = 0; p.binStart_n = 0;
  __CPROVER_assume(NP_LO <= np && np <= NP_HI && 0 <= gs && gs <= INT_MAX / 64);   /* i*gridSize must not overflow: i < bins <= 64 */
  p.gridSize = gs;
  init(&p, np);
  int bins = p.binStart_n - 1;
  __CPROVER_assert(bins >= 1 && (bins & (bins - 1)) == 0, "init: bins is a power of two");
  __CPROVER_assert(np >= 2 || bins == 1, "init: one bin without parallelism");
  __CPROVER_assert(np < 2 || (bins / 2 >= np && bins / 2 >= 2 && (bins / 4 < np || bins == 4)), "init: 2^(levels-1) >= numProcessors, minimal");
  __CPROVER_assert(np < 2 || p.squares_n == bins - 1, "init: bins-1 passes of squares");
#ifdef NO_REC
  __CPROVER_assert(np < 2 ? g_at_calls == 0 : (g_at_calls == 1 && g_at_x == 0 && g_at_y == 0 && g_at_pass == 0 && 2 <= g_at_level && g_at_level <= 6 && bins == (1 << g_at_level)),
                   "init: the recursion is started once as addTriangle(0,0,0,levels) with bins == 2^levels, 2 <= levels <= 6");
#endif
  __CPROVER_assert(bs_c(&p, 0) == 0, "binStart[0] == 0");
  __CPROVER_assert(bs_c(&p, bins) == gs, "binStart[bins] == gridSize");
  int i = nondet_int(); __CPROVER_assume(0 <= i && i < bins);
  __CPROVER_assert(bs_c(&p, i) <= bs_c(&p, i + 1), "binStart monotone: bins partition [0,gridSize)");
  __CPROVER_assert(0 <= bs_c(&p, i) && bs_c(&p, i) <= gs, "binStart within [0,gridSize]");
}
/* ---- addTriangle/addSquare for a concrete number of levels LEVELS (2..6): coverage and conflict-freedom.
   The levels units (h_init, all numProcessors 0..32) show that init starts the recursion exactly as done here. */
void h_squares(void) {
  struct P2 p; p.nsq = 0; int np = 2; int bins = 1 << LEVELS;
  squares_resize(&p, bins - 1);
  addTriangle(&p, 0, 0, 0, LEVELS);
  int nsq = p.nsq; __CPROVER_assert(nsq <= NSQ_MAX, "number of squares within the unwinding of the counting loop");
  int r = nondet_int(), c = nondet_int(); __CPROVER_assume(0 <= c && c < r && r < bins);
  int cnt = 0; for (int s = 0; s < NSQ_MAX; s++) if (s < nsq && p.sq_x[s] == c && p.sq_y[s] == r - 1) cnt++;
  __CPROVER_assert(np < 2 || cnt == ((r / 2 != c / 2) ? 1 : 0), "each pair of bins outside the width-2 diagonal blocks is covered by exactly one square of exactly one pass; pairs inside a diagonal block by none (the triangle task covers them)");
  int s = nondet_int(), t = nondet_int(); __CPROVER_assume(0 <= s && s < nsq && 0 <= t && t < nsq && s != t);
  __CPROVER_assert(0 <= p.sq_x[s] && p.sq_x[s] < p.sq_y[s] + 1 && p.sq_y[s] + 2 <= bins, "every square lies strictly below the diagonal inside the grid of bins");
  __CPROVER_assert(p.sq_pass[s] != p.sq_pass[t] || (p.sq_y[s] != p.sq_y[t] && p.sq_x[s] != p.sq_x[t] && p.sq_y[s] + 1 != p.sq_x[t] && p.sq_y[t] + 1 != p.sq_x[s]),
                   "two squares of one pass share no row bin, no column bin, and no row bin of one is a column bin of the other");
  /* triangle pass: block t covers bins 2t,2t+1 - distinct blocks share no bin (trivially), count bins/2 */
  __CPROVER_assert(np < 2 || bins % 2 == 0, "triangle pass: bins/2 width-2 diagonal blocks tile the diagonal");
}
/* ---- TriangleTask / SquareTask loops (bounded: blocks at most BLK wide) ------------------------------ */
static void mk_bins(struct P2* p, int nb) {
  p->binStart_n = nb + 1; p->binStart[0] = nondet_int(); __CPROVER_assume(0 <= p->binStart[0] && p->binStart[0] <= 8);
  for (int k = 1; k <= nb; k++) { int w = nondet_int(); __CPROVER_assume(0 <= w && w <= BLK); p->binStart[k] = p->binStart[k - 1] + w; }
}
void h_triangle(void) {
  struct P2 p; struct TriangleTask t; int index = nondet_int(), width = nondet_int(), rt = nondet_int();
  __CPROVER_assume((width == 1 || width == 2) && 0 <= index && index < 2 && 0 <= rt && rt <= 2);
  mk_bins(&p, 4); t.executor = &p; t.rangeType = rt; t.width = width;
  int start = p.binStart[width * index], end = p.binStart[width * (index + 1)];
  gi = nondet_int(); gj = nondet_int(); g2_cnt = 0; g2_bad = 0; g_lo = start; g_hi = end;
  TriangleTask_execute(&t, index);
  int inblk = start <= gi && gi < end && start <= gj && gj < end;
  int want = inblk && (rt == FullMatrix || (rt == HalfMatrix && gj < gi) || (rt == HalfPlusDiagonal && gj <= gi));
  __CPROVER_assert(g2_cnt == (want ? 1 : 0), "TriangleTask: each (i,j) of the requested range type inside the diagonal block exactly once, nothing else");
  __CPROVER_assert(!g2_bad, "TriangleTask: no invocation outside the block");
}
void h_square(void) {
  struct P2 p; struct SquareTask t; struct IntPair sq[2]; int index = nondet_int(), rt = nondet_int();
  __CPROVER_assume(0 <= index && index < 2 && 0 <= rt && rt <= 2);
  mk_bins(&p, 4);
  for (int k = 0; k < 2; k++) { sq[k].first = nondet_int(); sq[k].second = nondet_int(); __CPROVER_assume(0 <= sq[k].second && sq[k].second <= 2 && 0 <= sq[k].first && sq[k].first <= sq[k].second); }
  t.executor = &p; t.squares = sq; t.squares_n = 2; t.rangeType = rt;
  int is = p.binStart[sq[index].second + 1], ie = p.binStart[sq[index].second + 2], js = p.binStart[sq[index].first], je = p.binStart[sq[index].first + 1];
  gi = nondet_int(); gj = nondet_int(); g2_cnt = 0; g2_bad = 0; g_lo = js; g_hi = ie;
  SquareTask_execute(&t, index);
  int a = is <= gi && gi < ie && js <= gj && gj < je;      /* (i,j) with i in the row bin, j in the column bin */
  int b = is <= gj && gj < ie && js <= gi && gi < je;      /* its mirror image */
  __CPROVER_assert(g2_cnt == (rt == FullMatrix ? ((a && b) ? 2 : (a || b) ? 1 : 0) : (a ? 1 : 0)), "SquareTask: each (i,j) of the block (and its mirror for FullMatrix) exactly once, nothing else");
  __CPROVER_assert(!g2_bad, "SquareTask: no invocation outside the rows/columns of the block");
}
