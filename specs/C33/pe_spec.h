/* C33 (sequential partition/striping clauses only) - contracts for the pieces cut from
   SimTKcommon/src/ParallelExecutor.cpp: the striping loop of threadBody and the non-parallel branch of
   ParallelExecutorImpl::execute.  Ghost state records which indices the Task was executed with.
   Nothing here speaks about schedules. */
#include <limits.h>
extern int ghost_k;            /* the index we watch: "for every k in [0,count)" */
extern int g_count, g_T, g_me; /* ghost copies of count / threadCount / this thread's index for the Task stub */
extern int g_cnt;              /* number of execute(ghost_k) calls so far */
extern int g_bad;              /* set if execute() was called with an index outside this thread's stripe */
extern int g_last;             /* last index executed (order) */
extern int g_phase;            /* 0 fresh, 1 initialized, 2 finished */
extern int g_ninit, g_nfin;

/* Task::execute(index) by contract: the user's work is opaque, the ghost bookkeeping is the spec */
void Task_execute(int index)
__CPROVER_requires(g_phase == 1)                                   /* only between initialize() and finish() */
__CPROVER_assigns(g_cnt, g_bad, g_last)
__CPROVER_ensures(g_cnt == __CPROVER_old(g_cnt) + (index == ghost_k ? 1 : 0))
__CPROVER_ensures(g_bad == (__CPROVER_old(g_bad) || !(0 <= index && index < g_count && index % g_T == g_me && index > __CPROVER_old(g_last))))
__CPROVER_ensures(g_last == index)
;
void Task_initialize(void)
__CPROVER_requires(g_phase == 0)
__CPROVER_assigns(g_phase, g_ninit)
__CPROVER_ensures(g_phase == 1 && g_ninit == __CPROVER_old(g_ninit) + 1)
;
void Task_finish(void)
__CPROVER_requires(g_phase == 1)
__CPROVER_assigns(g_phase, g_nfin)
__CPROVER_ensures(g_phase == 2 && g_nfin == __CPROVER_old(g_nfin) + 1)
;

/* ---- threadBody striping loop:  thread `me` of T executes exactly { k : k = me (mod T), 0 <= k < count },
        each once, in increasing order.  Since k mod T is a single value, every k in [0,count) belongs to exactly
        one thread's stripe (lemma unit pe.partition).
        OVERFLOW: `index += threadCount` needs count <= INT_MAX - T (otherwise signed overflow: recorded assumption). */
#define STRIPE_INV(index) (g_phase == 1 && g_bad == 0 && (index) >= info_index && (index) % threadCount == info_index \
                           && g_last < (index) && g_cnt == ((ghost_k % threadCount == info_index && ghost_k < (index)) ? 1 : 0))
#define SERIAL_INV(i)     (g_phase == 1 && g_bad == 0 && 0 <= (i) && ((times) <= 0 ? (i) == 0 : (i) <= (times)) && g_last == (i) - 1 \
                           && g_cnt == ((ghost_k < (i)) ? 1 : 0))
void stripe(int info_index, int count, int threadCount)
__CPROVER_requires(1 <= threadCount && 0 <= info_index && info_index < threadCount && 0 <= count && count <= INT_MAX - threadCount)
__CPROVER_requires(0 <= ghost_k && ghost_k < count && g_count == count && g_T == threadCount && g_me == info_index)
__CPROVER_requires(g_phase == 1 && g_cnt == 0 && g_bad == 0 && g_last == -1)
__CPROVER_assigns(g_cnt, g_bad, g_last)
__CPROVER_ensures(g_bad == 0)                                                        /* nothing outside the stripe, strictly increasing => no repeats */
__CPROVER_ensures(g_cnt == ((ghost_k % threadCount == info_index) ? 1 : 0))          /* every index of the stripe exactly once */
;
/* ---- non-parallel branch of ParallelExecutorImpl::execute: initialize; execute(0..times-1) in order; finish */
void serial_execute(int times)
__CPROVER_requires(g_phase == 0 && g_cnt == 0 && g_bad == 0 && g_last == -1 && g_ninit == 0 && g_nfin == 0)
__CPROVER_requires(g_T == 1 && g_me == 0 && g_count == times && 0 <= ghost_k && (times <= 0 || ghost_k < times))
__CPROVER_assigns(g_cnt, g_bad, g_last, g_phase, g_ninit, g_nfin)
__CPROVER_ensures(g_phase == 2 && g_ninit == 1 && g_nfin == 1 && g_bad == 0)
__CPROVER_ensures(times > 0 ==> g_cnt == 1)
__CPROVER_ensures(times <= 0 ==> g_cnt == 0)
;
