/* C22: the clauses of findEventCandidates that the localisation loop of takeOneStep relies on (count abstraction), written
   ONCE. Used (a) as postconditions of the real findEventCandidates loop in unit fec.* (specs/C22/fec_contracts.h), where they
   are PROVED on the real text, and (b) as the ensures of the count abstraction findEventCandidates_v in loc_contracts.h,
   through which the localisation unit sees the callee. n = number of candidates delivered, viable_n = length of the viable
   list handed in (-1: none, all nEvents triggers are examined). */
#ifndef FEC_ABS_H
#define FEC_ABS_H
#define FEC_FIN(x) (!__CPROVER_isnand(x) && !__CPROVER_isinfd(x))
#define FEC_MINWINDOW_VISIBLE(tLow, tHigh, mw) ((tLow) >= 0.0 && (mw) >= 0x1p-50 && (tHigh) <= (mw) * 0x1p50)
#define FEC_INSIDE(lo, x, hi) ((lo) < (x) && (x) < (hi))

/* preconditions on the scalars (the asserts of estimateRootTime + finite bracket) */
#define FEC_ABS_REQUIRES_BRACKET(tLow, tHigh)     (FEC_FIN(tLow) && FEC_FIN(tHigh) && (tLow) < (tHigh) && -1e300 <= (tLow) && (tHigh) <= 1e300)
#define FEC_ABS_REQUIRES_PARAMS(bias, minWindow)  ((bias) > 0 && FEC_FIN(bias) && (minWindow) > 0 && FEC_FIN(minWindow))
#define FEC_ABS_REQUIRES(tLow, tHigh, bias, minWindow) (FEC_ABS_REQUIRES_BRACKET(tLow, tHigh) && FEC_ABS_REQUIRES_PARAMS(bias, minWindow))

/* (a) the list can only be narrowed */
#define FEC_ABS_NARROWED(n, viable_n)  ((n) >= 0 && ((viable_n) >= 0 ==> (n) <= (viable_n)))
/* (b) no candidate -> Infinity, Infinity */
#define FEC_ABS_EMPTY(n, earliest, narrowest)  ((n) == 0 ==> ((earliest) == Infinity && (narrowest) == Infinity))
/* (c) candidates -> earliest estimate inside the bracket, narrowest window at least the roundoff window */
#define FEC_ABS_BRACKET(n, tLow, tHigh, minWindow, earliest, narrowest) \
  ((n) > 0 ==> ((tLow) <= (earliest) && (earliest) <= (tHigh) && (narrowest) >= (minWindow)))
/* (d) ... strictly inside when the bracket is wider than the localisation requirement */
#define FEC_ABS_STRICT(n, tLow, tHigh, minWindow, earliest, narrowest) \
  (((n) > 0 && (tHigh) - (tLow) > (narrowest) && FEC_MINWINDOW_VISIBLE(tLow, tHigh, minWindow)) ==> FEC_INSIDE(tLow, earliest, tHigh))
#endif
