/* C22 contracts, part 1: sign classification (Event.h, Scalar.h) and root estimate (IntegratorRep.h).
   Included after the cut `enum Trigger` and before the cut function bodies. */
#define NN(x) (!__CPROVER_isnand(x))
#define FIN(x) (!__CPROVER_isnand(x) && !__CPROVER_isinfd(x))

/* abstract view of EventTriggerInfo(Rep): the three fields the integrator reads */
struct EventTriggerInfo { bool triggerOnRising; bool triggerOnFalling; Real localizationWindow; int eventId; };

/* SimTK::sign(const double&) */
int sign(Real x)
__CPROVER_assigns()
__CPROVER_ensures(__CPROVER_return_value == (x > 0 ? 1 : (x < 0 ? -1 : 0)))
;
/* Event::classifyTransition: from the property, a trigger "changed sign in a direction":
   falling = was strictly positive, is not any more; rising = was strictly negative, is not any more;
   transitions away from exactly zero are not events */
Trigger classifyTransition(int before, int after)
__CPROVER_requires(-1 <= before && before <= 1 && -1 <= after && after <= 1)
__CPROVER_assigns()
__CPROVER_ensures((__CPROVER_return_value == Falling) == (before == 1 && after <= 0))
__CPROVER_ensures((__CPROVER_return_value == Rising) == (before == -1 && after >= 0))
__CPROVER_ensures(__CPROVER_return_value == Falling || __CPROVER_return_value == Rising || __CPROVER_return_value == NoEventTrigger)
;
Trigger maskTransition(Trigger transition, Trigger mask)
__CPROVER_requires(0 <= (int)transition && (int)transition <= 3 && 0 <= (int)mask && (int)mask <= 3)
__CPROVER_assigns()
__CPROVER_ensures(__CPROVER_return_value == (Trigger)((int)transition & (int)mask))
;
/* EventTriggerInfo::calcTransitionMask: "monitored direction" */
Trigger calcTransitionMask(const struct EventTriggerInfo* self)
__CPROVER_requires(__CPROVER_is_fresh(self, sizeof(*self)))
__CPROVER_requires((self->triggerOnRising == 0 || self->triggerOnRising == 1) && (self->triggerOnFalling == 0 || self->triggerOnFalling == 1))   /* type invariant of bool */
__CPROVER_assigns()
__CPROVER_ensures((((int)__CPROVER_return_value & (int)Rising) != 0) == self->triggerOnRising)
__CPROVER_ensures((((int)__CPROVER_return_value & (int)Falling) != 0) == self->triggerOnFalling)
__CPROVER_ensures(0 <= (int)__CPROVER_return_value && (int)__CPROVER_return_value <= 3)
;
/* EventTriggerInfo::calcTransitionToReport: exactly one direction is reported, and it was seen */
Trigger calcTransitionToReport(const struct EventTriggerInfo* self, Trigger transitionSeen)
__CPROVER_requires(__CPROVER_is_fresh(self, sizeof(*self)))
__CPROVER_requires(1 <= (int)transitionSeen && (int)transitionSeen <= 3)
__CPROVER_assigns()
__CPROVER_ensures(__CPROVER_return_value == Rising || __CPROVER_return_value == Falling)
__CPROVER_ensures(((int)__CPROVER_return_value & (int)transitionSeen) != 0)
;

/* ---- trusted IEEE sign lemmas for the secant step of estimateRootTime (DESIGN 3.7): the quotient and the product of two
   symbolic doubles are out of reach of every back end. For finite fLow,fHigh of strictly opposite sign and bias > 0:
   0 <= fl(fHigh/(fHigh - fl(bias*fLow))) <= 1, and for 0<=x<=1, finite h>=0: 0 <= fl(x*h) <= h. ---- */
Real vf_secant_fraction(Real fHigh, Real fLow, Real bias)
__CPROVER_requires(FIN(fHigh) && FIN(fLow) && ((fHigh > 0 && fLow < 0) || (fHigh < 0 && fLow > 0)) && bias > 0)
__CPROVER_assigns()
__CPROVER_ensures(0.0 <= __CPROVER_return_value && __CPROVER_return_value <= 1.0)
;
Real vf_mul_unit(Real u, Real a)
__CPROVER_requires(0.0 <= u && u <= 1.0 && a >= 0.0 && !__CPROVER_isinfd(a))
__CPROVER_assigns()
__CPROVER_ensures(0.0 <= __CPROVER_return_value && __CPROVER_return_value <= a)
;

/* IntegratorRep::estimateRootTime. Preconditions = its four asserts (+ finite values).
   Property: the estimate lies in the bracket; strictly inside whenever the bracket is wider than the smallest allowable
   window minWindow and minWindow is at least the roundoff-level window the caller computes (SignificantReal*max(1,t),
   SignificantReal > 2^-50, so minWindow/2 is not absorbed when added to tLow or subtracted from tHigh; times >= 0). */
#define MINWINDOW_VISIBLE(tLow, tHigh, mw) ((tLow) >= 0.0 && (mw) >= 0x1p-50 && (tHigh) <= (mw) * 0x1p50)
Real estimateRootTime(Real tLow, Real fLow, Real tHigh, Real fHigh, Real bias, Real minWindow)
__CPROVER_requires(FIN(tLow) && FIN(tHigh) && FIN(fLow) && FIN(fHigh) && NN(bias) && FIN(minWindow))
__CPROVER_requires(tLow < tHigh && bias > 0 && minWindow > 0)
__CPROVER_requires(-1e300 <= tLow && tHigh <= 1e300)      /* tHigh-tLow must not overflow: with |t| ~ 1e308 the clamps return -inf */
__CPROVER_requires((fLow > 0 ? 1 : (fLow < 0 ? -1 : 0)) != (fHigh > 0 ? 1 : (fHigh < 0 ? -1 : 0)))
__CPROVER_assigns()
__CPROVER_ensures(tLow <= __CPROVER_return_value && __CPROVER_return_value <= tHigh)
__CPROVER_ensures((tHigh - tLow > minWindow && MINWINDOW_VISIBLE(tLow, tHigh, minWindow)) ==> (tLow < __CPROVER_return_value && __CPROVER_return_value < tHigh))
;

