/* C22: two clauses about AbstractIntegratorRep::stepTo that its C19 contract (specs/C19/contracts.h, read-only here) does not
   state and that the time stepper needs. Written ONCE: (a) enforced on the real stepTo body in unit stepto.supplement (wrapper
   stepTo_supplement_proof, same precondition STEPTO_PRE and frame as the C19 contract), (b) used by the time stepper unit as
   the contract of the lemma function stepTo_supplement called right after the (contract-replaced) stepTo.
     S0: the exception ghost flag is boolean (the C19 clauses are all conditioned on ghost_threw == 0 resp. == 1);
     S1: a scheduled-event return happens only when the scheduled time is strictly before the report time of the call (reports
         have priority): with reportTime = min(nextScheduledReport, time) and scheduledEventTime = min(nextScheduledEvent, time)
         this is what makes "handled exactly at t == nextScheduledEvent" follow (the min is not `time`). */
#define STEPTO_SUPPLEMENT(rv, reportTime, schedTime) \
  ( (ghost_threw == 0 || ghost_threw == 1) && ((ghost_threw == 0 && (rv) == ReachedScheduledEvent) ==> (schedTime) < (reportTime)) )
