/* C22 contracts, part 2: the event part of AbstractIntegratorRep::takeOneStep (everything after the step-acceptance loop),
   cut as a region and wrapped into takeOneStep_events(t0,t1,tReport). This IS the event half of the contract that C19 assumes
   for takeOneStep. Included after the accessors cut from IntegratorRep.h (shared with C19). */
#include "fec_abs.h"
#define NN(x)  (!__CPROVER_isnand(x))
#define FIN(x) (!__CPROVER_isnand(x) && !__CPROVER_isinfd(x))
#define ADV(s) ((s)->advancedState.t)
#define MINWINDOW_VISIBLE(tLow, tHigh, mw) ((tLow) >= 0.0 && (mw) >= 0x1p-50 && (tHigh) <= (mw) * 0x1p50)
#define INSIDE(lo, x, hi) ((lo) < (x) && (x) < (hi))

extern Real ghost_narrowest;     /* narrowestWindow delivered by the last findEventCandidates call */
extern int  ghost_triggered_n;   /* number of candidates handed to setTriggeredEvents */
extern int  ghost_prev_empty;    /* last findEventCandidates call narrowed a non-empty viable list to nothing ... */
extern Real ghost_prev_thigh;    /* ... on a bracket ending here */
#define SAME(a, b) ((a) == (b) || (__CPROVER_isnand(a) && __CPROVER_isnand(b)))

/* ---- dependencies by contract ---- */
int nEventTriggers(struct IntegratorRep* self) __CPROVER_requires(1) __CPROVER_assigns() __CPROVER_ensures(__CPROVER_return_value >= 0) ;
void realizeStateDerivatives(struct IntegratorRep* self, const struct State* s) __CPROVER_requires(1) __CPROVER_assigns() __CPROVER_ensures(1) ;
/* createInterpolatedState / backUpAdvancedStateByInterpolation: preconditions are the asserts of interpolateOrder3 resp. of
   backUpAdvancedStateByInterpolation itself; effect on the view: the time. ASSUMED (bodies are Vector algebra + projection). */
void createInterpolatedState(struct IntegratorRep* self, Real t)
__CPROVER_requires(self->tPrev < ADV(self) && self->tPrev <= t && t <= ADV(self))
__CPROVER_assigns(self->interpolatedState.t)
__CPROVER_ensures(self->interpolatedState.t == t)
;
void backUpAdvancedStateByInterpolation(struct IntegratorRep* self, Real t)
__CPROVER_requires(self->tPrev < ADV(self) && self->tPrev <= t && t <= ADV(self))
__CPROVER_assigns(self->advancedState.t)
__CPROVER_ensures(ADV(self) == t)
;
/* MinWindow = SignificantReal * max(1, tAdvanced): symbolic product -> trusted lemma (SignificantReal = eps^(7/8) ~ 2e-14
   > 2^-50; the product of a positive constant and x >= 1 is positive, finite for x <= 1e300, and x <= r * 2^50) */
Real vf_minwindow(Real x)
__CPROVER_requires(x >= 1.0 && x <= 1e300)
__CPROVER_assigns()
__CPROVER_ensures(__CPROVER_return_value >= 0x1p-50 && FIN(__CPROVER_return_value) && x <= __CPROVER_return_value * 0x1p50)
;
/* secant bias halving/doubling: ASSUMED to stay a positive finite double (it under/overflows only after > 1000 consecutive
   iterations on the same side, while every iteration shrinks the window by >= 10%) */
Real vf_bias_half(Real b)   __CPROVER_requires(b > 0 && FIN(b)) __CPROVER_assigns() __CPROVER_ensures(__CPROVER_return_value > 0 && FIN(__CPROVER_return_value)) ;
Real vf_bias_double(Real b) __CPROVER_requires(b > 0 && FIN(b)) __CPROVER_assigns() __CPROVER_ensures(__CPROVER_return_value > 0 && FIN(__CPROVER_return_value)) ;

/* findEventCandidates seen from takeOneStep: the Array_ payload is abstracted to the candidate COUNT (n = length of the
   delivered list, viable_n = length of the viable list handed in, -1 = none). The requires and the clauses (a)-(d) are the
   macros of fec_abs.h: the SAME text is proved as postconditions findEventCandidates.abs.a-d of the real findEventCandidates
   loop over its Array_/Vector payload in units fec.all / fec.narrow (specs/C22/fec_contracts.h), on top of estimateRootTime's
   contract: the list can only be narrowed; no candidate -> Infinity; the earliest estimate lies in the bracket, strictly inside
   when the bracket is wider than the localisation requirement; narrowestWindow >= minWindow. */
void findEventCandidates_v(struct IntegratorRep* self, Real tLow, Real tHigh, Real bias, Real minWindow, int viable_n,
                           int* n, Real* earliestTimeEst, Real* narrowestWindow)
__CPROVER_requires(FEC_ABS_REQUIRES_BRACKET(tLow, tHigh))      /* estimateRootTime's assert(tLow < tHigh) */
__CPROVER_requires(FEC_ABS_REQUIRES_PARAMS(bias, minWindow))   /* assert(bias > 0), assert(minWindow > 0) */
__CPROVER_requires(viable_n == -1 || viable_n > 0)
__CPROVER_assigns(*n, *earliestTimeEst, *narrowestWindow, ghost_narrowest, ghost_prev_empty, ghost_prev_thigh)
__CPROVER_ensures(FEC_ABS_NARROWED(*n, viable_n))
__CPROVER_ensures(FEC_ABS_EMPTY(*n, *earliestTimeEst, *narrowestWindow))
__CPROVER_ensures(FEC_ABS_BRACKET(*n, tLow, tHigh, minWindow, *earliestTimeEst, *narrowestWindow))
__CPROVER_ensures(FEC_ABS_STRICT(*n, tLow, tHigh, minWindow, *earliestTimeEst, *narrowestWindow))
__CPROVER_ensures(ghost_narrowest == *narrowestWindow)
/* split completeness (per-trigger sign lemma proved in unit event.split_lemma: a monitored transition over (a,c) that is not
   seen over (a,b) is seen over (b,c)): if the lower part (tLow,tMid] of a bracket with viable candidates had none, the upper
   part (tMid,tHigh] has one. ASSUMED link to the payload: the viable list is the candidate list of the enclosing bracket. */
__CPROVER_ensures((viable_n > 0 && __CPROVER_old(ghost_prev_empty) && tLow == __CPROVER_old(ghost_prev_thigh)) ==> *n > 0)
__CPROVER_ensures(ghost_prev_empty == (viable_n > 0 && *n == 0) && ghost_prev_thigh == tHigh)
;

/* ---- IntegratorRep::setTriggeredEvents (window bookkeeping part, real text; its assert is a proof obligation) ---- */
void setTriggeredEvents(struct IntegratorRep* self, Real tlo, Real thi, int n)
__CPROVER_requires(__CPROVER_is_fresh(self, sizeof(*self)))
__CPROVER_requires(self->tPrev <= tlo && tlo < thi && thi <= ADV(self) && n > 0)
__CPROVER_assigns(self->tLow, self->tHigh, ghost_triggered_n)
__CPROVER_ensures(self->tLow == tlo && self->tHigh == thi && ghost_triggered_n == n)
;

/* ---- the event part of takeOneStep ---- */
/* loop-head invariant of the localisation do-while (spliced by the extractor) */
#define LOC_INV \
  ( t0 <= tLow && tLow < tHigh && tHigh <= t1 && self->tPrev == t0 && ADV(self) == t1 \
    && eventCandidates_n > 0 && narrowestWindow >= MinWindow && ghost_narrowest == narrowestWindow \
    && tLow <= earliestTimeEst && earliestTimeEst <= tHigh \
    && (tHigh - tLow > narrowestWindow ==> INSIDE(tLow, earliestTimeEst, tHigh)) \
    && (tHigh - tLow > narrowestWindow || INSIDE(tLow, tReport, tHigh)) \
    && bias > 0 && FIN(bias) \
    && -1 <= sideTwoItersAgo && sideTwoItersAgo <= 1 && -1 <= sidePrevIter && sidePrevIter <= 1 )

bool takeOneStep_events(struct IntegratorRep* self, Real t0, Real t1, Real tReport)
__CPROVER_requires(__CPROVER_is_fresh(self, sizeof(*self)))
/* state after the step-acceptance loop: previous time t0, advanced state at t1 (attemptDAEStep by contract), t0 < t1 from the t1 block */
__CPROVER_requires(FIN(t0) && FIN(t1) && NN(tReport) && 0.0 <= t0 && t0 < t1 && t1 <= 1e300 && self->tPrev == t0 && ADV(self) == t1)
__CPROVER_assigns(self->advancedState.t, self->interpolatedState.t, self->tLow, self->tHigh, ghost_narrowest, ghost_triggered_n, ghost_prev_empty, ghost_prev_thigh)
/* C22: the reported window (tLow,tHigh] lies inside the step, tHigh is where the advanced state is left (backed up), */
__CPROVER_ensures(__CPROVER_return_value ==> (t0 <= self->tLow && self->tLow < self->tHigh && self->tHigh <= t1 && self->tHigh == ADV(self)))
/*      is no wider than the localisation tolerance (narrowest window required by a remaining candidate), has candidates, */
__CPROVER_ensures(__CPROVER_return_value ==> (self->tHigh - self->tLow <= ghost_narrowest && ghost_triggered_n > 0))
/*      C19: and never has the pending report time strictly inside */
__CPROVER_ensures(__CPROVER_return_value ==> !INSIDE(self->tLow, tReport, self->tHigh))
/* no event: the step stands as taken, window untouched */
__CPROVER_ensures(!__CPROVER_return_value ==> (ADV(self) == t1 && SAME(self->tLow, __CPROVER_old(self->tLow)) && SAME(self->tHigh, __CPROVER_old(self->tHigh))))
__CPROVER_ensures(self->tPrev == t0)
;
