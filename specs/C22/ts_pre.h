/* C22 contracts, part 4a (types, ghost call log, System entry points by contract): TimeStepperRep::stepTo (TimeStepper.cpp), the caller of the integrator.
   Included after the C19 head (pre.h, the status enums, the inline IntegratorRep accessors) and AFTER specs/C19/contracts.h:
   Integrator::stepTo and Integrator::reinitialize enter ONLY through the C19 contracts of AbstractIntegratorRep_stepTo and
   IntegratorRep_reinitialize declared there (no body of either is in this unit; dfcc --replace-call-with-contract), so every
   precondition of those contracts is a proof obligation of the time stepper (in particular C19's "reinitialize is called only
   in a HasBeenReturned / Final status", which C19 lists as assumed on this caller).

   View: TimeStepperRep = { Integrator* integ (seen as the IntegratorRep view of C19: the handle only forwards, the forwarders
   are cut from Integrator.cpp/Integrator.h), lastEventTime, lastReportTime, reportAllSignificantStates }; `system` is opaque:
   its five entry points are stubs with the contracts below (ASSUMED contracts on System; their bodies are dispatch loops over
   subsystems and handlers). Array_<EventId> values are abstracted to list TOKENS (int): IDS_EMPTY for `Array_<EventId>()`,
   IDS_TRIGGERED for the integrator's triggered-event list, and a fresh token per list delivered by
   calcTimeOfNextScheduledEvent (in [100,200)) / calcTimeOfNextScheduledReport (in [200,300)).

   Ghost call log (DESIGN 4 C22): the stubs record what the stepper is told (ts_nse, ts_nsr, list tokens), what it OWES after
   the integrator returned (ts_handle_owed: the cause of the handler call that is due, ts_report_owed) and whether a handler ran
   since the last reinitialize (ts_dirty). The property clauses become preconditions of the stubs (checked at each call:
   a handler/report call is legal only when it is owed, with the owed cause, list and time) plus the loop invariant / the
   postcondition "nothing owed, not dirty" (so nothing owed is ever skipped, and reinitialize follows every handler). */
struct TimeStepperRep {
    struct IntegratorRep* integ;
    bool reportAllSignificantStates;
    Real lastEventTime, lastReportTime;
};
struct HandleEventsResults { int m_exitStatus; int m_lowestModifiedStage; };
enum { IDS_EMPTY = 0, IDS_TRIGGERED = 1 };
typedef int EventIdList;     /* token of an Array_<EventId> value */

extern Real ts_time;                      /* the `time` argument of the running TimeStepperRep::stepTo */
extern Real ts_nse, ts_nsr;               /* times delivered by the last calcTimeOfNextScheduledEvent / ...Report */
extern int  ts_event_ids, ts_report_ids;  /* list tokens delivered with them */
extern int  ts_status;                    /* status returned by the last integ->stepTo */
extern int  ts_handle_owed;               /* 0, or the Event::Cause of the handler call that is due */
extern int  ts_report_owed;               /* 1: a scheduled report is due at the returned state */
extern int  ts_dirty;                     /* a handler ran and reinitialize has not been called since */
extern int  ts_results_stage, ts_results_status;   /* what that handler reported */
extern Real ts_event_done_t, ts_report_done_t;     /* time at which scheduled events / reports were last handled (-Infinity: never) */
extern unsigned ts_n_stepTo, ts_n_handle, ts_n_report, ts_n_reinit;   /* call counters */

#define TS_INTEG(self) ((self)->integ)
#define TS_T(self)     TRET(TS_INTEG(self))       /* integ->getTime() */

/* ---- System entry points BY CONTRACT (assumed) ---- */
void sys_realize(const struct TimeStepperRep* self, const struct State* s, int stage) __CPROVER_requires(1) __CPROVER_assigns() __CPROVER_ensures(1) ;

/* calcTimeOfNextScheduledEvent(state, tNext, ids, includeCurrentTime). Precondition = the property's "exactly once": the current
   time may be an answer exactly when the scheduled events of the current time have not been handled yet. Postcondition
   (ASSUMED): the answer is not in the past of the queried state, strictly later when the current time is excluded, and
   - schedule consistency, the assumption C19 makes on its caller - not before the time the integrator was already allowed
   to reach (that time was bounded by the previous answer). */
void sys_calcTimeOfNextScheduledEvent(const struct TimeStepperRep* self, const struct State* s, Real* tNext, EventIdList* ids, bool includeCurrentTime)
__CPROVER_requires(__CPROVER_r_ok(s, sizeof(*s)) && s->t == TS_T(self))
__CPROVER_requires(includeCurrentTime == (ts_event_done_t != s->t))
__CPROVER_assigns(*tNext, *ids, ts_nse, ts_event_ids)
__CPROVER_ensures(NN(*tNext) && *tNext >= TS_T(self) && (!includeCurrentTime ==> *tNext > TS_T(self)) && *tNext >= ADV(TS_INTEG(self)))
__CPROVER_ensures(ts_nse == *tNext && 100 <= *ids && *ids < 200 && ts_event_ids == *ids)
;
void sys_calcTimeOfNextScheduledReport(const struct TimeStepperRep* self, const struct State* s, Real* tNext, EventIdList* ids, bool includeCurrentTime)
__CPROVER_requires(__CPROVER_r_ok(s, sizeof(*s)) && s->t == TS_T(self))
__CPROVER_requires(includeCurrentTime == (ts_report_done_t != s->t))
__CPROVER_assigns(*tNext, *ids, ts_nsr, ts_report_ids)
__CPROVER_ensures(NN(*tNext) && *tNext >= TS_T(self) && (!includeCurrentTime ==> *tNext > TS_T(self)))
__CPROVER_ensures(ts_nsr == *tNext && 200 <= *ids && *ids < 300 && ts_report_ids == *ids)
;
/* reportEvents(state, cause, ids): legal only when a scheduled report is owed; it gets the returned state, exactly at the
   scheduled report time, with the list delivered together with that time. */
void sys_reportEvents(const struct TimeStepperRep* self, const struct State* s, int cause, EventIdList ids)
__CPROVER_requires(ts_report_owed == 1 && cause == Scheduled && ids == ts_report_ids)
__CPROVER_requires(__CPROVER_r_ok(s, sizeof(*s)) && s->t == TS_T(self) && s->t == ts_nsr)
__CPROVER_assigns(ts_report_owed, ts_report_done_t, ts_n_report)
__CPROVER_ensures(ts_report_owed == 0 && ts_report_done_t == TS_T(self) && ts_n_report == __CPROVER_old(ts_n_report) + 1u)
;
/* handleEvents(advancedState, cause, ids, opts, results): legal only when a handler call with this cause is owed, on the
   integrator's ADVANCED state, with the right list and at the right time:
     Scheduled   : the list delivered with nextScheduledEvent, at t == nextScheduledEvent exactly;
     Triggered   : the integrator's triggered-event list; the advanced state is at the top tHigh of the localised window
                   (tLow,tHigh] whose before-state tLow is the returned state ("at its localised time");
     TimeAdvanced, Termination : the empty list.
   Effect (ASSUMED): fills `results` with a valid status and the lowest modified stage; does not move time; the integrator's
   bookkeeping is untouched (frame). */
void sys_handleEvents(const struct TimeStepperRep* self, struct State* s, int cause, EventIdList ids, struct HandleEventsResults* results)
__CPROVER_requires(ts_handle_owed != 0 && cause == ts_handle_owed && ts_dirty == 0)
__CPROVER_requires(s == &TS_INTEG(self)->advancedState)
__CPROVER_requires(cause == Scheduled ==> (ids == ts_event_ids && ADV(TS_INTEG(self)) == ts_nse && TS_T(self) == ts_nse))
__CPROVER_requires(cause == Triggered ==> (ids == IDS_TRIGGERED && TS_T(self) == TS_INTEG(self)->tLow && ADV(TS_INTEG(self)) == TS_INTEG(self)->tHigh
                                            && TS_INTEG(self)->tLow < TS_INTEG(self)->tHigh))
__CPROVER_requires((cause == TimeAdvanced || cause == Termination) ==> ids == IDS_EMPTY)
__CPROVER_assigns(*results, ts_handle_owed, ts_dirty, ts_results_stage, ts_results_status, ts_event_done_t, ts_n_handle)
__CPROVER_ensures(results->m_exitStatus >= Succeeded && results->m_exitStatus <= Failed && results->m_lowestModifiedStage >= 0 && results->m_lowestModifiedStage <= 100)
__CPROVER_ensures(ts_handle_owed == 0 && ts_dirty == 1 && ts_results_stage == results->m_lowestModifiedStage && ts_results_status == results->m_exitStatus)
__CPROVER_ensures(ts_event_done_t == (cause == Scheduled ? TS_T(self) : __CPROVER_old(ts_event_done_t)) && ts_n_handle == __CPROVER_old(ts_n_handle) + 1u)
;
/* supplementary clauses of stepTo, proved on its real body in unit stepto.supplement (see stepto_supplement.h) */
#include "stepto_supplement.h"
void stepTo_supplement(SuccessfulStepStatus rv, Real reportTime, Real schedTime)
__CPROVER_requires(1) __CPROVER_assigns() __CPROVER_ensures(STEPTO_SUPPLEMENT(rv, reportTime, schedTime)) ;
/* IntegratorRep::getTriggeredEvents(): the rep's list, as a token */
EventIdList rep_getTriggeredEvents(const struct IntegratorRep* self) __CPROVER_requires(1) __CPROVER_assigns() __CPROVER_ensures(__CPROVER_return_value == IDS_TRIGGERED) ;

