/* Harnesses for the event unit */
void h_sign(void)      { Real x; sign(x); }
void h_classify(void)  { int a, b; classifyTransition(a, b); }
void h_mask(void)      { Trigger a, b; maskTransition(a, b); }
void h_calcmask(void)  { struct EventTriggerInfo* s; calcTransitionMask(s); }
void h_toreport(void)  { struct EventTriggerInfo* s; Trigger t; calcTransitionToReport(s, t); }
void h_root(void)      { Real a, b, c, d, e, f; estimateRootTime(a, b, c, d, e, f); }


/* The composition exactly as findEventCandidates applies it to one trigger (loop-free full-domain harness = complete proof
   over all doubles eLow,eHigh incl. NaN/inf and all four monitoring settings): property C22 "lists only events whose triggers
   actually changed sign in a monitored direction". */
void h_reported_transition(void) {
    Real eLow, eHigh; struct EventTriggerInfo info;
    Trigger seen = maskTransition(classifyTransition(sign(eLow), sign(eHigh)), calcTransitionMask(&info));
    bool falling = eLow > 0 && !(eHigh > 0) && info.triggerOnFalling;      /* was positive, is not any more (<= 0 or NaN) */
    bool rising  = eLow < 0 && !(eHigh < 0) && info.triggerOnRising;
    __CPROVER_assert((seen != NoEventTrigger) == (falling || rising), "a candidate is listed iff its trigger changed sign in a monitored direction");
    __CPROVER_assert(!(falling && rising), "never both directions");
    if (seen != NoEventTrigger) {
        Trigger rep = calcTransitionToReport(&info, seen);
        __CPROVER_assert((rep == Falling) == falling, "reported Falling iff positive -> non-positive and falling monitored");
        __CPROVER_assert((rep == Rising) == rising, "reported Rising iff negative -> non-negative and rising monitored");
    }
}

/* split lemma used by the localisation loop (full domain: 3x3x3 signs x 4 masks): a monitored transition over (a,c) that is
   not seen over (a,b) is seen over (b,c) */
void h_split_lemma(void) {
    Real ea, eb, ec; struct EventTriggerInfo info;
    Trigger m = calcTransitionMask(&info);
    if (maskTransition(classifyTransition(sign(ea), sign(ec)), m) != NoEventTrigger && maskTransition(classifyTransition(sign(ea), sign(eb)), m) == NoEventTrigger)
        __CPROVER_assert(maskTransition(classifyTransition(sign(eb), sign(ec)), m) != NoEventTrigger, "split lemma: the crossing is in the upper part");
}
