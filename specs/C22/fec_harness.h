/* Harnesses for the findEventCandidates units (event unit, after the cut function). */
int fec_nEvents; const struct EventTriggerInfo* fec_eti;
int fec_gi, fec_gp, fec_gi_e; bool fec_wide; bool fec_g_listed; int fec_g_pos, fec_g_src, fec_g_src_e, fec_g_wit; int fec_n0; Real fec_e0; Real fec_last_w, fec_g_w;
int nondet_int(void); Real nondet_real(void); bool nondet_bool(void);
/* ghosts defined at file scope are zero-initialised: make them free inputs */
static void fec_havoc_ghosts(void) {
  fec_nEvents = nondet_int(); fec_gi = nondet_int(); fec_gp = nondet_int(); fec_g_listed = nondet_bool(); fec_g_pos = nondet_int();
  fec_g_src = nondet_int(); fec_g_src_e = nondet_int(); fec_g_wit = nondet_int(); fec_n0 = nondet_int(); fec_e0 = nondet_real();
  fec_gi_e = nondet_int(); fec_wide = nondet_bool(); fec_last_w = nondet_real(); fec_g_w = nondet_real();
}

#ifdef FEC_PLAIN
/* the contracted callees of the loop in executable form (assert requires, nondet result, assume ensures) */
int idx_at(const struct IdxSeq* s, int i)
{ __CPROVER_assert(0 <= i && i < s->n, "Array_::operator[] index in range"); int r = s->data[i]; __CPROVER_assume(0 <= r && r < fec_nEvents); return r; }
Real vec_get(const struct Vector* v, int k)
{ __CPROVER_assert(0 <= k && k < v->n, "Vector::operator[] index in range"); Real r = v->data[k]; __CPROVER_assume(FIN(r)); return r; }
Real vf_mul3(Real a, Real b, Real c) { Real r = nondet_real(); fec_last_w = r; return r; }
Real estimateRootTime_model(Real tLow, Real fLow, Real tHigh, Real fHigh, Real bias, Real minWindow) {
  __CPROVER_assert(FIN(tLow) && FIN(tHigh) && FIN(fLow) && FIN(fHigh) && NN(bias) && FIN(minWindow) && tLow < tHigh && bias > 0 && minWindow > 0,
                   "estimateRootTime precondition: finite bracket tLow < tHigh, bias > 0, minWindow > 0");
  __CPROVER_assert((fLow > 0 ? 1 : (fLow < 0 ? -1 : 0)) != (fHigh > 0 ? 1 : (fHigh < 0 ? -1 : 0)), "estimateRootTime precondition: sign(fLow) != sign(fHigh)");
  Real r = nondet_real();
  __CPROVER_assume(tLow <= r && r <= tHigh && ((tHigh - tLow > minWindow && MINWINDOW_VISIBLE(tLow, tHigh, minWindow)) ==> (tLow < r && r < tHigh)));
  return r;
}
/* ---- UNBOUNDED units: the real loop in base/havoc/step form (findEventCandidates__ind) on storage of SYMBOLIC size; the
   clauses of the contract are asserted one by one after the call (the code behind the loop runs under invariant && !cond).
   useViable selects the two uses of the function in takeOneStep: 0 = all nEvents triggers, 1 = narrowing a viable list. ---- */
void* malloc(__CPROVER_size_t);
#ifdef FEC_COVER
#define FEC_COVER_POINT(c) __CPROVER_cover(c)
#else
#define FEC_COVER_POINT(c)
#endif
static void fec_induction(const bool useViable) {
  struct IntegratorRep S; const struct IntegratorRep* self = &S;
  const int nEvents = nondet_int(), nv = nondet_int();
  const Real tLow = nondet_real(), tHigh = nondet_real(), bias = nondet_real(), minWindow = nondet_real();
  fec_havoc_ghosts();
  __CPROVER_assume(0 <= nEvents && nEvents < 100000 && 0 <= nv && nv < 100000 && FEC_ABS_REQUIRES(tLow, tHigh, bias, minWindow));
  fec_nEvents = nEvents;
  fec_eti = malloc(sizeof(struct EventTriggerInfo) * (unsigned long)(nEvents + 1));
  struct Vector lo = { malloc(sizeof(Real) * (unsigned long)(nEvents + 1)), nEvents }, hi = { malloc(sizeof(Real) * (unsigned long)(nEvents + 1)), nEvents };
  const struct Vector *eLow = &lo, *eHigh = &hi;
  struct IdxSeq vi = { malloc(sizeof(int) * (unsigned long)(nv + 1)), nv, nv }; struct TrigSeq vt = { 0, nv, nv };
  const struct IdxSeq* viable = useViable ? &vi : 0;
  const int nCand = useViable ? nv : nEvents;
  struct IdxSeq cs = { malloc(sizeof(int) * (unsigned long)(nCand + 1)), nondet_int(), nCand }; struct IdxSeq* candidates = &cs;
  struct RealSeq ts = { malloc(sizeof(Real) * (unsigned long)(nCand + 1)), nondet_int(), nCand }; struct RealSeq* timeEstimates = &ts;
  struct TrigSeq rs = { malloc(sizeof(Trigger) * (unsigned long)(nCand + 1)), nondet_int(), nCand }; struct TrigSeq* transitions = &rs;
  Real er = nondet_real(), nw = nondet_real(); Real *earliestTimeEst = &er, *narrowestWindow = &nw;
  /* definitions of the ghost constants; for the ghost position this includes the pointwise instance of the assumed invariant
     "a viable index is a trigger index" (see idx_at) */
  __CPROVER_assume(FEC_GHOST_CONSTANTS(viable, nCand));
  findEventCandidates__ind(self, nEvents, viable, useViable ? &vt : 0, tLow, eLow, tHigh, eHigh, bias, minWindow, candidates, timeEstimates, transitions, earliestTimeEst, narrowestWindow);
  /* vacuity guards (run with --cover): the exit of the loop is reachable under the invariant with the ghost positions in use */
  FEC_COVER_POINT(candidates->n > 2 && 0 <= fec_gi && fec_gi < nCand && fec_g_listed && fec_g_pos > 0 && 0 <= fec_gp && fec_gp < candidates->n && fec_gp != fec_g_pos && fec_g_wit > 0);
  FEC_COVER_POINT(candidates->n == 0 && nCand > 3 && 0 <= fec_gi && fec_gi < nCand);
  FEC_COVER_POINT(candidates->n > 0 && fec_wide && 0 <= fec_gi && fec_gi < nCand && !fec_g_listed);
  __CPROVER_assert(FEC_F1(viable, nCand), "findEventCandidates.post.1: the three delivered lists have equal length, no longer than the examined list");
  __CPROVER_assert(FEC_F2(viable, nCand), "findEventCandidates.post.2: an examined position is delivered exactly when its trigger changed sign in a monitored direction, with its index, reported direction and an estimate in the bracket");
  __CPROVER_assert(FEC_F3(viable, nCand), "findEventCandidates.post.3: every delivered index comes from an examined position whose trigger changed sign, and is a trigger index");
  __CPROVER_assert(FEC_F4(viable, nCand), "findEventCandidates.post.4: candidates are delivered in the order of the examined list");
  __CPROVER_assert(FEC_F5(viable, nCand), "findEventCandidates.post.5: earliestTimeEst == min of the delivered estimates (attained, and below every delivered estimate; Infinity if none)");
  __CPROVER_assert(FEC_F6(viable, nCand), "findEventCandidates.post.6: minWindow <= narrowestWindow <= localisation requirement of every delivered candidate (Infinity if none)");
  /* the count abstraction through which the localisation loop sees this function (fec_abs.h) */
  __CPROVER_assert(FEC_ABS_NARROWED(candidates->n, useViable ? nv : -1), "findEventCandidates.abs.a: the list can only be narrowed");
  __CPROVER_assert(FEC_ABS_EMPTY(candidates->n, *earliestTimeEst, *narrowestWindow), "findEventCandidates.abs.b: no candidate -> Infinity, Infinity");
  __CPROVER_assert(FEC_ABS_BRACKET(candidates->n, tLow, tHigh, minWindow, *earliestTimeEst, *narrowestWindow), "findEventCandidates.abs.c: earliest estimate inside the bracket, narrowest window >= minWindow");
  __CPROVER_assert(FEC_ABS_STRICT(candidates->n, tLow, tHigh, minWindow, *earliestTimeEst, *narrowestWindow), "findEventCandidates.abs.d: earliest estimate strictly inside a bracket wider than the localisation requirement");
}
void h_fec_all(void)    { fec_induction(0); }
void h_fec_narrow(void) { fec_induction(1); }

/* ---- bounded refutation companion (DESIGN 3.1a): the same real loop AS IT IS on concrete arrays of at most FEC_N triggers,
   unwound with unwinding assertions, compared with a reference scan written from the property text. Counterexamples here are
   concrete inputs. ---- */
#ifndef FEC_N
#define FEC_N 4
#endif
void h_fec_bounded(void) {
  struct IntegratorRep S; struct EventTriggerInfo eti[FEC_N]; Real lo[FEC_N], hi[FEC_N]; int vi[FEC_N]; Trigger vt[FEC_N];
  int oc[FEC_N]; Real ot[FEC_N]; Trigger otr[FEC_N];
  int nEvents = nondet_int(), nv = nondet_int(); bool useViable = nondet_bool();
  Real tLow = nondet_real(), tHigh = nondet_real(), bias = nondet_real(), minWindow = nondet_real(), earliest = nondet_real(), narrowest = nondet_real();
  fec_havoc_ghosts();
  __CPROVER_assume(0 <= nEvents && nEvents <= FEC_N && 0 <= nv && nv <= FEC_N && FEC_ABS_REQUIRES(tLow, tHigh, bias, minWindow));
  fec_nEvents = nEvents; fec_eti = eti;
  for (int j = 0; j < FEC_N; ++j) {      /* the assumed element invariants, for every element (bounded: a plain loop) */
    if (j < nv) __CPROVER_assume(0 <= vi[j] && vi[j] < nEvents);
    if (j < nEvents) __CPROVER_assume(FIN(lo[j]) && FIN(hi[j]));
  }
  struct Vector eLow = { lo, nEvents }, eHigh = { hi, nEvents };
  struct IdxSeq viable = { vi, nv, FEC_N }; struct TrigSeq viableT = { vt, nv, FEC_N };
  const int nCand = useViable ? nv : nEvents;
  struct IdxSeq cand = { oc, nondet_int(), nCand }; struct RealSeq times = { ot, nondet_int(), nCand }; struct TrigSeq trans = { otr, nondet_int(), nCand };
  findEventCandidates(&S, nEvents, useViable ? &viable : 0, useViable ? &viableT : 0, tLow, &eLow, tHigh, &eHigh, bias, minWindow, &cand, &times, &trans, &earliest, &narrowest);
  /* reference scan */
  int k = 0; Real mn = Infinity;
  for (int j = 0; j < FEC_N; ++j) if (j < nCand) {
    const int e = useViable ? vi[j] : j;
    const bool fall = lo[e] > 0 && !(hi[e] > 0) && eti[e].triggerOnFalling, rise = lo[e] < 0 && !(hi[e] < 0) && eti[e].triggerOnRising;
    if (fall || rise) {
      __CPROVER_assert(k < cand.n && oc[k] == e, "bounded: candidates are exactly the examined triggers that changed sign in a monitored direction, in order");
      __CPROVER_assert(k < trans.n && otr[k] == (fall ? Falling : Rising), "bounded: reported direction of each candidate");
      __CPROVER_assert(k < times.n && tLow <= ot[k] && ot[k] <= tHigh, "bounded: each estimate inside the bracket");
      if (k < FEC_N && ot[k] < mn) mn = ot[k];
      ++k;
    }
  }
  __CPROVER_assert(cand.n == k && times.n == k && trans.n == k, "bounded: the three lists have equal length == number of triggered candidates");
  __CPROVER_assert(earliest == mn, "bounded: earliestTimeEst == min of the estimates (Infinity if none)");
  __CPROVER_assert(k == 0 ? narrowest == Infinity : narrowest >= minWindow, "bounded: narrowestWindow >= minWindow (Infinity if none)");
}
#endif

/* reachability behind the preconditions and the assumed element invariants */
#ifndef FEC_COVER
void h_fec_cover(void) {
  int nEvents = nondet_int(), nv = nondet_int(), n = nondet_int(); Real tLow = nondet_real(), tHigh = nondet_real(), bias = nondet_real(), minWindow = nondet_real();
  fec_havoc_ghosts();
  __CPROVER_assume(0 <= nEvents && nEvents < 100000 && fec_nEvents == nEvents && 0 <= nv && nv < 100000 && FEC_ABS_REQUIRES(tLow, tHigh, bias, minWindow));
  __CPROVER_assume(0 <= n && n <= nv);
  __CPROVER_cover(0 <= fec_gi && fec_gi < nv && fec_gi > 2 && 0 <= fec_gp && fec_gp < n && fec_gp > 1);
  __CPROVER_cover(nEvents == 0);
  __CPROVER_cover(tHigh - tLow > minWindow && MINWINDOW_VISIBLE(tLow, tHigh, minWindow));
  __CPROVER_cover(!(tHigh - tLow > minWindow));
}
#endif
