/* C22 contracts, part 5: System::Guts::calcTimeOfNextScheduledEventImpl / calcTimeOfNextScheduledReportImpl (System.cpp): the scan over
   the subsystems that delivers the time of the next scheduled event and the ids to handle then. Property C22: "a time stepper
   invokes ... every scheduled or periodic handler exactly at its scheduled times": the delivered time is the MINIMUM of the
   subsystems' times and the delivered ids are EXACTLY the concatenation, in subsystem order, of the id lists of the subsystems whose
   time equals that minimum - nothing from a subsystem with a later time (finding F9: the ids of a later-scheduled event of an
   earlier subsystem were not cleared; fixed by 710e963f).

   Containers by contract: Array_<EventId> = (data, n) over storage of ARBITRARY symbolic capacity; push_back always counts, and
   stores when the position is inside the storage (the clauses are about positions inside it; the capacity is arbitrary, so they
   hold for every position). The per-subsystem call sub.calcTimeOfNextScheduledEvent(s, time, ids, includeCurrentTime) is a stub
   (ASSUMED: delivers a non-NaN time and some id list); for the GHOST subsystem sch_gsx it delivers the ghost constants sch_gT
   (time), sch_gM (list length) and, at the ghost position sch_gk, the id sch_gID - so "the result of subsystem j" is a function of j.
   Ghost positions: (sch_gsx, sch_gk) an arbitrary (subsystem, position in its list), sch_gp an arbitrary position of the delivered
   list; recorded by the hooks: sch_pos (where (gsx,gk) was delivered), (sch_src_sx, sch_src_k) (which pair produced position gp),
   sch_wit (a subsystem whose time is the delivered time). */
struct EidSeq { int* data; long n; long cap; };       /* Array_<EventId> */
struct SystemGuts { int opaque; };

extern int  sch_N;                                    /* getNumSubsystems() */
extern int  sch_gsx; extern long sch_gk, sch_gM; extern Real sch_gT; extern int sch_gID; extern long sch_gp;      /* ghost constants (free) */
extern long sch_pos, sch_src_k, sch_base; extern int sch_src_sx, sch_wit;                                        /* recorded by the hooks */
extern struct EidSeq sch_ids_storage;                 /* backing store of the local `Array_<EventId> ids` */
int nondet_int(void); long nondet_long(void); Real nondet_real(void);

static long eid_size(const struct EidSeq* s) { return s->n; }
static void eid_clear(struct EidSeq* s) { s->n = 0; }
static void eid_push(struct EidSeq* s, int x) { __CPROVER_assert(s->n >= 0, "Array_::push_back: size is non-negative"); if (s->n < s->cap) s->data[s->n] = x; s->n = s->n + 1; }
static int  eid_at(const struct EidSeq* s, long i) { __CPROVER_assert(0 <= i && i < s->n, "Array_::operator[] index in range"); return i < s->cap ? s->data[i] : nondet_int(); }
static int  getNumSubsystems(const struct SystemGuts* self) { return sch_N; }
/* sub.calcTimeOfNextScheduledEvent(s, time, ids, includeCurrentTime) for subsystem sx: executable contract */
static void sub_calcTimeOfNext(const struct SystemGuts* self, int sx, Real* time, struct EidSeq* ids, bool includeCurrentTime) {
  __CPROVER_assert(0 <= sx && sx < sch_N, "subsystems[sx]: index in range");
  __CPROVER_havoc_object(ids->data);
  Real t = nondet_real(); long m = nondet_long();
  __CPROVER_assume(!__CPROVER_isnand(t) && 0 <= m && m < 100000);
  if (sx == sch_gsx) { t = sch_gT; m = sch_gM; if (0 <= sch_gk && sch_gk < m && sch_gk < ids->cap) ids->data[sch_gk] = sch_gID; }
  *time = t; ids->n = m;
}

#define SCH_LEXLT(a, b, c, d) ((a) < (c) || ((a) == (c) && (b) < (d)))
#define SCH_IN(p, s) (0 <= (p) && (p) < (s)->n && (p) < (s)->cap)      /* a position of the list that is inside the storage */
/* facts about the subsystems [0,upto) and the delivered positions [0,below) */
/* (1) the delivered time is a lower bound of every examined subsystem's time ... */
#define SCH_LB(upto) \
  ( !__CPROVER_isnand(*tNextEvent) && eventIds->n >= 0 && ((0 <= sch_gsx && sch_gsx < (upto)) ==> *tNextEvent <= sch_gT) )
/* (2) ... attained by subsystem sch_wit (Infinity and nothing delivered when no subsystem was examined) */
#define SCH_ATTAINED(upto) \
  ( ((upto) == 0 ==> (*tNextEvent == Infinity && eventIds->n == 0)) \
    && ((upto) > 0 ==> (0 <= sch_wit && sch_wit < (upto) && (sch_wit == sch_gsx ==> *tNextEvent == sch_gT))) )
#define SCH_IDS(upto, below) \
  ( /* (3) every id of an examined subsystem whose time IS the delivered time is delivered (at sch_pos) */ \
    ((0 <= sch_gsx && sch_gsx < (upto) && sch_gT == *tNextEvent && 0 <= sch_gk && sch_gk < sch_gM) ==> \
          (0 <= sch_pos && sch_pos < (below) && (sch_pos < eventIds->cap ==> eventIds->data[sch_pos] == sch_gID))) \
    /* (4) every delivered id comes from an examined subsystem whose time is the delivered time - NOTHING from a later one */ \
    && ((0 <= sch_gp && sch_gp < (below)) ==> \
          (0 <= sch_src_sx && sch_src_sx < (upto) && sch_src_k >= 0 \
           && (sch_src_sx == sch_gsx ==> (sch_gT == *tNextEvent && sch_src_k < sch_gM && ((sch_src_k == sch_gk && sch_gp < eventIds->cap) ==> eventIds->data[sch_gp] == sch_gID))))) \
    /* (5) in subsystem order, each list in its own order: (subsystem, position) -> delivered position is strictly increasing */ \
    && ((0 <= sch_gp && sch_gp < (below) && 0 <= sch_gsx && sch_gsx < (upto) && sch_gT == *tNextEvent && 0 <= sch_gk && sch_gk < sch_gM) ==> \
          (SCH_LEXLT(sch_src_sx, sch_src_k, sch_gsx, sch_gk) == (sch_gp < sch_pos) && (sch_src_sx == sch_gsx && sch_src_k == sch_gk) == (sch_gp == sch_pos))) )
#define SCH_FACTS(upto, below) (SCH_LB(upto) && SCH_ATTAINED(upto) && SCH_IDS(upto, below))

/* OUTER loop `for (SubsystemIndex sx(0); sx < getNumSubsystems(); ++sx)`: invariant at its head */
#define SCH_OUTER_INV (0 <= sx && sx <= sch_N && eventIds->n <= (long)sx * 100000L /* no overflow of the length: < 100000 ids per subsystem */ && SCH_FACTS(sx, eventIds->n))
/* INNER loop `for (int i = 0; i < (int)ids.size(); ++i) eventIds.push_back(ids[i]);` (subsystem sx's time is now the delivered time; sch_base
   = delivered length at its entry): up to sch_base as for the subsystems before sx (whose attained-witness is sx itself from now on), then
   the first i ids of subsystem sx */
#define SCH_INNER_INV \
  ( 0 <= sx && sx < sch_N && 0 <= i && i <= ids->n && eventIds->n == sch_base + i && sch_base >= 0 && sch_base <= (long)sx * 100000L && *tNextEvent == time \
    && SCH_LB(sx) && SCH_IDS(sx, sch_base) \
    && ((sx == sch_gsx && 0 <= sch_gk && sch_gk < i) ==> (sch_pos == sch_base + sch_gk && (sch_pos < eventIds->cap ==> eventIds->data[sch_pos] == sch_gID))) \
    && ((sch_base <= sch_gp && sch_gp < eventIds->n) ==> (sch_src_sx == sx && sch_src_k == sch_gp - sch_base \
          && ((sx == sch_gsx && sch_src_k == sch_gk && sch_gp < eventIds->cap) ==> eventIds->data[sch_gp] == sch_gID))) )

/* ghost hooks (assign ghost variables only) */
#define SCH_PUSH_HOOK(sx, i) { if ((sx) == sch_gsx && (i) == sch_gk) sch_pos = eventIds->n - 1; \
                               if (eventIds->n - 1 == sch_gp) { sch_src_sx = (sx); sch_src_k = (i); } }
#define SCH_OUTER_END(sx)    { if (*tNextEvent == time) sch_wit = (sx); }

#define SCH_HAVOC_RECORDED { sch_pos = nondet_long(); sch_src_k = nondet_long(); sch_src_sx = nondet_int(); sch_wit = nondet_int(); }
/* textual loop-contract transformation (see checks/_help_c18.py loop_to_induction): base, havoc of the assigns set, assume, step */
#define VF_LOOP_HEAD_SCHOUT() \
  __CPROVER_assert(SCH_OUTER_INV, "calcTimeOfNextScheduled.outer.loop_invariant_base"); \
  int* const vf_o_data = eventIds->data; const long vf_o_cap = eventIds->cap; \
  { sx = nondet_int(); *tNextEvent = nondet_real(); eventIds->n = nondet_long(); __CPROVER_havoc_object(eventIds->data); \
    ids->n = nondet_long(); __CPROVER_havoc_object(ids->data); sch_base = nondet_long(); SCH_HAVOC_RECORDED } \
  __CPROVER_assume(SCH_OUTER_INV); \
  const int vf_o_sx0 = sx;
#define VF_LOOP_STEP_SCHOUT() \
  __CPROVER_assert(0 <= sx && sx <= sch_N, "calcTimeOfNextScheduled.outer.loop_invariant_step (0) subsystem index in range"); \
  __CPROVER_assert(SCH_FACTS(sx, eventIds->n), "calcTimeOfNextScheduled.outer.loop_invariant_step: delivered time == min of the examined subsystems' times (attained) and delivered ids == exactly the concatenation, in order, of the id lists of the subsystems whose time equals it"); \
  __CPROVER_assert(eventIds->data == vf_o_data && eventIds->cap == vf_o_cap, "calcTimeOfNextScheduled.outer.loop_frame: storage not reseated"); \
  __CPROVER_assert(sx == vf_o_sx0 + 1 && vf_o_sx0 < sch_N, "calcTimeOfNextScheduled.outer.loop_decreases"); \
  __CPROVER_assume(0);
#define VF_LOOP_HEAD_SCHIN() \
  sch_base = eventIds->n; \
  __CPROVER_assert(SCH_INNER_INV, "calcTimeOfNextScheduled.inner.loop_invariant_base"); \
  { i = nondet_int(); eventIds->n = nondet_long(); __CPROVER_havoc_object(eventIds->data); sch_pos = nondet_long(); sch_src_k = nondet_long(); sch_src_sx = nondet_int(); } \
  __CPROVER_assume(SCH_INNER_INV); \
  const int vf_i_i0 = i;
#define VF_LOOP_STEP_SCHIN() \
  __CPROVER_assert(SCH_INNER_INV, "calcTimeOfNextScheduled.inner.loop_invariant_step: the first i ids of this subsystem are appended, in order, behind what was delivered before"); \
  __CPROVER_assert(i == vf_i_i0 + 1 && vf_i_i0 < ids->n, "calcTimeOfNextScheduled.inner.loop_decreases"); \
  __CPROVER_assume(0);
