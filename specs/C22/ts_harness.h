/* Harness, ghost definitions and reachability covers for the TimeStepperRep::stepTo unit. */
int  ghost_threw; unsigned ghost_steps; int ghost_stepped; Real ghost_t0; unsigned ghost_steps0; Real ghost_adv0; int ghost_scs0;
Real ghost_stepTo_report, ghost_stepTo_sched; int ghost_stepTo_calls;
Real ts_time, ts_nse, ts_nsr; int ts_event_ids, ts_report_ids, ts_status, ts_handle_owed, ts_report_owed, ts_dirty, ts_results_stage, ts_results_status;
Real ts_event_done_t, ts_report_done_t; unsigned ts_n_stepTo, ts_n_handle, ts_n_report, ts_n_reinit;
int nondet_int(void); Real nondet_real(void); unsigned nondet_unsigned(void);
/* ghosts defined at file scope are zero-initialised: make them free inputs */
static void ts_havoc_ghosts(void) {
  ghost_threw = nondet_int(); ghost_steps = nondet_unsigned(); ghost_stepped = nondet_int(); ghost_t0 = nondet_real(); ghost_steps0 = nondet_unsigned();
  ghost_adv0 = nondet_real(); ghost_scs0 = nondet_int();
  ts_time = nondet_real(); ts_nse = nondet_real(); ts_nsr = nondet_real(); ts_event_ids = nondet_int(); ts_report_ids = nondet_int(); ts_status = nondet_int();
  ts_handle_owed = nondet_int(); ts_report_owed = nondet_int(); ts_dirty = nondet_int(); ts_results_stage = nondet_int(); ts_results_status = nondet_int();
  ts_event_done_t = nondet_real(); ts_report_done_t = nondet_real();
  ts_n_stepTo = nondet_unsigned(); ts_n_handle = nondet_unsigned(); ts_n_report = nondet_unsigned(); ts_n_reinit = nondet_unsigned();
}
void h_timestepper(void) { struct TimeStepperRep* s; Real t; ts_havoc_ghosts(); TimeStepperRep_stepTo(s, t); }

/* reachability behind the precondition (class invariant of integrator + stepper) */
void h_ts_cover(void) {
  struct IntegratorRep I; struct TimeStepperRep S; struct TimeStepperRep* self = &S; Real time = nondet_real();
  S.integ = &I; ts_havoc_ghosts();
  __CPROVER_assume(NN(time) && TS_INV(self, time));
  __CPROVER_cover(SCS(&I) == CompletedInternalStepNoEvent && ADV(&I) == time);
  __CPROVER_cover(SCS(&I) == CompletedInternalStepWithEvent && I.useInterpolatedState && TRET(&I) < time);
  __CPROVER_cover(SCS(&I) == StepHasBeenReturnedWithEvent && I.useInterpolatedState);
  __CPROVER_cover(SCS(&I) == StepHasBeenReturnedNoEvent && ADV(&I) < time && S.lastEventTime == ADV(&I));
  __CPROVER_cover(SCS(&I) == FinalTimeHasBeenReturned);
  __CPROVER_cover(I.startOfContinuousInterval && S.reportAllSignificantStates);
}
