/* C22 contracts, part 3: the loop of IntegratorRep::findEventCandidates (IntegratorRep.h) over its Array_/Vector payload.
   Included in the event unit after the cut sign/classify/mask/... bodies and their contracts (event_contracts.h).

   Containers by contract (DESIGN 2.2 "container access -> contracted stub"): Array_<T> is a sequence (data, n) with a GHOST
   capacity (push_back never fails in the real container; here the caller provides room for one element per examined trigger
   and every push_back proves it stays inside); Vector is bounds-checked raw storage. Element access to the two INPUT payloads
   carries their (assumed) type invariants pointwise: a viable index is a trigger index in [0,nEvents) (this is what this very
   contract proves for the list it delivers, clause (3)), and witness values are finite.

   Quantifier-free encoding with ghost indices (DESIGN 3.1a): fec_gi is an ARBITRARY position of the examined list, fec_gp an
   ARBITRARY position of the delivered list; both are free inputs of the harness, so each clause below holds for all positions.
   The hooks FEC_ITER_BEGIN/END (pure ghost code: they assign ghost variables only; spliced by the extractor at the first and
   last position of the loop body, located by brace matching) record where position fec_gi was delivered (fec_g_listed,
   fec_g_pos), which examined position produced the delivered position fec_gp (fec_g_src) and which delivered position holds
   the earliest estimate (fec_g_wit). */
#include "fec_abs.h"

struct IdxSeq  { int*     data; int n; int cap; };    /* Array_<SystemEventTriggerIndex> */
struct RealSeq { Real*    data; int n; int cap; };    /* Array_<Real> */
struct TrigSeq { Trigger* data; int n; int cap; };    /* Array_<Event::Trigger> */
struct Vector  { const Real* data; int n; };          /* Vector (read only here) */

extern int fec_nEvents;                        /* number of event triggers == length of eLow, eHigh, eventTriggerInfo */
extern const struct EventTriggerInfo* fec_eti; /* IntegratorRep::eventTriggerInfo payload */
extern int  fec_gi, fec_gp;                    /* ghost positions (free) */
extern bool fec_g_listed; extern int fec_g_pos, fec_g_src, fec_g_src_e, fec_g_wit;   /* recorded by the hooks */
extern int  fec_n0; extern Real fec_e0;        /* per-iteration snapshots taken by FEC_ITER_BEGIN */
extern Real fec_last_w, fec_g_w;               /* localisation requirement (the abstracted product) of the last push / of position fec_gp */

/* ---- sequence operations (executable contracts: bounds are proof obligations) ---- */
static int  idx_size(const struct IdxSeq* s)   { return s->n; }
static int  trig_size(const struct TrigSeq* s) { return s->n; }
static void idx_clear(struct IdxSeq* s)   { s->n = 0; }
static void real_clear(struct RealSeq* s) { s->n = 0; }
static void trig_clear(struct TrigSeq* s) { s->n = 0; }
static void idx_push(struct IdxSeq* s, int x)       { __CPROVER_assert(0 <= s->n && s->n < s->cap, "Array_::push_back: room for one element per examined trigger"); s->data[s->n] = x; s->n = s->n + 1; }
static void real_push(struct RealSeq* s, Real x)    { __CPROVER_assert(0 <= s->n && s->n < s->cap, "Array_::push_back: room for one element per examined trigger"); s->data[s->n] = x; s->n = s->n + 1; }
static void trig_push(struct TrigSeq* s, Trigger x) { __CPROVER_assert(0 <= s->n && s->n < s->cap, "Array_::push_back: room for one element per examined trigger"); s->data[s->n] = x; s->n = s->n + 1; }
static Real real_back(const struct RealSeq* s)      { __CPROVER_assert(s->n > 0, "Array_::back() on a non-empty array"); return s->data[s->n - 1]; }
static const struct EventTriggerInfo* eti_at(const struct IntegratorRep* self, int e)
{ __CPROVER_assert(0 <= e && e < fec_nEvents, "eventTriggerInfo[e]: index in range"); return &fec_eti[e]; }

/* element of the viable list: ASSUMED type invariant "a viable index is a trigger index" (proved for every list this function
   itself delivers: clause (3)) */
int idx_at(const struct IdxSeq* s, int i)
__CPROVER_requires(__CPROVER_r_ok(s, sizeof(*s)) && 0 <= i && i < s->n)
__CPROVER_assigns()
__CPROVER_ensures(__CPROVER_return_value == s->data[i] && 0 <= __CPROVER_return_value && __CPROVER_return_value < fec_nEvents)
;
/* element of a witness-value Vector: bounds-checked; ASSUMED type invariant "event trigger values are finite" */
Real vec_get(const struct Vector* v, int k)
__CPROVER_requires(__CPROVER_r_ok(v, sizeof(*v)) && 0 <= k && k < v->n)
__CPROVER_assigns()
__CPROVER_ensures(__CPROVER_return_value == v->data[k] && FIN(__CPROVER_return_value))
;
/* accuracyInUse*timeScaleInUse*window: symbolic product -> ANY double (incl. NaN/inf): pure over-approximation, no lemma
   needed (narrowestWindow >= minWindow is carried by the max with minWindow alone). Ghost: the value is remembered in fec_last_w. */
Real vf_mul3(Real a, Real b, Real c) __CPROVER_requires(1) __CPROVER_assigns(fec_last_w) __CPROVER_ensures(fec_last_w == __CPROVER_return_value || (__CPROVER_isnand(fec_last_w) && __CPROVER_isnand(__CPROVER_return_value))) ;

/* ---- per-trigger specification (property text: "lists only events whose triggers actually changed sign in a monitored
   direction"): same predicates as in h_reported_transition ---- */
#define FEC_TRIG(viable, j)  ((viable) ? (viable)->data[j] : (j))                 /* trigger index examined at position j */
#define FEC_FALL(eLow, eHigh, e) ((eLow)->data[e] > 0 && !((eHigh)->data[e] > 0) && fec_eti[e].triggerOnFalling)
#define FEC_RISE(eLow, eHigh, e) ((eLow)->data[e] < 0 && !((eHigh)->data[e] < 0) && fec_eti[e].triggerOnRising)
#define FEC_LISTED(eLow, eHigh, e) (FEC_FALL(eLow, eHigh, e) || FEC_RISE(eLow, eHigh, e))
/* ghost CONSTANTS of one call (functions of the inputs only; the harness defines them before the call, nothing assigns them):
   fec_gi_e = trigger index examined at the ghost position fec_gi; fec_wide = "the bracket is wider than the roundoff window and
   the roundoff window is visible at these times" (the case in which estimateRootTime promises a strictly interior estimate).
   They keep conditional expressions out of array indices (CBMC's symex cost is exponential in those). */
extern int fec_gi_e; extern bool fec_wide;
#define FEC_GHOST_CONSTANTS(viable, nCand) \
  ( ((0 <= fec_gi && fec_gi < (nCand)) ==> (fec_gi_e == FEC_TRIG(viable, fec_gi) && 0 <= fec_gi_e && fec_gi_e < fec_nEvents)) \
    && fec_wide == (tHigh - tLow > minWindow && MINWINDOW_VISIBLE(tLow, tHigh, minWindow)) )
#define FEC_EST_OK(x) (tLow <= (x) && (x) <= tHigh && (fec_wide ==> FEC_INSIDE(tLow, x, tHigh)))

/* the facts about the delivered lists, at loop head `upto` (== number of examined positions) and at exit (upto == nCandidates);
   one macro per clause so that every clause is an obligation of its own */
/* (1) the three delivered lists have equal length, at most one element per examined position ("the list can only be narrowed") */
#define FEC_F1(viable, upto) \
  ( candidates->n == timeEstimates->n && timeEstimates->n == transitions->n && 0 <= candidates->n && candidates->n <= (upto) )
/* (2) position gi of the examined list is delivered exactly when its trigger changed sign in a monitored direction,
       with its own index, the direction to report and an estimate inside the bracket */
#define FEC_F2(viable, upto) \
  ((0 <= fec_gi && fec_gi < (upto)) ==> \
      ( fec_g_listed == FEC_LISTED(eLow, eHigh, fec_gi_e) \
        && (fec_g_listed ==> ( 0 <= fec_g_pos && fec_g_pos < candidates->n \
                               && candidates->data[fec_g_pos] == fec_gi_e \
                               && transitions->data[fec_g_pos] == (FEC_FALL(eLow, eHigh, fec_gi_e) ? Falling : Rising) \
                               && FEC_EST_OK(timeEstimates->data[fec_g_pos]) )) ))
/* (3) every delivered position comes from an examined position (fec_g_src, trigger index fec_g_src_e) whose trigger changed
       sign (so it is in [0,nEvents)) */
#define FEC_F3(viable, upto) \
  ((0 <= fec_gp && fec_gp < candidates->n) ==> \
      ( 0 <= fec_g_src && fec_g_src < (upto) && fec_g_src_e == FEC_TRIG(viable, fec_g_src) && candidates->data[fec_gp] == fec_g_src_e \
        && 0 <= fec_g_src_e && fec_g_src_e < fec_nEvents \
        && FEC_LISTED(eLow, eHigh, fec_g_src_e) && FEC_EST_OK(timeEstimates->data[fec_gp]) ))
/* (4) in order: the map examined position -> delivered position is strictly increasing */
#define FEC_F4(viable, upto) \
  ((0 <= fec_gp && fec_gp < candidates->n && 0 <= fec_gi && fec_gi < (upto) && fec_g_listed) ==> \
      ( (fec_g_src < fec_gi) == (fec_gp < fec_g_pos) && (fec_g_src == fec_gi) == (fec_gp == fec_g_pos) ))
/* (5) earliestTimeEst is the minimum of the delivered estimates: attained at fec_g_wit, below every position fec_gp */
#define FEC_F5(viable, upto) \
  ( (candidates->n == 0 ==> *earliestTimeEst == Infinity) \
    && (candidates->n > 0 ==> ( 0 <= fec_g_wit && fec_g_wit < candidates->n && timeEstimates->data[fec_g_wit] == *earliestTimeEst && FEC_EST_OK(*earliestTimeEst) )) \
    && ((0 <= fec_gp && fec_gp < candidates->n) ==> *earliestTimeEst <= timeEstimates->data[fec_gp]) )
/* (6) narrowestWindow is never below the roundoff window (Infinity if there is no candidate) and never wider than the localisation
       requirement of any delivered candidate (fec_g_w: the requirement accuracy*timeScale*window of position fec_gp, floored at minWindow) */
#define FEC_F6(viable, upto) \
  ( (candidates->n == 0 ==> *narrowestWindow == Infinity) && (candidates->n > 0 ==> *narrowestWindow >= minWindow) \
    && ((0 <= fec_gp && fec_gp < candidates->n && !__CPROVER_isnand(fec_g_w)) ==> *narrowestWindow <= (fec_g_w < minWindow ? minWindow : fec_g_w)) )
#define FEC_FACTS(viable, upto) \
  ( FEC_F1(viable, upto) && FEC_F2(viable, upto) && FEC_F3(viable, upto) && FEC_F4(viable, upto) && FEC_F5(viable, upto) && FEC_F6(viable, upto) )

/* ghost hooks */
#define FEC_ITER_BEGIN(i) { fec_n0 = candidates->n; fec_e0 = *earliestTimeEst; }
#define FEC_ITER_END(i)   { if ((i) == fec_gi) { fec_g_listed = (candidates->n > fec_n0); fec_g_pos = fec_n0; } \
                            if (candidates->n > fec_n0 && fec_n0 == fec_gp) { fec_g_src = (i); fec_g_src_e = FEC_TRIG(viableCandidates, i); fec_g_w = fec_last_w; } \
                            if (!(*earliestTimeEst == fec_e0)) fec_g_wit = timeEstimates->n - 1; }

/* ---- loop contract of `for (int i=0; i<nCandidates; ++i)`: invariant, assigns set, variant. The extractor turns the loop into
   the base/havoc/step form (textual loop-contract transformation, what goto-instrument --apply-loop-contracts does; dfcc on
   this unit does not finish: 18 fresh objects):
       { int i=0; VF_LOOP_HEAD_FEC()  if (i<nCandidates) { BODY ++i; VF_LOOP_STEP_FEC() } }                               ---- */
#define FEC_LOOP_INV  (0 <= i && i <= nCandidates && FEC_FACTS(viableCandidates, i))
int nondet_int(void); Real nondet_real(void); bool nondet_bool(void);
#define VF_LOOP_HEAD_FEC() \
  __CPROVER_assert(0 <= i && i <= nCandidates, "findEventCandidates.loop_invariant_base (0) 0 <= i <= nCandidates"); \
  __CPROVER_assert(FEC_F1(viableCandidates, i), "findEventCandidates.loop_invariant_base (1) equal lengths, at most one delivery per examined position"); \
  __CPROVER_assert(FEC_F2(viableCandidates, i), "findEventCandidates.loop_invariant_base (2) examined position delivered iff its trigger changed sign in a monitored direction (index, direction, estimate in bracket)"); \
  __CPROVER_assert(FEC_F3(viableCandidates, i), "findEventCandidates.loop_invariant_base (3) every delivered index comes from an examined position whose trigger changed sign"); \
  __CPROVER_assert(FEC_F4(viableCandidates, i), "findEventCandidates.loop_invariant_base (4) delivery preserves the order of the examined list"); \
  __CPROVER_assert(FEC_F5(viableCandidates, i), "findEventCandidates.loop_invariant_base (5) earliestTimeEst is the attained minimum of the delivered estimates"); \
  __CPROVER_assert(FEC_F6(viableCandidates, i), "findEventCandidates.loop_invariant_base (6) minWindow <= narrowestWindow <= localisation requirement of every delivered candidate"); \
  const struct IdxSeq vf_c0 = *candidates; const struct RealSeq vf_t0 = *timeEstimates; const struct TrigSeq vf_r0 = *transitions; \
  { /* havoc the assigns set: i, the three lengths and contents, the two scalar results, the ghosts */ \
    i = nondet_int(); candidates->n = nondet_int(); timeEstimates->n = nondet_int(); transitions->n = nondet_int(); \
    __CPROVER_havoc_object(candidates->data); __CPROVER_havoc_object(timeEstimates->data); __CPROVER_havoc_object(transitions->data); \
    *earliestTimeEst = nondet_real(); *narrowestWindow = nondet_real(); \
    fec_g_listed = nondet_bool(); fec_g_pos = nondet_int(); fec_g_src = nondet_int(); fec_g_src_e = nondet_int(); fec_g_wit = nondet_int(); fec_n0 = nondet_int(); fec_e0 = nondet_real(); fec_last_w = nondet_real(); fec_g_w = nondet_real(); } \
  __CPROVER_assume(FEC_LOOP_INV); \
  const int vf_i0 = i;
#ifdef FEC_COVER   /* vacuity guards (run with --cover): the end of the loop body is reachable under the invariant, with and without a push */
#define FEC_STEP_COVER __CPROVER_cover(candidates->n > fec_n0 && fec_n0 > 1 && vf_i0 == fec_gi); __CPROVER_cover(candidates->n == fec_n0 && vf_i0 == fec_gi); \
                       __CPROVER_cover(candidates->n > fec_n0 && fec_n0 == fec_gp && fec_gi < vf_i0 && fec_g_listed && !(*earliestTimeEst == fec_e0));
#else
#define FEC_STEP_COVER
#endif
#define VF_LOOP_STEP_FEC() \
  FEC_STEP_COVER \
  __CPROVER_assert(0 <= i && i <= nCandidates, "findEventCandidates.loop_invariant_step (0) 0 <= i <= nCandidates"); \
  __CPROVER_assert(FEC_F1(viableCandidates, i), "findEventCandidates.loop_invariant_step (1) equal lengths, at most one delivery per examined position"); \
  __CPROVER_assert(FEC_F2(viableCandidates, i), "findEventCandidates.loop_invariant_step (2) examined position delivered iff its trigger changed sign in a monitored direction (index, direction, estimate in bracket)"); \
  __CPROVER_assert(FEC_F3(viableCandidates, i), "findEventCandidates.loop_invariant_step (3) every delivered index comes from an examined position whose trigger changed sign"); \
  __CPROVER_assert(FEC_F4(viableCandidates, i), "findEventCandidates.loop_invariant_step (4) delivery preserves the order of the examined list"); \
  __CPROVER_assert(FEC_F5(viableCandidates, i), "findEventCandidates.loop_invariant_step (5) earliestTimeEst is the attained minimum of the delivered estimates"); \
  __CPROVER_assert(FEC_F6(viableCandidates, i), "findEventCandidates.loop_invariant_step (6) minWindow <= narrowestWindow <= localisation requirement of every delivered candidate"); \
  __CPROVER_assert(candidates->data == vf_c0.data && candidates->cap == vf_c0.cap && timeEstimates->data == vf_t0.data && timeEstimates->cap == vf_t0.cap \
                   && transitions->data == vf_r0.data && transitions->cap == vf_r0.cap, "findEventCandidates.loop_frame: storage and capacity of the lists not reseated"); \
  __CPROVER_assert(i == vf_i0 + 1 && vf_i0 < nCandidates, "findEventCandidates.loop_decreases: nCandidates - i decreases and is bounded below"); \
  __CPROVER_assume(0);
