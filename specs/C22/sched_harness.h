/* Harness and ghost definitions for the calcTimeOfNextScheduledEventImpl / ...ReportImpl units. */
int sch_N; int sch_gsx; long sch_gk, sch_gM; Real sch_gT; int sch_gID; long sch_gp; long sch_pos, sch_src_k, sch_base; int sch_src_sx, sch_wit;
struct EidSeq sch_ids_storage;
void* malloc(__CPROVER_size_t);
#ifdef SCH_COVER
#define SCH_COVER_POINT(c) __CPROVER_cover(c)
#else
#define SCH_COVER_POINT(c)
#endif
static void sched_harness(int (*fn)(const struct SystemGuts*, const struct State*, Real*, struct EidSeq*, bool)) {
  struct SystemGuts G; struct State S; bool inc = nondet_int() != 0;
  /* ghosts are free inputs */
  sch_N = nondet_int(); sch_gsx = nondet_int(); sch_gk = nondet_long(); sch_gM = nondet_long(); sch_gT = nondet_real(); sch_gID = nondet_int(); sch_gp = nondet_long();
  sch_pos = nondet_long(); sch_src_k = nondet_long(); sch_base = nondet_long(); sch_src_sx = nondet_int(); sch_wit = nondet_int();
  /* the per-subsystem list `ids` holds < 100000 ids (stub contract): its backing store has room for all of them; the delivered list has ARBITRARY capacity */
  const long capI = nondet_long(), capE = nondet_long();
  __CPROVER_assume(0 <= sch_N && sch_N < 100000 && 100000 <= capI && capI < 1000000 && 0 <= capE && capE < 1000000);
  /* type invariant of the ghost subsystem's result (what the stub delivers for it): non-NaN time, a list length */
  __CPROVER_assume(!__CPROVER_isnand(sch_gT) && 0 <= sch_gM && sch_gM < 100000);
  sch_ids_storage.data = malloc(sizeof(int) * (unsigned long)(capI + 1)); sch_ids_storage.n = nondet_long(); sch_ids_storage.cap = capI;
  struct EidSeq out = { malloc(sizeof(int) * (unsigned long)(capE + 1)), nondet_long(), capE }; struct EidSeq* eventIds = &out;
  Real tn = nondet_real(); Real* tNextEvent = &tn;
  fn(&G, &S, tNextEvent, eventIds, inc);
  SCH_COVER_POINT(sch_N > 3 && eventIds->n > 2 && 0 <= sch_gsx && sch_gsx < sch_N && sch_gT == *tNextEvent && sch_gk > 0 && sch_gk < sch_gM && sch_pos < capE && 0 <= sch_gp && sch_gp < eventIds->n && sch_gp != sch_pos && sch_src_sx != sch_gsx && sch_gp < capE);
  SCH_COVER_POINT(sch_N > 2 && 0 <= sch_gsx && sch_gsx < sch_N && sch_gT > *tNextEvent && sch_gM > 0 && eventIds->n > 0);
  SCH_COVER_POINT(sch_N == 0);
  __CPROVER_assert(SCH_LB(sch_N), "calcTimeOfNextScheduled.post.1: the delivered time is <= the time of every subsystem");
  __CPROVER_assert(SCH_ATTAINED(sch_N), "calcTimeOfNextScheduled.post.2: the delivered time is the time of some subsystem (Infinity and no ids if there is none): it is the minimum");
  __CPROVER_assert(SCH_IDS(sch_N, eventIds->n), "calcTimeOfNextScheduled.post.3-5: the delivered ids are exactly the concatenation, in subsystem order, of the id lists of the subsystems whose time equals the delivered time (nothing from a subsystem with a later time)");
}
void h_sched_event(void)  { sched_harness(calcTimeOfNextScheduledEventImpl__ind); }
void h_sched_report(void) { sched_harness(calcTimeOfNextScheduledReportImpl__ind); }
