/* C22 contracts, part 4b: ghost shims, loop invariant and contract of TimeStepperRep::stepTo (see ts_pre.h). */
/* ---- ghost shims around the two integrator calls. They are the Integrator:: forwarders (one call each, checked against the
   real one-line bodies by the extractor rules `handle->rep forwarding`) plus ghost statements; the call inside is replaced by
   its C19 contract. ---- */
static inline SuccessfulStepStatus TS_stepTo(struct TimeStepperRep* self, Real reportTime, Real eventTime) {
    struct IntegratorRep* rep = self->integ;
    /* C22: "stepTo is called with min(nextScheduledReport,time) and min(nextScheduledEvent,time)" */
    __CPROVER_assert(reportTime == vf_min(ts_nsr, ts_time), "TimeStepper: integ->stepTo is called with reportTime == min(nextScheduledReport, time)");
    __CPROVER_assert(eventTime == vf_min(ts_nse, ts_time), "TimeStepper: integ->stepTo is called with scheduledEventTime == min(nextScheduledEvent, time)");
    /* C22: "later integration starts from the state the handlers produced" */
    __CPROVER_assert(ts_dirty == 0, "TimeStepper: reinitialize(lowestModified, shouldTerminate) was called after the last handler, before this stepTo");
    __CPROVER_assert(ts_handle_owed == 0 && ts_report_owed == 0, "TimeStepper: no handler or report call owed from the previous return is skipped");
    /* pin the entry snapshots the C19 contract speaks about (ghost) */
    ghost_threw = 0; ghost_stepped = 0; ghost_t0 = TRET(rep); ghost_steps0 = ghost_steps; ghost_adv0 = ADV(rep); ghost_scs0 = SCS(rep);
    const SuccessfulStepStatus st = Integrator_stepTo(rep, reportTime, eventTime);      /* cut forwarder; the rep call inside is BY CONTRACT (C19) */
    stepTo_supplement(st, reportTime, eventTime);                                       /* lemma BY CONTRACT (unit stepto.supplement) */
    __CPROVER_assert(ghost_threw == 0, "TimeStepper: the integrator never refuses the step (stepTo is not called after the end of the simulation)");
    ts_n_stepTo = ts_n_stepTo + 1u; ts_status = st;
    ts_report_owed = (st == ReachedReportTime && TRET(rep) >= ts_nsr);
    ts_handle_owed = st == ReachedScheduledEvent ? Scheduled : st == TimeHasAdvanced ? TimeAdvanced : st == ReachedEventTrigger ? Triggered : st == EndOfSimulation ? Termination : 0;
    return st;
}
static inline void TS_reinitialize(struct TimeStepperRep* self, int stage, bool shouldTerminate) {
    __CPROVER_assert(ts_dirty == 1 && ts_handle_owed == 0, "TimeStepper: reinitialize follows a handler call");
    __CPROVER_assert(stage == ts_results_stage, "TimeStepper: reinitialize gets the lowest stage the handler modified");
    __CPROVER_assert((shouldTerminate != 0) == (ts_results_status == ShouldTerminate), "TimeStepper: reinitialize gets the handler's termination request");
    Integrator_reinitialize(self->integ, stage, shouldTerminate);      /* cut forwarder; the rep call inside is BY CONTRACT (C19) */
    ts_dirty = 0; ts_n_reinit = ts_n_reinit + 1u;
}

/* ---- TimeStepperRep::stepTo ---- */
/* what holds between two iterations of the loop and between two calls (class invariant of the stepper + integrator) */
#define TS_INV(self, time) \
  ( CINV(TS_INTEG(self)) && ADV(TS_INTEG(self)) <= (time) && (SCS(TS_INTEG(self)) != FinalTimeHasBeenReturned ==> TS_T(self) <= (time)) \
    && ts_dirty == 0 && ts_handle_owed == 0 && ts_report_owed == 0 && ghost_threw == 0 \
    && (self)->lastEventTime == ts_event_done_t && (self)->lastReportTime == ts_report_done_t && ts_time == (time) )
#define TS_ASSIGNS(self) \
  (self)->lastEventTime, (self)->lastReportTime, \
  TS_INTEG(self)->startOfContinuousInterval, TS_INTEG(self)->stepCommunicationStatus, TS_INTEG(self)->useInterpolatedState, TS_INTEG(self)->interpolatedState.t, \
  TS_INTEG(self)->advancedState.t, TS_INTEG(self)->tPrev, TS_INTEG(self)->tLow, TS_INTEG(self)->tHigh, TS_INTEG(self)->statsStepsTaken, TS_INTEG(self)->terminationReason, \
  TS_INTEG(self)->currentStepSize, TS_INTEG(self)->lastStepSize, TS_INTEG(self)->actualInitialStepSizeTaken, ghost_threw, ghost_steps, ghost_stepped, \
  ghost_t0, ghost_steps0, ghost_adv0, ghost_scs0, \
  ts_nse, ts_nsr, ts_event_ids, ts_report_ids, ts_status, ts_handle_owed, ts_report_owed, ts_dirty, ts_results_stage, ts_results_status, \
  ts_event_done_t, ts_report_done_t, ts_n_stepTo, ts_n_handle, ts_n_report, ts_n_reinit

SuccessfulStepStatus TimeStepperRep_stepTo(struct TimeStepperRep* self, Real time)
__CPROVER_requires(__CPROVER_is_fresh(self, sizeof(*self)) && __CPROVER_is_fresh(self->integ, sizeof(*self->integ)))
/* requests are not NaN and do not go back behind the integrator (any sequence of non-decreasing requests after initialize():
   the postcondition re-establishes ADV <= time) */
__CPROVER_requires(NN(time) && TS_INV(self, time))
__CPROVER_assigns(TS_ASSIGNS(self))
/* (0) invariant re-established: the clauses hold for any sequence of calls with non-decreasing times */
__CPROVER_ensures(TS_INV(self, time))
/* (1) the loop ends when the simulation is over or the requested time is reached (or, on request, at every significant state) */
__CPROVER_ensures(!self->reportAllSignificantStates ==>
                  ( (__CPROVER_return_value == ReachedReportTime && TS_T(self) == time)
                    || (__CPROVER_return_value == EndOfSimulation && SCS(TS_INTEG(self)) == FinalTimeHasBeenReturned) ))
__CPROVER_ensures(__CPROVER_return_value >= ReachedReportTime && __CPROVER_return_value <= StartOfContinuousInterval)
/* (2) never past the requested time (once the simulation is over, the C19 contract of reinitialize leaves the interpolation flag
       unspecified, so the returned time is pinned only while it is not over) */
__CPROVER_ensures(ADV(TS_INTEG(self)) <= time && (SCS(TS_INTEG(self)) != FinalTimeHasBeenReturned ==> TS_T(self) <= time))
;
