/* Sweep lemma harness: allocate, assume the preconditions, run the REAL sweep text against the kernel
   contracts, assert S1..S5. */
int ghost_k, ghost_n, g_m; int* g_owner;
Real g_post[8][3], g_seen[8];
int g_ratio_n; Real g_ratio_res; int g_sc_n; Real g_sc_x[4], g_sc_s[4], g_sc_r[4];
void* malloc(__CPROVER_size_t);
void h_sweep(void) {
  struct BigIdxArray part; struct Mat Am; struct RealArray rs; Real sor = nondet_real();
  struct UncondRT unconditional[1]; struct UniContactRT uniContact[2]; struct BoundedRT bounded[1];
  struct StateLtdFrictionRT stateLtdFriction[1]; struct ConstraintLtdFrictionRT consLtdFriction[1];
  int mUncond = nondet_int(), mUniCont = nondet_int(), mBounded = nondet_int(), mStateLtd = nondet_int(), mConsLtd = nondet_int(), D_n = nondet_int();
  g_m = nondet_int(); ghost_k = nondet_int(); ghost_n = nondet_int();      /* statics are zero-initialised in a plain harness */
  __CPROVER_assume(WF_M && g_m <= SWEEP_M_MAX); Am.m = g_m;
  /* stand-in storage: m is symbolic up to SWEEP_M_MAX, the vectors live in arrays of that capacity */
  Real pi[SWEEP_M_MAX], D[SWEEP_M_MAX], verrStart[SWEEP_M_MAX], piExpand[SWEEP_M_MAX]; int owner[SWEEP_M_MAX]; g_owner = owner;
  __CPROVER_assume(D_n == 0 || D_n == g_m);
  /* the bound of this stand-in */
  __CPROVER_assume(0 <= mUncond && mUncond <= 1 && 0 <= mUniCont && mUniCont <= 2 && 0 <= mBounded && mBounded <= 1 && 0 <= mStateLtd && mStateLtd <= 1 && 0 <= mConsLtd && mConsLtd <= 1);
  /* Concrete disjoint layout of the multiplier indices (sizes, values, types, signs stay symbolic): the sweep
     never computes with index values, so a layout stands for all its renamings.  owner: see pgs_sweep.h */
  { static const int own[SWEEP_M_MAX] = {1,1,1, 2,3, 4,4, 5,5, 6, 7,7,7, 8,8,8, 0}; __CPROVER_array_copy(owner, own); }
#define LAY(a, i0, i1, i2, gid) do { (a)->d[0] = i0; (a)->d[1] = i1; (a)->d[2] = i2; (a)->d[3] = (a)->d[4] = (a)->d[5] = i0; (a)->ghost_id = gid; } while (0)
  LAY(&unconditional[0].m_mults, 0, 1, 2, 7);
  uniContact[0].m_Nk = 3; uniContact[1].m_Nk = 4; LAY(&uniContact[0].m_Fk, 5, 6, 6, 0); LAY(&uniContact[1].m_Fk, 7, 8, 8, 1);
  bounded[0].m_ix = 9; LAY(&stateLtdFriction[0].m_Fk, 10, 11, 12, 2); LAY(&consLtdFriction[0].m_Fk, 13, 14, 15, 3);
  LAY(&consLtdFriction[0].m_Nk, 2, 0, 1, 6);                       /* normal components come from the unconditional set */
  __CPROVER_assume(g_m >= 17 && unconditional[0].m_mults.n <= 3 && uniContact[0].m_Fk.n <= 2 && uniContact[1].m_Fk.n <= 2);
  /* type invariants of the RT structs + disjoint index sets (owner map) + magnitudes <= 1e150 */
  __CPROVER_assume(SETOK(&unconditional[0].m_mults, 1, 7));
  __CPROVER_assume(UNI_OK(0, 2, 4, 0) && UNI_OK(1, 3, 5, 1));
  __CPROVER_assume(IDXOK(bounded[0].m_ix, 6) && bounded[0].m_lb <= bounded[0].m_ub);
  __CPROVER_assume(SETOK(&stateLtdFriction[0].m_Fk, 7, 2) && FRIC(&stateLtdFriction[0].m_Fk) && MU_OK(stateLtdFriction[0].m_effMu) && 0 <= stateLtdFriction[0].m_knownN && stateLtdFriction[0].m_knownN <= BIG);
  __CPROVER_assume(SETOK(&consLtdFriction[0].m_Fk, 8, 3) && FRIC(&consLtdFriction[0].m_Fk) && MU_OK(consLtdFriction[0].m_effMu));
  __CPROVER_assume(SETOK(&consLtdFriction[0].m_Nk, 1, 6) && FRIC(&consLtdFriction[0].m_Nk));
  __CPROVER_assume(0 <= ghost_k && ghost_k < g_m && 0 <= ghost_n && ghost_n < g_m);
  Real pi_old_k = pi[ghost_k];
#ifdef COVER   /* reachability guard: the assumptions admit the full configuration */
  __CPROVER_cover(mUniCont == 2 && uniContact[0].m_Fk.n == 2 && uniContact[1].m_Fk.n == 2 && mConsLtd == 1 && consLtdFriction[0].m_Nk.n == 3 && unconditional[0].m_mults.n == 3); return;
#endif

  pgs_sweep(&part, &Am, D, D_n, piExpand, verrStart, pi, unconditional, mUncond, uniContact, mUniCont, bounded, mBounded,
            stateLtdFriction, mStateLtd, consLtdFriction, mConsLtd, sor, &rs);

  __CPROVER_assert((mUniCont < 1 || NOPULL(0)) && (mUniCont < 2 || NOPULL(1)), "S1: at the end of the sweep no participating unilateral normal pulls; condition code consistent");
  __CPROVER_assert((mUniCont < 1 || FRIC_OK(0)) && (mUniCont < 2 || FRIC_OK(1)), "S2: contact friction is exactly what its projection produced and that projection saw the final normal");
  __CPROVER_assert(mBounded < 1 || (bounded[0].m_lb <= pi[bounded[0].m_ix] && pi[bounded[0].m_ix] <= bounded[0].m_ub
                  && (bounded[0].m_boundedCond == SlipHigh ==> pi[bounded[0].m_ix] == bounded[0].m_ub) && (bounded[0].m_boundedCond == SlipLow ==> pi[bounded[0].m_ix] == bounded[0].m_lb)),
                  "S3: bounded multiplier within its bounds at the end of the sweep; condition code consistent");
  __CPROVER_assert(mStateLtd < 1 || (STABLE(&stateLtdFriction[0].m_Fk) && (stateLtdFriction[0].m_frictionCond == Rolling || stateLtdFriction[0].m_frictionCond == Sliding)),
                  "S4a: state-limited friction set is as its projection left it");
  __CPROVER_assert(mConsLtd < 1 || (STABLE(&consLtdFriction[0].m_Fk) && (!IN_IDX(&consLtdFriction[0].m_Nk, ghost_n) || same_bits(pi[ghost_n], g_seen[3]))),
                  "S4b: constraint-limited friction set is as its projection left it and that projection saw the final normals");
  __CPROVER_assert(g_owner[ghost_k] != 0 || SAME(pi[ghost_k], pi_old_k), "S5: multipliers owned by no index set are never touched");
}
