/* Prelude for the M2 unit cut from Simbody/src/PGSImpulseSolver.cpp (C44).
   Only types and the dependency stubs live here; every function BODY under contract
   is cut from /repo on each run by checks/c44.py. */
#include <assert.h>
#include <math.h>
#include <stdbool.h>
typedef double Real;
typedef int MultiplierIndex;           /* SimTK unique-index type: an int with a distinct C++ type */

/* Container views (DESIGN 2.2 "container access"): the solver kernel only indexes and asks size().
   Array_<MultiplierIndex>/Array_<int> index sets of the RT structs hold at most 3 entries
   (constructor asserts m_Fk.size()<=3 && m_Nk.size()<=3; UniContactRT::m_Fk holds 0 or 2). */
enum { IDX_CAP = 6 };            /* UncondRT::m_mults: 1-6 multipliers (comment in PGSImpulseSolver.cpp) */
struct IdxArray { unsigned n; int d[IDX_CAP]; int ghost_id; };
struct Mat { int m; };                          /* SimTK::Matrix, entries only through Mat_get */
struct RealArray { int opaque; };               /* Array_<Real> rowSums scratch, opaque here   */
struct BigIdxArray { int opaque; };             /* `participating`, only handed to doRowSum(s) */
#define VEC_MAX 1000000

/* ---------------------------------------------------------------------------------------------
   Abstract arithmetic. Symbolic double*double, /, sqrt are out of reach of every back end here
   (README), so the extractor rewrites them to vf_* calls. Each vf_* is a dependency BY CONTRACT: a
   trusted IEEE-754 lemma (correct rounding is monotone and sign preserving) stated in its ensures.
   The lemma stubs also log their operands/results to ghost cells (pure bookkeeping) so that callers'
   contracts can say WHICH values were multiplied ("one common scale", "each component scaled once")
   with bit equalities only - recomputing float sums inside a contract makes SAT prove floating-point
   adder equivalence, which does not finish.  The contracts are listed in the evidence as assumptions.
   --------------------------------------------------------------------------------------------- */
/* bit identity (distinguishes +0/-0, equates a NaN with itself) */
static inline _Bool same_bits(double a, double b) { union { double d; unsigned long long u; } x, y; x.d = a; y.d = b; return x.u == y.u; }
#define NOTNAN(x)  (!__CPROVER_isnand(x))
#define FINITE(x)  (!__CPROVER_isnand(x) && !__CPROVER_isinfd(x))
#define BIG 1e150                       /* |x| <= BIG  ==>  x*x is finite (about 1e300 < DBL_MAX) */

extern int  g_ratio_n;  extern Real g_ratio_res;                       /* vf_sqrt_ratio log */
extern int  g_sc_n;     extern Real g_sc_x[4], g_sc_s[4], g_sc_r[4];    /* vf_scale log      */

#ifndef EXACT_SQ
/* square(x) = x*x : non-negative (possibly +inf) for non-NaN x, exactly 0 for x==0, finite for |x|<=1e150 */
double vf_sq(double x)
__CPROVER_assigns()
__CPROVER_ensures(NOTNAN(x) ==> __CPROVER_return_value >= 0.0)
__CPROVER_ensures(x == 0.0 ==> __CPROVER_return_value == 0.0)
__CPROVER_ensures((-BIG <= x && x <= BIG) ==> __CPROVER_return_value <= 1e301)
;
/* a*b : product of finite operands is not NaN, of non-negative finite operands non-negative; x*0 == 0 for finite x */
double vf_mul(double a, double b)
__CPROVER_assigns()
__CPROVER_ensures((FINITE(a) && FINITE(b)) ==> NOTNAN(__CPROVER_return_value))
__CPROVER_ensures((a >= 0.0 && b >= 0.0 && FINITE(a) && FINITE(b)) ==> __CPROVER_return_value >= 0.0)
__CPROVER_ensures((0.0 <= a && a <= BIG && 0.0 <= b && b <= BIG) ==> __CPROVER_return_value <= 1e301)
__CPROVER_ensures(((a == 0.0 && FINITE(b)) || (b == 0.0 && FINITE(a))) ==> __CPROVER_return_value == 0.0)
;
#else
/* bounded stand-in units: the real products (SimTK square(x) is x*x), decided by SAT on a small integer domain */
static inline double vf_sq(double x) { return x * x; }
static inline double vf_mul(double a, double b) { return a * b; }
#endif
/* a/b : no property used (doUpdate's frame does not depend on the value) */
double vf_div(double a, double b)
__CPROVER_requires(1)
__CPROVER_assigns()
__CPROVER_ensures(1)
;
/* sqrt(a/b) for 0 <= a < b (b may be +inf, a finite): lies in [0,1]  (fl(a/b) in [0,1] by monotone
   rounding, sqrt maps [0,1] into [0,1]). This is the comment `0 <= scale < 1` in the code.
   The REQUIRES is checked at the call site: scaling happens only when strictly outside, and never on NaN. */
double vf_sqrt_ratio(double a, double b)
__CPROVER_requires(0.0 <= a && a < b && !__CPROVER_isinfd(a))
__CPROVER_assigns(g_ratio_n, g_ratio_res)
__CPROVER_ensures(0.0 <= __CPROVER_return_value && __CPROVER_return_value <= 1.0)
__CPROVER_ensures(g_ratio_n == __CPROVER_old(g_ratio_n) + 1 && same_bits(g_ratio_res, __CPROVER_return_value))
;
/* x*s for 0 <= s <= 1 and finite x: magnitude does not grow, sign kept (or result is a zero) */
double vf_scale(double x, double s)
__CPROVER_requires(0.0 <= s && s <= 1.0 && FINITE(x) && 0 <= g_sc_n && g_sc_n < 4)
__CPROVER_assigns(g_sc_n, g_sc_x[g_sc_n], g_sc_s[g_sc_n], g_sc_r[g_sc_n])
__CPROVER_ensures(x >= 0.0 ==> (0.0 <= __CPROVER_return_value && __CPROVER_return_value <= x))
__CPROVER_ensures(x <= 0.0 ==> (x <= __CPROVER_return_value && __CPROVER_return_value <= 0.0))
__CPROVER_ensures(g_sc_n == __CPROVER_old(g_sc_n) + 1 && same_bits(g_sc_x[__CPROVER_old(g_sc_n)], x) && same_bits(g_sc_s[__CPROVER_old(g_sc_n)], s) && same_bits(g_sc_r[__CPROVER_old(g_sc_n)], __CPROVER_return_value))
;
/* Matrix element read A(r,c): pure, in range; value is whatever the matrix holds */
Real Mat_get(const struct Mat* A, int r, int c)
__CPROVER_requires(0 <= r && r < A->m && 0 <= c && c < A->m)
__CPROVER_assigns()
__CPROVER_ensures(1)
;
