/* Harnesses: one per function under contract (dfcc assumes the requires, checks assigns+ensures). */
int ghost_k, g_m;
int g_ratio_n; Real g_ratio_res; int g_sc_n; Real g_sc_x[4], g_sc_s[4], g_sc_r[4];
void h_boundUnilateral(void) { Real s; Real* p; boundUnilateral(s, p); }
void h_boundScalar(void)     { Real lb, ub; Real* p; boundScalar(lb, p, ub); }
void h_boundVector(void)     { Real L; struct IdxArray* IV; Real* pi; boundVector(L, IV, pi); }
void h_boundFriction(void)   { Real mu; struct IdxArray* IN; struct IdxArray* IF; Real* pi; boundFriction(mu, IN, IF, pi); }
void h_doUpdate(void)        { int row; struct Mat* A; Real* D; int Dn; Real* rhs; Real sor, rs; Real* pi; doUpdate(row, A, D, Dn, rhs, sor, rs, pi); }
void h_doUpdates(void)       { struct IdxArray* rows; struct Mat* A; Real* D; int Dn; Real* rhs; Real sor; struct RealArray* rs; Real* pi; doUpdates(rows, A, D, Dn, rhs, sor, rs, pi); }

#ifdef EXACT_SQ
/* ---- bounded stand-in: the REAL products (vf_sq(x) = x*x, vf_mul(a,b) = a*b, see pgs_pre.h) on a small
   integer domain, so that the condition code can be compared with the exact integer inequality.
   Plain harness (no contracts): sqrt/scale are nondeterministic here, only the decision is observed. */
double nondet_double(void);
int nondet_int(void);
double vf_sqrt_ratio(double a, double b) { return nondet_double(); }
double vf_scale(double x, double s) { return nondet_double(); }
static int small(int lo, int hi) { int v = nondet_int(); __CPROVER_assume(lo <= v && v <= hi); return v; }
void h_boundVector_exact(void) {
  int a[4], L = small(0, EXACT_RANGE * 2); unsigned n; struct IdxArray IV; Real pi[4], pi0[4];
  for (int j = 0; j < 4; j++) { a[j] = small(-EXACT_RANGE, EXACT_RANGE); pi0[j] = pi[j] = (Real)a[j]; }
  __CPROVER_assume(n <= 3 && WF_IDX(&IV, 4) && DISTINCT(&IV)); IV.n = n;
  enum FricCond r = boundVector((Real)L, &IV, pi);
  long norm2 = 0; for (unsigned j = 0; j < 3; j++) if (j < n) norm2 += (long)a[IV.d[j]] * a[IV.d[j]];
  __CPROVER_assert((r == Rolling) == (norm2 <= (long)L * L), "boundVector: Rolling <=> ||pi[IV]||^2 <= maxLen^2 (exact integers)");
  __CPROVER_assert(r == Rolling || r == Sliding, "boundVector: condition code is Rolling or Sliding");
  for (int j = 0; j < 4; j++) __CPROVER_assert(r != Rolling || pi[j] == pi0[j], "boundVector: unchanged when inside");
}
void h_boundFriction_exact(void) {
  int a[6], mu = small(0, 3); unsigned nN, nF; struct IdxArray IN, IF; Real pi[6], pi0[6];
  for (int j = 0; j < 6; j++) { a[j] = small(-EXACT_RANGE, EXACT_RANGE); pi0[j] = pi[j] = (Real)a[j]; }
  __CPROVER_assume(nN <= 3 && nF <= 3); IN.n = nN; IF.n = nF;
  for (int j = 0; j < 3; j++) { IN.d[j] = j; IF.d[j] = 3 + j; }      /* concrete index sets keep the instance small */
  enum FricCond r = boundFriction((Real)mu, &IN, &IF, pi);
  long N2 = 0, F2 = 0;
  for (unsigned j = 0; j < 3; j++) { if (j < nN) N2 += (long)a[IN.d[j]] * a[IN.d[j]]; if (j < nF) F2 += (long)a[IF.d[j]] * a[IF.d[j]]; }
  __CPROVER_assert((r == Rolling) == (F2 <= (long)mu * mu * N2), "boundFriction: Rolling <=> ||pi[IF]||^2 <= mu^2 ||pi[IN]||^2 (exact integers)");
  for (int j = 0; j < 6; j++) __CPROVER_assert(r != Rolling || pi[j] == pi0[j], "boundFriction: unchanged when inside");
}
#endif
