/* Harnesses: one per function under contract (dfcc assumes the requires, checks assigns+ensures). */
int ghost_k;
int g_ratio_n; Real g_ratio_res; int g_sc_n; Real g_sc_x[4], g_sc_s[4], g_sc_r[4];
void h_boundUnilateral(void) { Real s; Real* p; boundUnilateral(s, p); }
void h_boundScalar(void)     { Real lb, ub; Real* p; boundScalar(lb, p, ub); }
void h_boundVector(void)     { Real L; struct IdxArray* IV; struct Vec* pi; boundVector(L, IV, pi); }
void h_boundFriction(void)   { Real mu; struct IdxArray* IN; struct IdxArray* IF; struct Vec* pi; boundFriction(mu, IN, IF, pi); }
void h_doUpdate(void)        { int row; struct Mat* A; struct Vec* D; struct Vec* rhs; Real sor, rs; struct Vec* pi; doUpdate(row, A, D, rhs, sor, rs, pi); }
void h_doUpdates(void)       { struct IdxArray* rows; struct Mat* A; struct Vec* D; struct Vec* rhs; Real sor; struct RealArray* rs; struct Vec* pi; doUpdates(rows, A, D, rhs, sor, rs, pi); }
