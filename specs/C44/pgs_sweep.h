/* Sweep lemma (C44): contracts for the body of one PGS iteration, cut from PGSImpulseSolver::solve
   (region `Real sum2all = 0, sum2enf = 0;` ... up to `normRMSall = ...`) and wrapped as pgs_sweep().
   Verified against CONTRACT MODELS of doUpdate(s)/bound* (below), not their bodies; the pre/postconditions of the
   sweep itself are the assume/assert pairs of h_sweep (pgs_sweep_harness.h).
   BOUNDED STAND-IN: at most 1 unconditional set, 2 unilateral contacts, 1 bounded, 1 state-limited and
   1 constraint-limited friction element (loops over k fully unwound).  This header is included only with
   -DSWEEP_GHOST. */

/* abstract views of the run-time structs of ImpulseSolver.h: only the fields the sweep touches */
struct UncondRT     { struct IdxArray m_mults; };
struct UniContactRT { MultiplierIndex m_Nk; Real m_sign; struct IdxArray m_Fk; enum ContactType m_type; Real m_effMu;
                      enum UniCond m_contactCond; enum FricCond m_frictionCond; };
struct BoundedRT    { MultiplierIndex m_ix; Real m_lb, m_ub; enum BndCond m_boundedCond; };
struct StateLtdFrictionRT      { struct IdxArray m_Fk; Real m_knownN; Real m_effMu; enum FricCond m_frictionCond; };
struct ConstraintLtdFrictionRT { struct IdxArray m_Fk, m_Nk; Real m_effMu; enum FricCond m_frictionCond; };

/* ---------------------------------------------------------------------------------------------
   CONTRACT MODELS of the callees.  dfcc's --replace-call-with-contract on ~20 call sites of the unwound
   sweep does not finish (write-set machinery), so the sweep unit is a plain harness and each callee is the
   standard contract replacement written out:  assert(requires); havoc(assigns); assume(ensures).
   PRE/POST text is SHARED with the enforced contracts (BU_*, BS_*, BV_PRE, BF_PRE in pgs_contracts.h); for
   the vector projections the model keeps the frame, the condition-code range and "Rolling => unchanged",
   "components do not grow" from the enforced contract and records ghost snapshots.
   doUpdate/doUpdates additionally ASSUME the updated entries stay <= 1e150 in magnitude (well-posed
   subproblem; listed in the evidence as an assumption).
   --------------------------------------------------------------------------------------------- */
extern int ghost_n;                       /* watched multiplier index ("the normal of the contact we look at") */
extern Real g_post[8][3], g_seen[8];      /* per friction set: entries as the projection left them; pi[ghost_n] as it saw it */
int nondet_int(void); Real nondet_real(void);
#define RW_VEC(v) __CPROVER_rw_ok((v), sizeof(Real) * (unsigned long)g_m)

Real vf_mul(Real a, Real b) {             /* trusted product lemma, same clauses as the vf_mul contract in pgs_pre.h */
  Real r = nondet_real();
  __CPROVER_assume((FINITE(a) && FINITE(b)) ==> NOTNAN(r));
  __CPROVER_assume((a >= 0.0 && b >= 0.0 && FINITE(a) && FINITE(b)) ==> r >= 0.0);
  __CPROVER_assume(((a == 0.0 && FINITE(b)) || (b == 0.0 && FINITE(a))) ==> r == 0.0);
  return r;
}
Real doRowSum(const struct BigIdxArray* columns, MultiplierIndex row, const struct Mat* A, const Real* D, int D_n, const Real* pi) {
  __CPROVER_assert(0 <= row && row < g_m, "doRowSum precondition at call site: row in range");
  return nondet_real();                   /* reads only: every parameter is a const reference in the C++ source */
}
void doRowSums(const struct BigIdxArray* columns, const struct IdxArray* rows, const struct Mat* A, const Real* D, int D_n, const Real* pi, struct RealArray* sums) {
  __CPROVER_assert(WF_IDX(rows, g_m), "doRowSums precondition at call site: rows in range");
  sums->opaque = nondet_int();            /* assigns only *sums */
}
Real doUpdate(MultiplierIndex row, const struct Mat* A, const Real* D, int D_n, const Real* rhs, Real SOR, Real rowSum, Real* pi) {
  __CPROVER_assert(A->m == g_m && RW_VEC(pi) && RW_VEC(rhs) && RW_VEC(D) && (D_n == 0 || D_n == g_m) && 0 <= row && row < g_m, "doUpdate precondition at call site");
  pi[row] = nondet_real();                /* assigns pi[row] only (enforced contract: frame) */
  __CPROVER_assume(-BIG <= pi[row] && pi[row] <= BIG);        /* ASSUMED well-posedness */
  return nondet_real();
}
Real doUpdates(const struct IdxArray* rows, const struct Mat* A, const Real* D, int D_n, const Real* rhs, Real SOR, const struct RealArray* rowSums, Real* pi) {
  __CPROVER_assert(A->m == g_m && RW_VEC(pi) && RW_VEC(rhs) && RW_VEC(D) && (D_n == 0 || D_n == g_m) && WF_IDX(rows, g_m), "doUpdates precondition at call site");
  for (unsigned j = 0; j < IDX_CAP; j++) if (j < rows->n) { pi[rows->d[j]] = nondet_real(); __CPROVER_assume(-BIG <= pi[rows->d[j]] && pi[rows->d[j]] <= BIG); }
  return nondet_real();
}
enum UniCond boundUnilateral(Real sign, Real* pi) {
  __CPROVER_assert(BU_PRE(sign, *pi), "boundUnilateral precondition at call site");
  Real o = *pi; *pi = nondet_real(); enum UniCond r = (enum UniCond)nondet_int();
  __CPROVER_assume(BU_POST(r, sign, o, *pi));
  return r;
}
enum BndCond boundScalar(Real lb, Real* pi, Real ub) {
  __CPROVER_assert(BS_PRE(lb, *pi, ub), "boundScalar precondition at call site");
  Real o = *pi; *pi = nondet_real(); enum BndCond r = (enum BndCond)nondet_int();
  __CPROVER_assume(BS_POST(r, lb, o, *pi, ub));
  return r;
}
static enum FricCond cone_model(const struct IdxArray* IV, Real* pi) {
  enum FricCond r = (enum FricCond)nondet_int();
  __CPROVER_assume(r == Rolling || r == Sliding);
  __CPROVER_assert(0 <= IV->ghost_id && IV->ghost_id < 8, "ghost id of friction set");
  g_seen[IV->ghost_id] = pi[ghost_n];
  for (unsigned j = 0; j < 3; j++) if (j < IV->n) {
    Real o = pi[IV->d[j]], n = nondet_real();
    __CPROVER_assume(r == Rolling ==> same_bits(n, o));                           /* unchanged when inside */
    __CPROVER_assume((o >= 0 ==> (0 <= n && n <= o)) && (o <= 0 ==> (o <= n && n <= 0)));   /* no growth, no sign change */
    pi[IV->d[j]] = n; g_post[IV->ghost_id][j] = n;
  }
  return r;
}
enum FricCond boundVector(Real maxLen, const struct IdxArray* IV, Real* pi) {
  __CPROVER_assert(RW_VEC(pi) && BV_PRE(maxLen, IV, pi), "boundVector precondition at call site");
  return cone_model(IV, pi);
}
enum FricCond boundFriction(Real mu, const struct IdxArray* IN, const struct IdxArray* IF, Real* pi) {
  __CPROVER_assert(RW_VEC(pi) && BF_PRE(mu, IN, IF, pi), "boundFriction precondition at call site");
  return cone_model(IF, pi);
}

extern int* g_owner;      /* ghost: which index set owns multiplier k (0 = none). Encodes "the selected subset is
                             partitioned into disjoint index sets" (comment above PGSImpulseSolver::solve) */
#define SLOT_OWN(a, j, id)  ((a)->n <= (j) || g_owner[(a)->d[j]] == (id))
#define OWN(a, id)          (SLOT_OWN(a,0,id) && SLOT_OWN(a,1,id) && SLOT_OWN(a,2,id) && SLOT_OWN(a,3,id) && SLOT_OWN(a,4,id) && SLOT_OWN(a,5,id))
#define BIGS(a)             (SLOT_BIG(a,0) && SLOT_BIG(a,1) && SLOT_BIG(a,2) && SLOT_BIG(a,3) && SLOT_BIG(a,4) && SLOT_BIG(a,5))
#define DISTINCT6(a)        (DISTINCT(a) && ((a)->n < 4 || ((a)->d[3] != (a)->d[0] && (a)->d[3] != (a)->d[1] && (a)->d[3] != (a)->d[2])) \
                             && ((a)->n < 5 || ((a)->d[4] != (a)->d[0] && (a)->d[4] != (a)->d[1] && (a)->d[4] != (a)->d[2] && (a)->d[4] != (a)->d[3])) \
                             && ((a)->n < 6 || ((a)->d[5] != (a)->d[0] && (a)->d[5] != (a)->d[1] && (a)->d[5] != (a)->d[2] && (a)->d[5] != (a)->d[3] && (a)->d[5] != (a)->d[4])))
#define SETOK(a, id, gid)   (WF_IDX(a, g_m) && DISTINCT6(a) && OWN(a, id) && BIGS(a) && (a)->ghost_id == (gid))
#define FRIC(a)             SMALL(a)
#define IDXOK(i, id)        (0 <= (i) && (i) < g_m && g_owner[i] == (id) && -BIG <= pi[i] && pi[i] <= BIG)
#define MU_OK(mu)           (0 <= (mu) && (mu) <= BIG)
/* owners: 1 unconditional[0]; 2,3 normals of contact 0,1; 4,5 friction of contact 0,1; 6 bounded[0]; 7 stateLtd[0].F; 8 consLtd[0].F */
#define C(k)  (uniContact[k])
#define UNI_OK(k, idN, idF, gid) (IDXOK(C(k).m_Nk, idN) && (C(k).m_sign == 1 || C(k).m_sign == -1) && SETOK(&C(k).m_Fk, idF, gid) && FRIC(&C(k).m_Fk) \
                                  && (C(k).m_Fk.n == 0 || MU_OK(C(k).m_effMu)) && -BIG <= piExpand[C(k).m_Nk] && piExpand[C(k).m_Nk] <= BIG)
/* "never pulls" for a participating normal; NaN excluded by the (assumed) finiteness of the updates */
#define NOPULL(k) (C(k).m_type != Participating || (((C(k).m_sign == 1 ==> pi[C(k).m_Nk] <= 0) && (C(k).m_sign == -1 ==> pi[C(k).m_Nk] >= 0)) \
                   && (C(k).m_contactCond == UniOff || C(k).m_contactCond == UniActive) && (C(k).m_contactCond == UniOff ==> pi[C(k).m_Nk] == 0)))
/* friction set left exactly as its boundVector/boundFriction call left it, and that call saw the FINAL normal */
#define STABLE(a)  (((a)->n < 1 || same_bits(pi[(a)->d[0]], g_post[(a)->ghost_id][0])) && ((a)->n < 2 || same_bits(pi[(a)->d[1]], g_post[(a)->ghost_id][1])) && ((a)->n < 3 || same_bits(pi[(a)->d[2]], g_post[(a)->ghost_id][2])))
#define HASFRIC(k) (C(k).m_type != Observing && C(k).m_Fk.n != 0)
#define FRIC_OK(k) (!HASFRIC(k) || (STABLE(&C(k).m_Fk) && (C(k).m_frictionCond == Rolling || C(k).m_frictionCond == Sliding) \
                    && (ghost_n != C(k).m_Nk || same_bits(pi[ghost_n], g_seen[C(k).m_Fk.ghost_id]))))

void pgs_sweep(const struct BigIdxArray* participating, const struct Mat* A, const Real* D, int D_n,
               const Real* piExpand, const Real* verrStart, Real* pi,
               struct UncondRT* unconditional, int mUncond, struct UniContactRT* uniContact, int mUniCont,
               struct BoundedRT* bounded, int mBounded, struct StateLtdFrictionRT* stateLtdFriction, int mStateLtd,
               struct ConstraintLtdFrictionRT* consLtdFriction, int mConsLtd, Real sor, struct RealArray* rowSums);
