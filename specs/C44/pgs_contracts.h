/* Contracts on the functions cut from Simbody/src/PGSImpulseSolver.cpp (C44).
   Enumerations UniCond/FricCond/BndCond/ContactType are cut from ImpulseSolver.h above this include.
   Postconditions are taken from the property statement: "unilateral normal impulses never pull,
   friction impulses lie inside the friction cone and oppose sliding, bounded impulses stay within
   bounds ... consistent with each contact's reported condition". */

#define SAME(a, b) ((a) == (b) || (__CPROVER_isnand(a) && __CPROVER_isnand(b)))   /* unchanged, NaN-safe */
extern int ghost_k;                         /* ghost index: "for every entry k of pi" */

#define WF_VEC(v, len)  ((v)->n == (len) && __CPROVER_is_fresh((v)->d, sizeof(Real) * (unsigned long)(len)))
/* all IDX_CAP storage slots hold in-range indices (slots >= n are unused model storage; this keeps
   the contract expressions below free of out-of-range reads) */
#define INR(a, j, m)    (0 <= (a)->d[j] && (a)->d[j] < (m))
#define WF_IDX(a, m)    ((a)->n <= IDX_CAP && INR(a,0,m) && INR(a,1,m) && INR(a,2,m) && INR(a,3,m) && INR(a,4,m) && INR(a,5,m))
#define SMALL(a)        ((a)->n <= 3)       /* friction / normal index sets: constructor asserts size()<=3 */
/* the entries in use are pairwise distinct (index sets are sets) */
#define DISTINCT(a)     (((a)->n < 2 || (a)->d[0] != (a)->d[1]) && ((a)->n < 3 || ((a)->d[0] != (a)->d[2] && (a)->d[1] != (a)->d[2])))
#define IN_IDX(a, k)    (((a)->n > 0 && (a)->d[0] == (k)) || ((a)->n > 1 && (a)->d[1] == (k)) || ((a)->n > 2 && (a)->d[2] == (k)))
#define IN_IDX6(a, k)   (IN_IDX(a,k) || ((a)->n > 3 && (a)->d[3] == (k)) || ((a)->n > 4 && (a)->d[4] == (k)) || ((a)->n > 5 && (a)->d[5] == (k)))
/* disjoint index sets (both of size <= 3) */
#define DISJ(a, b)      (!IN_IDX(a, (b)->d[0]) || (b)->n < 1) && (!IN_IDX(a, (b)->d[1]) || (b)->n < 2) && (!IN_IDX(a, (b)->d[2]) || (b)->n < 3)

/* ---- boundUnilateral: "unilateral normal impulses never pull" ------------------------------ */
enum UniCond boundUnilateral(Real sign, Real* pi)
__CPROVER_requires(__CPROVER_is_fresh(pi, sizeof(Real)))
__CPROVER_requires((sign == 1 || sign == -1) && NOTNAN(*pi))
__CPROVER_assigns(*pi)
__CPROVER_ensures(sign * (*pi) <= 0)                                              /* never pulls */
__CPROVER_ensures((sign == 1 ==> *pi <= 0) && (sign == -1 ==> *pi >= 0))
__CPROVER_ensures(*pi == __CPROVER_old(*pi) || *pi == 0)                          /* pi' in {pi, 0} */
__CPROVER_ensures(__CPROVER_return_value == UniOff || __CPROVER_return_value == UniActive)
__CPROVER_ensures((__CPROVER_return_value == UniOff) == (*pi != __CPROVER_old(*pi)))   /* UniOff <=> changed */
__CPROVER_ensures(__CPROVER_return_value == UniOff ==> *pi == 0)                  /* condition consistent */
__CPROVER_ensures((__CPROVER_return_value == UniActive) == (sign * __CPROVER_old(*pi) <= 0))
;

/* ---- boundScalar: "bounded impulses stay within bounds", nearest bound ---------------------- */
enum BndCond boundScalar(Real lb, Real* pi, Real ub)
__CPROVER_requires(__CPROVER_is_fresh(pi, sizeof(Real)))
__CPROVER_requires(lb <= ub && NOTNAN(*pi))
__CPROVER_assigns(*pi)
__CPROVER_ensures(lb <= *pi && *pi <= ub)
__CPROVER_ensures((lb <= __CPROVER_old(*pi) && __CPROVER_old(*pi) <= ub) ==> (*pi == __CPROVER_old(*pi) && __CPROVER_return_value == Engaged))
__CPROVER_ensures(__CPROVER_old(*pi) > ub ==> (*pi == ub && __CPROVER_return_value == SlipHigh))
__CPROVER_ensures(__CPROVER_old(*pi) < lb ==> (*pi == lb && __CPROVER_return_value == SlipLow))
;

/* ---- boundVector / boundFriction ------------------------------------------------------------
   P_OLD(a,j) : entry j of the friction vector before the call, P_NEW(a,j) after.
   What CBMC decides here (bit-precise, all inputs): frame; Rolling => nothing changed; Sliding =>
   the scale was computed exactly once, by sqrt(L2/norm2) with 0 <= L2 < norm2 CHECKED at that point
   (so scaling happens only when strictly outside as computed, and no NaN reaches the comparison),
   every component of the set was multiplied exactly once by that ONE scale s, 0 <= s <= 1 (direction
   kept, no component grows or changes sign); the zero vector is never scaled.
   The value-level clauses "Rolling <=> sum of squares <= L2" are decided on a small integer domain in
   the bounded stand-in units (EXACT_SQ), the cone inequality after scaling over the reals by z3.   */
#define P_OLD(a, j)   __CPROVER_old(pi->d[(a)->d[j]])
#define P_NEW(a, j)   (pi->d[(a)->d[j]])
#define LOG_CLEAR     (g_ratio_n == 0 && g_sc_n == 0)
#define SCALED(a, j)  ((a)->n <= (j) || (same_bits(g_sc_x[j], P_OLD(a,j)) && same_bits(g_sc_s[j], g_ratio_res) && same_bits(P_NEW(a,j), g_sc_r[j])))
#define KEPT(a, j)    ((a)->n <= (j) || same_bits(P_NEW(a,j), P_OLD(a,j)))
#define LOG_ASSIGNS   g_ratio_n, g_ratio_res, g_sc_n, __CPROVER_object_whole(g_sc_x), __CPROVER_object_whole(g_sc_s), __CPROVER_object_whole(g_sc_r)
#define ENTRIES_OK(a) (((a)->n < 1 || FINITE(pi->d[(a)->d[0]])) && ((a)->n < 2 || FINITE(pi->d[(a)->d[1]])) && ((a)->n < 3 || FINITE(pi->d[(a)->d[2]])))
#define ENTRY_BIG(a,j) ((a)->n <= (j) || (-BIG <= pi->d[(a)->d[j]] && pi->d[(a)->d[j]] <= BIG))
#define CONE_POST(a) \
__CPROVER_ensures(__CPROVER_return_value == Rolling || __CPROVER_return_value == Sliding) \
__CPROVER_ensures(__CPROVER_return_value == Rolling ==> (g_ratio_n == 0 && g_sc_n == 0 && KEPT(a,0) && KEPT(a,1) && KEPT(a,2))) \
__CPROVER_ensures(__CPROVER_return_value == Sliding ==> (g_ratio_n == 1 && g_sc_n == (int)(a)->n && 0.0 <= g_ratio_res && g_ratio_res <= 1.0 && SCALED(a,0) && SCALED(a,1) && SCALED(a,2))) \
__CPROVER_ensures(!IN_IDX(a, ghost_k) ==> SAME(pi->d[ghost_k], __CPROVER_old(pi->d[ghost_k]))) \
__CPROVER_ensures(__CPROVER_old(pi->d[ghost_k]) >= 0 ==> (0 <= pi->d[ghost_k] && pi->d[ghost_k] <= __CPROVER_old(pi->d[ghost_k]))) \
__CPROVER_ensures(__CPROVER_old(pi->d[ghost_k]) <= 0 ==> (0 >= pi->d[ghost_k] && pi->d[ghost_k] >= __CPROVER_old(pi->d[ghost_k]))) \
__CPROVER_ensures((P_OLD(a,0) == 0 || (a)->n < 1) && (P_OLD(a,1) == 0 || (a)->n < 2) && (P_OLD(a,2) == 0 || (a)->n < 3) ==> __CPROVER_return_value == Rolling)

#ifdef SWEEP_GHOST
/* ghost record used only where the contract is an ASSUMPTION for the caller (sweep unit): the friction
   entries as the call left them and the value of one watched entry pi[ghost_n] as the call saw it.
   Pure bookkeeping on ghost state, no constraint on real state. */
extern int ghost_n;
extern Real g_post[8][3], g_seen[8];
#define GHOST_ASSIGNS(a) ; g_post[(a)->ghost_id][0], g_post[(a)->ghost_id][1], g_post[(a)->ghost_id][2], g_seen[(a)->ghost_id]
#define GHOST_ENSURES(a) __CPROVER_ensures(same_bits(g_post[(a)->ghost_id][0], P_NEW(a,0)) && same_bits(g_post[(a)->ghost_id][1], P_NEW(a,1)) && same_bits(g_post[(a)->ghost_id][2], P_NEW(a,2)) && same_bits(g_seen[(a)->ghost_id], __CPROVER_old(pi->d[ghost_n])))
#define GHOST_REQUIRES(a) __CPROVER_requires(0 <= (a)->ghost_id && (a)->ghost_id < 8 && 0 <= ghost_n && ghost_n < pi->n)
#else
#define GHOST_ASSIGNS(a)
#define GHOST_ENSURES(a)
#define GHOST_REQUIRES(a)
#endif

enum FricCond boundVector(Real maxLen, const struct IdxArray* IV, struct Vec* pi)
__CPROVER_requires(__CPROVER_is_fresh(IV, sizeof(*IV)) && __CPROVER_is_fresh(pi, sizeof(*pi)))
__CPROVER_requires(0 < pi->n && pi->n <= VEC_MAX && WF_VEC(pi, pi->n) && WF_IDX(IV, pi->n) && SMALL(IV) && DISTINCT(IV))
__CPROVER_requires(maxLen >= 0 && ENTRIES_OK(IV) && 0 <= ghost_k && ghost_k < pi->n && LOG_CLEAR)
GHOST_REQUIRES(IV)
__CPROVER_assigns(IV->n > 0: pi->d[IV->d[0]]; IV->n > 1: pi->d[IV->d[1]]; IV->n > 2: pi->d[IV->d[2]]; LOG_ASSIGNS GHOST_ASSIGNS(IV))
CONE_POST(IV)
GHOST_ENSURES(IV)
;

enum FricCond boundFriction(Real mu, const struct IdxArray* IN, const struct IdxArray* IF, struct Vec* pi)
__CPROVER_requires(__CPROVER_is_fresh(IN, sizeof(*IN)) && __CPROVER_is_fresh(IF, sizeof(*IF)) && __CPROVER_is_fresh(pi, sizeof(*pi)))
__CPROVER_requires(0 < pi->n && pi->n <= VEC_MAX && WF_VEC(pi, pi->n) && WF_IDX(IN, pi->n) && WF_IDX(IF, pi->n) && SMALL(IN) && SMALL(IF) && DISTINCT(IF))
/* normal and friction index sets are disjoint (ConstraintLtdFrictionRT: m_Nk from IU, m_Fk from IF) */
__CPROVER_requires(DISJ(IN, IF))
/* magnitudes whose squares do not overflow: otherwise mu*mu*N2 can be inf*0 = NaN */
__CPROVER_requires(0 <= mu && mu <= BIG && ENTRIES_OK(IF) && 0 <= ghost_k && ghost_k < pi->n && LOG_CLEAR)
__CPROVER_requires(ENTRY_BIG(IN,0) && ENTRY_BIG(IN,1) && ENTRY_BIG(IN,2))
GHOST_REQUIRES(IF)
__CPROVER_assigns(IF->n > 0: pi->d[IF->d[0]]; IF->n > 1: pi->d[IF->d[1]]; IF->n > 2: pi->d[IF->d[2]]; LOG_ASSIGNS GHOST_ASSIGNS(IF))
CONE_POST(IF)
GHOST_ENSURES(IF)
;

/* ---- doUpdate / doUpdates: frame = only the updated row(s) of pi ------------------------------ */
Real doUpdate(MultiplierIndex row, const struct Mat* A, const struct Vec* D, const struct Vec* rhs, Real SOR, Real rowSum, struct Vec* pi)
__CPROVER_requires(__CPROVER_is_fresh(A, sizeof(*A)) && __CPROVER_is_fresh(D, sizeof(*D)) && __CPROVER_is_fresh(rhs, sizeof(*rhs)) && __CPROVER_is_fresh(pi, sizeof(*pi)))
__CPROVER_requires(0 < A->m && A->m <= VEC_MAX && WF_VEC(pi, A->m) && WF_VEC(rhs, A->m) && (D->n == 0 || D->n == A->m) && __CPROVER_is_fresh(D->d, sizeof(Real) * (unsigned long)A->m))
__CPROVER_requires(0 <= row && row < A->m && 0 <= ghost_k && ghost_k < A->m)
__CPROVER_assigns(pi->d[row])
__CPROVER_ensures(ghost_k != row ==> SAME(pi->d[ghost_k], __CPROVER_old(pi->d[ghost_k])))
/* returned squared error is the square of rhs[row]-rowSum, never negative */
__CPROVER_ensures(NOTNAN(rhs->d[row] - rowSum) ==> __CPROVER_return_value >= 0)
;

Real RealArray_get(const struct RealArray* a, unsigned i) __CPROVER_requires(1) __CPROVER_assigns() __CPROVER_ensures(1);
Real doUpdates(const struct IdxArray* rows, const struct Mat* A, const struct Vec* D, const struct Vec* rhs, Real SOR, const struct RealArray* rowSums, struct Vec* pi)
__CPROVER_requires(__CPROVER_is_fresh(rows, sizeof(*rows)) && __CPROVER_is_fresh(A, sizeof(*A)) && __CPROVER_is_fresh(D, sizeof(*D)) && __CPROVER_is_fresh(rhs, sizeof(*rhs)) && __CPROVER_is_fresh(pi, sizeof(*pi)) && __CPROVER_is_fresh(rowSums, sizeof(*rowSums)))
__CPROVER_requires(0 < A->m && A->m <= VEC_MAX && WF_VEC(pi, A->m) && WF_VEC(rhs, A->m) && (D->n == 0 || D->n == A->m) && __CPROVER_is_fresh(D->d, sizeof(Real) * (unsigned long)A->m))
__CPROVER_requires(WF_IDX(rows, A->m) && 0 <= ghost_k && ghost_k < A->m)
__CPROVER_assigns(rows->n > 0: pi->d[rows->d[0]]; rows->n > 1: pi->d[rows->d[1]]; rows->n > 2: pi->d[rows->d[2]]; rows->n > 3: pi->d[rows->d[3]]; rows->n > 4: pi->d[rows->d[4]]; rows->n > 5: pi->d[rows->d[5]])
__CPROVER_ensures(!IN_IDX6(rows, ghost_k) ==> SAME(pi->d[ghost_k], __CPROVER_old(pi->d[ghost_k])))
;
