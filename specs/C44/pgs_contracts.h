/* Contracts on the functions cut from Simbody/src/PGSImpulseSolver.cpp (C44).
   Enumerations UniCond/FricCond/BndCond/ContactType are cut from ImpulseSolver.h above this include.
   Postconditions are taken from the property statement: "unilateral normal impulses never pull,
   friction impulses lie inside the friction cone and oppose sliding, bounded impulses stay within
   bounds ... consistent with each contact's reported condition". */

#define SAME(a, b) ((a) == (b) || (__CPROVER_isnand(a) && __CPROVER_isnand(b)))   /* unchanged, NaN-safe */
extern int ghost_k;                         /* ghost index: "for every entry k of pi" */

/* SimTK::Vector seen as its contiguous data pointer; g_m is the (ghost) common length m of pi, rhs, D, piExpand */
extern int g_m;
#define WF_VEC(v)       (__CPROVER_is_fresh((v), sizeof(Real) * (unsigned long)g_m))
#define WF_M            (0 < g_m && g_m <= VEC_MAX)
/* all IDX_CAP storage slots hold in-range indices (slots >= n are unused model storage; this keeps
   the contract expressions below free of out-of-range reads) */
#define INR(a, j, m)    (0 <= (a)->d[j] && (a)->d[j] < (m))
#define WF_IDX(a, m)    ((a)->n <= IDX_CAP && INR(a,0,m) && INR(a,1,m) && INR(a,2,m) && INR(a,3,m) && INR(a,4,m) && INR(a,5,m))
#define SMALL(a)        ((a)->n <= 3)       /* friction / normal index sets: constructor asserts size()<=3 */
/* the entries in use are pairwise distinct (index sets are sets) */
#define DISTINCT(a)     (((a)->n < 2 || (a)->d[0] != (a)->d[1]) && ((a)->n < 3 || ((a)->d[0] != (a)->d[2] && (a)->d[1] != (a)->d[2])))
#define IN_IDX(a, k)    (((a)->n > 0 && (a)->d[0] == (k)) || ((a)->n > 1 && (a)->d[1] == (k)) || ((a)->n > 2 && (a)->d[2] == (k)))
#define IN_IDX6(a, k)   (IN_IDX(a,k) || ((a)->n > 3 && (a)->d[3] == (k)) || ((a)->n > 4 && (a)->d[4] == (k)) || ((a)->n > 5 && (a)->d[5] == (k)))
/* disjoint index sets (both of size <= 3) */
#define DISJ(a, b)      (!IN_IDX(a, (b)->d[0]) || (b)->n < 1) && (!IN_IDX(a, (b)->d[1]) || (b)->n < 2) && (!IN_IDX(a, (b)->d[2]) || (b)->n < 3)

/* The scalar contracts are written as predicates over (return value, old value, new value) so that the
   sweep unit can use the very same text as call-site assertion (PRE) and assumption (POST). */
/* ---- boundUnilateral: "unilateral normal impulses never pull" ------------------------------ */
#define BU_PRE(sign, o)        (((sign) == 1 || (sign) == -1) && NOTNAN(o))
#define NOPULL_V(sign, x)      (((sign) == 1 ==> (x) <= 0) && ((sign) == -1 ==> (x) >= 0))      /* sign*x <= 0 for sign = +-1, product-free */
#define BU_POST(r, sign, o, n) (NOPULL_V(sign, n)                                        /* never pulls */ \
  && ((n) == (o) || (n) == 0)                                                            /* pi' in {pi, 0} */ \
  && ((r) == UniOff || (r) == UniActive) \
  && (((r) == UniOff) == ((n) != (o)))                                                   /* UniOff <=> changed */ \
  && ((r) == UniOff ==> (n) == 0)                                                        /* condition consistent */ \
  && (((r) == UniActive) == NOPULL_V(sign, o)))
enum UniCond boundUnilateral(Real sign, Real* pi)
__CPROVER_requires(__CPROVER_is_fresh(pi, sizeof(Real)))
__CPROVER_requires(BU_PRE(sign, *pi))
__CPROVER_assigns(*pi)
__CPROVER_ensures(BU_POST(__CPROVER_return_value, sign, __CPROVER_old(*pi), *pi))
/* the same two clauses with the product as the property states it */
__CPROVER_ensures(sign * (*pi) <= 0)
__CPROVER_ensures((__CPROVER_return_value == UniActive) == (sign * __CPROVER_old(*pi) <= 0))
;

/* ---- boundScalar: "bounded impulses stay within bounds", nearest bound ---------------------- */
#define BS_PRE(lb, o, ub)        ((lb) <= (ub) && NOTNAN(o))
#define BS_POST(r, lb, o, n, ub) ((lb) <= (n) && (n) <= (ub) \
  && (((lb) <= (o) && (o) <= (ub)) ==> ((n) == (o) && (r) == Engaged)) \
  && ((o) > (ub) ==> ((n) == (ub) && (r) == SlipHigh)) \
  && ((o) < (lb) ==> ((n) == (lb) && (r) == SlipLow)))
enum BndCond boundScalar(Real lb, Real* pi, Real ub)
__CPROVER_requires(__CPROVER_is_fresh(pi, sizeof(Real)))
__CPROVER_requires(BS_PRE(lb, *pi, ub))
__CPROVER_assigns(*pi)
__CPROVER_ensures(BS_POST(__CPROVER_return_value, lb, __CPROVER_old(*pi), *pi, ub))
;

/* ---- boundVector / boundFriction ------------------------------------------------------------
   P_OLD(a,j) : entry j of the friction vector before the call, P_NEW(a,j) after.
   What CBMC decides here (bit-precise, all inputs): frame; Rolling => nothing changed; Sliding =>
   the scale was computed exactly once, by sqrt(L2/norm2) with 0 <= L2 < norm2 CHECKED at that point
   (so scaling happens only when strictly outside as computed, and no NaN reaches the comparison),
   every component of the set was multiplied exactly once by that ONE scale s, 0 <= s <= 1 (direction
   kept, no component grows or changes sign); the zero vector is never scaled.
   The value-level clauses "Rolling <=> sum of squares <= L2" are decided on a small integer domain in
   the bounded stand-in units (EXACT_SQ), the cone inequality after scaling over the reals by z3.   */
#define P_OLD(a, j)   __CPROVER_old(pi[(a)->d[j]])
#define P_NEW(a, j)   (pi[(a)->d[j]])
#define LOG_CLEAR     (g_ratio_n == 0 && g_sc_n == 0)
#define SCALED(a, j)  ((a)->n <= (j) || (same_bits(g_sc_x[j], P_OLD(a,j)) && same_bits(g_sc_s[j], g_ratio_res) && same_bits(P_NEW(a,j), g_sc_r[j])))
#define KEPT(a, j)    ((a)->n <= (j) || same_bits(P_NEW(a,j), P_OLD(a,j)))
#define LOG_ASSIGNS   g_ratio_n, g_ratio_res, g_sc_n, __CPROVER_object_whole(g_sc_x), __CPROVER_object_whole(g_sc_s), __CPROVER_object_whole(g_sc_r)
#define ENTRIES_OK(a) (((a)->n < 1 || FINITE(pi[(a)->d[0]])) && ((a)->n < 2 || FINITE(pi[(a)->d[1]])) && ((a)->n < 3 || FINITE(pi[(a)->d[2]])))
#define SLOT_BIG(a, j)      ((a)->n <= (j) || (-BIG <= pi[(a)->d[j]] && pi[(a)->d[j]] <= BIG))
#define ENTRY_BIG(a,j) ((a)->n <= (j) || (-BIG <= pi[(a)->d[j]] && pi[(a)->d[j]] <= BIG))
#define CONE_POST(a) \
__CPROVER_ensures(__CPROVER_return_value == Rolling || __CPROVER_return_value == Sliding) \
__CPROVER_ensures(__CPROVER_return_value == Rolling ==> (KEPT(a,0) && KEPT(a,1) && KEPT(a,2))) \
__CPROVER_ensures(!IN_IDX(a, ghost_k) ==> SAME(pi[ghost_k], __CPROVER_old(pi[ghost_k]))) \
__CPROVER_ensures(__CPROVER_old(pi[ghost_k]) >= 0 ==> (0 <= pi[ghost_k] && pi[ghost_k] <= __CPROVER_old(pi[ghost_k]))) \
__CPROVER_ensures(__CPROVER_old(pi[ghost_k]) <= 0 ==> (0 >= pi[ghost_k] && pi[ghost_k] >= __CPROVER_old(pi[ghost_k]))) \
__CPROVER_ensures((P_OLD(a,0) == 0 || (a)->n < 1) && (P_OLD(a,1) == 0 || (a)->n < 2) && (P_OLD(a,2) == 0 || (a)->n < 3) ==> __CPROVER_return_value == Rolling)
/* operation-log clauses: only in the unit where the contract is ENFORCED against the body */
#define CONE_LOG_POST(a) \
__CPROVER_ensures(__CPROVER_return_value == Rolling ==> (g_ratio_n == 0 && g_sc_n == 0)) \
__CPROVER_ensures(__CPROVER_return_value == Sliding ==> (g_ratio_n == 1 && g_sc_n == (int)(a)->n && 0.0 <= g_ratio_res && g_ratio_res <= 1.0 && SCALED(a,0) && SCALED(a,1) && SCALED(a,2)))

#define GHOST_ASSIGNS(a) ; LOG_ASSIGNS
#define GHOST_ENSURES(a) CONE_LOG_POST(a)
#define GHOST_REQUIRES(a) __CPROVER_requires(LOG_CLEAR)
/* value preconditions shared with the call-site checks of the sweep unit */
#define BV_PRE(maxLen, IV, pi)    (WF_IDX(IV, g_m) && SMALL(IV) && DISTINCT(IV) && (maxLen) >= 0 && ENTRIES_OK(IV))
#define BF_PRE(mu, IN, IF, pi)    (WF_IDX(IN, g_m) && WF_IDX(IF, g_m) && SMALL(IN) && SMALL(IF) && DISTINCT(IF) && DISJ(IN, IF) \
                                   && 0 <= (mu) && (mu) <= BIG && ENTRIES_OK(IF) && ENTRY_BIG(IN,0) && ENTRY_BIG(IN,1) && ENTRY_BIG(IN,2))

enum FricCond boundVector(Real maxLen, const struct IdxArray* IV, Real* pi)
__CPROVER_requires(__CPROVER_is_fresh(IV, sizeof(*IV)))
__CPROVER_requires(WF_M && WF_VEC(pi) && BV_PRE(maxLen, IV, pi) && 0 <= ghost_k && ghost_k < g_m)
GHOST_REQUIRES(IV)
__CPROVER_assigns(IV->n > 0: pi[IV->d[0]]; IV->n > 1: pi[IV->d[1]]; IV->n > 2: pi[IV->d[2]] GHOST_ASSIGNS(IV))
CONE_POST(IV)
GHOST_ENSURES(IV)
;

enum FricCond boundFriction(Real mu, const struct IdxArray* IN, const struct IdxArray* IF, Real* pi)
__CPROVER_requires(__CPROVER_is_fresh(IN, sizeof(*IN)) && __CPROVER_is_fresh(IF, sizeof(*IF)))
/* BF_PRE: normal and friction index sets are disjoint (ConstraintLtdFrictionRT: m_Nk from IU, m_Fk from IF);
   magnitudes whose squares do not overflow: otherwise mu*mu*N2 can be inf*0 = NaN */
__CPROVER_requires(WF_M && WF_VEC(pi) && BF_PRE(mu, IN, IF, pi) && 0 <= ghost_k && ghost_k < g_m)
GHOST_REQUIRES(IF)
__CPROVER_assigns(IF->n > 0: pi[IF->d[0]]; IF->n > 1: pi[IF->d[1]]; IF->n > 2: pi[IF->d[2]] GHOST_ASSIGNS(IF))
CONE_POST(IF)
GHOST_ENSURES(IF)
;

/* ---- doUpdate / doUpdates: frame = only the updated row(s) of pi ------------------------------ */
Real doUpdate(MultiplierIndex row, const struct Mat* A, const Real* D, int D_n, const Real* rhs, Real SOR, Real rowSum, Real* pi)
__CPROVER_requires(__CPROVER_is_fresh(A, sizeof(*A)) && WF_M && A->m == g_m && WF_VEC(pi) && WF_VEC(rhs) && WF_VEC(D) && (D_n == 0 || D_n == g_m))
__CPROVER_requires(0 <= row && row < g_m && 0 <= ghost_k && ghost_k < g_m)
__CPROVER_assigns(pi[row])
__CPROVER_ensures(ghost_k != row ==> SAME(pi[ghost_k], __CPROVER_old(pi[ghost_k])))
/* returned squared error is a square: never negative */
__CPROVER_ensures(NOTNAN(rhs[row] - rowSum) ==> __CPROVER_return_value >= 0)
;

Real RealArray_get(const struct RealArray* a, unsigned i) __CPROVER_requires(1) __CPROVER_assigns() __CPROVER_ensures(1);
Real doUpdates(const struct IdxArray* rows, const struct Mat* A, const Real* D, int D_n, const Real* rhs, Real SOR, const struct RealArray* rowSums, Real* pi)
__CPROVER_requires(__CPROVER_is_fresh(rows, sizeof(*rows)) && __CPROVER_is_fresh(A, sizeof(*A)) && __CPROVER_is_fresh(rowSums, sizeof(*rowSums)))
__CPROVER_requires(WF_M && A->m == g_m && WF_VEC(pi) && WF_VEC(rhs) && WF_VEC(D) && (D_n == 0 || D_n == g_m))
__CPROVER_requires(WF_IDX(rows, g_m) && 0 <= ghost_k && ghost_k < g_m)
__CPROVER_assigns(rows->n > 0: pi[rows->d[0]]; rows->n > 1: pi[rows->d[1]]; rows->n > 2: pi[rows->d[2]]; rows->n > 3: pi[rows->d[3]]; rows->n > 4: pi[rows->d[4]]; rows->n > 5: pi[rows->d[5]])
__CPROVER_ensures(!IN_IDX6(rows, ghost_k) ==> SAME(pi[ghost_k], __CPROVER_old(pi[ghost_k])))
;
