/* C41 spline part: prelude of the C unit cut from SimTKmath/Geometry/src/gcvspl.cpp (f2c-style C).
   SimTK_Real is double in the default-precision build (assumed); the abs/min/max macros are cut from the file itself. */
#include <stdlib.h>
#include <stdbool.h>
typedef double SimTK_Real;
#define SimTK_SIMMATH_EXPORT
int nondet_int(void);
double nondet_double(void);

/* ghost index (extern without definition = nondeterministic): "for an arbitrary knot position gj" */
extern int gj;

#define SPL_NMAX 1073741823      /* (il + iu) / 2 in search_ is computed in int: n < 2^30 keeps it free of signed overflow */

/* ------------------------------------------------------------------------------------------------
   search_: the bisection is a goto loop (L3/L4), for which CBMC has no loop-contract syntax.  The extractor puts
   SEARCH_FN_BEGIN at the function entry (ghost locals) and SEARCH_BISECT_HEAD behind the label L4 (the unique loop head:
   both back edges `goto L3` [-> iu = *l; falls into L4] and `goto L4` arrive here).  Textual loop-contract transformation:
     first arrival : assert invariant (base), havoc the loop's write set {il, iu, *l}, assume invariant, record the measure
     second arrival: assert invariant (step), assert measure decreased (and was non-negative), cut the path.
   Inside search_ the pointer x has been decremented (`--x;`), so x[k] below is the Fortran X(k), 1 <= k <= *n.
   The invariant is written with the very comparisons the code executes (robust against a NaN among the knots):
        1 <= il < iu <= n   and   not (t < X(il))   and   not (t >= X(iu))                                     */
#define SEARCH_INV (1 <= il && il < iu && iu <= *n && !(*t < x[il]) && !(*t >= x[iu]))

#if defined(SPL_COVER)
extern int g_cov_iters;
#define SEARCH_FN_BEGIN
#define SEARCH_BISECT_HEAD g_cov_iters++;
#else
#if defined(SPL_COVER_CUT)
#define SPL_STEP_COVER __CPROVER_cover(1);
#else
#define SPL_STEP_COVER
#endif
#define SEARCH_FN_BEGIN int g_in_loop = 0; int g_measure = 0;
#define SEARCH_BISECT_HEAD \
  if (!g_in_loop) { \
    __CPROVER_assert(SEARCH_INV, "loop_invariant_base: bisection of search_: 1 <= il < iu <= n, not(t < X(il)), not(t >= X(iu))"); \
    g_in_loop = 1; il = nondet_int(); iu = nondet_int(); *l = nondet_int(); \
    __CPROVER_assume(SEARCH_INV); \
    g_measure = iu - il; \
  } else { \
    __CPROVER_assert(SEARCH_INV, "loop_invariant_step: bisection of search_: 1 <= il < iu <= n, not(t < X(il)), not(t >= X(iu))"); \
    __CPROVER_assert(g_measure >= 0 && iu - il < g_measure, "decreases: iu - il strictly decreases and is bounded below in the bisection of search_"); \
    SPL_STEP_COVER \
    __CPROVER_assume(0); \
  }
#endif
