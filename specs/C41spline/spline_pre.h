/* C41 spline part: prelude of the C unit cut from SimTKmath/Geometry/src/gcvspl.cpp (f2c-style C).
   SimTK_Real is double in the default-precision build (assumed); the abs/min/max macros are cut from the file itself. */
#include <stdlib.h>
#include <stdbool.h>
typedef double SimTK_Real;
#define SimTK_SIMMATH_EXPORT
int nondet_int(void);
double nondet_double(void);

/* ghost index (extern without definition = nondeterministic): "for an arbitrary knot position gj" */
extern int gj;

#define SPL_NMAX 1073741823      /* (il + iu) / 2 in search_ is computed in int: n < 2^30 keeps it free of signed overflow */

/* ------------------------------------------------------------------------------------------------
   search_: the bisection is a goto loop (L3/L4), for which CBMC has no loop-contract syntax.  The extractor puts
   SEARCH_FN_BEGIN at the function entry (ghost locals) and SEARCH_BISECT_HEAD behind the label L4 (the unique loop head:
   both back edges `goto L3` [-> iu = *l; falls into L4] and `goto L4` arrive here).  Textual loop-contract transformation:
     first arrival : assert invariant (base), havoc the loop's write set {il, iu, *l}, assume invariant, record the measure
     second arrival: assert invariant (step), assert measure decreased (and was non-negative), cut the path.
   Inside search_ the pointer x has been decremented (`--x;`), so x[k] below is the Fortran X(k), 1 <= k <= *n.
   The invariant is written with the very comparisons the code executes (robust against a NaN among the knots):
        1 <= il < iu <= n   and   not (t < X(il))   and   not (t >= X(iu))                                     */
#define SEARCH_INV (1 <= il && il < iu && iu <= *n && !(*t < x[il]) && !(*t >= x[iu]))

#if defined(SPL_COVER)
extern int g_cov_iters;
#define SEARCH_FN_BEGIN
#define SEARCH_BISECT_HEAD g_cov_iters++;
#else
#if defined(SPL_COVER_CUT)
#define SPL_STEP_COVER __CPROVER_cover(1);
#else
#define SPL_STEP_COVER
#endif
#define SEARCH_FN_BEGIN int g_in_loop = 0; int g_measure = 0;
#define SEARCH_BISECT_HEAD \
  if (!g_in_loop) { \
    __CPROVER_assert(SEARCH_INV, "loop_invariant_base: bisection of search_: 1 <= il < iu <= n, not(t < X(il)), not(t >= X(iu))"); \
    g_in_loop = 1; il = nondet_int(); iu = nondet_int(); *l = nondet_int(); \
    __CPROVER_assume(SEARCH_INV); \
    g_measure = iu - il; \
  } else { \
    __CPROVER_assert(SEARCH_INV, "loop_invariant_step: bisection of search_: 1 <= il < iu <= n, not(t < X(il)), not(t >= X(iu))"); \
    __CPROVER_assert(g_measure >= 0 && iu - il < g_measure, "decreases: iu - il strictly decreases and is bounded below in the bisection of search_"); \
    SPL_STEP_COVER \
    __CPROVER_assume(0); \
  }
#endif

/* ------------------------------------------------------------------------------------------------
   SimTK_splder_ (bounded index / loop skeleton): arithmetic right-hand sides are pure stubs returning an arbitrary value.
   Ghost bookkeeping (assigned by the hooks only):
     g_sweeps  : number of times the body of the derivative-sweep loop `for (i = 1; i <= *ider; ++i)` is entered
     (g_i,g_j) : an ARBITRARY (sweep, knot index) pair chosen by the harness; g_hits counts how often entry j == g_j is differenced
                 in sweep i == g_i; g_hi_knot is the index of the upper knot used then; g_low_first records that entry g_j - 1 had
                 already been overwritten in the same sweep (the recurrence needs the previous sweep's value of q[jm - 1]). */
SimTK_Real vf_divdiff(SimTK_Real qj, SimTK_Real qjm1, SimTK_Real xhi, SimTK_Real xlo) { return nondet_double(); }
SimTK_Real vf_deboor_r(SimTK_Real a, SimTK_Real tt, SimTK_Real xj, SimTK_Real b) { return nondet_double(); }
SimTK_Real vf_deboor(SimTK_Real z, SimTK_Real xjki, SimTK_Real tt, SimTK_Real qm1, SimTK_Real xj) { return nondet_double(); }
SimTK_Real vf_deboor_l(SimTK_Real a, SimTK_Real xj, SimTK_Real tt, SimTK_Real b) { return nondet_double(); }
SimTK_Real vf_mul_int(SimTK_Real z, int j) { return nondet_double(); }
#if defined(SPL_BOUNDED)
#undef SEARCH_FN_BEGIN
#undef SEARCH_BISECT_HEAD
#define SEARCH_FN_BEGIN
#define SEARCH_BISECT_HEAD            /* the body of search_ is unused in this mode: SimTK_splder_ calls the contract stub */
int g_i, g_j, g_sweeps, g_hits, g_hi_knot, g_low_seen, g_low_first, g_den_bad;
#define SPLDER_SWEEP_HOOK g_sweeps++;
#define SPLDER_DIFF_HOOK \
  if (!(x[j + mi] > x[j])) g_den_bad = 1; \
  if (i == g_i && j == g_j - 1) g_low_seen = 1; \
  if (i == g_i && j == g_j) { g_hits++; g_hi_knot = j + mi; if (g_low_seen) g_low_first = 1; }
#else
#define SPLDER_SWEEP_HOOK
#define SPLDER_DIFF_HOOK
#endif
