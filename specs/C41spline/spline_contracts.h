/* Contract of search_ (GCVSPL, SEARCH.FOR): "given a strictly increasing knot sequence X(1) < ... < X(N), N >= 1, and a real T,
   find L such that X(L) <= T < X(L+1); L = 0 if T < X(1); L = N if X(N) <= T" (Woltring's GCVSPL documentation; the f2c file in /repo
   has lost the comment block).  *l on entry is an arbitrary initial guess.  0-based array x[0..n-1]: X(k) == x[k-1].
   Knot type invariant in ghost-index form (no quantifier): x[0], x[n-1] and x[gj] are not NaN and x[gj] < x[gj+1] for an ARBITRARY gj;
   x[0] <= x[n-1] (the one consequence of monotonicity that relates the two end tests); the documented (NaN-free) form of the postcondition is stated for that arbitrary element, the comparison form for every element. */
#define NOTNAN(v) ((v) == (v))
int search_(int *n, const SimTK_Real *x, SimTK_Real *t, int *l)
__CPROVER_requires(__CPROVER_is_fresh(n, sizeof(int)) && 1 <= *n && *n <= SPL_NMAX)
__CPROVER_requires(__CPROVER_is_fresh(x, sizeof(SimTK_Real) * (size_t)*n))
__CPROVER_requires(__CPROVER_is_fresh(t, sizeof(SimTK_Real)) && NOTNAN(*t))
__CPROVER_requires(__CPROVER_is_fresh(l, sizeof(int)))
__CPROVER_requires(0 <= gj && gj < *n && NOTNAN(x[0]) && NOTNAN(x[*n - 1]) && NOTNAN(x[gj]) && (gj + 1 < *n ==> x[gj] < x[gj + 1]) && x[0] <= x[*n - 1])
__CPROVER_assigns(*l)
/* 1 */ __CPROVER_ensures(*t < x[0] ==> *l == 0)
/* 2 */ __CPROVER_ensures(*t >= x[*n - 1] ==> *l == *n)
/* 3 */ __CPROVER_ensures((!(*t < x[0]) && !(*t >= x[*n - 1])) ==> (1 <= *l && *l < *n))
/* 4 */ __CPROVER_ensures(0 <= *l && *l <= *n)
/* 5 */ __CPROVER_ensures((1 <= *l && *l < *n) ==> (!(*t < x[*l - 1]) && !(*t >= x[*l])))
/* 6 documented form, lower knot  */ __CPROVER_ensures((1 <= *l && *l < *n && *l - 1 == gj) ==> (x[gj] <= *t && *t < x[gj + 1]))
/* 7 documented form, upper knot  */ __CPROVER_ensures((1 <= *l && *l < *n && *l == gj) ==> *t < x[gj])
/* 8 converse of the end cases    */ __CPROVER_ensures((*l == 0 ==> *t < x[0]) && (*l == *n ==> *t >= x[*n - 1]))
/* 9 frame                        */ __CPROVER_ensures(*n == __CPROVER_old(*n) && (*t == __CPROVER_old(*t)) && __CPROVER_return_value == 0)
;

/* the same contract as an executable stub (plain harness of the bounded SimTK_splder_ unit: callee by contract):
   requires asserted, *l havocked, ensures 1-5 and 8 assumed (comparison form) */
#define SEARCH_BY_CONTRACT \
int search_(int *n, const SimTK_Real *x, SimTK_Real *t, int *l) { \
  __CPROVER_assert(1 <= *n && *n <= SPL_NMAX && NOTNAN(*t) && NOTNAN(x[0]) && NOTNAN(x[*n - 1]) && x[0] <= x[*n - 1], "search_ called within its contract's precondition"); \
  *l = nondet_int(); \
  __CPROVER_assume(0 <= *l && *l <= *n); \
  __CPROVER_assume(!(*t < x[0]) || *l == 0); \
  __CPROVER_assume(!(*t >= x[*n - 1]) || *l == *n); \
  __CPROVER_assume(!(1 <= *l && *l < *n) || (!(*t < x[*l - 1]) && !(*t >= x[*l]))); \
  __CPROVER_assume((*l != 0 || *t < x[0]) && (*l != *n || *t >= x[*n - 1])); \
  return 0; }
