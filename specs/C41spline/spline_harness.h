/* Harnesses of the C41 spline unit. */
#if defined(SPL_BOUNDED)
#elif !defined(SPL_COVER) && !defined(SPL_COVER_CUT)
void h_search(void) { int *n; SimTK_Real *x; SimTK_Real *t; int *l; search_(n, x, t, l); }
#else
/* reachability guards (plain harness, knot array of at most 6 entries, loops unwound):
   SPL_COVER     : the real goto loop runs; every exit class of search_ is reachable behind the preconditions
   SPL_COVER_CUT : the induction form; the step obligations (second arrival at L4) are reachable */
#if defined(SPL_COVER)
int g_cov_iters;
#endif
void h_search_cover(void)
{
  int n = nondet_int(); __CPROVER_assume(1 <= n && n <= 6);
  SimTK_Real xs[6];
  for (int i = 0; i < 6; ++i) { xs[i] = nondet_double(); __CPROVER_assume(NOTNAN(xs[i])); }
  for (int i = 0; i + 1 < 6; ++i) __CPROVER_assume(i + 1 >= n || xs[i] < xs[i + 1]);
  SimTK_Real t = nondet_double(); __CPROVER_assume(NOTNAN(t));
  int l = nondet_int();
#if defined(SPL_COVER)
  g_cov_iters = 0;
#endif
  search_(&n, xs, &t, &l);
  __CPROVER_cover(l == 0);
  __CPROVER_cover(l == n && n >= 2);
  __CPROVER_cover(1 <= l && l < n && xs[l - 1] <= t && t < xs[l]);
#if defined(SPL_COVER)
  __CPROVER_cover(g_cov_iters == 0 && 1 <= l && l < n);
  __CPROVER_cover(g_cov_iters >= 3);
#endif
}
#endif

#if defined(SPL_BOUNDED)
/* BOUNDED stand-in: index / loop skeleton of SimTK_splder_ (m <= 3, 2m <= n <= 8, ider <= 2m, coffset <= 2), search_ used BY CONTRACT (executable stub of the contract proved in spline.search).
   x, c, q are allocated with EXACTLY the sizes the interface promises (n knots, coffset*(n-1)+1 coefficients slots, 2m work entries),
   so that an index off by one is a bounds failure.
   Specification of the derivative sweeps, written from the B-spline derivative recurrence and not from the loop bounds of the code:
   in sweep i (1 <= i <= ider < 2m) the entry of knot index j inside the window  L-2m+i < j <= L  is replaced by a divided difference over the
   knot pair (X(j), X(j+2m-i)) exactly once if both knots exist (1 <= j and j+2m-i <= n), and never otherwise; entry j-1 is still the previous
   sweep's value at that moment; the number of sweeps is ider; every divisor X(j+2m-i) - X(j) is positive. */
#ifndef SPL_M
#define SPL_M 3
#endif
#ifndef SPL_N
#define SPL_N (2 * SPL_M + 2)
#endif
#define SPL_NB SPL_N
void h_splder_bounded(void)
{
  int m = nondet_int(), n = nondet_int(), ider = nondet_int(), coffset = nondet_int(), L = nondet_int();
  __CPROVER_assume(m == SPL_M && n == SPL_N && 0 <= ider && ider <= 2 * m && 1 <= coffset && coffset <= 2);
  SimTK_Real x[SPL_N];
  SimTK_Real *c = malloc(sizeof(SimTK_Real) * (coffset * (n - 1) + 1));
  SimTK_Real q[2 * SPL_M];
  __CPROVER_assume(c != NULL);     /* CBMC 6: malloc may fail by default */
  for (int k = 0; k < SPL_NB; ++k) if (k < n) { x[k] = nondet_double(); __CPROVER_assume(NOTNAN(x[k])); if (k > 0) __CPROVER_assume(x[k - 1] < x[k]); }
  SimTK_Real t = nondet_double(); __CPROVER_assume(NOTNAN(t));
  g_i = nondet_int(); g_j = nondet_int(); __CPROVER_assume(-4 <= g_i && g_i <= 4 * SPL_M && -4 * SPL_M <= g_j && g_j <= 2 * SPL_N);
  g_sweeps = 0; g_hits = 0; g_hi_knot = 0; g_low_seen = 0; g_low_first = 0; g_den_bad = 0;
  int m0 = m, n0 = n, ider0 = ider; SimTK_Real t0 = t;
  SimTK_Real r = SimTK_splder_(&ider, &m, &n, &t, x, c, &L, q, coffset);
  int m2 = 2 * m0;
  int expected = (ider0 < m2 && 1 <= g_i && g_i <= ider0 && L - m2 + g_i < g_j && g_j <= L && 1 <= g_j && g_j + (m2 - g_i) <= n0) ? 1 : 0;
#if !defined(SPL_BOUNDED_COVER)
  __CPROVER_assert(m == m0 && n == n0 && ider == ider0 && t == t0, "splder frame: *m, *n, *ider, *t unchanged");
  __CPROVER_assert(ider0 < m2 || (r == 0.0 && g_sweeps == 0), "splder: derivative order >= 2m: result exactly 0, no sweep");
  __CPROVER_assert(ider0 >= m2 || g_sweeps == ider0, "splder: the number of differencing sweeps equals the derivative order ider");
  __CPROVER_assert(g_hits == expected, "splder: in sweep i the entry of knot j is differenced exactly once iff L-2m+i < j <= L and both knots X(j), X(j+2m-i) exist");
  __CPROVER_assert(g_hits == 0 || g_hi_knot == g_j + (m2 - g_i), "splder: sweep i differences entry j over the knot pair (X(j), X(j+2m-i))");
  __CPROVER_assert(!g_low_first && !g_den_bad, "splder: entries are differenced in descending order (q[jm-1] still holds the previous sweep) and every divisor is positive");
#else
  __CPROVER_cover(g_hits == 1 && L == n0 - 1);      /* last interval (beyond the last knot, L == n, nothing is differenced) */
  __CPROVER_cover(g_hits == 1 && 1 <= L && L < m2);
  __CPROVER_cover(g_hits == 1 && m2 <= L && L < n0 && g_i == ider0 && ider0 == m2 - 1);
  __CPROVER_cover(ider0 == 0 && L == 0);
  __CPROVER_cover(expected == 0 && ider0 >= 2 && g_i == 2 && g_j == L && L == n0);
#endif
}
#endif
