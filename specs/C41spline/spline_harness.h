/* Harnesses of the C41 spline unit. */
#if !defined(SPL_COVER) && !defined(SPL_COVER_CUT)
void h_search(void) { int *n; SimTK_Real *x; SimTK_Real *t; int *l; search_(n, x, t, l); }
#else
/* reachability guards (plain harness, knot array of at most 6 entries, loops unwound):
   SPL_COVER     : the real goto loop runs; every exit class of search_ is reachable behind the preconditions
   SPL_COVER_CUT : the induction form; the step obligations (second arrival at L4) are reachable */
#if defined(SPL_COVER)
int g_cov_iters;
#endif
void h_search_cover(void)
{
  int n = nondet_int(); __CPROVER_assume(1 <= n && n <= 6);
  SimTK_Real xs[6];
  for (int i = 0; i < 6; ++i) { xs[i] = nondet_double(); __CPROVER_assume(NOTNAN(xs[i])); }
  for (int i = 0; i + 1 < 6; ++i) __CPROVER_assume(i + 1 >= n || xs[i] < xs[i + 1]);
  SimTK_Real t = nondet_double(); __CPROVER_assume(NOTNAN(t));
  int l = nondet_int();
#if defined(SPL_COVER)
  g_cov_iters = 0;
#endif
  search_(&n, xs, &t, &l);
  __CPROVER_cover(l == 0);
  __CPROVER_cover(l == n && n >= 2);
  __CPROVER_cover(1 <= l && l < n && xs[l - 1] <= t && t < xs[l]);
#if defined(SPL_COVER)
  __CPROVER_cover(g_cov_iters == 0 && 1 <= l && l < n);
  __CPROVER_cover(g_cov_iters >= 3);
#endif
}
#endif
