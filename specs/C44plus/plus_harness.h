/* Harnesses of the PLUS definite-initialisation units.  The tracked members are globals of the unit (zero-initialised by
   CBMC), so every harness first havocs all of their fields; the contracts' `requires` then select the admitted states. */
#define HAVOC_TV(x) x.n = nondet_int(); x.sdef = nondet_bool(); x.edef = nondet_bool();
#define HAVOC_TM(x) x.nr = nondet_int(); x.nc = nondet_int(); x.sdef = nondet_bool(); x.edef = nondet_bool();
#define HAVOC_ALL FOR_ALL_TV(HAVOC_TV) FOR_ALL_TM(HAVOC_TM)

#ifndef COVER
void h_mrtac(void) { HAVOC_ALL struct TV* a; struct TV* c; multRowTimesActiveCol(a, c); }
void h_aiac(void)  { HAVOC_ALL struct TV* a; struct TV* c; struct TV* f; addInActiveCol(a, c, f); }
void h_fm2a(void)  { HAVOC_ALL struct TV* a; struct TV* m; fillMult2Active(a, m); }
void h_cf(void)    { HAVOC_ALL classifyFrictionals(); }
void h_in(void)    { HAVOC_ALL initializeNewton(); }
void h_ud(void)    { HAVOC_ALL struct TV* p; struct TV* e; updateDirectionsAndCalcCurrentError(p, e); }
void h_uj(void)    { HAVOC_ALL updateJacobianForSliding(); }
/* plain unit: the precondition of the contract is assumed here */
void h_solve(void) { HAVOC_ALL __CPROVER_assume(CONTRACT_solve_PRE); solve(); }
void h_sb(void)    { HAVOC_ALL solveBilateral(); }
#else
/* reachability guard (plain cbmc --cover, loops unwound a few times, real helper bodies inlined): every read of a tracked member in
   solve()/solveBilateral() and the helpers is reached with the ghost element in range and defined */
#define MAKE_STALE_TV(x) x.n = nondet_size(); x.sdef = 0; x.edef = 0;
#define MAKE_STALE_TM(x) x.nr = nondet_size(); x.nc = nondet_size(); x.sdef = 0; x.edef = 0;
void h_cover(void)
{
  int w = nondet_int();
  __CPROVER_assume(GHOSTS_OK);
  if (w == 0 || w == 1) {
    FOR_ALL_TV(MAKE_STALE_TV) FOR_ALL_TM(MAKE_STALE_TM)
    if (w == 0) solve(); else solveBilateral();
  } else {      /* the helpers, each from an arbitrary state admitted by its precondition */
    struct TV a, b, c;
    HAVOC_ALL HAVOC_TV(a) HAVOC_TV(b) HAVOC_TV(c)
    if (w == 2) { __CPROVER_assume(PRE_mrtac(&a, &b)); multRowTimesActiveCol(&a, &b); }
    else if (w == 3) { __CPROVER_assume(PRE_aiac(&a, &b, &c)); addInActiveCol(&a, &b, &c); }
    else if (w == 4) { __CPROVER_assume(PRE_fm2a(&a, &b)); fillMult2Active(&a, &b); }
    else if (w == 5) { __CPROVER_assume(PRE_cf); classifyFrictionals(); }
    else if (w == 6) { __CPROVER_assume(PRE_in); initializeNewton(); }
    else if (w == 7) { __CPROVER_assume(PRE_ud(&a)); updateDirectionsAndCalcCurrentError(&a, &b); }
    else if (w == 8) { __CPROVER_assume(PRE_uj); updateJacobianForSliding(); }
  }
}
#endif
