/* C44 / PLUS impulse solver: abstract container model for the definite-initialisation (history independence) contract.

   A tracked container (a `mutable` work member of PLUSImpulseSolver, or a reference parameter bound to one) is abstracted to

       struct TV { int n;        current size (a stale size is an arbitrary number)
                   bool sdef;    the size was set IN THIS CALL (resize / assignment / solve output)
                   bool edef; }  element gj was written IN THIS CALL since the last resize
                                 (meaningful while 0 <= gj < n)

   gj is a GHOST INDEX: one arbitrary non-negative integer, fixed for the whole call.  Every clause about "element gj"
   therefore holds for every element.  Matrices use the ghost element (gr, gc).

   READ obligations (the contract proper; each one is an assertion at the place of the read in the sliced code):
     element read v[i]        : i == gj, in range  ==>  edef
     whole-container operand  : sdef, and gj in range ==> edef          (norm(), = v, += v, v *= s, FactorQTZ(v), solve(v,.))
     size query               : sdef                                   (size(), empty(), nrow(); also setToZero()/fill(), which
                                                                        write "over the current size")
   WRITE effects:
     resize(n)                : n := n, sdef := true, edef := false      (SimTK resize keeps nothing one may rely on)
     setToZero()/fill(x)      : edef := true                            (requires sdef, see above)
     v = <expr>, solve(b, v)  : n := size of the value, sdef := true, edef := true
     v[i] = x                 : i == gj ==> edef := true
     eraseFast(p)             : whole read, then n := n - 1              (last element moved into the hole)
   Opaque indices (values the slice does not follow, e.g. m_mult2active[mx]): a read uses the ghost index itself (worst case),
   i.e. element accesses are ASSUMED to be in range; a write uses a fresh nondeterministic index (defines nothing for sure). */
#include <stdbool.h>
typedef double Real;

struct TV { int n; bool sdef; bool edef; };
struct TM { int nr, nc; bool sdef; bool edef; };

extern int gj;            /* ghost element index, arbitrary >= 0 (extern without definition: nondeterministic) */
extern int gr, gc;        /* ghost matrix element */
bool nondet_bool(void);
int nondet_int(void);
unsigned nondet_unsigned(void);
#define MAXN 0xFFFFF
static inline int nondet_size(void) { return (int)(nondet_unsigned() & MAXN); }     /* container sizes are in [0, 2^20) */

#define GJ_IN(v)        (0 <= gj && gj < (v)->n)
#define G_IN(v)         (0 <= gr && gr < (v)->nr && 0 <= gc && gc < (v)->nc)
/* validity predicates used by the contracts */
#define E_OK(v)         (!GJ_IN(v) || (v)->edef)                 /* every element in range was written in this call */
#define V_OK(v)         ((v)->sdef && E_OK(v))                   /* size and contents defined in this call */
#define ME_OK(v)        (!G_IN(v) || (v)->edef)
#define MV_OK(v)        ((v)->sdef && ME_OK(v))
#define STALE(v)        (!(v)->sdef && !(v)->edef)

#ifdef COVER
/* reachability guard: the read is reached with the ghost element in range and defined (so that the obligation is not vacuous) */
#define CHK(c, cov, msg)        __CPROVER_cover(cov)
#define SZ(v, what)             ((v)->n)
#define SZM(v, f, what)         ((v)->f)
#define OBLIGATION(c, msg)      /* loop-invariant and call-precondition obligations play no part in the reachability run */
#else
#define OBLIGATION(c, msg)      __CPROVER_assert(c, msg)
#define CHK(c, cov, msg)        __CPROVER_assert(c, msg)
#define SZ(v, what)             (__CPROVER_assert((v)->sdef, "stale SIZE read (no resize/assignment earlier in this call): " what), (v)->n)
#define SZM(v, f, what)         (__CPROVER_assert((v)->sdef, "stale SIZE read (no resize/assignment earlier in this call): " what), (v)->f)
#endif

#define RD_SIZE(v, what)        CHK((v)->sdef, (v)->sdef, "stale SIZE read (no resize/assignment earlier in this call): " what)
#define RD_ELEM(v, i, what)     CHK(!((i) == gj && GJ_IN(v)) || (v)->edef, (i) == gj && GJ_IN(v) && (v)->edef, "stale ELEMENT read (element not written earlier in this call): " what)
#define RD_WHOLE(v, what)       { CHK((v)->sdef, (v)->sdef, "stale SIZE read by whole-container operand: " what); \
                                     CHK(E_OK(v), GJ_IN(v) && (v)->edef, "stale CONTENTS read by whole-container operand (some element not written earlier in this call): " what); }
#define WR_ELEM(v, i)           { if ((i) == gj) (v)->edef = 1; }
#define RESIZE(v, nn)           { (v)->n = (nn); (v)->sdef = 1; (v)->edef = 0; }
#define SET_ALL(v, what)        { RD_SIZE(v, what); (v)->edef = 1; }
#define ASSIGN(v, nn)           { (v)->n = (nn); (v)->sdef = 1; (v)->edef = 1; }
#define ERASE_FAST(v, what)     { RD_WHOLE(v, what); if ((v)->n > 0) (v)->n = (v)->n - 1; }
#define LOCAL_DEFINED_TV(v)     { (v)->n = nondet_size(); (v)->sdef = 1; (v)->edef = 1; }

#define M_RD_SIZE(v, what)      CHK((v)->sdef, (v)->sdef, "stale SIZE read (no resize/assignment earlier in this call): " what)
#define M_RD_ELEM(v, i, j, what) CHK(!((i) == gr && (j) == gc && G_IN(v)) || (v)->edef, (i) == gr && (j) == gc && G_IN(v) && (v)->edef, "stale MATRIX ELEMENT read (not written earlier in this call): " what)
#define M_RD_ROW(v, i, what)    CHK(!((i) == gr && G_IN(v)) || (v)->edef, (i) == gr && G_IN(v) && (v)->edef, "stale MATRIX ROW read (not written earlier in this call): " what)
#define M_RD_WHOLE(v, what)     { CHK((v)->sdef, (v)->sdef, "stale SIZE read by whole-matrix operand: " what); \
                                     CHK(ME_OK(v), G_IN(v) && (v)->edef, "stale CONTENTS read by whole-matrix operand (some element not written earlier in this call): " what); }
#define M_WR_ELEM(v, i, j)      { if ((i) == gr && (j) == gc) (v)->edef = 1; }
#define M_WR_ROW(v, i)          { if ((i) == gr) (v)->edef = 1; }
#define M_RESIZE(v, a, b)       { (v)->nr = (a); (v)->nc = (b); (v)->sdef = 1; (v)->edef = 0; }
#define M_SET_ALL(v, what)      { M_RD_SIZE(v, what); (v)->edef = 1; }
#define M_ASSIGN(v, a, b)       { (v)->nr = (a); (v)->nc = (b); (v)->sdef = 1; (v)->edef = 1; }
#define LOCAL_DEFINED_TM(v)     { (v)->nr = nondet_size(); (v)->nc = nondet_size(); (v)->sdef = 1; (v)->edef = 1; }
