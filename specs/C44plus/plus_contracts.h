/* C44 / PLUS impulse solver: function contracts and loop invariants of the definite-initialisation contract.
   (model and predicates: plus_model.h; the function bodies are sliced from PLUSImpulseSolver.cpp on every run)

   Top level (solve, solveBilateral): every tracked work member is STALE at entry (not sized, no element written in this call;
   its size field is an arbitrary number), the ghost indices are arbitrary.  The obligations are the read assertions inside the
   bodies and the preconditions of the helpers at their call sites.

   Helpers: PRE_x  = what the helper reads must have been defined by the caller in this call;
            POST_x = what it defines;  assigns = its frame.
   Each helper contract is ENFORCED on the helper's sliced body in its own unit (goto-instrument --dfcc, loop contracts LOOPC_x_k).
   solve() is a plain unit (dfcc on it costs minutes): its loops are put in base/havoc/step form by the slicer with a havoc set
   COMPUTED from the sliced loop body and the invariant INV_solve_k from this file; its helper calls are the contract models
   CALL_x below (assert PRE_x; havoc the frame; assume POST_x), which share PRE_x/POST_x with the enforced contracts. */

#define P(x) (&(x))
#define FRESH(p) __CPROVER_is_fresh(p, sizeof(*(p)))
/* colActive[ax] is read for ax < active.size() */
#define COL_OK(active, col) (!(0 <= gj && gj < (active)->n && gj < (col)->n) || (col)->edef)
#define GHOSTS_OK (0 <= gj && 0 <= gr && 0 <= gc)
#define HAVOC_TVP(v) { (v)->n = nondet_int(); (v)->sdef = nondet_bool(); (v)->edef = nondet_bool(); }
#define HAVOC_TMP(v) { (v)->nr = nondet_int(); (v)->nc = nondet_int(); (v)->sdef = nondet_bool(); (v)->edef = nondet_bool(); }

/* ---- file-local utilities ------------------------------------------------------------------------------------------- */
#define PRE_mrtac(active, colActive)   (V_OK(active) && COL_OK(active, colActive))
#define CONTRACT_mrtac \
  __CPROVER_requires(FRESH(active) && FRESH(colActive) && GHOSTS_OK) \
  __CPROVER_requires(PRE_mrtac(active, colActive)) \
  __CPROVER_assigns() \
  __CPROVER_ensures(1)
#define INV_mrtac_1 (0 <= ax)
#define LOOPC_mrtac_1 __CPROVER_assigns(ax) __CPROVER_loop_invariant(INV_mrtac_1)
#define CALL_mrtac(a, c, what) { OBLIGATION(PRE_mrtac(a, c), "precondition (operands defined in this call) of " what); }

#define PRE_aiac(active, colActive, colFull)  (V_OK(active) && COL_OK(active, colActive) && E_OK(colFull))
#define POST_aiac(colFull)                    (E_OK(colFull))
#define CONTRACT_aiac \
  __CPROVER_requires(FRESH(active) && FRESH(colActive) && FRESH(colFull) && GHOSTS_OK) \
  __CPROVER_requires(PRE_aiac(active, colActive, colFull)) \
  __CPROVER_assigns(colFull->edef) \
  __CPROVER_ensures(POST_aiac(colFull))
#define INV_aiac_1 (0 <= ax && E_OK(colFull))
#define LOOPC_aiac_1 __CPROVER_assigns(ax, colFull->edef) __CPROVER_loop_invariant(INV_aiac_1)
#define CALL_aiac(a, c, f, what) { OBLIGATION(PRE_aiac(a, c, f), "precondition (operands defined in this call) of " what); \
                                   (f)->edef = nondet_bool(); __CPROVER_assume(POST_aiac(f)); }

/* ---- fillMult2Active: "mult2active must already have been resized" (comment in the source) ----------------------------- */
#define PRE_fm2a(active, mult2active)  (V_OK(active) && (mult2active)->sdef)
#define POST_fm2a(mult2active)         ((mult2active)->edef)
#define CONTRACT_fm2a \
  __CPROVER_requires(FRESH(active) && FRESH(mult2active) && GHOSTS_OK) \
  __CPROVER_requires(PRE_fm2a(active, mult2active)) \
  __CPROVER_assigns(mult2active->edef) \
  __CPROVER_ensures(POST_fm2a(mult2active))
#define INV_fm2a_1 (0 <= aj && mult2active->edef)
#define LOOPC_fm2a_1 __CPROVER_assigns(aj, mult2active->edef) __CPROVER_loop_invariant(INV_fm2a_1)
#define CALL_fm2a(a, m2a, what) { OBLIGATION(PRE_fm2a(a, m2a), "precondition (m_active defined, m_mult2active sized in this call) of " what); \
                                  (m2a)->edef = nondet_bool(); __CPROVER_assume(POST_fm2a(m2a)); }

/* ---- classifyFrictionals: reads the start-of-interval velocities m_verrLeft ------------------------------------------ */
#define PRE_cf   (E_OK(P(m_verrLeft)))
#define CONTRACT_cf \
  __CPROVER_requires(GHOSTS_OK && PRE_cf) \
  __CPROVER_assigns() \
  __CPROVER_ensures(1)
#define LOOPC_cf_1 __CPROVER_assigns(k) __CPROVER_loop_invariant(1)
#define LOOPC_cf_2 __CPROVER_assigns(i) __CPROVER_loop_invariant(1)
#define CALL_cf(what) { OBLIGATION(PRE_cf, "precondition (m_verrLeft defined in this call) of " what); }

/* ---- initializeNewton: "Assumes m_active and m_mult2active have been filled in" ---------------------------------------
   defines m_JacActive (na x na), m_rhsActive, m_piActive (na, all elements); m_errActive is only RESIZED */
#define PRE_in   (V_OK(P(m_active)) && E_OK(P(m_verrLeft)) && E_OK(P(m_verrExpand)) && E_OK(P(m_mult2active)))
#define POST_in  (MV_OK(P(m_JacActive)) && m_JacActive.nr == m_active.n && m_JacActive.nc == m_active.n \
                  && V_OK(P(m_rhsActive)) && m_rhsActive.n == m_active.n \
                  && V_OK(P(m_piActive)) && m_piActive.n == m_active.n \
                  && m_errActive.sdef && m_errActive.n == m_active.n)
#define CONTRACT_in \
  __CPROVER_requires(GHOSTS_OK && PRE_in) \
  __CPROVER_assigns(m_JacActive, m_rhsActive, m_piActive, m_errActive) \
  __CPROVER_ensures(POST_in)
#define INV_in_1 (0 <= aj && ((0 <= gj && gj < aj) ==> (m_rhsActive.edef && m_piActive.edef)) \
                  && ((gc < aj && G_IN(P(m_JacActive))) ==> m_JacActive.edef))
#define INV_in_2 (0 <= ai && (((gc < aj || (gc == aj && gr < ai)) && G_IN(P(m_JacActive))) ==> m_JacActive.edef))
#define INV_in_3 (E_OK(P(m_piActive)))
#define LOOPC_in_1 __CPROVER_assigns(aj, m_JacActive.edef, m_rhsActive.edef, m_piActive.edef) __CPROVER_loop_invariant(INV_in_1)
#define LOOPC_in_2 __CPROVER_assigns(ai, m_JacActive.edef) __CPROVER_loop_invariant(INV_in_2)
#define LOOPC_in_3 __CPROVER_assigns(k, m_piActive.edef) __CPROVER_loop_invariant(INV_in_3)
#define CALL_in(what) { OBLIGATION(PRE_in, "precondition (m_active, m_mult2active, m_verrLeft, m_verrExpand defined in this call) of " what); \
                        HAVOC_TMP(P(m_JacActive)) HAVOC_TVP(P(m_rhsActive)) HAVOC_TVP(P(m_piActive)) HAVOC_TVP(P(m_errActive)) __CPROVER_assume(POST_in); }

/* ---- updateDirectionsAndCalcCurrentError(piActive, errActive): errActive := err(piActive) ------------------------------ */
#define PRE_ud(piActive)   (V_OK(P(m_active)) && E_OK(P(m_rhsActive)) && E_OK(P(m_verrExpand)) && E_OK(P(m_mult2active)) && E_OK(piActive))
#define POST_ud(errActive) (V_OK(errActive) && (errActive)->n == m_active.n)
#define CONTRACT_ud \
  __CPROVER_requires(FRESH(piActive) && FRESH(errActive) && GHOSTS_OK) \
  __CPROVER_requires(PRE_ud(piActive)) \
  __CPROVER_assigns(*errActive) \
  __CPROVER_ensures(POST_ud(errActive))
#define INV_ud_1 (0 <= ai && ((0 <= gj && gj < ai) ==> errActive->edef))
#define INV_ud_2 (E_OK(errActive))
#define LOOPC_ud_1 __CPROVER_assigns(ai, errActive->edef) __CPROVER_loop_invariant(INV_ud_1)
#define LOOPC_ud_2 __CPROVER_assigns(k, errActive->edef) __CPROVER_loop_invariant(INV_ud_2)
#define CALL_ud(pi, err, what) { OBLIGATION(PRE_ud(pi), "precondition (m_active, m_rhsActive, m_verrExpand, m_mult2active, piActive defined in this call) of " what); \
                                 HAVOC_TVP(err) __CPROVER_assume(POST_ud(err)); }

/* ---- updateJacobianForSliding: rewrites rows of the (already filled) Jacobian ------------------------------------------- */
#define PRE_uj   (V_OK(P(m_active)) && E_OK(P(m_mult2active)) && E_OK(P(m_piActive)) && ME_OK(P(m_JacActive)))
#define POST_uj  (ME_OK(P(m_JacActive)))
#define CONTRACT_uj \
  __CPROVER_requires(GHOSTS_OK && PRE_uj) \
  __CPROVER_assigns(m_JacActive.edef) \
  __CPROVER_ensures(POST_uj)
#define LOOPC_uj_1 __CPROVER_assigns(k, m_JacActive.edef) __CPROVER_loop_invariant(ME_OK(P(m_JacActive)))
#define LOOPC_uj_2 __CPROVER_assigns(ai, m_JacActive.edef) __CPROVER_loop_invariant(ME_OK(P(m_JacActive)))
#define LOOPC_uj_3 __CPROVER_assigns(ai, m_JacActive.edef) __CPROVER_loop_invariant(ME_OK(P(m_JacActive)))
#define CALL_uj(what) { OBLIGATION(PRE_uj, "precondition (m_active, m_mult2active, m_piActive, m_JacActive defined in this call) of " what); \
                        m_JacActive.edef = nondet_bool(); __CPROVER_assume(POST_uj); }

/* ---- solve (plain unit; the havoc set of every loop is computed by the slicer) ---------------------------------------------- */
#define REQ_STALE_TV(x) && STALE(P(x)) && 0 <= x.n && x.n <= MAXN
#define REQ_STALE_TM(x) && STALE(P(x)) && 0 <= x.nr && x.nr <= MAXN && 0 <= x.nc && x.nc <= MAXN
#define ALL_STALE (1 FOR_ALL_TV(REQ_STALE_TV) FOR_ALL_TM(REQ_STALE_TM))
#define CONTRACT_solve_PRE (GHOSTS_OK && ALL_STALE)
/* 1: sliding-interval loop   while (s < 1) */
#define INV_solve_1  (V_OK(P(m_verrLeft)) && V_OK(P(m_verrExpand)))
/* 2: element-wise recomputation of m_verrExpand (only when there are expanders) */
#define INV_solve_2  (E_OK(P(m_verrExpand)))
/* 3: active-set loop   for (;;++its) */
#define INV_solve_3  (V_OK(P(m_active)))
/* 4: Newton loop, 5: line search */
#define INV_solve_4  (V_OK(P(m_piActive)) && V_OK(P(m_errActive)) && MV_OK(P(m_JacActive)))
#define INV_solve_5  (V_OK(P(m_piActive)) && V_OK(P(m_errActive)))
/* 6-13: read-only loops over the constraints */
#define INV_solve_6  1
#define INV_solve_7  1
#define INV_solve_8  1
#define INV_solve_9  1
#define INV_solve_10 1
#define INV_solve_11 1
#define INV_solve_12 1
#define INV_solve_13 1
/* 14: m_verrLeft[mx] -= ... */
#define INV_solve_14 (E_OK(P(m_verrLeft)))

/* ---- solveBilateral ------------------------------------------------------------------------------------------------------- */
#define CONTRACT_sb \
  __CPROVER_requires(GHOSTS_OK && ALL_STALE) \
  __CPROVER_assigns(m_bilateralActive, m_rhsActive, m_piActive) \
  __CPROVER_ensures(1)
#define LOOPC_sb_1 __CPROVER_assigns(aj, m_bilateralActive.edef, m_rhsActive.edef) \
  __CPROVER_loop_invariant(0 <= aj && ((0 <= gj && gj < aj) ==> m_rhsActive.edef) && ((gc < aj && G_IN(P(m_bilateralActive))) ==> m_bilateralActive.edef))
#define LOOPC_sb_2 __CPROVER_assigns(ai, m_bilateralActive.edef) \
  __CPROVER_loop_invariant(0 <= ai && (((gc < aj || (gc == aj && gr < ai)) && G_IN(P(m_bilateralActive))) ==> m_bilateralActive.edef))
#define LOOPC_sb_3 __CPROVER_assigns(ai) __CPROVER_loop_invariant(1)
