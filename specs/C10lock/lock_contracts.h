/* Contracts of the lock protocol (from the documentation of MobilizedBody::lock/lockAt/unlock/getLockLevel/getLockValueAsVector
   in MobilizedBody.h and the C10 property text), for arbitrary ghost indices gq / gu / gm / gi. */
#define WF_VEC(v, len) ((v).n == (len) && __CPROVER_is_fresh((v).data, sizeof(Real) * (unsigned long)(len)))
#define IS_LEVEL(l) ((l) == Motion_NoLevel || (l) == Motion_Acceleration || (l) == Motion_Velocity || (l) == Motion_Position)

#define WF_SIZES (0 < g_nqt && g_nqt < 100000 && 0 < g_nut && g_nut < 100000 && 0 < g_nb && g_nb < 100000)
#define WF_SLOTS(s) (0 <= (s)->mine.firstQIndex && (s)->mine.firstQIndex <= g_nqt && 0 <= (s)->mine.nQInUse && (s)->mine.nQInUse <= 7 && (s)->mine.firstQIndex + (s)->mine.nQInUse <= g_nqt \
  && 0 <= (s)->mine.firstUIndex && (s)->mine.firstUIndex <= g_nut && 0 <= (s)->mine.nUInUse && (s)->mine.nUInUse <= 6 && (s)->mine.firstUIndex + (s)->mine.nUInUse <= g_nut \
  && 0 <= gq && gq < g_nqt && 0 <= gu && gu < g_nut && 0 <= gm && gm < g_nb)
#define WF_LOCK(self, s)                                                                                                              \
__CPROVER_requires(__CPROVER_is_fresh(self, sizeof(*self)) && __CPROVER_is_fresh(s, sizeof(*s)))                                      \
__CPROVER_requires(WF_SIZES)                        \
__CPROVER_requires(WF_VEC(s->q, g_nqt) && WF_VEC(s->iv.lockedQs, g_nqt) && WF_VEC(s->u, g_nut) && WF_VEC(s->iv.lockedUs, g_nut))      \
__CPROVER_requires(s->iv.mobilizerLockLevel.n == g_nb && __CPROVER_is_fresh(s->iv.mobilizerLockLevel.data, sizeof(int) * (unsigned long)g_nb)) \
__CPROVER_requires(0 <= self->myMobilizedBodyIndex && self->myMobilizedBodyIndex < g_nb)                                              \
/* this mobilizer's slots (SBModelCache / RigidBodyNode): at most 7 q and 6 u, inside the pools */                                   \
__CPROVER_requires(WF_SLOTS(s))                                                                                                       \
__CPROVER_requires(!ghost_threw)

#define ME(self) ((self)->myMobilizedBodyIndex)
/* OLDV(name, lvalue): pre-state value. Contract mode: __CPROVER_old; plain-harness mode (lock_harness.h): the snapshot variable old_<name>. */
#define OLDV(name, x) __CPROVER_old(x)
#define O_LEVEL(s) OLDV(level, (s)->iv.mobilizerLockLevel.data[gm])
#define O_LQ(s)    OLDV(lq, (s)->iv.lockedQs.data[gq])
#define O_LU(s)    OLDV(lu, (s)->iv.lockedUs.data[gu])
#define O_Q(s)     OLDV(q, (s)->q.data[gq])
#define O_U(s)     OLDV(u, (s)->u.data[gu])
#define O_STAGE(s) OLDV(stage, (s)->stage)
#define LEVEL_UNCHANGED(s)  ((s)->iv.mobilizerLockLevel.data[gm] == O_LEVEL(s))
#define LQ_UNCHANGED(s)     SAME((s)->iv.lockedQs.data[gq], O_LQ(s))
#define LU_UNCHANGED(s)     SAME((s)->iv.lockedUs.data[gu], O_LU(s))
#define Q_UNCHANGED(s)      SAME((s)->q.data[gq], O_Q(s))
#define U_UNCHANGED(s)      SAME((s)->u.data[gu], O_U(s))

/* ---------------- lock(state, level) ---------------- */
/* 2: on failure nothing changes */
/* 3: this mobilizer's lock level is the requested one, every other mobilizer's level is unchanged; Instance-stage change */
/* 4: Position: locked q := current q (own slots); all other lockedQs slots unchanged */
/* 5: Position: "the generalized speeds u for this mobilizer are set to zero in the state"; every other u unchanged (q is not assignable at all) */
/* 6: Velocity: locked u := current u (own slots) */
/* 7: Acceleration: "lock the acceleration to zero": the slot later read as the prescribed udot is +0.0 whatever it held before */
/* 8: frame of lockedUs: other mobilizers' slots, and own slots at Position / NoLevel */
#define LOCK_POST(E) \
E(ghost_threw == (O_STAGE(state) < Stage_Model)) \
E(ghost_threw ==> (LEVEL_UNCHANGED(state) && LQ_UNCHANGED(state) && LU_UNCHANGED(state) && U_UNCHANGED(state))) \
E(!ghost_threw ==> (state->iv.mobilizerLockLevel.data[gm] == (gm == ME(self) ? level : O_LEVEL(state)))) \
E(!ghost_threw ==> state->ghost_iv_invalidated) \
E((!ghost_threw && level == Motion_Position && MINE_Q(state, gq)) ==> SAME(state->iv.lockedQs.data[gq], O_Q(state))) \
E(!(level == Motion_Position && MINE_Q(state, gq)) ==> LQ_UNCHANGED(state)) \
E((!ghost_threw && level == Motion_Position && MINE_U(state, gu)) ==> PZERO(state->u.data[gu])) \
E(!(level == Motion_Position && MINE_U(state, gu)) ==> U_UNCHANGED(state)) \
E((!ghost_threw && level == Motion_Velocity && MINE_U(state, gu)) ==> SAME(state->iv.lockedUs.data[gu], O_U(state))) \
E((!ghost_threw && level == Motion_Acceleration && MINE_U(state, gu)) ==> PZERO(state->iv.lockedUs.data[gu])) \
E((!MINE_U(state, gu) || level == Motion_Position || level == Motion_NoLevel) ==> LU_UNCHANGED(state)) \
E(Q_UNCHANGED(state))
void MI_lock(const struct MobodImpl* self, struct State* state, Motion_Level level)
WF_LOCK(self, state)
__CPROVER_requires(IS_LEVEL(level))
__CPROVER_assigns(ghost_threw, state->ghost_iv_invalidated, state->ghost_u_invalidated,
                  __CPROVER_object_whole(state->iv.mobilizerLockLevel.data), __CPROVER_object_whole(state->iv.lockedQs.data),
                  __CPROVER_object_whole(state->iv.lockedUs.data), __CPROVER_object_whole(state->u.data))
/* 1: "The state must already have been realized to at least Stage::Model" */
LOCK_POST(__CPROVER_ensures)
;

/* ---------------- lockAt(state, n, value, level) ---------------- */
#define LOCKAT_MISMATCH(s) ((level == Motion_Position && n != (s)->mine.nQInUse) || ((level == Motion_Velocity || level == Motion_Acceleration) && n != (s)->mine.nUInUse))
/* 2: stage failure: nothing changes */
/* 3: level */
/* 4: Position: q and locked q := value (own slots), u := 0 (own slots) */
/* 5: Velocity / Acceleration: the stored value (lockedUs, own slots) is the given one */
/* 6: frame of lockedUs */
#define LOCKAT_POST(E) \
E(ghost_threw == (O_STAGE(state) < Stage_Model || LOCKAT_MISMATCH(state))) \
E(O_STAGE(state) < Stage_Model ==> (LEVEL_UNCHANGED(state) && LQ_UNCHANGED(state) && LU_UNCHANGED(state) && U_UNCHANGED(state) && Q_UNCHANGED(state))) \
E(!ghost_threw ==> (state->iv.mobilizerLockLevel.data[gm] == (gm == ME(self) ? level : O_LEVEL(state)))) \
E(gm != ME(self) ==> LEVEL_UNCHANGED(state)) \
E(!ghost_threw ==> state->ghost_iv_invalidated) \
E((!ghost_threw && level == Motion_Position && MINE_Q(state, gq)) ==> \
                  (SAME(state->iv.lockedQs.data[gq], value[(MINE_Q(state, gq) && !ghost_threw && level == Motion_Position) ? gq - state->mine.firstQIndex : 0]) \
                   && SAME(state->q.data[gq], value[(MINE_Q(state, gq) && !ghost_threw && level == Motion_Position) ? gq - state->mine.firstQIndex : 0]))) \
E((!MINE_Q(state, gq) || level != Motion_Position) ==> (LQ_UNCHANGED(state) && Q_UNCHANGED(state))) \
E((!ghost_threw && level == Motion_Position && MINE_U(state, gu)) ==> PZERO(state->u.data[gu])) \
E((!MINE_U(state, gu) || level != Motion_Position) ==> U_UNCHANGED(state)) \
E((!ghost_threw && (level == Motion_Velocity || level == Motion_Acceleration) && MINE_U(state, gu)) ==> \
                  SAME(state->iv.lockedUs.data[gu], value[(MINE_U(state, gu) && !ghost_threw && (level == Motion_Velocity || level == Motion_Acceleration)) ? gu - state->mine.firstUIndex : 0])) \
E((!MINE_U(state, gu) || level == Motion_Position || level == Motion_NoLevel) ==> LU_UNCHANGED(state))
void MI_lockAt(const struct MobodImpl* self, struct State* state, int n, const Real* value, Motion_Level level)
WF_LOCK(self, state)
__CPROVER_requires(IS_LEVEL(level) && 0 <= n && n <= 8 && __CPROVER_is_fresh(value, sizeof(Real) * (unsigned long)(n + 1)))
__CPROVER_assigns(ghost_threw, state->ghost_iv_invalidated, state->ghost_u_invalidated, state->ghost_q_invalidated,
                  __CPROVER_object_whole(state->iv.mobilizerLockLevel.data), __CPROVER_object_whole(state->iv.lockedQs.data),
                  __CPROVER_object_whole(state->iv.lockedUs.data), __CPROVER_object_whole(state->u.data), __CPROVER_object_whole(state->q.data))
/* 1: stage >= Model and "the Vector must be the expected length" */
LOCKAT_POST(__CPROVER_ensures)
;

/* ---------------- unlock(state) ---------------- */
/* "Unlock this mobilizer": level NoLevel; other mobilizers unchanged; recorded values, q and u are not assignable */
#define UNLOCK_POST(E) \
E(ghost_threw == (O_STAGE(state) < Stage_Topology)) \
E(ghost_threw ==> LEVEL_UNCHANGED(state)) \
E(!ghost_threw ==> (state->iv.mobilizerLockLevel.data[gm] == (gm == ME(self) ? Motion_NoLevel : O_LEVEL(state)))) \
E(!ghost_threw ==> state->ghost_iv_invalidated)
void MI_unlock(const struct MobodImpl* self, struct State* state)
WF_LOCK(self, state)
__CPROVER_assigns(ghost_threw, state->ghost_iv_invalidated, __CPROVER_object_whole(state->iv.mobilizerLockLevel.data))
UNLOCK_POST(__CPROVER_ensures)
;

/* ---------------- getLockLevel(state) / isLocked(state) ---------------- */
Motion_Level MI_getLockLevel(const struct MobodImpl* self, const struct State* state)
WF_LOCK(self, state)
__CPROVER_assigns()
__CPROVER_ensures(__CPROVER_return_value == state->iv.mobilizerLockLevel.data[ME(self)])
;
bool MB_isLocked(const struct MobodImpl* self, const struct State* state)
WF_LOCK(self, state)
__CPROVER_assigns()
__CPROVER_ensures(__CPROVER_return_value == (state->iv.mobilizerLockLevel.data[ME(self)] != Motion_NoLevel))
;

/* ---------------- getLockValueAsVector(state) ---------------- */
#define MYLEVEL(s, self) ((s)->iv.mobilizerLockLevel.data[ME(self)])
#define GLV_POST(E) \
E(MYLEVEL(state, self) == Motion_NoLevel ==> __CPROVER_return_value.n == 0) \
E(MYLEVEL(state, self) == Motion_Position ==> __CPROVER_return_value.n == state->mine.nQInUse) \
E((MYLEVEL(state, self) == Motion_Velocity || MYLEVEL(state, self) == Motion_Acceleration) ==> __CPROVER_return_value.n == state->mine.nUInUse) \
E((MYLEVEL(state, self) == Motion_Position && gi < state->mine.nQInUse) ==> \
                  SAME(__CPROVER_return_value.data[gi < __CPROVER_return_value.n ? gi : 0], state->iv.lockedQs.data[(MYLEVEL(state, self) == Motion_Position && gi < state->mine.nQInUse) ? state->mine.firstQIndex + gi : 0])) \
E(((MYLEVEL(state, self) == Motion_Velocity || MYLEVEL(state, self) == Motion_Acceleration) && gi < state->mine.nUInUse) ==> \
                  SAME(__CPROVER_return_value.data[gi < __CPROVER_return_value.n ? gi : 0], state->iv.lockedUs.data[((MYLEVEL(state, self) == Motion_Velocity || MYLEVEL(state, self) == Motion_Acceleration) && gi < state->mine.nUInUse) ? state->mine.firstUIndex + gi : 0]))
struct Vector MI_getLockValueAsVector(const struct MobodImpl* self, const struct State* state)
WF_LOCK(self, state)
__CPROVER_requires(IS_LEVEL(MYLEVEL(state, self)) && 0 <= gi && gi < 8)
__CPROVER_assigns()
/* "the q, u, or udot value at which this mobilizer is locked, depending on the lock level, as a Vector of the appropriate length;
    if not currently locked, a zero-length Vector" */
GLV_POST(__CPROVER_ensures)
;
