/* C10, lock protocol of MobilizedBodyImpl (Simbody/src/MobilizedBody.cpp): lock / lockAt / unlock / getLockLevel /
   getLockValueAsVector, and the prescribed-udot computation of MobilizedBodyImpl::realizeDynamics.

   Stand-in for what the functions touch:
     State            q, u (this subsystem's), the matter subsystem's stage, SBInstanceVars (mobilizerLockLevel[], lockedQs, lockedUs),
                      the model-cache entry of THIS mobilizer (firstQIndex/nQInUse/firstUIndex/nUInUse), its instance-cache entry
                      (qMethod/uMethod/udotMethod/firstPresUDot), the dynamics-cache pool presUDotPool.
     MobodImpl        myMobilizedBodyIndex.
   Element access to Vector / Array_ is bounds-checked raw storage (index in range is an obligation checked here).
   Exceptions (SimTK_STAGECHECK_GE_ALWAYS, SimTK_ERRCHK3_ALWAYS) -> ghost flag ghost_threw + immediate return.
   Quantifier-free encoding: ghost indices gq (any q index), gu (any u index), gm (any mobilized body), gi (any local index). */
#include <stdbool.h>
#include <stdlib.h>
typedef double Real;
typedef int UIndex, QIndex, MobilizedBodyIndex, Motion_Level, Motion_Method, PresUDotPoolIndex;
#include MOTION_ENUM_H   /* generated from Motion.h: Motion_NoLevel, Motion_Acceleration, Motion_Velocity, Motion_Position, Motion_Prescribed ... */
#include STAGE_ENUM_H    /* generated from Stage.h:  Stage_Topology, Stage_Model, ... */
#define assert(c) __CPROVER_assert(c, "assert() of the source")

struct Vector     { Real* data; int n; };
struct LevelArray { int*  data; int n; };
struct SBInstanceVars { struct LevelArray mobilizerLockLevel; struct Vector lockedQs, lockedUs; };
struct SBModelPerMobodInfo { int nQInUse, nUInUse; QIndex firstQIndex; UIndex firstUIndex; };
struct SBInstancePerMobodInfo { Motion_Method qMethod, uMethod, udotMethod; PresUDotPoolIndex firstPresUDot; };
struct SBDynamicsCache { struct Vector presUDotPool; };
struct State {
  struct Vector q, u;
  struct SBInstanceVars iv;
  struct SBModelPerMobodInfo mine;           /* mc.getMobodModelInfo(myMobilizedBodyIndex) */
  struct SBInstancePerMobodInfo mineInst;    /* ic.getMobodInstanceInfo(myMobilizedBodyIndex) */
  struct SBDynamicsCache dc;
  int stage;                                 /* getMyMatterSubsystemRep().getStage(state) */
  bool ghost_q_invalidated, ghost_u_invalidated, ghost_iv_invalidated;
};
struct MobodImpl { MobilizedBodyIndex myMobilizedBodyIndex; bool hasMotion_; bool qdotIsU; };
#define SBStateDigest State

/* ghosts */
extern int gq, gu, gm, gi;
extern int g_nqt, g_nut, g_nb, g_npud;       /* total nq, total nu, number of bodies, size of presUDotPool */
extern bool ghost_threw;
static void vf_throw(void) { ghost_threw = 1; }

/* bit-pattern equality (same value and sign of zero, or both NaN); exactly +0.0 */
#define SAME(a, b) (((a) == (b) && __CPROVER_signd(a) == __CPROVER_signd(b)) || (__CPROVER_isnand(a) && __CPROVER_isnand(b)))
#define PZERO(a)   ((a) == 0.0 && !__CPROVER_signd(a))

/* ---- State / subsystem access (assumed) ---- */
static int getStage(const struct MobodImpl* self, const struct State* s) { return s->stage; }
static struct SBInstanceVars* updInstanceVars(const struct MobodImpl* self, struct State* s) { s->ghost_iv_invalidated = 1; return &s->iv; }
static const struct SBInstanceVars* getInstanceVars(const struct MobodImpl* self, const struct State* s) { return &s->iv; }
static MobilizedBodyIndex getMyMobilizedBodyIndex(const struct MobodImpl* self) { return self->myMobilizedBodyIndex; }
static struct Vector* State_updU(struct State* s) { s->ghost_u_invalidated = 1; return &s->u; }
static struct Vector* State_updQ(struct State* s) { s->ghost_q_invalidated = 1; return &s->q; }
static const struct Vector* State_getU(const struct State* s) { return &s->u; }
static const struct Vector* State_getQ(const struct State* s) { return &s->q; }
/* SimbodyMatterSubsystemRep::findMobilizerQs/Us(s, mbx, start, n): the slots of this mobilizer */
static void findMobilizerUs(const struct MobodImpl* self, const struct State* s, UIndex* uStart, int* nu) { *uStart = s->mine.firstUIndex; *nu = s->mine.nUInUse; }
static void findMobilizerQs(const struct MobodImpl* self, const struct State* s, QIndex* qStart, int* nq) { *qStart = s->mine.firstQIndex; *nq = s->mine.nQInUse; }

/* ---- containers ---- */
static int vec_size(const struct Vector* v) { return v->n; }
static Real* vec_upd(struct Vector* v, int k) {
  __CPROVER_assert(0 <= k && k < v->n, "Vector::operator[] index in range");
  return &v->data[k];
}
static Real vec_get(const struct Vector* v, int k) {
  __CPROVER_assert(0 <= k && k < v->n, "Vector::operator[] const index in range");
  return v->data[k];
}
static int* lev_upd(struct LevelArray* v, int k) {
  __CPROVER_assert(0 <= k && k < v->n, "Array_<Motion::Level,MobilizedBodyIndex>::operator[] index in range");
  return &v->data[k];
}
static int lev_get(const struct LevelArray* v, int k) {
  __CPROVER_assert(0 <= k && k < v->n, "Array_<Motion::Level,MobilizedBodyIndex>::operator[] const index in range");
  return v->data[k];
}
static void vec_ctor(struct Vector* v) { v->data = 0; v->n = 0; }
static void vec_resize(struct Vector* v, int n) {
  __CPROVER_assert(0 <= n, "Vector::resize(n): n >= 0");
  v->data = (Real*)malloc(sizeof(Real) * (unsigned long)(n + 1)); v->n = n;
}

#define MINE_U(s, k) ((s)->mine.firstUIndex <= (k) && (k) < (s)->mine.firstUIndex + (s)->mine.nUInUse)
#define MINE_Q(s, k) ((s)->mine.firstQIndex <= (k) && (k) < (s)->mine.firstQIndex + (s)->mine.nQInUse)
