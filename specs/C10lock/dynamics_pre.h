/* C10, MobilizedBodyImpl::realizeDynamics (Simbody/src/MobilizedBody.cpp): stand-ins for what the prescribed-udot block touches.
   SBStateDigest / SBInstanceCache / SBModelCache are all views of the State stand-in of lock_pre.h (entries of THIS mobilizer only:
   asking for another mobilizer's per-mobod info is an obligation failure).
   Motion::calcPrescribed* and RigidBodyNode::multiplyByNDot/NInv are ABSTRACT: they fill their output with arbitrary values
   (abstract vector) and record their arguments, the number of calls, the u-sized outputs at the ghost local u index g_ul (= gp - firstPresUDot)
   and the q-sized vectors (prescribed qdotdot, NDot*u, the INPUT of multiplyByNInv) as whole 8-element records (constant indices). */
#define SBInstanceCache State
#define SBModelCache    State
struct MotionImpl    { int unused; };
struct RigidBodyNode { bool qdotIsU; };
extern int gp;                               /* any index of presUDotPool */
double nondet_double(void);

static int  g_self_mbx;                      /* ghost: index of the mobilizer the State stand-in belongs to */
static int  g_ul;                            /* ghost: local u index (gp - firstPresUDot), any int */
static bool g_motionDisabled;                /* iv.prescribedMotionIsDisabled[mbx] */
static struct MotionImpl    g_motion;
static struct RigidBodyNode g_rbn;
/* call records */
static int n_qdd, n_vdot, n_acc, n_ndot, n_ninv, n_virtual;
static int g_qdd_n, g_vdot_n, g_acc_n;                       /* length argument */
static const Real *g_qdd_out, *g_vdot_out, *g_acc_out, *g_ndot_in, *g_ninv_in, *g_ndot_out, *g_ninv_out;
static bool g_ndot_right, g_ninv_right;
static const struct State *g_qdd_s, *g_vdot_s, *g_acc_s, *g_ndot_s, *g_ninv_s;
static Real g_qdd_at_ul, g_vdot_at_ul, g_acc_at_ul;          /* outputs of the Motion at the ghost element */
static Real g_ninv_out_at_ul;                                /* multiplyByNInv: output element [g_ul] */

/* ---- digest / cache access ---- */
static const struct SBInstanceVars* Digest_getInstanceVars(const struct State* sbs) { return &sbs->iv; }
static const struct State* Digest_getInstanceCache(const struct State* sbs) { return sbs; }
static const struct State* Digest_getModelCache(const struct State* sbs) { return sbs; }
static struct SBDynamicsCache* Digest_updDynamicsCache(struct State* sbs) { return &sbs->dc; }
static const struct State* Digest_getState(const struct State* sbs) { return sbs; }
static const struct Vector* Digest_getU(const struct State* sbs) { return &sbs->u; }
static const struct SBInstancePerMobodInfo* getMobodInstanceInfo(const struct State* ic, MobilizedBodyIndex mbx) {
  __CPROVER_assert(mbx == g_self_mbx, "getMobodInstanceInfo(mbx): mbx is this mobilizer");
  return &ic->mineInst;
}
static const struct SBModelPerMobodInfo* getMobodModelInfo(const struct State* mc, MobilizedBodyIndex mbx) {
  __CPROVER_assert(mbx == g_self_mbx, "getMobodModelInfo(mbx): mbx is this mobilizer");
  return &mc->mine;
}
/* &dc.presUDotPool[k]: the pool is modelled as disjoint blocks: this mobilizer's block (nu slots from firstPresUDot; a separate object g_own_block, so that
   running past its end is a pointer-check failure) and every other slot (presUDotPool.data[], compared with its old value at the ghost index gp).
   Taking the address of any slot other than firstPresUDot is recorded (g_foreign_addr) and yields a scratch block. */
static int   g_first_pud;                    /* ghost: firstPresUDot of this mobilizer */
static Real* g_own_block;
static Real  g_scratch_block[8];
static bool  g_foreign_addr;
static Real* pool_addr(struct Vector* pool, int k) {
  __CPROVER_assert(0 <= k && k < pool->n, "Array_<Real>::operator[] (presUDotPool) index in range");
  if (k == g_first_pud) return g_own_block;
  g_foreign_addr = 1;
  return g_scratch_block;
}
static const Real* vec_addr(const struct Vector* v, int k) {
  __CPROVER_assert(0 <= k && k < v->n, "&Vector::operator[] const index in range");
  return &v->data[k];
}
static bool hasMotion(const struct MobodImpl* self) { return self->hasMotion_; }
static bool motionDisabled_get(const struct SBInstanceVars* iv, MobilizedBodyIndex mbx) {
  __CPROVER_assert(mbx == g_self_mbx, "iv.prescribedMotionIsDisabled[mbx]: mbx is this mobilizer");
  return g_motionDisabled;
}
static const struct MotionImpl* getMotionImpl(const struct MobodImpl* self) {
  __CPROVER_assert(self->hasMotion_, "getMotion() requires hasMotion()");
  return &g_motion;
}
static const struct RigidBodyNode* getMyRigidBodyNode(const struct MobodImpl* self) { g_rbn.qdotIsU = self->qdotIsU; return &g_rbn; }
static bool RBN_isQDotAlwaysTheSameAsU(const struct RigidBodyNode* rbn) { return rbn->qdotIsU; }

/* ---- abstract vectors ---- */
static void abs_fill(Real* out, int n) {
  __CPROVER_assert(0 <= n && n <= 7, "abstract operator: at most 7 (q) / 6 (u) elements requested");
  for (int k = 0; k < n; ++k) out[k] = nondet_double();
}
#define AT(p, n, k) ((0 <= (k) && (k) < (n)) ? (p)[k] : 0.0)
/* whole-vector records (constant indices) for the element-wise statement (P) */
static Real g_qdd_rec[8], g_ndotu_rec[8], g_ninv_in_rec[8];
static void rec8(Real* dst, const Real* p, int n) { for (int k = 0; k < 8; ++k) dst[k] = (k < n) ? p[k] : 0.0; }

/* `x[i] -= y[i]` of the source is rewritten to `x[i] = vf_sub(x[i], y[i])`: IEEE subtraction as an OPAQUE binary operator (two copies of a symbolic double
   subtractor are not proved equal by any back end here within minutes).  The k-th application records its operands and its (arbitrary) result;
   a `+=` (or any other operator) in the source is not rewritten and so never counts as an application of the subtraction. */
static int  n_sub;
static Real g_sub_a[8], g_sub_b[8], g_sub_r[8];
static Real vf_sub(Real a, Real b) {
  Real r = nondet_double();
  if (n_sub < 8) { g_sub_a[n_sub] = a; g_sub_b[n_sub] = b; g_sub_r[n_sub] = r; }
  ++n_sub;
  return r;
}

/* Motion::calcPrescribedPositionDotDot(s, nq, qdotdot): "the qdotdots returned here are the time derivatives of the qdots" (Motion.h) */
static void Motion_calcPrescribedPositionDotDot(const struct MotionImpl* m, const struct State* s, int nq, Real* qdotdot) {
  ++n_qdd; g_qdd_n = nq; g_qdd_out = qdotdot; g_qdd_s = s;
  abs_fill(qdotdot, nq);
  rec8(g_qdd_rec, qdotdot, nq); g_qdd_at_ul = AT(qdotdot, nq, g_ul);
}
/* Motion::calcPrescribedVelocityDot(s, nu, udot): "the time derivative of the prescribed velocity" */
static void Motion_calcPrescribedVelocityDot(const struct MotionImpl* m, const struct State* s, int nu, Real* udot) {
  ++n_vdot; g_vdot_n = nu; g_vdot_out = udot; g_vdot_s = s;
  abs_fill(udot, nu);
  g_vdot_at_ul = AT(udot, nu, g_ul);
}
/* Motion::calcPrescribedAcceleration(s, nu, udot): "the prescribed accelerations udot=udot(t,q,u)" */
static void Motion_calcPrescribedAcceleration(const struct MotionImpl* m, const struct State* s, int nu, Real* udot) {
  ++n_acc; g_acc_n = nu; g_acc_out = udot; g_acc_s = s;
  abs_fill(udot, nu);
  g_acc_at_ul = AT(udot, nu, g_ul);
}
/* RigidBodyNode::multiplyByNDot(sbs, matrixOnRight=false, in_u[nu], out_q[nq]): out_q = NDot * in_u */
static void RBN_multiplyByNDot(const struct RigidBodyNode* rbn, const struct State* sbs, bool matrixOnRight, const Real* in, Real* out) {
  const int nq = sbs->mine.nQInUse, nu = sbs->mine.nUInUse;
  ++n_ndot; g_ndot_right = matrixOnRight; g_ndot_in = in; g_ndot_out = out; g_ndot_s = sbs;
  __CPROVER_assert(__CPROVER_r_ok(in, sizeof(Real) * (unsigned long)nu), "multiplyByNDot: nu input elements readable");
  abs_fill(out, nq);
  rec8(g_ndotu_rec, out, nq);
}
/* RigidBodyNode::multiplyByNInv(sbs, matrixOnRight=false, in_q[nq], out_u[nu]): out_u = inv(N) * in_q; the INPUT is recorded */
static void RBN_multiplyByNInv(const struct RigidBodyNode* rbn, const struct State* sbs, bool matrixOnRight, const Real* in, Real* out) {
  const int nq = sbs->mine.nQInUse, nu = sbs->mine.nUInUse;
  ++n_ninv; g_ninv_right = matrixOnRight; g_ninv_in = in; g_ninv_out = out; g_ninv_s = sbs;
  __CPROVER_assert(__CPROVER_r_ok(in, sizeof(Real) * (unsigned long)nq), "multiplyByNInv: nq input elements readable");
  rec8(g_ninv_in_rec, in, nq);
  abs_fill(out, nu);
  g_ninv_out_at_ul = AT(out, nu, g_ul);
}
/* realizeDynamicsVirtual(state): hook of custom mobilizers; opaque, framed: touches none of the data of this stand-in */
static void realizeDynamicsVirtual(const struct MobodImpl* self, const struct State* s) { ++n_virtual; }
