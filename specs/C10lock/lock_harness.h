/* Sequence lemmas (callees by contract) + harnesses + ghost definitions for the lock protocol. */
#define LOCKAT_ASSIGNS(state) \
__CPROVER_assigns(ghost_threw, state->ghost_iv_invalidated, state->ghost_u_invalidated, state->ghost_q_invalidated, \
                  __CPROVER_object_whole(state->iv.mobilizerLockLevel.data), __CPROVER_object_whole(state->iv.lockedQs.data), \
                  __CPROVER_object_whole(state->iv.lockedUs.data), __CPROVER_object_whole(state->u.data), __CPROVER_object_whole(state->q.data))

/* L1: lockAt(v, Velocity|Acceleration) [; unlock] ; lock(Acceleration): the prescribed-udot slots of this mobilizer are +0.0 whatever v was */
void L_lockAt_then_lockAcc(const struct MobodImpl* self, struct State* state, int n, const Real* value, Motion_Level lvl1, bool unlockBetween)
WF_LOCK(self, state)
__CPROVER_requires((lvl1 == Motion_Velocity || lvl1 == Motion_Acceleration) && 0 <= n && n <= 8 && __CPROVER_is_fresh(value, sizeof(Real) * (unsigned long)(n + 1)))
__CPROVER_requires(state->stage >= Stage_Model && n == state->mine.nUInUse)
LOCKAT_ASSIGNS(state)
__CPROVER_ensures(!ghost_threw)
__CPROVER_ensures(state->iv.mobilizerLockLevel.data[gm] == (gm == ME(self) ? Motion_Acceleration : __CPROVER_old(state->iv.mobilizerLockLevel.data[gm])))
__CPROVER_ensures(MINE_U(state, gu) ==> PZERO(state->iv.lockedUs.data[gu]))
__CPROVER_ensures(!MINE_U(state, gu) ==> LU_UNCHANGED(state))
__CPROVER_ensures(U_UNCHANGED(state) && Q_UNCHANGED(state) && LQ_UNCHANGED(state))
{
  MI_lockAt(self, state, n, value, lvl1);
  if (ghost_threw) return;
  if (unlockBetween) { MI_unlock(self, state); if (ghost_threw) return; }
  MI_lock(self, state, Motion_Acceleration);
}

/* L2: lock(Velocity) at a current u != 0 [; unlock] ; lock(Acceleration): likewise */
void L_lockVel_then_lockAcc(const struct MobodImpl* self, struct State* state, bool unlockBetween)
WF_LOCK(self, state)
__CPROVER_requires(state->stage >= Stage_Model)
LOCKAT_ASSIGNS(state)
__CPROVER_ensures(!ghost_threw)
__CPROVER_ensures(state->iv.mobilizerLockLevel.data[gm] == (gm == ME(self) ? Motion_Acceleration : __CPROVER_old(state->iv.mobilizerLockLevel.data[gm])))
__CPROVER_ensures(MINE_U(state, gu) ==> PZERO(state->iv.lockedUs.data[gu]))
__CPROVER_ensures(!MINE_U(state, gu) ==> LU_UNCHANGED(state))
__CPROVER_ensures(U_UNCHANGED(state) && Q_UNCHANGED(state) && LQ_UNCHANGED(state))
{
  MI_lock(self, state, Motion_Velocity);
  if (ghost_threw) return;
  if (unlockBetween) { MI_unlock(self, state); if (ghost_threw) return; }
  MI_lock(self, state, Motion_Acceleration);
}

/* L3: lock / lockAt then the observers: isLocked, getLockLevel; unlock then !isLocked */
bool L_lock_then_unlock_observers(const struct MobodImpl* self, struct State* state, Motion_Level level)
WF_LOCK(self, state)
__CPROVER_requires(state->stage >= Stage_Model && IS_LEVEL(level) && level != Motion_NoLevel && gm == ME(self))
LOCKAT_ASSIGNS(state)
__CPROVER_ensures(!ghost_threw && __CPROVER_return_value)
{
  MI_lock(self, state, level);
  if (ghost_threw) return 0;
  bool a = MB_isLocked(self, state) && MI_getLockLevel(self, state) == level;
  MI_unlock(self, state);
  if (ghost_threw) return 0;
  bool b = !MB_isLocked(self, state) && MI_getLockLevel(self, state) == Motion_NoLevel;
  return a && b;
}

#ifdef WITH_DYNAMICS
#include DYNAMICS_LEMMA_H
#endif

int gq, gu, gm, gi, gp, g_nqt, g_nut, g_nb, g_npud;
bool ghost_threw;
int nondet_int(void);
static void havoc_ghosts(void) {
  gq = nondet_int(); gu = nondet_int(); gm = nondet_int(); gi = nondet_int(); gp = nondet_int();
  g_nqt = nondet_int(); g_nut = nondet_int(); g_nb = nondet_int(); g_npud = nondet_int();
}
void h_unlock(void) { const struct MobodImpl* self; struct State* s; havoc_ghosts(); MI_unlock(self, s); }
void h_getLockLevel(void) { const struct MobodImpl* self; struct State* s; havoc_ghosts(); MI_getLockLevel(self, s); }
void h_isLocked(void) { const struct MobodImpl* self; struct State* s; havoc_ghosts(); MB_isLocked(self, s); }
void h_L1(void) { const struct MobodImpl* self; struct State* s; Motion_Level l; int n; const Real* v; bool b; havoc_ghosts(); L_lockAt_then_lockAcc(self, s, n, v, l, b); }
void h_L2(void) { const struct MobodImpl* self; struct State* s; bool b; havoc_ghosts(); L_lockVel_then_lockAcc(self, s, b); }
void h_L3(void) { const struct MobodImpl* self; struct State* s; Motion_Level l; havoc_ghosts(); L_lock_then_unlock_observers(self, s, l); }


/* ---- plain harnesses (no dfcc) for the functions with slot loops: the SAME clause lists (LOCK_POST / LOCKAT_POST / GLV_POST) are asserted on the
   real bodies from the same preconditions (WF_SIZES, WF_SLOTS, vectors of the stated sizes with arbitrary contents); pre-state values are snapshots ---- */
#undef OLDV
#define OLDV(name, x) old_##name
#define ASSERT_E(c) __CPROVER_assert(c, #c);
double nondet_double(void); _Bool nondet_bool(void);
#define PLAIN_SETUP \
  struct MobodImpl me_; struct State st_; const struct MobodImpl* self = &me_; struct State* state = &st_; \
  havoc_ghosts(); ghost_threw = 0; \
  __CPROVER_assume(WF_SIZES); \
  st_.q.n = g_nqt; st_.q.data = (Real*)malloc(sizeof(Real) * (unsigned long)g_nqt); \
  st_.iv.lockedQs.n = g_nqt; st_.iv.lockedQs.data = (Real*)malloc(sizeof(Real) * (unsigned long)g_nqt); \
  st_.u.n = g_nut; st_.u.data = (Real*)malloc(sizeof(Real) * (unsigned long)g_nut); \
  st_.iv.lockedUs.n = g_nut; st_.iv.lockedUs.data = (Real*)malloc(sizeof(Real) * (unsigned long)g_nut); \
  st_.iv.mobilizerLockLevel.n = g_nb; st_.iv.mobilizerLockLevel.data = (int*)malloc(sizeof(int) * (unsigned long)g_nb); \
  __CPROVER_assume(0 <= me_.myMobilizedBodyIndex && me_.myMobilizedBodyIndex < g_nb); \
  __CPROVER_assume(WF_SLOTS(state)); \
  __CPROVER_assume(0 <= gi && gi < 8); \
  const int old_level = state->iv.mobilizerLockLevel.data[gm]; const Real old_lq = state->iv.lockedQs.data[gq]; const Real old_lu = state->iv.lockedUs.data[gu]; \
  const Real old_q = state->q.data[gq]; const Real old_u = state->u.data[gu]; const int old_stage = state->stage;

void hp_lock(void) {
  PLAIN_SETUP
  Motion_Level level; __CPROVER_assume(IS_LEVEL(level));
#ifndef COVER_ONLY
  MI_lock(self, state, level);
  LOCK_POST(ASSERT_E)
#endif
}
void hp_lockAt(void) {
  PLAIN_SETUP
  Motion_Level level; int n; __CPROVER_assume(IS_LEVEL(level) && 0 <= n && n <= 8);
  const Real* value = (const Real*)malloc(sizeof(Real) * (unsigned long)(n + 1));
#ifndef COVER_ONLY
  MI_lockAt(self, state, n, value, level);
  LOCKAT_POST(ASSERT_E)
#endif
}
void hp_getLockValueAsVector(void) {
  PLAIN_SETUP
  __CPROVER_assume(IS_LEVEL(MYLEVEL(state, self)));
#ifndef COVER_ONLY
  struct Vector ret = MI_getLockValueAsVector(self, state);
#define __CPROVER_return_value ret
  GLV_POST(ASSERT_E)
#undef __CPROVER_return_value
  __CPROVER_assert(state->iv.mobilizerLockLevel.data[gm] == old_level && SAME(state->iv.lockedQs.data[gq], old_lq) && SAME(state->iv.lockedUs.data[gu], old_lu), "getLockValueAsVector changes nothing");
#endif
}

#ifdef COVER_ONLY
/* reachability behind the preconditions (ghost indices inside / outside the mobilizer's slots, every level, history with non-zero lockedUs) */
void h_cover(void) {
  struct State s; Motion_Level level; Real oldLU;
  havoc_ghosts();
  __CPROVER_assume(WF_SIZES);
  __CPROVER_assume(WF_SLOTS(&s) && IS_LEVEL(level));
  if (level == Motion_Acceleration && MINE_U(&s, gu) && oldLU != 0.0 && s.mine.nUInUse == 3 && gu == s.mine.firstUIndex + 2) __CPROVER_cover(1);
  if (level == Motion_Acceleration && !MINE_U(&s, gu) && gu > s.mine.firstUIndex) __CPROVER_cover(1);
  if (level == Motion_Velocity && MINE_U(&s, gu) && s.mine.nUInUse == 6) __CPROVER_cover(1);
  if (level == Motion_Position && MINE_Q(&s, gq) && s.mine.nQInUse == 7 && gq == s.mine.firstQIndex + 6) __CPROVER_cover(1);
  if (level == Motion_Position && !MINE_Q(&s, gq) && MINE_U(&s, gu)) __CPROVER_cover(1);
  if (level == Motion_NoLevel && s.stage >= Stage_Model && gm > 0) __CPROVER_cover(1);
  if (s.stage < Stage_Model && s.stage >= Stage_Topology) __CPROVER_cover(1);
#ifdef DYN_COVER
  DYN_COVER
#endif
}
#endif
