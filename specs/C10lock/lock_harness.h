/* Sequence lemmas (callees by contract) + harnesses + ghost definitions for the lock protocol. */
#define LOCKAT_ASSIGNS(state) \
__CPROVER_assigns(ghost_threw, state->ghost_iv_invalidated, state->ghost_u_invalidated, state->ghost_q_invalidated, \
                  __CPROVER_object_whole(state->iv.mobilizerLockLevel.data), __CPROVER_object_whole(state->iv.lockedQs.data), \
                  __CPROVER_object_whole(state->iv.lockedUs.data), __CPROVER_object_whole(state->u.data), __CPROVER_object_whole(state->q.data))

/* L1: lockAt(v, Velocity|Acceleration) [; unlock] ; lock(Acceleration): the prescribed-udot slots of this mobilizer are +0.0 whatever v was */
void L_lockAt_then_lockAcc(const struct MobodImpl* self, struct State* state, int n, const Real* value, Motion_Level lvl1, bool unlockBetween)
WF_LOCK(self, state)
__CPROVER_requires((lvl1 == Motion_Velocity || lvl1 == Motion_Acceleration) && 0 <= n && n <= 8 && __CPROVER_is_fresh(value, sizeof(Real) * (unsigned long)(n + 1)))
__CPROVER_requires(state->stage >= Stage_Model && n == state->mine.nUInUse)
LOCKAT_ASSIGNS(state)
__CPROVER_ensures(!ghost_threw)
__CPROVER_ensures(state->iv.mobilizerLockLevel.data[gm] == (gm == ME(self) ? Motion_Acceleration : OLD(state->iv.mobilizerLockLevel.data[gm])))
__CPROVER_ensures(MINE_U(state, gu) ==> PZERO(state->iv.lockedUs.data[gu]))
__CPROVER_ensures(!MINE_U(state, gu) ==> LU_UNCHANGED(state))
__CPROVER_ensures(U_UNCHANGED(state) && Q_UNCHANGED(state) && LQ_UNCHANGED(state))
{
  MI_lockAt(self, state, n, value, lvl1);
  if (ghost_threw) return;
  if (unlockBetween) { MI_unlock(self, state); if (ghost_threw) return; }
  MI_lock(self, state, Motion_Acceleration);
}

/* L2: lock(Velocity) at a current u != 0 [; unlock] ; lock(Acceleration): likewise */
void L_lockVel_then_lockAcc(const struct MobodImpl* self, struct State* state, bool unlockBetween)
WF_LOCK(self, state)
__CPROVER_requires(state->stage >= Stage_Model)
LOCKAT_ASSIGNS(state)
__CPROVER_ensures(!ghost_threw)
__CPROVER_ensures(state->iv.mobilizerLockLevel.data[gm] == (gm == ME(self) ? Motion_Acceleration : OLD(state->iv.mobilizerLockLevel.data[gm])))
__CPROVER_ensures(MINE_U(state, gu) ==> PZERO(state->iv.lockedUs.data[gu]))
__CPROVER_ensures(!MINE_U(state, gu) ==> LU_UNCHANGED(state))
__CPROVER_ensures(U_UNCHANGED(state) && Q_UNCHANGED(state) && LQ_UNCHANGED(state))
{
  MI_lock(self, state, Motion_Velocity);
  if (ghost_threw) return;
  if (unlockBetween) { MI_unlock(self, state); if (ghost_threw) return; }
  MI_lock(self, state, Motion_Acceleration);
}

/* L3: lock / lockAt then the observers: isLocked, getLockLevel; unlock then !isLocked */
bool L_lock_then_unlock_observers(const struct MobodImpl* self, struct State* state, Motion_Level level)
WF_LOCK(self, state)
__CPROVER_requires(state->stage >= Stage_Model && IS_LEVEL(level) && level != Motion_NoLevel)
LOCKAT_ASSIGNS(state)
__CPROVER_ensures(!ghost_threw && __CPROVER_return_value)
{
  MI_lock(self, state, level);
  if (ghost_threw) return 0;
  bool a = MB_isLocked(self, state) && MI_getLockLevel(self, state) == level;
  MI_unlock(self, state);
  if (ghost_threw) return 0;
  bool b = !MB_isLocked(self, state) && MI_getLockLevel(self, state) == Motion_NoLevel;
  return a && b;
}

#ifdef WITH_DYNAMICS
#include DYNAMICS_LEMMA_H
#endif

int gq, gu, gm, gi, gp, g_nqt, g_nut, g_nb, g_npud;
bool ghost_threw;
int nondet_int(void);
static void havoc_ghosts(void) {
  gq = nondet_int(); gu = nondet_int(); gm = nondet_int(); gi = nondet_int(); gp = nondet_int();
  g_nqt = nondet_int(); g_nut = nondet_int(); g_nb = nondet_int(); g_npud = nondet_int();
}
void h_lock(void)   { const struct MobodImpl* self; struct State* s; Motion_Level l; havoc_ghosts(); MI_lock(self, s, l); }
void h_lockAt(void) { const struct MobodImpl* self; struct State* s; Motion_Level l; int n; const Real* v; havoc_ghosts(); MI_lockAt(self, s, n, v, l); }
void h_unlock(void) { const struct MobodImpl* self; struct State* s; havoc_ghosts(); MI_unlock(self, s); }
void h_getLockLevel(void) { const struct MobodImpl* self; struct State* s; havoc_ghosts(); MI_getLockLevel(self, s); }
void h_isLocked(void) { const struct MobodImpl* self; struct State* s; havoc_ghosts(); MB_isLocked(self, s); }
void h_getLockValueAsVector(void) { const struct MobodImpl* self; struct State* s; havoc_ghosts(); MI_getLockValueAsVector(self, s); }
void h_L1(void) { const struct MobodImpl* self; struct State* s; Motion_Level l; int n; const Real* v; bool b; havoc_ghosts(); L_lockAt_then_lockAcc(self, s, n, v, l, b); }
void h_L2(void) { const struct MobodImpl* self; struct State* s; bool b; havoc_ghosts(); L_lockVel_then_lockAcc(self, s, b); }
void h_L3(void) { const struct MobodImpl* self; struct State* s; Motion_Level l; havoc_ghosts(); L_lock_then_unlock_observers(self, s, l); }

#ifdef COVER_ONLY
/* reachability behind the preconditions (ghost indices inside / outside the mobilizer's slots, every level, history with non-zero lockedUs) */
void h_cover(void) {
  struct State s; Motion_Level level; Real oldLU;
  havoc_ghosts();
  __CPROVER_assume(0 < g_nqt && g_nqt < 100000 && 0 < g_nut && g_nut < 100000 && 0 < g_nb && g_nb < 100000);
  __CPROVER_assume(0 <= s.mine.firstQIndex && 0 <= s.mine.nQInUse && s.mine.nQInUse <= 7 && s.mine.firstQIndex + s.mine.nQInUse <= g_nqt);
  __CPROVER_assume(0 <= s.mine.firstUIndex && 0 <= s.mine.nUInUse && s.mine.nUInUse <= 6 && s.mine.firstUIndex + s.mine.nUInUse <= g_nut);
  __CPROVER_assume(0 <= gq && gq < g_nqt && 0 <= gu && gu < g_nut && 0 <= gm && gm < g_nb && IS_LEVEL(level));
  if (level == Motion_Acceleration && MINE_U(&s, gu) && oldLU != 0.0 && s.mine.nUInUse == 3 && gu == s.mine.firstUIndex + 2) __CPROVER_cover(1);
  if (level == Motion_Acceleration && !MINE_U(&s, gu) && gu > s.mine.firstUIndex) __CPROVER_cover(1);
  if (level == Motion_Velocity && MINE_U(&s, gu) && s.mine.nUInUse == 6) __CPROVER_cover(1);
  if (level == Motion_Position && MINE_Q(&s, gq) && s.mine.nQInUse == 7 && gq == s.mine.firstQIndex + 6) __CPROVER_cover(1);
  if (level == Motion_Position && !MINE_Q(&s, gq) && MINE_U(&s, gu)) __CPROVER_cover(1);
  if (level == Motion_NoLevel && s.stage >= Stage_Model && gm > 0) __CPROVER_cover(1);
  if (s.stage < Stage_Model && s.stage >= Stage_Topology) __CPROVER_cover(1);
}
#endif
