/* C10: plain harnesses (no dfcc; the body has loops over the own slots) for the prescribed-udot block of
   MobilizedBodyImpl::realizeDynamics cut from MobilizedBody.cpp.  Expectations (Motion.h, MobilizedBody.h, comments of the function):
     - udotMethod != Prescribed (free, known-zero udot, and every Position / Velocity level lock, for which realizeInstance sets
       udotMethod = Zero): "dealt with elsewhere": the prescribed-udot pool is not written at all, no Motion / N operator is consulted.
     - locked (lock overrides a Motion; only an Acceleration lock can have udotMethod == Prescribed): own pool slot j := lockedUs[uStart+j]
       (+0 after lock(Acceleration), lock part), no Motion / N operator consulted.
     - Motion at Position level ("we know q, u, and udot"; "the qdotdots ... are not always the same as udots; Simbody knows how to map
       from qdotdots to udots"):  qdot = N u  =>  qdotdot = N udot + NDot u  =>  udot = N^-1 (qdotdot - NDot u):
          (P) the vector handed to multiplyByNInv is element-wise  qdotdot_prescribed[i] - (NDot*u)[i], where (NDot*u) is the output of
              multiplyByNDot applied to the current u slots of THIS mobilizer and qdotdot_prescribed the output of
              Motion::calcPrescribedPositionDotDot(nq); the result of multiplyByNInv is written to this mobilizer's own pool slots.
          if qdot == u always: own pool slots := calcPrescribedPositionDotDot(nu).
     - Motion at Velocity level (V): own pool slots := calcPrescribedVelocityDot(nu) ("the time derivative of the prescribed velocity").
     - Motion at Acceleration level (A): own pool slots := calcPrescribedAcceleration(nu).
     - in every case: no other pool slot, no u, lockedUs or lock level changes; realizeDynamicsVirtual is called once.
   Ghosts: gp any pool index, g_ul = gp - firstPresUDot its local index, gi any local q index, gu any u index, gm any mobilizer. */
int nondet_int(void); _Bool nondet_bool(void);
#define MINE_P(s, k) ((s)->mineInst.firstPresUDot <= (k) && (k) < (s)->mineInst.firstPresUDot + (s)->mine.nUInUse)
#define PRES(s)      ((s)->mineInst.udotMethod == Motion_Prescribed)
#define MYLEVEL_D(s, self) ((s)->iv.mobilizerLockLevel.data[(self)->myMobilizedBodyIndex])
#define NO_CALLS     (n_qdd == 0 && n_vdot == 0 && n_acc == 0 && n_ndot == 0 && n_ninv == 0 && n_sub == 0)
#define DA(c, msg) __CPROVER_assert(c, msg)

/* Preconditions: type invariants of lock_contracts.h (WF_SIZES, WF_SLOTS) + what SimbodyMatterSubsystemRep::realizeInstance establishes for a
   mobilizer with udotMethod == Prescribed (assumed, listed by the check): not Ground/Weld (nq, nu >= 1), a block of nu pool slots at firstPresUDot,
   locked => Acceleration level, unlocked => an enabled Motion;  isQDotAlwaysTheSameAsU() => nq == nu (RigidBodyNode). */
#define DYN_SETUP \
  struct MobodImpl me_; struct State st_; const struct MobodImpl* self = &me_; struct State* state = &st_; \
  gq = nondet_int(); gu = nondet_int(); gm = nondet_int(); gi = nondet_int(); gp = nondet_int(); \
  g_nqt = nondet_int(); g_nut = nondet_int(); g_nb = nondet_int(); g_npud = nondet_int(); ghost_threw = 0; \
  g_motionDisabled = nondet_bool(); \
  __CPROVER_assume(WF_SIZES && 0 < g_npud && g_npud < 100000); \
  st_.q.n = 0; st_.q.data = 0; st_.iv.lockedQs.n = 0; st_.iv.lockedQs.data = 0; \
  st_.u.n = g_nut; st_.u.data = (Real*)malloc(sizeof(Real) * (unsigned long)g_nut); \
  st_.iv.lockedUs.n = g_nut; st_.iv.lockedUs.data = (Real*)malloc(sizeof(Real) * (unsigned long)g_nut); \
  st_.iv.mobilizerLockLevel.n = g_nb; st_.iv.mobilizerLockLevel.data = (int*)malloc(sizeof(int) * (unsigned long)g_nb); \
  st_.dc.presUDotPool.n = g_npud; st_.dc.presUDotPool.data = (Real*)malloc(sizeof(Real) * (unsigned long)g_npud); \
  __CPROVER_assume(0 <= me_.myMobilizedBodyIndex && me_.myMobilizedBodyIndex < g_nb); \
  g_self_mbx = me_.myMobilizedBodyIndex; \
  __CPROVER_assume(WF_SLOTS(state)); \
  __CPROVER_assume(0 <= gi && gi < 8 && 0 <= gp && gp < g_npud); \
  __CPROVER_assume(IS_LEVEL(MYLEVEL_D(state, self))); \
  __CPROVER_assume(me_.qdotIsU ==> st_.mine.nQInUse == st_.mine.nUInUse); \
  __CPROVER_assume(PRES(state) ==> (st_.mine.nQInUse >= 1 && st_.mine.nUInUse >= 1 && 0 <= st_.mineInst.firstPresUDot && st_.mineInst.firstPresUDot < g_npud \
                                    && st_.mineInst.firstPresUDot + st_.mine.nUInUse <= g_npud)); \
  __CPROVER_assume((PRES(state) && MYLEVEL_D(state, self) != Motion_NoLevel) ==> MYLEVEL_D(state, self) == Motion_Acceleration); \
  __CPROVER_assume((PRES(state) && MYLEVEL_D(state, self) == Motion_NoLevel) ==> (me_.hasMotion_ && !g_motionDisabled)); \
  g_first_pud = st_.mineInst.firstPresUDot; g_ul = PRES(state) ? gp - st_.mineInst.firstPresUDot : 0; \
  g_own_block = (Real*)malloc(sizeof(Real) * (unsigned long)st_.mine.nUInUse); \
  const bool mineP = PRES(state) && MINE_P(state, gp); \
  const bool locked = MYLEVEL_D(state, self) != Motion_NoLevel; \
  const int nq = st_.mine.nQInUse, nu = st_.mine.nUInUse; \
  const Real old_pool = st_.dc.presUDotPool.data[gp]; const Real old_u = st_.u.data[gu]; const Real old_lu = st_.iv.lockedUs.data[gu]; \
  const int old_level = st_.iv.mobilizerLockLevel.data[gm]; \
  const Real old_lu_mine = st_.iv.lockedUs.data[mineP ? st_.mine.firstUIndex + g_ul : 0]; \
  const int ul = mineP ? g_ul : 0;

#define DYN_FRAME \
  DA(!ghost_threw, "realizeDynamics does not throw"); \
  DA(SAME(state->dc.presUDotPool.data[gp], old_pool) && !g_foreign_addr, "frame: no prescribed-udot pool slot other than this mobilizer's own block (from firstPresUDot) is addressed or written"); \
  DA(SAME(state->u.data[gu], old_u) && SAME(state->iv.lockedUs.data[gu], old_lu) && state->iv.mobilizerLockLevel.data[gm] == old_level, "frame: u, lockedUs, lock levels unchanged"); \
  DA(n_virtual == 1, "realizeDynamicsVirtual called once"); \
  DA(!PRES(state) ==> NO_CALLS, "udotMethod != Prescribed (incl. Position/Velocity locks: udot known zero): no Motion / N operator consulted");

/* ---- position level Motion ---- */
#define P_AT(i) DA((i) < nq ==> (SAME(g_sub_a[i], g_qdd_rec[i]) && SAME(g_sub_b[i], g_ndotu_rec[i]) && SAME(g_ninv_in_rec[i], g_sub_r[i])), \
  "P: element " #i " of the vector handed to multiplyByNInv is qdotdot_prescribed[i] - (NDot*u)[i]  (udot = N^-1 (qdotdot - NDot u))");
void hp_realizeDynamics_position(void) {
  DYN_SETUP
  __CPROVER_assume(PRES(state) && !locked && st_.mineInst.qMethod == Motion_Prescribed);
#ifndef COVER_ONLY
  MI_realizeDynamics(self, state);
  DYN_FRAME
  DA(n_qdd == 1 && n_vdot == 0 && n_acc == 0 && g_qdd_s == state, "Position: calcPrescribedPositionDotDot consulted once (on this state), no other Motion method");
  if (me_.qdotIsU) {
    DA(n_ndot == 0 && n_ninv == 0 && g_qdd_n == nu, "Position, qdot==u: nu qdotdots requested, N operators not used");
    DA(mineP ==> SAME(g_own_block[ul], g_qdd_at_ul), "Position, qdot==u: own pool slot j = prescribed qdotdot[j]");
  } else {
    DA(n_ndot == 1 && n_ninv == 1 && g_qdd_n == nq, "Position: nq qdotdots requested; multiplyByNDot and multiplyByNInv each applied once");
    DA(!g_ndot_right && !g_ninv_right && g_ndot_s == state && g_ninv_s == state, "Position: NDot and NInv multiply from the left (matrixOnRight=false) on this state");
    DA(g_ndot_in == &state->u.data[state->mine.firstUIndex], "Position: multiplyByNDot is applied to the current u slots of THIS mobilizer");
    DA(n_sub == nq, "P: exactly one subtraction per q element");
    P_AT(0) P_AT(1) P_AT(2) P_AT(3) P_AT(4) P_AT(5) P_AT(6)
    DA(g_ninv_out == g_own_block, "Position: multiplyByNInv writes to this mobilizer's first pool slot");
    DA(mineP ==> SAME(g_own_block[ul], g_ninv_out_at_ul), "Position: own pool slot j = (N^-1 (qdotdot - NDot u))[j], the result of multiplyByNInv");
  }
#endif
}

/* ---- velocity / acceleration level Motion ---- */
void hp_realizeDynamics_velacc(void) {
  DYN_SETUP
  __CPROVER_assume(PRES(state) && !locked && st_.mineInst.qMethod != Motion_Prescribed);
#ifndef COVER_ONLY
  MI_realizeDynamics(self, state);
  DYN_FRAME
  DA(n_qdd == 0 && n_ndot == 0 && n_ninv == 0, "Velocity/Acceleration: no qdotdot, no N operator");
  if (st_.mineInst.uMethod == Motion_Prescribed) {
    DA(n_vdot == 1 && n_acc == 0 && g_vdot_n == nu && g_vdot_s == state, "V: calcPrescribedVelocityDot(nu) consulted once, nothing else");
    DA(mineP ==> SAME(g_own_block[ul], g_vdot_at_ul), "V: own pool slot j = time derivative of the prescribed velocity [j]");
  } else {
    DA(n_acc == 1 && n_vdot == 0 && g_acc_n == nu && g_acc_s == state, "A: calcPrescribedAcceleration(nu) consulted once, nothing else");
    DA(mineP ==> SAME(g_own_block[ul], g_acc_at_ul), "A: own pool slot j = prescribed acceleration [j]");
  }
#endif
}

/* ---- locked, or udot not prescribed ---- */
void hp_realizeDynamics_lock(void) {
  DYN_SETUP
  __CPROVER_assume(!PRES(state) || locked);
#ifndef COVER_ONLY
  MI_realizeDynamics(self, state);
  DYN_FRAME
  DA(NO_CALLS, "lock overrides the Motion: no Motion / N operator consulted");
  DA(mineP ==> SAME(g_own_block[ul], old_lu_mine), "lock(Acceleration): own pool slot j = lockedUs[uStart+j]");
  DA((mineP && PZERO(old_lu_mine)) ==> PZERO(g_own_block[ul]), "lock(Acceleration) after lock(): lockedUs own slots +0 (lock part) => prescribed udot +0");
#endif
}

#ifdef COVER_ONLY
/* reachability behind DYN_SETUP (appended to h_cover of lock_harness.h: `cbmc --cover cover` reports every cover point of the program, so there is
   one cover harness): every case, ghost slot inside / outside the own block, full-size mobilizers */
static void dyn_cover(void) {
  DYN_SETUP
  const bool qP = st_.mineInst.qMethod == Motion_Prescribed, uP = st_.mineInst.uMethod == Motion_Prescribed;
  if (PRES(state) && !locked && qP && !me_.qdotIsU && nq == 7 && nu == 6 && gi == 6 && mineP && g_ul == 5) __CPROVER_cover(1);
  if (PRES(state) && !locked && qP && !me_.qdotIsU && nq == 4 && nu == 3 && !mineP && gp > st_.mineInst.firstPresUDot && st_.mine.firstUIndex != st_.mineInst.firstPresUDot) __CPROVER_cover(1);
  if (PRES(state) && !locked && qP && me_.qdotIsU && nu == 6 && mineP) __CPROVER_cover(1);
  if (PRES(state) && !locked && !qP && uP && mineP && g_ul == 2) __CPROVER_cover(1);
  if (PRES(state) && !locked && !qP && !uP && mineP && g_ul == 0) __CPROVER_cover(1);
  if (PRES(state) && locked && mineP && old_lu_mine != 0.0 && me_.hasMotion_) __CPROVER_cover(1);
  if (PRES(state) && locked && mineP && PZERO(old_lu_mine)) __CPROVER_cover(1);
  if (!PRES(state) && MYLEVEL_D(state, self) == Motion_Position) __CPROVER_cover(1);
  if (!PRES(state) && MYLEVEL_D(state, self) == Motion_Velocity && me_.hasMotion_) __CPROVER_cover(1);
}
#define DYN_COVER dyn_cover();
#endif
