/* Part of C38 (and C16's parameter-change clause): class invariant of every ForceImpl subclass
       dependsOnlyOnPositions() == true  ==>  every state variable the element allocates
                                              invalidates a stage <= Stage::Position
   GeneralForceSubsystem caches the forces of elements with dependsOnlyOnPositions()==true until
   Stage::Position is realized again; a parameter variable invalidating only a later stage leaves
   the stale cached force in use after a parameter change ("changes to an element's parameters
   take effect at the next realization" fails).

   The unit generated per class (checks/part_c38_cache.py) contains, cut from /repo each run:
     FI_dependsOnlyOnPositions   verbatim body (inherited ForceImpl body if not overridden)
     FI_realizeTopology/Model    control slice of the body: allocate* calls kept with their
                                 Stage argument, payload expressions and statements that do not
                                 touch the State dropped (listed in extraction_report.json)
   STAGE_ENUM_H (generated from the real Stage.h) gives Stage_<Name> their real values. */
#include <stdbool.h>
#include STAGE_ENUM_H

struct State { int opaque; };
/* Force::Custom::Implementation (user code): by contract below */
struct Implementation { bool ghost_dependsOnlyOnPositions; };
struct ForceImplObj { struct Implementation* implementation; };

/* ghost: highest stage invalidated by any state variable allocated so far, and how many */
int ghost_max_invalidated_stage;
int ghost_nvars;
#define VMAX(a, b) ((a) > (b) ? (a) : (b))
static bool vf_nondet_bool(void) { bool b; return b; }   /* abstracted branch condition */

/* ---- State / Subsystem allocation API  [assumed contract on the State layer, cf. C18] ----
   a discrete variable allocated with stage g invalidates stage g (and later) when modified */
int allocateDiscreteVariable(struct State* s, int invalidates)
__CPROVER_requires(Stage_Empty < invalidates && invalidates <= Stage_Infinity)
__CPROVER_assigns(ghost_max_invalidated_stage, ghost_nvars)
__CPROVER_ensures(ghost_max_invalidated_stage == VMAX(__CPROVER_old(ghost_max_invalidated_stage), invalidates))
__CPROVER_ensures(ghost_nvars == __CPROVER_old(ghost_nvars) + 1)
;
int allocateAutoUpdateDiscreteVariable(struct State* s, int invalidates)
__CPROVER_requires(Stage_Empty < invalidates && invalidates <= Stage_Infinity)
__CPROVER_assigns(ghost_max_invalidated_stage, ghost_nvars)
__CPROVER_ensures(ghost_max_invalidated_stage == VMAX(__CPROVER_old(ghost_max_invalidated_stage), invalidates))
__CPROVER_ensures(ghost_nvars == __CPROVER_old(ghost_nvars) + 1)
;
/* continuous variables: q invalidates Position, u Velocity, z Dynamics */
#define ALLOC_CONT(NAME, STAGE) \
int NAME(struct State* s) \
__CPROVER_assigns(ghost_max_invalidated_stage, ghost_nvars) \
__CPROVER_ensures(ghost_max_invalidated_stage == VMAX(__CPROVER_old(ghost_max_invalidated_stage), STAGE)) \
__CPROVER_ensures(ghost_nvars == __CPROVER_old(ghost_nvars) + 1)
ALLOC_CONT(allocateQ, Stage_Position);
ALLOC_CONT(allocateU, Stage_Velocity);
ALLOC_CONT(allocateZ, Stage_Dynamics);
/* cache entries are not state variables */
int allocateCacheEntry(struct State* s)     __CPROVER_assigns() __CPROVER_ensures(1);
int allocateLazyCacheEntry(struct State* s) __CPROVER_assigns() __CPROVER_ensures(1);

/* ---- Force::Custom::Implementation: user code, ASSUMED to satisfy the same invariant ---- */
static bool Implementation_dependsOnlyOnPositions(const struct Implementation* i) { return i->ghost_dependsOnlyOnPositions; }
#define IMPL_REALIZE(NAME) \
void NAME(struct Implementation* i, struct State* s) \
__CPROVER_requires(__CPROVER_r_ok(i, sizeof(*i))) \
__CPROVER_assigns(ghost_max_invalidated_stage, ghost_nvars) \
__CPROVER_ensures(ghost_max_invalidated_stage >= __CPROVER_old(ghost_max_invalidated_stage) && ghost_nvars >= __CPROVER_old(ghost_nvars)) \
__CPROVER_ensures(i->ghost_dependsOnlyOnPositions ==> ghost_max_invalidated_stage <= VMAX(__CPROVER_old(ghost_max_invalidated_stage), Stage_Position)) \
__CPROVER_ensures((ghost_nvars == 0) == (ghost_max_invalidated_stage == Stage_Empty))
IMPL_REALIZE(Implementation_realizeTopology);
IMPL_REALIZE(Implementation_realizeModel);

/* ---- the class invariant, as contracts on the cut functions ---- */
bool FI_dependsOnlyOnPositions(const struct ForceImplObj* self);

#define FI_REALIZE_CONTRACT(NAME) \
void NAME(struct ForceImplObj* self, struct State* s) \
__CPROVER_requires(__CPROVER_is_fresh(self, sizeof(*self)) && __CPROVER_is_fresh(s, sizeof(*s))) \
__CPROVER_requires(__CPROVER_is_fresh(self->implementation, sizeof(struct Implementation))) \
__CPROVER_requires(ghost_max_invalidated_stage == Stage_Empty && ghost_nvars == 0) \
__CPROVER_assigns(ghost_max_invalidated_stage, ghost_nvars) \
/* 1: the invariant */ \
__CPROVER_ensures(FI_dependsOnlyOnPositions(self) ==> ghost_max_invalidated_stage <= Stage_Position) \
/* 2: bookkeeping sanity (a variable was allocated iff a stage was recorded) */ \
__CPROVER_ensures((ghost_nvars == 0) == (ghost_max_invalidated_stage == Stage_Empty))
FI_REALIZE_CONTRACT(FI_realizeTopology);
FI_REALIZE_CONTRACT(FI_realizeModel);
