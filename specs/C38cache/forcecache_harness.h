/* Harnesses (one per function under contract). */
void h_realizeTopology(void) { struct ForceImplObj* f; struct State* s; FI_realizeTopology(f, s); }
void h_realizeModel(void)    { struct ForceImplObj* f; struct State* s; FI_realizeModel(f, s); }
