/* Prelude of the M2 unit for C19/C22 (code cut from SimTKmath/Integrators/src). Nothing in here is a copy of a /repo
   function body: only the abstract data view, the std:: helpers with their libstdc++ semantics and ghost state. */
#include <stdint.h>
#include <stdbool.h>
#include <math.h>
typedef double Real;
#define Infinity ((double)INFINITY)
#define NaN      ((double)NAN)

/* std::min / std::max with the libstdc++ definition (NaN behaviour preserved) */
static inline Real vf_min(Real a, Real b) { return (b < a) ? b : a; }
static inline Real vf_max(Real a, Real b) { return (a < b) ? b : a; }

/* asserts of the real code become proof obligations (they are compiled out in a release build, so they are
   NOT assumed afterwards by anything that is not itself proved) */
#define assert(c) __CPROVER_assert((c), "repo assert: " #c)

/* Abstract view of SimTK::State: the contracts of C19/C22 only talk about its time. */
struct State { Real t; };

/* Abstract view of IntegratorRep/AbstractIntegratorRep: the scalar members that stepTo(), takeOneStep(),
   reinitialize() and the inline accessors read or write, with their real names. Vector/Array_ payload is not in the view
   (statements touching it are framed opaque calls, listed as dropped/opaque in the extraction report). */
struct IntegratorRep {
    /* user requests */
    Real userFinalTime;
    int  userInternalStepLimit;
    int  userReturnEveryInternalStep;
    int  userAllowInterpolation;
    /* AbstractIntegratorRep */
    bool initialized, hasErrorControl;
    Real currentStepSize, lastStepSize, actualInitialStepSizeTaken;
    int  statsStepsTaken, statsErrorTestFailures, statsConvergenceTestFailures, statsConvergentIterations, statsDivergentIterations;
    /* IntegratorRep internal state */
    bool startOfContinuousInterval;
    int  terminationReason;
    int  stepCommunicationStatus;
    struct State advancedState;
    struct State interpolatedState;
    bool useInterpolatedState;
    Real tLow, tHigh;
    Real tPrev;
    Real accuracyInUse, timeScaleInUse;
};

/* ghost state */
extern int  ghost_threw;        /* exception plumbing: set where the real code throws */
extern unsigned ghost_steps;    /* number of takeOneStep() calls (incremented by its contract; unsigned: wraps legally) */
extern int  ghost_stepped;      /* 1 once takeOneStep() was called by the current stepTo() */

/* abstraction of a symbolic double addition where only congruence is needed (Integrator::stepBy) */
double __CPROVER_uninterpreted_add(double, double);
#define VF_ADD(a, b) __CPROVER_uninterpreted_add((a), (b))
