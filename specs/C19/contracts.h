/* C19 contracts. Included after the enums and inline accessors cut from IntegratorRep.h / Integrator.h.
   Postconditions of stepTo are the clauses of the C19 property statement; see the numbered comments. */

#define NN(x)      (!__CPROVER_isnand(x))
#define SAME(a, b) ((a) == (b) || (__CPROVER_isnand(a) && __CPROVER_isnand(b)))
#define ADV(s)     ((s)->advancedState.t)
#define TRET(s)    ((s)->useInterpolatedState ? (s)->interpolatedState.t : (s)->advancedState.t)   /* == getState().getTime() */
#define FINALT(s)  ((s)->userFinalTime == -1.0 ? Infinity : (s)->userFinalTime)
#define SCS(s)     ((s)->stepCommunicationStatus)
#define WINDOW_OK(s) ((s)->tPrev <= (s)->tLow && (s)->tLow < (s)->tHigh && (s)->tHigh == ADV(s))

/* Class invariant of the step-communication state machine between calls (established by initialize(): status
   CompletedInternalStepNoEvent, tPrev==tAdvanced, no interpolation, startOfContinuousInterval; preserved by stepTo and by
   reinitialize(), both proved below). */
#define CINV(s) ( (s)->initialized \
  && SCS(s) >= CompletedInternalStepNoEvent && SCS(s) <= FinalTimeHasBeenReturned \
  && NN((s)->userFinalTime) && (s)->tPrev <= ADV(s) && ADV(s) <= FINALT(s) \
  && ((s)->useInterpolatedState && SCS(s) != FinalTimeHasBeenReturned ==> ((s)->tPrev <= (s)->interpolatedState.t && (s)->interpolatedState.t <= ADV(s))) \
  && (SCS(s) == StepHasBeenReturnedNoEvent ==> !(s)->useInterpolatedState) \
  && ((s)->startOfContinuousInterval ==> !(s)->useInterpolatedState) \
  && (SCS(s) == CompletedInternalStepWithEvent ==> (WINDOW_OK(s) && TRET(s) <= (s)->tLow)) \
  && (SCS(s) == StepHasBeenReturnedWithEvent ==> WINDOW_OK(s)) )

/* ghost snapshots taken at function entry (pinned by the requires clause), used by the loop invariant */
extern Real ghost_t0;       /* getState().getTime() at entry */
extern unsigned ghost_steps0;   /* ghost_steps at entry */
extern Real ghost_adv0;     /* advanced time at entry */
extern int  ghost_scs0;     /* stepCommunicationStatus at entry */

/* ------------------------------------------------------------------------------------------------------------
   Dependencies by contract
   ------------------------------------------------------------------------------------------------------------ */

/* createInterpolatedState(t): precondition = the asserts of IntegratorRep::interpolateOrder3 (t0<t1, t0<=t<=t1) that it
   calls with (tPrev, advanced time); effect on the view: interpolated state's time is t. ASSUMED (body is Vector algebra). */
void createInterpolatedState(struct IntegratorRep* self, Real t)
__CPROVER_requires(self->tPrev < ADV(self) && self->tPrev <= t && t <= ADV(self))
__CPROVER_assigns(self->interpolatedState.t)
__CPROVER_ensures(self->interpolatedState.t == t)
;
/* saveTimeAndStateAsPrevious(s): `tPrev = s.getTime();` + Vector copies. ASSUMED. */
void saveTimeAndStateAsPrevious(struct IntegratorRep* self, const struct State* s)
__CPROVER_requires(__CPROVER_r_ok(s, sizeof(*s)))
__CPROVER_assigns(self->tPrev)
__CPROVER_ensures(self->tPrev == s->t)
;
void saveStateAndDerivsAsPrevious(struct IntegratorRep* self, const struct State* s)
__CPROVER_requires(__CPROVER_r_ok(s, sizeof(*s)))
__CPROVER_assigns(self->tPrev)
__CPROVER_ensures(self->tPrev == s->t)
;
/* opaque statements: touch only payload outside the view */
void saveStateDerivsAsPrevious(struct IntegratorRep* self, const struct State* s) __CPROVER_requires(1) __CPROVER_assigns() __CPROVER_ensures(1) ;
void realizeStateDerivatives(struct IntegratorRep* self, const struct State* s) __CPROVER_requires(1) __CPROVER_assigns() __CPROVER_ensures(1) ;
void opaque_autoUpdateDiscreteVariables(struct IntegratorRep* self) __CPROVER_requires(1) __CPROVER_assigns() __CPROVER_ensures(1) ;
void methodReinitialize(struct IntegratorRep* self, int stage, bool shouldTerminate) __CPROVER_requires(1) __CPROVER_assigns() __CPROVER_ensures(1) ;

/* takeOneStep(tMax,tReport) BY CONTRACT (the main loop of stepTo is cut here). The contract is what check C22 proves on
   the real text of takeOneStep: t1 selection block (unit takeonestep.t1) and event localisation (C22 units); that
   attemptDAEStep leaves the advanced state at t1 is an assumed contract on the step taker. Stated for the non-throwing case. */
bool takeOneStep(struct IntegratorRep* self, Real tMax, Real tReport)
__CPROVER_requires(self->tPrev == ADV(self) && tMax > self->tPrev && NN(tReport))
__CPROVER_assigns(self->advancedState.t, self->interpolatedState.t, self->tLow, self->tHigh, ghost_steps, ghost_stepped,
                  self->currentStepSize, self->lastStepSize, self->actualInitialStepSizeTaken)
__CPROVER_ensures(self->tPrev < ADV(self) && ADV(self) <= tMax)
__CPROVER_ensures(__CPROVER_return_value ==> (WINDOW_OK(self) && !(self->tLow < tReport && tReport < self->tHigh)))
__CPROVER_ensures(!__CPROVER_return_value ==> (SAME(self->tLow, __CPROVER_old(self->tLow)) && SAME(self->tHigh, __CPROVER_old(self->tHigh))))
__CPROVER_ensures(ghost_steps == __CPROVER_old(ghost_steps) + 1u && ghost_stepped == 1)
;

/* ------------------------------------------------------------------------------------------------------------
   AbstractIntegratorRep::stepTo
   ------------------------------------------------------------------------------------------------------------ */
#define STEPTO_ASSIGNS \
  self->startOfContinuousInterval, self->stepCommunicationStatus, self->useInterpolatedState, self->interpolatedState.t, \
  self->advancedState.t, self->tPrev, self->tLow, self->tHigh, self->statsStepsTaken, self->terminationReason, \
  self->currentStepSize, self->lastStepSize, self->actualInitialStepSizeTaken, ghost_threw, ghost_steps, ghost_stepped

#define STEPTO_PRE(self, reportTime, scheduledEventTime) \
  ( CINV(self) && NN(reportTime) && NN(scheduledEventTime) \
    /* the two asserts at the top of the real function */ \
    && reportTime >= TRET(self) && scheduledEventTime >= TRET(self) \
    /* schedule consistency (ASSUMED on the caller, see evidence): a pending scheduled-event time is never moved to before \
       the time the integrator was already allowed to reach */ \
    && scheduledEventTime >= ADV(self) \
    && ghost_threw == 0 && ghost_stepped == 0 && ghost_t0 == TRET(self) && ghost_steps0 == ghost_steps && ghost_adv0 == ADV(self) && ghost_scs0 == SCS(self) )

/* loop-head invariant of the MAIN STEPPING LOOP (spliced by the extractor at `for(;;)`) */
#define STEPTO_LINV(self, reportTime, scheduledEventTime, finalTime, internalStepsTaken) \
  ( self->initialized && (!self->startOfContinuousInterval || SCS(self) == FinalTimeHasBeenReturned) && ghost_threw == 0 \
    && SCS(self) >= CompletedInternalStepNoEvent && SCS(self) <= FinalTimeHasBeenReturned \
    && self->tPrev <= ADV(self) && ADV(self) <= scheduledEventTime && ADV(self) <= finalTime \
    && self->tPrev <= reportTime && ghost_t0 <= ADV(self) \
    && (ghost_stepped == 0 || ghost_stepped == 1) && (unsigned)internalStepsTaken == ghost_steps - ghost_steps0 \
    && (SCS(self) == StepHasBeenReturnedNoEvent ==> (!self->useInterpolatedState && !ghost_stepped && ADV(self) == ghost_t0)) \
    && (SCS(self) == FinalTimeHasBeenReturned ==> !ghost_stepped) \
    && (!ghost_stepped ==> (ghost_steps == ghost_steps0 && SCS(self) == ghost_scs0 && ADV(self) == ghost_adv0)) && ADV(self) >= ghost_adv0 \
    && (SCS(self) == StepHasBeenReturnedWithEvent ==> WINDOW_OK(self)) \
    && (SCS(self) == CompletedInternalStepWithEvent ==> \
          (WINDOW_OK(self) && ghost_t0 <= self->tLow \
           && (ghost_stepped ==> !(self->tLow < reportTime && reportTime < self->tHigh)))) )

#define RV __CPROVER_return_value

SuccessfulStepStatus AbstractIntegratorRep_stepTo(struct IntegratorRep* self, Real reportTime, Real scheduledEventTime)
__CPROVER_requires(__CPROVER_is_fresh(self, sizeof(*self)))
__CPROVER_requires(STEPTO_PRE(self, reportTime, scheduledEventTime))
__CPROVER_assigns(STEPTO_ASSIGNS)
/* (0) the class invariant is re-established on every exit -> the clauses below hold for ANY sequence of requests */
__CPROVER_ensures(CINV(self))
/* (1) refusal: from FinalTimeHasBeenReturned stepping is refused (throws) and stays refused, whatever else happened in
       between (in particular a reinitialize() that set startOfContinuousInterval: finding F6, fixed by 33dc527e; the same
       clause is enforced under its own name in unit stepto.finding.refusal_after_reinit) */
__CPROVER_ensures(__CPROVER_old(self->stepCommunicationStatus) == FinalTimeHasBeenReturned
                  ==> (ghost_threw == 1 && SCS(self) == FinalTimeHasBeenReturned))
__CPROVER_ensures(ghost_threw == 1 ==> __CPROVER_old(self->stepCommunicationStatus) == FinalTimeHasBeenReturned)
__CPROVER_ensures(ghost_threw == 0 ==> (RV >= ReachedReportTime && RV <= StartOfContinuousInterval))
/* (2) each returned state lies no later than the earliest of the pending report, scheduled-event and final times */
__CPROVER_ensures(ghost_threw == 0 ==> (TRET(self) <= reportTime && TRET(self) <= scheduledEventTime && TRET(self) <= FINALT(self)))
/* (3) time never decreases (returned time and advanced time) */
__CPROVER_ensures(ghost_threw == 0 ==> TRET(self) >= ghost_t0)
__CPROVER_ensures(ADV(self) >= __CPROVER_old(self->advancedState.t))
/* (4) the advanced state never passes a scheduled event or the final time */
__CPROVER_ensures(ADV(self) <= scheduledEventTime && ADV(self) <= FINALT(self))
/* (5) a report, scheduled-event or final-time stop returns exactly at that time. (The code reports a final-time stop with
       reportTime > finalTime as ReachedReportTime before EndOfSimulation: "exactly at the time of the stop that caused it".) */
__CPROVER_ensures((ghost_threw == 0 && RV == ReachedReportTime) ==> (TRET(self) == reportTime || (TRET(self) == FINALT(self) && FINALT(self) < reportTime)))
__CPROVER_ensures((ghost_threw == 0 && RV == ReachedScheduledEvent) ==> TRET(self) == scheduledEventTime)
/*     and a report that is due inside the interval already integrated is delivered now, at exactly that time */
__CPROVER_ensures((ghost_threw == 0 && !__CPROVER_old(self->startOfContinuousInterval)
                   && (__CPROVER_old(self->stepCommunicationStatus) == CompletedInternalStepNoEvent || __CPROVER_old(self->stepCommunicationStatus) == StepHasBeenReturnedWithEvent)
                   && reportTime <= __CPROVER_old(self->advancedState.t)) ==> (RV == ReachedReportTime && TRET(self) == reportTime))
/* (6) EndOfSimulation exactly once, at the final time: it is returned only from a non-final status, at t==finalTime, and moves
       to FinalTimeHasBeenReturned, from which (1) refuses; FinalTimeHasBeenReturned is entered by no other return */
__CPROVER_ensures((ghost_threw == 0 && RV == EndOfSimulation) ==> (TRET(self) == FINALT(self) && ADV(self) == FINALT(self)
                   && SCS(self) == FinalTimeHasBeenReturned && __CPROVER_old(self->stepCommunicationStatus) != FinalTimeHasBeenReturned))
__CPROVER_ensures((ghost_threw == 0 && RV != EndOfSimulation) ==> SCS(self) != FinalTimeHasBeenReturned)
/* (7) event return: the before-state at tLow, window (tLow,tHigh] with tHigh the advanced time; no scheduled or final time
       strictly inside (tHigh <= both); no report time strictly inside when the step was taken by this call (the cross-call
       corner is the separate unit stepto.finding.report_in_window) */
__CPROVER_ensures((ghost_threw == 0 && RV == ReachedEventTrigger) ==> (TRET(self) == self->tLow && self->tLow < self->tHigh && self->tHigh == ADV(self)
                   && SCS(self) == StepHasBeenReturnedWithEvent && self->tHigh <= scheduledEventTime && self->tHigh <= FINALT(self)
                   && self->tLow < reportTime
                   && (ghost_stepped ==> !(self->tLow < reportTime && reportTime < self->tHigh))))
/* (8) options: return-every-step and step-limit returns happen only when requested, at the advanced time, after >= limit steps */
__CPROVER_ensures((ghost_threw == 0 && RV == TimeHasAdvanced) ==> (self->userReturnEveryInternalStep == 1 && TRET(self) == ADV(self) && SCS(self) == StepHasBeenReturnedNoEvent))
__CPROVER_ensures((ghost_threw == 0 && RV == ReachedStepLimit) ==> (self->userInternalStepLimit > 0 && ghost_steps - ghost_steps0 >= (unsigned)self->userInternalStepLimit && TRET(self) == ADV(self)))
/* (9) start of a continuous interval: reported once, nothing moves */
__CPROVER_ensures((ghost_threw == 0 && RV == StartOfContinuousInterval) ==> (__CPROVER_old(self->startOfContinuousInterval) && !ghost_stepped
                   && TRET(self) == ghost_t0 && ADV(self) == __CPROVER_old(self->advancedState.t)))
__CPROVER_ensures(ghost_threw == 0 ==> !self->startOfContinuousInterval)
/* (10) status after a return: what the caller (TimeStepper, C22) relies on before calling reinitialize() */
__CPROVER_ensures((ghost_threw == 0 && (RV == ReachedScheduledEvent || RV == TimeHasAdvanced || RV == ReachedStepLimit)) ==> (SCS(self) == StepHasBeenReturnedNoEvent && TRET(self) == ADV(self)))
;

/* ---- the two strong clauses behind the genuine findings F6 (fixed in /repo by 33dc527e) and F7 (open), isolated in wrappers
   so that each has its own obligation name. The wrappers only forward; dfcc analyses the real stepTo body inside them. ---- */
SuccessfulStepStatus stepTo_refusal_after_reinit(struct IntegratorRep* self, Real reportTime, Real scheduledEventTime)
__CPROVER_requires(__CPROVER_is_fresh(self, sizeof(*self)))
__CPROVER_requires(STEPTO_PRE(self, reportTime, scheduledEventTime))
__CPROVER_requires(SCS(self) == FinalTimeHasBeenReturned)
__CPROVER_assigns(STEPTO_ASSIGNS)
/* "End-of-simulation is returned exactly once ... after which stepping is refused": with no exception for a
   reinitialize() in between (reinitialize keeps the status but sets startOfContinuousInterval) */
__CPROVER_ensures(ghost_threw == 1 && SCS(self) == FinalTimeHasBeenReturned)
;
/* F7 (open): the window was localised by an EARLIER call (entry status CompletedInternalStepWithEvent resp.
   StepHasBeenReturnedWithEvent, no step taken by this call); the report time of THIS call is never compared with it.
   (The same-call case is clause (7) of the main contract and holds.) */
SuccessfulStepStatus stepTo_report_in_window(struct IntegratorRep* self, Real reportTime, Real scheduledEventTime)
__CPROVER_requires(__CPROVER_is_fresh(self, sizeof(*self)))
__CPROVER_requires(STEPTO_PRE(self, reportTime, scheduledEventTime))
__CPROVER_requires(!self->startOfContinuousInterval && (SCS(self) == CompletedInternalStepWithEvent || SCS(self) == StepHasBeenReturnedWithEvent))
__CPROVER_assigns(STEPTO_ASSIGNS)
/* "no report ... time ever lies strictly inside a reported event window": the window is reported now, the pending report time is inside */
__CPROVER_ensures((ghost_threw == 0 && RV == ReachedEventTrigger && !ghost_stepped) ==> !(self->tLow < reportTime && reportTime < self->tHigh))
/* ... the window was reported by the previous call, and now a state strictly inside it is returned as a report */
__CPROVER_ensures((ghost_threw == 0 && RV == ReachedReportTime && !ghost_stepped && __CPROVER_old(self->stepCommunicationStatus) == StepHasBeenReturnedWithEvent)
                  ==> !(__CPROVER_old(self->tLow) < TRET(self) && TRET(self) < __CPROVER_old(self->tHigh)))
;

/* ------------------------------------------------------------------------------------------------------------
   IntegratorRep::reinitialize keeps the class invariant and the status (except a termination request).
   Stage is an int in the view (Stage::Report == 11 comes from the real Stage.h, checked by the extractor).
   Precondition = what the real caller guarantees (proved in C22 on TimeStepperRep::stepTo): it is called right after a
   return that left the state machine in a *HasBeenReturned* status.
   ------------------------------------------------------------------------------------------------------------ */
void IntegratorRep_reinitialize(struct IntegratorRep* self, int stage, bool shouldTerminate)
__CPROVER_requires(__CPROVER_is_fresh(self, sizeof(*self)))
__CPROVER_requires(CINV(self))
__CPROVER_requires(SCS(self) == StepHasBeenReturnedNoEvent || SCS(self) == StepHasBeenReturnedWithEvent || SCS(self) == FinalTimeHasBeenReturned)
__CPROVER_assigns(self->startOfContinuousInterval, self->useInterpolatedState, self->stepCommunicationStatus, self->terminationReason)
__CPROVER_ensures(CINV(self))
__CPROVER_ensures(shouldTerminate ==> SCS(self) == FinalTimeHasBeenReturned)
__CPROVER_ensures(!shouldTerminate ==> SCS(self) == __CPROVER_old(self->stepCommunicationStatus))
/* "later integration starts from the state the handlers produced": if the handler changed anything below Stage::Report the
   next stepTo sees the advanced state itself (no stale interpolated state) and restarts a continuous interval */
__CPROVER_ensures(stage < Stage_Report ==> (self->startOfContinuousInterval && !self->useInterpolatedState))
__CPROVER_ensures(ADV(self) == __CPROVER_old(self->advancedState.t))
;

/* ------------------------------------------------------------------------------------------------------------
   Integrator::stepBy: forwards to stepTo with times relative to the CURRENT (returned) time
   ------------------------------------------------------------------------------------------------------------ */
extern Real ghost_stepTo_report, ghost_stepTo_sched; extern int ghost_stepTo_calls;
SuccessfulStepStatus rep_stepTo(struct IntegratorRep* self, Real reportTime, Real scheduledEventTime)
__CPROVER_assigns(ghost_stepTo_report, ghost_stepTo_sched, ghost_stepTo_calls)
__CPROVER_ensures(ghost_stepTo_report == reportTime && ghost_stepTo_sched == scheduledEventTime && ghost_stepTo_calls == __CPROVER_old(ghost_stepTo_calls) + 1)
;
/* Integrator::stepBy itself is proved by the loop-free full-domain harness h_stepBy_plain (harness.h): it forwards exactly one
   request stepTo(t (+) interval, t (+) limit) with t = getState().getTime(), (+) abstracted to an uninterpreted function. */
