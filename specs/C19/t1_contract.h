/* Contract of the t1-selection block of AbstractIntegratorRep::takeOneStep (cut as a region, wrapped by the extractor into
   takeOneStep_t1(t0,tMax)). From the property: the step target never passes tMax (= min(scheduled, final[, report])) and
   time strictly advances, or the "unable to advance" error is raised.

   Bit-precise reasoning about `tMax > t0 + 1.001*h  ==>  t0 + h <= tMax` needs monotonicity of IEEE + and *const, which no
   back end here decides on the 64-bit circuits (SAT, z3, cvc5: no answer in 400 s). The extractor therefore rewrites the
   three sums/products of the block to vf_add / vf_mulc, whose bodies below are TRUSTED IEEE LEMMAS (DESIGN 3.7: correct
   rounding is monotone): the result is some double that is monotone w.r.t. the earlier calls with the same first operand
   and lies on the correct side of that operand. Comparisons and control flow stay bit-precise. */
#define NN(x) (!__CPROVER_isnand(x))
double nondet_double(void);
/* c*x for a positive finite constant c */
static double vf_mulc(double c, double x) {
    __CPROVER_assert(c > 0.0 && !__CPROVER_isinfd(c), "vf_mulc lemma applies to positive finite constants only");
    double r = nondet_double();
    __CPROVER_assume(__CPROVER_isnand(r) == __CPROVER_isnand(x));
    __CPROVER_assume(x == 0.0 ==> r == 0.0);
    __CPROVER_assume((x > 0.0 && c >= 1.0) ==> r >= x);
    __CPROVER_assume((x > 0.0 && c <= 1.0) ==> (r >= 0.0 && r <= x));
    __CPROVER_assume((x < 0.0 && c >= 1.0) ==> r <= x);
    __CPROVER_assume((x < 0.0 && c <= 1.0) ==> (r <= 0.0 && r >= x));
    return r;
}
/* a+b, monotone in b for fixed a (up to 3 calls are related, the block has exactly 3 sums) */
static double ghost_add_a[3], ghost_add_b[3], ghost_add_r[3]; static int ghost_add_n;
static double vf_add(double a, double b) {
    double r = nondet_double();
    __CPROVER_assume((NN(a) && NN(b) && !__CPROVER_isinfd(a)) ==> NN(r));
    __CPROVER_assume((__CPROVER_isnand(a) || __CPROVER_isnand(b)) ==> __CPROVER_isnand(r));
    __CPROVER_assume((NN(a) && b > 0.0) ==> r >= a);
    __CPROVER_assume((NN(a) && b < 0.0) ==> r <= a);
    __CPROVER_assume((NN(a) && b == 0.0) ==> r == a);
    if (ghost_add_n > 0 && ghost_add_a[0] == a) { __CPROVER_assume(ghost_add_b[0] <= b ==> (ghost_add_r[0] <= r || __CPROVER_isnand(r) || __CPROVER_isnand(ghost_add_r[0]))); __CPROVER_assume(b <= ghost_add_b[0] ==> (r <= ghost_add_r[0] || __CPROVER_isnand(r) || __CPROVER_isnand(ghost_add_r[0]))); }
    if (ghost_add_n > 1 && ghost_add_a[1] == a) { __CPROVER_assume(ghost_add_b[1] <= b ==> (ghost_add_r[1] <= r || __CPROVER_isnand(r) || __CPROVER_isnand(ghost_add_r[1]))); __CPROVER_assume(b <= ghost_add_b[1] ==> (r <= ghost_add_r[1] || __CPROVER_isnand(r) || __CPROVER_isnand(ghost_add_r[1]))); }
    __CPROVER_assert(ghost_add_n < 3, "vf_add lemma table large enough");
    ghost_add_a[ghost_add_n] = a; ghost_add_b[ghost_add_n] = b; ghost_add_r[ghost_add_n] = r; ghost_add_n = ghost_add_n + 1;
    return r;
}

Real takeOneStep_t1(struct IntegratorRep* self, Real t0, Real tMax, bool* hLimited);
