/* Contract of the t1-selection block of AbstractIntegratorRep::takeOneStep (cut as a region, wrapped by the extractor into
   takeOneStep_t1(t0,tMax)). From the property: the step target never passes tMax (= min(scheduled, final[, report])) and
   time strictly advances, or the "unable to advance" error is raised. All doubles (products are by constants only). */
#define NN(x) (!__CPROVER_isnand(x))
Real takeOneStep_t1(struct IntegratorRep* self, Real t0, Real tMax, bool* hLimited)
__CPROVER_requires(__CPROVER_is_fresh(self, sizeof(*self)) && __CPROVER_is_fresh(hLimited, sizeof(*hLimited)))
__CPROVER_requires(NN(t0) && NN(tMax) && ghost_threw == 0)
__CPROVER_assigns(*hLimited, ghost_threw)
__CPROVER_ensures(ghost_threw == 0 ==> (t0 < __CPROVER_return_value && __CPROVER_return_value <= tMax))
__CPROVER_ensures(ghost_threw == 1 ==> !(__CPROVER_return_value > t0))
/* the target is tMax itself or one current step; "artificially limited" exactly when tMax cuts >5% off the wanted step */
__CPROVER_ensures(__CPROVER_return_value == tMax || __CPROVER_return_value == t0 + self->currentStepSize)
__CPROVER_ensures(*hLimited == (tMax < t0 + 0.95*self->currentStepSize))
__CPROVER_ensures(*hLimited ==> __CPROVER_return_value == tMax)
;
