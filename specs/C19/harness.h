/* Harnesses for the C19 unit (one per function under contract), ghost definitions, reachability covers. */
int  ghost_threw;
unsigned ghost_steps;
int  ghost_stepped;
Real ghost_t0;
unsigned ghost_steps0;
Real ghost_adv0;
int  ghost_scs0;
Real ghost_stepTo_report, ghost_stepTo_sched; int ghost_stepTo_calls;

/* wrappers that carry the separately named strong clauses (see contracts.h); they only forward */
SuccessfulStepStatus stepTo_refusal_after_reinit(struct IntegratorRep* self, Real reportTime, Real scheduledEventTime)
{ return AbstractIntegratorRep_stepTo(self, reportTime, scheduledEventTime); }
SuccessfulStepStatus stepTo_report_in_window(struct IntegratorRep* self, Real reportTime, Real scheduledEventTime)
{ return AbstractIntegratorRep_stepTo(self, reportTime, scheduledEventTime); }

void h_stepTo(void)              { struct IntegratorRep* s; Real r, e; AbstractIntegratorRep_stepTo(s, r, e); }
void h_stepTo_refusal(void)      { struct IntegratorRep* s; Real r, e; stepTo_refusal_after_reinit(s, r, e); }
void h_stepTo_window(void)       { struct IntegratorRep* s; Real r, e; stepTo_report_in_window(s, r, e); }
void h_reinitialize(void)        { struct IntegratorRep* s; int stage; bool term; IntegratorRep_reinitialize(s, stage, term); }
void h_stepBy(void)              { struct IntegratorRep* s; Real a, b; Integrator_stepBy(s, a, b); }

/* reachability covers behind the preconditions: one per status value and per interesting corner, so that a contradictory
   class invariant / precondition cannot make the proof vacuous */
void h_cover_stepTo(void) {
    struct IntegratorRep S; struct IntegratorRep* s = &S; Real r, e;
    Real g1, g2; unsigned g3, g4; int g5, g6, g7;
    ghost_t0 = g1; ghost_adv0 = g2; ghost_steps = g3; ghost_steps0 = g4; ghost_scs0 = g5; ghost_threw = g6; ghost_stepped = g7;   /* ghosts are free inputs */
    __CPROVER_assume(STEPTO_PRE(s, r, e));
    __CPROVER_cover(SCS(s) == CompletedInternalStepNoEvent);
    __CPROVER_cover(SCS(s) == CompletedInternalStepWithEvent && s->useInterpolatedState);
    __CPROVER_cover(SCS(s) == StepHasBeenReturnedNoEvent && ADV(s) >= FINALT(s));
    __CPROVER_cover(SCS(s) == StepHasBeenReturnedWithEvent && s->useInterpolatedState && r > s->tLow && r < s->tHigh);
    __CPROVER_cover(SCS(s) == FinalTimeHasBeenReturned && s->startOfContinuousInterval);
    __CPROVER_cover(SCS(s) == FinalTimeHasBeenReturned && !s->startOfContinuousInterval);
    __CPROVER_cover(r == e && r == FINALT(s) && r > ADV(s));
    __CPROVER_cover(r > FINALT(s) && s->userAllowInterpolation == 0);
    __CPROVER_cover(s->userReturnEveryInternalStep == 1 && s->userInternalStepLimit > 0);
}
