/* Harnesses for the C19 unit (one per function under contract), ghost definitions, reachability covers. */
int  ghost_threw;
unsigned ghost_steps;
int  ghost_stepped;
Real ghost_t0;
unsigned ghost_steps0;
Real ghost_adv0;
int  ghost_scs0;
Real ghost_stepTo_report, ghost_stepTo_sched; int ghost_stepTo_calls;

/* wrappers that carry the separately named strong clauses (see contracts.h); they only forward */
SuccessfulStepStatus stepTo_refusal_after_reinit(struct IntegratorRep* self, Real reportTime, Real scheduledEventTime)
{ return AbstractIntegratorRep_stepTo(self, reportTime, scheduledEventTime); }
SuccessfulStepStatus stepTo_report_in_window(struct IntegratorRep* self, Real reportTime, Real scheduledEventTime)
{ return AbstractIntegratorRep_stepTo(self, reportTime, scheduledEventTime); }

void h_stepTo(void)              { struct IntegratorRep* s; Real r, e; AbstractIntegratorRep_stepTo(s, r, e); }
void h_stepTo_refusal(void)      { struct IntegratorRep* s; Real r, e; stepTo_refusal_after_reinit(s, r, e); }
void h_stepTo_window(void)       { struct IntegratorRep* s; Real r, e; stepTo_report_in_window(s, r, e); }
void h_reinitialize(void)        { struct IntegratorRep* s; int stage; bool term; IntegratorRep_reinitialize(s, stage, term); }

/* reachability covers behind the preconditions: one per status value and per interesting corner, so that a contradictory
   class invariant / precondition cannot make the proof vacuous */
void h_cover_stepTo(void) {
    struct IntegratorRep S; struct IntegratorRep* s = &S; Real r, e;
    Real g1, g2; unsigned g3, g4; int g5, g6, g7;
    ghost_t0 = g1; ghost_adv0 = g2; ghost_steps = g3; ghost_steps0 = g4; ghost_scs0 = g5; ghost_threw = g6; ghost_stepped = g7;   /* ghosts are free inputs */
    __CPROVER_assume(STEPTO_PRE(s, r, e));
    __CPROVER_cover(SCS(s) == CompletedInternalStepNoEvent);
    __CPROVER_cover(SCS(s) == CompletedInternalStepWithEvent && s->useInterpolatedState);
    __CPROVER_cover(SCS(s) == StepHasBeenReturnedNoEvent && ADV(s) >= FINALT(s));
    __CPROVER_cover(SCS(s) == StepHasBeenReturnedWithEvent && s->useInterpolatedState && r > s->tLow && r < s->tHigh);
    __CPROVER_cover(SCS(s) == FinalTimeHasBeenReturned && s->startOfContinuousInterval);
    __CPROVER_cover(SCS(s) == FinalTimeHasBeenReturned && !s->startOfContinuousInterval);
    __CPROVER_cover(r == e && r == FINALT(s) && r > ADV(s));
    __CPROVER_cover(r > FINALT(s) && s->userAllowInterpolation == 0);
    __CPROVER_cover(s->userReturnEveryInternalStep == 1 && s->userInternalStepLimit > 0);
}

#ifdef STEPBY_PLAIN
/* Integrator::stepBy, loop-free full-domain harness (complete proof). The double additions `t + x` of the real text are
   rewritten by the extractor to VF_ADD(t,x) = an UNINTERPRETED function (CBMC __CPROVER_uninterpreted_*): proving that two
   separately built symbolic 64-bit adders agree is out of reach of the SAT/SMT back ends here, and the forwarding claim holds
   for every binary operation, in particular for IEEE +. rep_stepTo's body below IS its contract (records the
   forwarded request). */
SuccessfulStepStatus rep_stepTo(struct IntegratorRep* self, Real reportTime, Real scheduledEventTime)
{ ghost_stepTo_report = reportTime; ghost_stepTo_sched = scheduledEventTime; ghost_stepTo_calls = ghost_stepTo_calls + 1; SuccessfulStepStatus nd; return nd; }
static void stepBy_case(bool interpolated) {
    struct IntegratorRep S; Real interval, limit;
    S.useInterpolatedState = interpolated;
    const Real t = interpolated ? S.interpolatedState.t : S.advancedState.t;      /* == getState().getTime() */
    ghost_stepTo_calls = 0;
    Integrator_stepBy(&S, interval, limit);
    __CPROVER_assert(ghost_stepTo_calls == 1, "stepBy forwards exactly one stepTo request");
    __CPROVER_assert(__CPROVER_isnand(ghost_stepTo_report) || ghost_stepTo_report == VF_ADD(t, interval), "stepBy: report time is relative to the CURRENT returned time getState().getTime()");
    __CPROVER_assert(__CPROVER_isnand(ghost_stepTo_sched) || ghost_stepTo_sched == VF_ADD(t, limit), "stepBy: advance limit is relative to the CURRENT returned time");
}
void h_stepBy_plain(void) { stepBy_case(false); stepBy_case(true); }
#endif
