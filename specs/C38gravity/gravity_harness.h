/* Harnesses (one per function under contract), composition lemmas, reachability covers.
   Ghosts gj, g_defimm, g_norm, g_unit, g_applied are `extern` without definition: nondeterministic. */

#ifndef COVER_ONLY
bool nondet_bool(void);     /* an uninitialised `bool` local is not a canonical 0/1 value in CBMC */
void h_FC_setToZero(void)   { struct ForceCache* f; FC_setToZero(f); }
void h_FC_setToNaN(void)    { struct ForceCache* f; FC_setToNaN(f); }
void h_FC_allocate(void)    { struct ForceCache* f; int nb, np; bool z = nondet_bool(); FC_allocate(f, nb, np, z); }
void h_Parameters_ctor(void){ struct Parameters* p; struct UnitVec3 d; Real g, z; const struct BoolArray* a; Parameters_ctor(p, d, g, z, a); }
void h_setMobodIsImmune(void) { const struct GravityImpl* gi; struct State* s; MobilizedBodyIndex m; bool b = nondet_bool(); GI_setMobodIsImmune(gi, s, m, b); }
void h_realizeTopology(void) { struct GravityImpl* gi; struct State* s; GI_realizeTopology(gi, s); }
void h_ensureForceCacheValid(void) { struct GravityImpl* gi; struct State* s; GI_ensureForceCacheValid(gi, s); }
void h_getBodyForces(void) { const struct GravityImpl* gi; struct State* s; G_getBodyForces(gi, s); }
void h_getBodyForce(void) { const struct GravityImpl* gi; struct State* s; MobilizedBodyIndex m; G_getBodyForce(gi, s, m); }
void h_getPotentialEnergy(void) { const struct GravityImpl* gi; struct State* s; G_getPotentialEnergy(gi, s); }
void h_calcForce(void) { struct GravityImpl* gi; struct State* s; struct SVArray* bf; GI_calcForce(gi, s, bf); }
void h_calcPotentialEnergy(void) { struct GravityImpl* gi; struct State* s; GI_calcPotentialEnergy(gi, s); }
void h_setBodyIsExcluded(void) { const struct GravityImpl* gi; struct State* s; MobilizedBodyIndex m; bool b = nondet_bool(); G_setBodyIsExcluded(gi, s, m, b); }
void h_setMagnitude(void) { const struct GravityImpl* gi; struct State* s; Real g; G_setMagnitude(gi, s, g); }
void h_setZeroHeight(void) { const struct GravityImpl* gi; struct State* s; Real z; G_setZeroHeight(gi, s, z); }
void h_setDownDirection(void) { const struct GravityImpl* gi; struct State* s; struct UnitVec3 d; G_setDownDirection(gi, s, d); }
void h_setGravityVector(void) { const struct GravityImpl* gi; struct State* s; struct Vec3 v; G_setGravityVector(gi, s, v); }

/* =====================================================================================
   Composition lemmas: the setters and the accessors are used BY CONTRACT (each contract is
   enforced on the real body in its own unit).
   ===================================================================================== */
#define LEMMA_REQ(self, state) REQ_WF(self, state) REQ_INV(state) \
  __CPROVER_requires(0 <= GI(self)->numEvaluations && GI(self)->numEvaluations < 999999999000LL && state->stage >= Stage_Position && 1 <= gj)
#define LEMMA_ASSIGNS(self, state) __CPROVER_assigns(ghost_threw, (state)->stage, (state)->ceMarked, (state)->params.g, (state)->params.z, (state)->params.d, (state)->fc.pe, \
   __CPROVER_object_whole((state)->params.mobodIsImmune.data), __CPROVER_object_whole((state)->fc.F_GB.data), GI(self)->numEvaluations)

/* L1 (the sequence named in the task): body j excluded, magnitude set to 0, body j re-included, forces read:
   exactly zero (never NaN), and the energy is exactly zero */
struct SpatialVec L_exclude_zero_reinclude(struct GravityImpl* self, struct State* state)
LEMMA_REQ(self, state)
LEMMA_ASSIGNS(self, state)
__CPROVER_ensures(!ghost_threw && SV_IS_ZERO(__CPROVER_return_value))
__CPROVER_ensures(PE_IS_ZERO(state->fc.pe) && CE_VALID(state))
{
  G_setBodyIsExcluded(self, state, gj, true);
  G_setMagnitude(self, state, 0.0);
  G_setBodyIsExcluded(self, state, gj, false);
  return G_getBodyForce(self, state, gj);
}

/* L2: magnitude set to 0, then to g1 > 0 with body j excluded in between: the excluded body reads exactly zero,
   and after re-inclusion it reads the gravity force of the NEW magnitude */
extern Real g_g1;
struct SpatialVec L_zero_exclude_restore_include(struct GravityImpl* self, struct State* state)
LEMMA_REQ(self, state)
__CPROVER_requires(g_g1 > 0)
LEMMA_ASSIGNS(self, state)
__CPROVER_ensures(!ghost_threw && SV_IS_GRAV(__CPROVER_return_value, gj, g_g1, state->params.d))
__CPROVER_ensures(state->fc.pe.kind == PE_SUM && state->fc.pe.cj == 1 && SAME(state->fc.pe.g, g_g1))
{
  G_setMagnitude(self, state, 0.0);
  G_setBodyIsExcluded(self, state, gj, true);
  G_setMagnitude(self, state, g_g1);
  G_setBodyIsExcluded(self, state, gj, false);
  return G_getBodyForce(self, state, gj);
}

/* L3: ANY State-based setter with arbitrary legal arguments, then getPotentialEnergy + getBodyForce(j):
   the values read are the documented ones of the parameters NOW in the state, and the setter's value is in the state.
   (Every setter contract requires and ensures only WF + INV, so this extends to any finite sequence of setters by induction.) */
extern int g_w2; extern Real g_x2; extern struct UnitVec3 g_dn2; extern struct Vec3 g_gv; extern MobilizedBodyIndex g_mb2; extern bool g_ex2;
extern struct PEVal g_outPE;
#define LEGAL_ARGS(self, w, x, dn, mb) (0 <= (w) && (w) <= 4 && ((w) == 0 ==> (x) >= 0) && ((w) == 2 ==> DIR_FINITE(dn)) && ((w) == 4 ==> (1 <= (mb) && (mb) < NB(GI(self)))))
struct SpatialVec L_any_setter_then_get(struct GravityImpl* self, struct State* state)
LEMMA_REQ(self, state)
__CPROVER_requires(LEGAL_ARGS(self, g_w2, g_x2, g_dn2, g_mb2) && !(g_norm < 0) && (g_ex2 == false || g_ex2 == true))
LEMMA_ASSIGNS(self, state) __CPROVER_assigns(g_outPE)
__CPROVER_ensures(!ghost_threw && CE_VALID(state))
__CPROVER_ensures(DOC_F_VAL(__CPROVER_return_value, state, gj))
__CPROVER_ensures(DOC_PE_VAL(g_outPE, state, gj))
__CPROVER_ensures(g_w2 == 0 ==> SAME(state->params.g, g_x2))
__CPROVER_ensures(g_w2 == 1 ==> SAME(state->params.z, g_x2))
__CPROVER_ensures(g_w2 == 2 ==> DIR_SAME(state->params.d, g_dn2))
__CPROVER_ensures(g_w2 == 3 ==> SAME(state->params.g, g_norm))
__CPROVER_ensures((g_w2 == 4 && g_mb2 == gj) ==> IMM(state, gj) == g_ex2)
{
  if (g_w2 == 0)      G_setMagnitude(self, state, g_x2);
  else if (g_w2 == 1) G_setZeroHeight(self, state, g_x2);
  else if (g_w2 == 2) G_setDownDirection(self, state, g_dn2);
  else if (g_w2 == 3) G_setGravityVector(self, state, g_gv);
  else                G_setBodyIsExcluded(self, state, g_mb2, g_ex2);
  g_outPE = G_getPotentialEnergy(self, state);
  return G_getBodyForce(self, state, gj);
}
void h_L1(void) { struct GravityImpl* gi; struct State* s; L_exclude_zero_reinclude(gi, s); }
void h_L2(void) { struct GravityImpl* gi; struct State* s; L_zero_exclude_restore_include(gi, s); }
void h_L3(void) { struct GravityImpl* gi; struct State* s; L_any_setter_then_get(gi, s); }
#endif

/* =====================================================================================
   Reachability behind the preconditions (plain harness, 3 bodies): the interesting states exist
   ===================================================================================== */
#ifdef COVER_ONLY
int gj;
int nondet_int(void);
void h_cover(void) {
  struct GravityImpl gi; struct State st; struct State* s = &st; bool imm[3]; struct SpatialVec F[3];
  gj = nondet_int();
  gi.matter.nb = 3; st.params.mobodIsImmune.data = imm; st.params.mobodIsImmune.n = 3; st.fc.F_GB.data = F; st.fc.F_GB.n = 3;
  __CPROVER_assume(0 <= gj && gj < 3);
  __CPROVER_assume(st.dvAllocated && st.ceAllocated && st.dvIx == gi.parametersIx && st.ceIx == gi.forceCacheIx && st.dvInvalidates == Stage_Dynamics &&
                   st.ceDependsOn == Stage_Position && Stage_Topology <= st.stage && st.stage <= Stage_Infinity);
  __CPROVER_assume(INV1(s) && INV2(s) && INV3(s) && INV4(s));
  if (CE_VALID(s) && !(st.params.g == 0) && gj >= 1 && !IMM(s, gj)) __CPROVER_cover(1);          /* a valid computed force */
  if (CE_VALID(s) && !(st.params.g == 0) && gj >= 1 && IMM(s, gj)) __CPROVER_cover(1);           /* a valid precalculated zero of an immune body */
  if (CE_VALID(s) && st.params.g == 0 && gj >= 1 && !IMM(s, gj)) __CPROVER_cover(1);             /* no gravity: valid zeroes */
  if (!CE_VALID(s) && st.stage >= Stage_Position && !(st.params.g == 0) && gj >= 1 && !IMM(s, gj) && SV_IS_NAN(FGB(s, gj))) __CPROVER_cover(1);  /* invalid, NaN placeholder */
  if (!CE_VALID(s) && st.stage >= Stage_Position && !(st.params.g == 0) && gj >= 1 && !IMM(s, gj) && FGB(s, gj).kind == SV_GRAVITY && !SAME(FGB(s, gj).g, st.params.g)) __CPROVER_cover(1); /* invalid, stale value */
  if (!CE_VALID(s) && st.stage < Stage_Position && st.ceMarked) __CPROVER_cover(1);              /* marked but below Position */
  if (CE_VALID(s) && st.fc.pe.cj == 1 && !(st.params.g == 0)) __CPROVER_cover(1);                /* energy with the ghost body's term */
  if (st.params.g != st.params.g) __CPROVER_cover(1);                                            /* NaN magnitude is inside the domain */
  if (gj == 0 && CE_VALID(s)) __CPROVER_cover(1);                                                /* Ground as the followed body */
}
#endif
