/* Contracts of the XML-writer part of C32.  The postconditions come from the property ("XML documents written and
   re-read reproduce the original value exactly ... text with characters needing escapes"): what the writer must
   guarantee so that the reader's scan finds the same value.  o->wpos is the arbitrary output position, g_gi the
   arbitrary input position, g_gs the arbitrary digit position (see xml_pre.h). */
#define XML_WF_IN(s)  (__CPROVER_is_fresh(s, sizeof(*(s))) && 0 <= (s)->len && (s)->len <= XML_MAXLEN)
#define XML_WF_OUT(o) (__CPROVER_is_fresh(o, sizeof(*(o))) && 0 <= (o)->len && (o)->len <= 1000000000 && 0 <= (o)->wpos && (o)->wpos <= 2000000000)
#define XML_GHOSTS_WF (0 <= g_gi && g_gi <= XML_MAXLEN && 0 <= g_gs && g_gs <= XML_MAXLEN && 0 <= g_enc_calls && g_enc_calls < 1000)
#define XML_W6(o) (o)->w[0], (o)->w[1], (o)->w[2], (o)->w[3], (o)->w[4], (o)->w[5]

/* ---- static int hexCharRefLength(const String& str, int i) -------------------------------------------------------
   proved on the real body (unit xml.hexCharRefLength) */
int hexCharRefLength(const struct XStr* str, int i)
__CPROVER_requires(XML_WF_IN(str) && __CPROVER_is_fresh(str->data, str->len + 1))
__CPROVER_requires(0 <= i && i <= str->len && 0 <= g_gs)
__CPROVER_assigns()
__CPROVER_ensures(HCL_FUNCTIONAL(str->data, str->len, i, __CPROVER_return_value))
;
/* the same contract as seen by EncodeString, plus determinism (a function that assigns nothing -- proved above -- and reads only
   its arguments returns the same value when called again with the same arguments on the unchanged string: ASSUMED) */
int hexCharRefLength_det(const struct XStr* str, int i)
__CPROVER_requires(0 <= i && i <= str->len)
__CPROVER_assigns(g_hl_valid, g_hl_i, g_hl_r)
__CPROVER_ensures(HCL_FUNCTIONAL(str->data, str->len, i, __CPROVER_return_value))
__CPROVER_ensures(!(__CPROVER_old(g_hl_valid) && __CPROVER_old(g_hl_i) == i) || __CPROVER_return_value == __CPROVER_old(g_hl_r))
__CPROVER_ensures(g_hl_valid && g_hl_i == i && g_hl_r == __CPROVER_return_value)
;

/* ---- static void TiXmlBase::EncodeString(const String& str, String* outString, bool keepQuotes) -------------- */
void TiXmlBase_EncodeString(const struct XStr* str, struct XStr* outString, bool keepQuotes)
__CPROVER_requires(XML_WF_IN(str))
__CPROVER_requires(__CPROVER_is_fresh(str->data, str->len + 1))          /* std::string keeps data[size()] readable */
__CPROVER_requires(XML_WF_OUT(outString))
__CPROVER_requires(XML_GHOSTS_WF)
__CPROVER_assigns(outString->len, XML_W6(outString), g_n0, g_o_old, g_c, g_kind, g_elen, XML_GHOST_ASSIGNS, g_enc_calls, g_enc_src, g_enc_dst, g_enc_keep)
/* 1: call record */
__CPROVER_ensures(g_enc_calls == __CPROVER_old(g_enc_calls) + 1 && g_enc_src == XS_ID(str) && g_enc_dst == XS_ID(outString) && g_enc_keep == keepQuotes)
/* 2: it appends; at most six characters per input character; nothing for the empty string */
__CPROVER_ensures(g_n0 == __CPROVER_old(outString->len) && g_n0 <= outString->len && outString->len <= g_n0 + 6 * str->len
                  && outString->wpos == __CPROVER_old(outString->wpos))
/* 3: what was there stays */
__CPROVER_ensures(!(outString->wpos < g_n0) || outString->w[0] == __CPROVER_old(outString->w[0]))
/* 4: the output is the concatenation of enc(c_i): input character g_gi was consumed at output position g_i_pos, its
      encoding stands there, and character g_gi+1 was consumed right behind it (g_i_next), the first one at the old
      end, the last one ends at the new end.  enc(c) = the entity of & < > (and of " ' unless keepQuotes), &#xHH; for
      a control character, the character itself otherwise -- except inside a well-formed hexadecimal character
      reference "&#x<hexdigits>;" of the input (g_i_raw), which is copied unchanged (documented pass-through). */
__CPROVER_ensures(XML_GI_CONST(str->data, str->len, keepQuotes, condenseWhiteSpace) && XML_IN_FACT(str->data, str->len, outString, str->len, keepQuotes, condenseWhiteSpace))
__CPROVER_ensures(!(0 <= g_gi && g_gi == str->len - 1) || XML_NEXT(str->len, outString) == outString->len)
/* 5: every written output character comes from an escaping branch (GOOD) or is a copy of a character of such a reference */
__CPROVER_ensures(XML_OUT_FACT(str->data, str->len, outString, keepQuotes))
/* 6: NO raw < > anywhere, no raw quote unless keepQuotes (for the copied characters: with the digit ghost on the copied position) */
__CPROVER_ensures(XML_SAFE_FACT(outString, keepQuotes))
/* 7: every & of the output starts one of the five entities, &#xHH; of a control character, or is the & that starts a copied
      well-formed hexadecimal reference */
__CPROVER_ensures(XML_AMP_FACT(outString))
;

/* ---- std::string::find(char) : assumed contract, ghost-indexed (g_k) ------------------------------------------ */
unsigned long xs_find_char(const struct XStr* s, char ch)
__CPROVER_requires(1)
__CPROVER_assigns(g_found, g_find_npos)
__CPROVER_ensures(__CPROVER_return_value == XS_NPOS || __CPROVER_return_value < (unsigned long)s->len)
__CPROVER_ensures(__CPROVER_return_value == XS_NPOS || (s->data[__CPROVER_return_value] == ch && g_found == __CPROVER_return_value))
__CPROVER_ensures(__CPROVER_return_value != XS_NPOS || !(0 <= g_k && g_k < s->len) || s->data[g_k] != ch)
__CPROVER_ensures(g_find_npos == (__CPROVER_return_value == XS_NPOS))
;

/* ---- void TiXmlAttribute::Print(FILE* cfile, int depth, String* str) const ------------------------------------
   members name/value and the two local Strings n, v are parameters of the C unit (n, v: empty on entry).
   ATT_PV = position of the value text inside *str;  ATT_D = the delimiter the code's own test selects. */
#define ATT_PV   (__CPROVER_old(str->len) + n->len + 2)
#define ATT_D    (g_find_npos ? '"' : '\'')
void TiXmlAttribute_Print(const struct XStr* name, const struct XStr* value, FILE* cfile, int depth, struct XStr* str,
                          struct XStr* n, struct XStr* v)
__CPROVER_requires(XML_WF_IN(name) && __CPROVER_is_fresh(name->data, name->len + 1))
__CPROVER_requires(XML_WF_IN(value) && __CPROVER_is_fresh(value->data, value->len + 1))
__CPROVER_requires(XML_WF_OUT(n) && n->len == 0)
__CPROVER_requires(XML_WF_OUT(v) && v->len == 0)
__CPROVER_requires(cfile == 0 || __CPROVER_is_fresh(cfile, sizeof(*cfile)))
__CPROVER_requires(str == 0 || (XML_WF_OUT(str) && str->len <= 100000000))
__CPROVER_requires(cfile != 0 || str != 0)
__CPROVER_requires(XML_GHOSTS_WF && g_f_calls == 0 && g_enc_calls == 0 && 0 <= g_k)
__CPROVER_assigns(n->len, XML_W6(n), v->len, XML_W6(v), g_n0, g_o_old, g_c, g_kind, g_elen, XML_GHOST_ASSIGNS, g_enc_calls, g_enc_src, g_enc_dst, g_enc_keep,
                  g_found, g_find_npos, g_f_calls, g_f_fmt, g_f_a, g_f_b;
                  str: str->len, XML_W6(str))
/* 1: v is the encoding of the value (last EncodeString call) */
__CPROVER_ensures(g_enc_calls == 2 && g_enc_src == XS_ID(value) && g_enc_dst == XS_ID(v))
/* 2: String* branch: *str grows by  n = D v D  with D one of the two quote characters */
__CPROVER_ensures(str == 0 || str->len == __CPROVER_old(str->len) + n->len + 2 + v->len + 1)
__CPROVER_ensures(str == 0 || str->wpos != ATT_PV - 2 || (str->w[0] == '=' && str->w[1] == ATT_D))
__CPROVER_ensures(str == 0 || str->wpos != ATT_PV + v->len || str->w[0] == ATT_D)
__CPROVER_ensures(str == 0 || !(0 <= v->wpos && v->wpos < v->len && str->wpos == ATT_PV + v->wpos) || str->w[0] == v->w[0])
__CPROVER_ensures(str == 0 || !(0 <= n->wpos && n->wpos < n->len && str->wpos == __CPROVER_old(str->len) + n->wpos) || str->w[0] == n->w[0])
__CPROVER_ensures(str == 0 || !(str->wpos < __CPROVER_old(str->len)) || str->w[0] == __CPROVER_old(str->w[0]))
/* 3: FILE* branch: one fprintf with the format  %s=D%sD  and the same two texts */
__CPROVER_ensures(cfile == 0 || (g_f_calls == 1 && g_f_a == n->data && g_f_b == v->data && g_f_fmt[0] == '%' && g_f_fmt[1] == 's' && g_f_fmt[2] == '='
                                 && g_f_fmt[3] == ATT_D && g_f_fmt[4] == '%' && g_f_fmt[5] == 's' && g_f_fmt[6] == ATT_D && g_f_fmt[7] == 0))
/* 4: THE point: no unescaped occurrence of the delimiter (nor a raw < >) inside the written value text: the reader scans for it */
__CPROVER_ensures(!(0 <= v->wpos && v->wpos < v->len) || (g_o_raw && g_gs != g_o_src) || (v->w[0] != ATT_D && v->w[0] != '<' && v->w[0] != '>'))
/* 5: every & of the value text starts an entity / a control reference / a copied well-formed hexadecimal reference */
__CPROVER_ensures(!(0 <= v->wpos && v->wpos < v->len) || v->w[0] != '&' || (g_o_raw ? (g_gs != g_o_src || g_o_src == g_o_start) : ENT_AT(v->w, v->len - v->wpos)))
/* 6: convention of the code's own test (not needed for the round trip): double quotes unless the value contains one */
__CPROVER_ensures(ATT_D != '"' || !(0 <= g_k && g_k < value->len) || value->data[g_k] != '"')
__CPROVER_ensures(ATT_D != '\'' || (g_found < (unsigned long)value->len && value->data[g_found] == '"'))
;
