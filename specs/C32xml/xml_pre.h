/* Model prelude for the XML-writer part of C32 (checks/part_c32_xml.py).

   TinyXML's `String` (= SimTK::String = std::string):
     - an INPUT string is a byte buffer `data` of `len` characters (any length up to XML_MAXLEN) plus terminator;
     - an OUTPUT string is append-only in all the code under contract; it is modelled by its exact length `len` and an
       OBSERVATION WINDOW: the six characters at positions wpos .. wpos+5, where wpos is an arbitrary constant (ghost
       output position).  An append updates the length and the window cells it covers; characters outside the window
       are not stored.  Every statement about "the output character at position p" is made for p == wpos (+k), i.e. for
       an arbitrary position.  (Assumed contract on std::string::append/operator+=: appends at the end, changes nothing
       before it, never fails.)
   All stubs are loop-free executable models.  Ghost variables record provenance only. */
#include <stdbool.h>
#include <stddef.h>

struct XStr { char* data; int len; int wpos; char w[6]; };
#define XML_MAXLEN 100000000            /* input length bound of the unbounded units (so that 6*len fits an int) */
#define XS_NPOS (~0UL)

int nondet_int(void); bool nondet_bool(void); char nondet_char(void); unsigned long nondet_ulong(void);

/* ---- ghost state ---------------------------------------------------------------------------------- */
int g_gi;        /* arbitrary INPUT position (constant) */
int g_gs;        /* arbitrary second input position (constant): "the characters between &#x and ; are hex digits" */
int g_k;         /* arbitrary position for std::string::find (constant) */
int g_n0;        /* output length at function entry */
char g_c; int g_kind, g_elen;   /* the input character at g_gi, the kind and length of its encoding (set once at function entry) */
char g_o_old;    /* window cell 0 at function entry */
int g_i_pos, g_i_next, g_i_start, g_i_rlen; bool g_i_raw;   /* input g_gi: output length when it was consumed / when g_gi+1 was; consumed by a pass-through copy of the reference [g_i_start, g_i_start+g_i_rlen) */
int g_o_src, g_o_start, g_o_rlen; bool g_o_raw;             /* output position wpos: written by a pass-through copy from input g_o_src of the reference [g_o_start, g_o_start+g_o_rlen) */
int g_enc_calls; unsigned long g_enc_src, g_enc_dst; bool g_enc_keep;   /* call record of EncodeString (object numbers of the two strings: a havocked POINTER ghost constrained by an assumed equality makes dfcc replacement vacuous) */
#define XS_ID(p) ((unsigned long)__CPROVER_POINTER_OBJECT(p))
bool g_hl_valid; int g_hl_i, g_hl_r;                        /* last result of hexCharRefLength (determinism of a pure function) */
unsigned long g_found; bool g_find_npos;                    /* result of the last find() */
int g_f_calls; const char* g_f_fmt; const char* g_f_a; const char* g_f_b;                 /* call record of fprintf */

bool condenseWhiteSpace;      /* TiXmlBase::condenseWhiteSpace (static member): arbitrary */

/* ---- std::string model ------------------------------------------------------------------------------ */
static unsigned long xs_length(const struct XStr* s) { return (unsigned long)s->len; }
static char xs_at(const struct XStr* s, long k) {
  __CPROVER_assert(0 <= k && k < s->len, "input read: index < length (never reads past the end of the input)");
  return s->data[k];
}
static const char* xs_c_str(const struct XStr* s) { return s->data; }
/* the character ch lands at output position p */
static void xs_put(struct XStr* o, int p, char ch) {
  int d = p - o->wpos;
  if (d == 0) o->w[0] = ch; else if (d == 1) o->w[1] = ch; else if (d == 2) o->w[2] = ch;
  else if (d == 3) o->w[3] = ch; else if (d == 4) o->w[4] = ch; else if (d == 5) o->w[5] = ch;
}
#define XS_PUT(o, p, n, k) if ((k) < (n)) xs_put(o, (o)->len + (k), (p)[k]);
/* append(ptr, n) of a short literal / local buffer */
static void xs_append(struct XStr* o, const char* p, unsigned long n) {
  __CPROVER_assert(n <= 8, "model: append(ptr,n) of at most 8 characters");
  __CPROVER_assert(0 <= o->len && o->len <= 2000000000, "model: output length fits an int");
  XS_PUT(o, p, n, 0) XS_PUT(o, p, n, 1) XS_PUT(o, p, n, 2) XS_PUT(o, p, n, 3)
  XS_PUT(o, p, n, 4) XS_PUT(o, p, n, 5) XS_PUT(o, p, n, 6) XS_PUT(o, p, n, 7)
  o->len += (int)n;
}
static void xs_push(struct XStr* o, char c) {
  __CPROVER_assert(0 <= o->len && o->len <= 2000000000, "model: output length fits an int");
  xs_put(o, o->len, c); o->len += 1;
}
/* outString->append(str.c_str() + i, n): a piece of the INPUT is copied; provenance of the ghost positions recorded */
#define XS_FROM(o, s, i, n, k) { long p_ = (long)(o)->wpos + (k); if ((o)->len <= p_ && p_ < (long)(o)->len + (n)) (o)->w[k] = (s)->data[(i) + (p_ - (o)->len)]; }
static void xs_append_from(struct XStr* o, const struct XStr* s, int i, int n) {
  __CPROVER_assert(0 <= i && 0 <= n && (long)i + n <= s->len, "input read: append(c_str()+i, n) stays inside the input");
  __CPROVER_assert(0 <= o->len && o->len <= 2000000000 && n <= XML_MAXLEN, "model: output length fits an int");
  XS_FROM(o, s, i, n, 0) XS_FROM(o, s, i, n, 1) XS_FROM(o, s, i, n, 2) XS_FROM(o, s, i, n, 3) XS_FROM(o, s, i, n, 4) XS_FROM(o, s, i, n, 5)
  if (o->len <= o->wpos && o->wpos < o->len + n) { g_o_raw = 1; g_o_src = i + (o->wpos - o->len); g_o_start = i; g_o_rlen = n; }
  if (i <= g_gi && g_gi < i + n) { g_i_pos = o->len + (g_gi - i); g_i_raw = 1; g_i_start = i; g_i_rlen = n; }
  if (i <= g_gi + 1 && g_gi + 1 < i + n) g_i_next = o->len + (g_gi + 1 - i);
  o->len += n;
}
static unsigned long vf_strlen(const char* s) {
  if (!s[0]) return 0; if (!s[1]) return 1; if (!s[2]) return 2; if (!s[3]) return 3;
  if (!s[4]) return 4; if (!s[5]) return 5; if (!s[6]) return 6; if (!s[7]) return 7;
  __CPROVER_assert(0, "model: strlen of a short buffer (< 8)"); return 8;
}
#define strlen vf_strlen
static void xs_append_lit(struct XStr* o, const char* lit) { xs_append(o, lit, vf_strlen(lit)); }
/* dst += src  (both output strings): the cells of dst's window that receive characters inside src's window get them,
   the other covered cells become unknown */
#define XS_STR(o, s, d) { long p_ = (long)(o)->wpos + (d); if ((o)->len <= p_ && p_ < (long)(o)->len + (s)->len) { long k_ = (p_ - (o)->len) - (s)->wpos; \
    (o)->w[d] = (k_ == 0) ? (s)->w[0] : (k_ == 1) ? (s)->w[1] : (k_ == 2) ? (s)->w[2] : (k_ == 3) ? (s)->w[3] : (k_ == 4) ? (s)->w[4] : (k_ == 5) ? (s)->w[5] : nondet_char(); } }
static void xs_append_str(struct XStr* o, const struct XStr* s) {
  __CPROVER_assert(0 <= o->len && 0 <= s->len && o->len <= 1000000000 && s->len <= 1000000000, "model: output length fits an int");
  XS_STR(o, s, 0) XS_STR(o, s, 1) XS_STR(o, s, 2) XS_STR(o, s, 3) XS_STR(o, s, 4) XS_STR(o, s, 5)
  o->len += s->len;
}

/* snprintf(buf, size, "&#x%02X;", v): assumed libc behaviour for exactly this format (anything else is an obligation) */
#define VF_HEXD(d) ((char)((d) < 10 ? '0' + (d) : 'A' + ((d) - 10)))
static int vf_snprintf(char* buf, unsigned long size, const char* fmt, unsigned v) {
  __CPROVER_assert(fmt[0] == '&' && fmt[1] == '#' && fmt[2] == 'x' && fmt[3] == '%' && fmt[4] == '0' && fmt[5] == '2'
                   && fmt[6] == 'X' && fmt[7] == ';' && fmt[8] == 0, "snprintf model: the format is \"&#x%02X;\"");
  __CPROVER_assert(size >= 7 && v <= 0xff, "snprintf model: buffer of at least 7 bytes, value of two hex digits");
  buf[0] = '&'; buf[1] = '#'; buf[2] = 'x'; buf[3] = VF_HEXD(v >> 4); buf[4] = VF_HEXD(v & 15); buf[5] = ';'; buf[6] = 0;
  return 6;
}
#define TIXML_SNPRINTF vf_snprintf
/* <cctype> in the C locale (assumed tables) */
#define VF_ISSPACE(c) ((c) == ' ' || ((c) >= 9 && (c) <= 13))
static int vf_isspace(int c) { return VF_ISSPACE(c); }
#define VF_ISXD(c) (((c) >= '0' && (c) <= '9') || ((c) >= 'a' && (c) <= 'f') || ((c) >= 'A' && (c) <= 'F'))
static int vf_isxdigit(int c) { return VF_ISXD(c); }

/* FILE* output: fprintf(cfile, fmt, a, b) is an opaque statement; its arguments are recorded */
struct VF_FILE { int opaque; };
typedef struct VF_FILE FILE;
static int vf_fprintf2(FILE* f, const char* fmt, const char* a, const char* b) {
  __CPROVER_assert(f != 0, "fprintf: non-null FILE*");
  g_f_calls += 1; g_f_fmt = fmt; g_f_a = a; g_f_b = b; return 0;
}

/* ---- specification vocabulary ----------------------------------------------------------------------- */
#define UC(x) ((unsigned char)(x))
/* white space that is copied when white space is preserved (condenseWhiteSpace == false): \t \n \v \f \r */
#define XML_ESC_CTRL(c, cws) (UC(c) < 32 && ((cws) || !(UC(c) >= 9 && UC(c) <= 13)))
/* kind of the encoding of one input character: 0 &amp; 1 &lt; 2 &gt; 3 &quot; 4 &apos; 5 &#xHH; 6 the character itself */
#define ENC_KIND(c, keep, cws) (UC(c) == '&' ? 0 : UC(c) == '<' ? 1 : UC(c) == '>' ? 2 : (UC(c) == '"' && !(keep)) ? 3 \
                                : (UC(c) == '\'' && !(keep)) ? 4 : XML_ESC_CTRL(c, cws) ? 5 : 6)
#define ENC_LEN(kd) ((kd) == 0 ? 5 : ((kd) == 1 || (kd) == 2) ? 4 : ((kd) == 3 || (kd) == 4 || (kd) == 5) ? 6 : 1)
#define CH5(O, a, b, c, d, e) ((O)[0] == (a) && (O)[1] == (b) && (O)[2] == (c) && (O)[3] == (d) && (O)[4] == (e))
/* the characters of enc(c) stand at the window O[0 ..] */
#define CHUNK_OK(O, c, kd) ( (kd) == 0 ? CH5(O, '&', 'a', 'm', 'p', ';') \
  : (kd) == 1 ? ((O)[0] == '&' && (O)[1] == 'l' && (O)[2] == 't' && (O)[3] == ';') \
  : (kd) == 2 ? ((O)[0] == '&' && (O)[1] == 'g' && (O)[2] == 't' && (O)[3] == ';') \
  : (kd) == 3 ? (CH5(O, '&', 'q', 'u', 'o', 't') && (O)[5] == ';') \
  : (kd) == 4 ? (CH5(O, '&', 'a', 'p', 'o', 's') && (O)[5] == ';') \
  : (kd) == 5 ? (CH5(O, '&', '#', 'x', VF_HEXD(UC(c) >> 4), VF_HEXD(UC(c) & 15)) && (O)[5] == ';') \
  : (O)[0] == (char)(c) )
/* one of the five entities or the numeric reference of a control character starts at the window (m = characters from the window start to the end of the string) */
#define ENT_AT(O, m) ( ((m) >= 5 && CH5(O, '&', 'a', 'm', 'p', ';')) \
  || ((m) >= 4 && (O)[1] == 'l' && (O)[2] == 't' && (O)[3] == ';') \
  || ((m) >= 4 && (O)[1] == 'g' && (O)[2] == 't' && (O)[3] == ';') \
  || ((m) >= 6 && CH5(O, '&', 'q', 'u', 'o', 't') && (O)[5] == ';') \
  || ((m) >= 6 && CH5(O, '&', 'a', 'p', 'o', 's') && (O)[5] == ';') \
  || ((m) >= 6 && (O)[1] == '#' && (O)[2] == 'x' && ((O)[3] == '0' || (O)[3] == '1') \
      && (((O)[4] >= '0' && (O)[4] <= '9') || ((O)[4] >= 'A' && (O)[4] <= 'F')) && (O)[5] == ';') )
/* a character that may stand unescaped in the output: no < >, no quote unless quotes are kept */
#define SAFE_CH(ch, keep) ((ch) != '<' && (ch) != '>' && ((keep) || ((ch) != '"' && (ch) != '\'')))
/* an output character written by an escaping branch: safe, and & only as the start of an entity / control reference */
#define GOOD(O, m, keep) (SAFE_CH((O)[0], keep) && ((O)[0] != '&' || ENT_AT(O, m)))
/* the well-formed hexadecimal character reference  & # x hexdigit+ ;  stands at D[s .. s+r) (ghost g_gs: its digits), and j lies inside */
#define HEXREF(D, N, s, r, j) ( 0 <= (s) && (r) >= 5 && (s) <= (j) && (j) - (s) < (r) && (r) <= (N) - (s) \
  && (D)[s] == '&' && (D)[(s) + 1] == '#' && (D)[(s) + 2] == 'x' && (D)[(s) + (r) - 1] == ';' \
  && (!((s) + 3 <= g_gs && g_gs < (s) + (r) - 1) || VF_ISXD((D)[g_gs])) )

/* facts about the consumed input g_gi (I = number of consumed input characters; o = the output string) */
#define XML_NEXT(I, o) ((g_gi + 1 < (I)) ? g_i_next : (o)->len)
#define XML_GI_CONST(D, N, keep, cws) ( !(0 <= g_gi && g_gi < (N)) || (g_c == (D)[g_gi] && g_kind == ENC_KIND(g_c, keep, cws) && g_elen == ENC_LEN(g_kind)) )
#define XML_IN_FACT(D, N, o, I, keep, cws) ( !(0 <= g_gi && g_gi < (I)) || ( \
     g_n0 <= g_i_pos && g_i_pos <= (o)->len && (g_gi != 0 || g_i_pos == g_n0) && XML_NEXT(I, o) <= (o)->len \
  && (g_i_raw ? (XML_NEXT(I, o) == g_i_pos + 1 && HEXREF(D, N, g_i_start, g_i_rlen, g_gi) && ((o)->wpos != g_i_pos || (o)->w[0] == g_c)) \
              : (XML_NEXT(I, o) == g_i_pos + g_elen && ((o)->wpos != g_i_pos || CHUNK_OK((o)->w, g_c, g_kind)))) ))
/* facts about the output position wpos */
#define XML_OUT_FACT(D, N, o, keep) ( ((o)->wpos < (o)->len || !g_o_raw) && ( !(g_n0 <= (o)->wpos && (o)->wpos < (o)->len) || \
   (g_o_raw ? (HEXREF(D, N, g_o_start, g_o_rlen, g_o_src) && (o)->w[0] == (D)[g_o_src]) \
            : GOOD((o)->w, (o)->len - (o)->wpos, keep)) ))
/* ... and what follows from them when the digit ghost sits on the copied character: the pass-through copies only & # x hexdigits ; */
#define XML_WRITTEN(o) (g_n0 <= (o)->wpos && (o)->wpos < (o)->len)
#define XML_SAFE_FACT(o, keep) ( !XML_WRITTEN(o) || (g_o_raw && g_gs != g_o_src) || SAFE_CH((o)->w[0], keep) )
#define XML_AMP_FACT(o) ( !XML_WRITTEN(o) || (o)->w[0] != '&' || (g_o_raw ? (g_gs != g_o_src || g_o_src == g_o_start) : ENT_AT((o)->w, (o)->len - (o)->wpos)) )
#define XML_FRAME_FACT(o) ( !((o)->wpos < g_n0) || (o)->w[0] == g_o_old )

/* ---- result of hexCharRefLength(str, i): 0, or the length of a well-formed "&#x<hexdigits>;"-shaped tail at i
        (the three characters at i are tested by the caller) ---- */
#define HCL_FUNCTIONAL(D, N, i, r) ( (r) == 0 || ((r) >= 5 && (r) <= (N) - (i) && (D)[(i) + (r) - 1] == ';' \
                                     && (!((i) + 3 <= g_gs && g_gs < (i) + (r) - 1) || VF_ISXD((D)[g_gs]))) )

/* ---- ghost hooks spliced into the cut body (assign ghost variables only) ---------------------------- */
#define XML_FN_BEGIN { g_enc_calls += 1; g_enc_src = XS_ID(str); g_enc_dst = XS_ID(outString); g_enc_keep = keepQuotes; \
                       g_n0 = outString->len; g_o_old = outString->w[0]; g_o_raw = 0; g_i_raw = 0; g_hl_valid = 0; \
                       g_c = (0 <= g_gi && g_gi < str->len) ? str->data[g_gi] : 0; g_kind = ENC_KIND(g_c, keepQuotes, condenseWhiteSpace); g_elen = ENC_LEN(g_kind); }
#define XML_OUTER_BEGIN { if (i == g_gi) { g_i_pos = outString->len; g_i_raw = 0; } if (i == g_gi + 1) g_i_next = outString->len; }

/* ---- loop contracts (spliced between the loop headers and their bodies) ------------------------------ */
#define XML_W6L(o) (o)->w[0], (o)->w[1], (o)->w[2], (o)->w[3], (o)->w[4], (o)->w[5]
#define XML_GHOST_ASSIGNS g_i_pos, g_i_raw, g_i_start, g_i_rlen, g_i_next, g_o_raw, g_o_src, g_o_start, g_o_rlen, g_hl_valid, g_hl_i, g_hl_r
#define XML_INV_COMMON ( 0 <= i && i <= str->len && g_n0 <= outString->len && outString->len <= g_n0 + 6 * i \
  && XML_GI_CONST(str->data, str->len, keepQuotes, condenseWhiteSpace) \
  && XML_IN_FACT(str->data, str->len, outString, i, keepQuotes, condenseWhiteSpace) \
  && XML_OUT_FACT(str->data, str->len, outString, keepQuotes) \
  && XML_FRAME_FACT(outString) )
#define XML_OUTER_CONTRACT \
  __CPROVER_assigns(i, outString->len, XML_W6L(outString), XML_GHOST_ASSIGNS) \
  __CPROVER_loop_invariant(XML_INV_COMMON) \
  __CPROVER_decreases(str->len - i)
/* a tree that still has an inner copying loop in the pass-through branch: the same invariant must survive it */
#define XML_INNER_CONTRACT \
  __CPROVER_assigns(i, outString->len, XML_W6L(outString), XML_GHOST_ASSIGNS) \
  __CPROVER_loop_invariant(XML_INV_COMMON) \
  __CPROVER_decreases(str->len - i)
#define HCL_LOOP_CONTRACT \
  __CPROVER_assigns(j) \
  __CPROVER_loop_invariant(i + 3 <= j && (j <= len || j == i + 3) && (!(i + 3 <= g_gs && g_gs < j) || VF_ISXD(str->data[g_gs]))) \
  __CPROVER_decreases(len - j)
