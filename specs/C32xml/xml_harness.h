/* Harnesses of the XML-writer part of C32. */
/* vacuity guard (units xml.reach.*): with -DXML_REACH the end of each harness carries an assertion that must FAIL (be reachable) */
#ifdef XML_REACH
#define XML_REACHED __CPROVER_assert(0, "vacuity guard: the end of the harness is reachable");
#else
#define XML_REACHED
#endif
/* ghost indices are universally quantified: havoc them (file-scope objects start at 0 otherwise) */
static void havoc_ghosts(void) {
  g_gi = nondet_int(); g_gs = nondet_int(); g_k = nondet_int();
  g_n0 = nondet_int(); g_o_old = nondet_char(); g_c = nondet_char(); g_kind = nondet_int(); g_elen = nondet_int();
  g_i_pos = nondet_int(); g_i_next = nondet_int(); g_i_start = nondet_int(); g_i_rlen = nondet_int(); g_i_raw = nondet_bool();
  g_o_src = nondet_int(); g_o_start = nondet_int(); g_o_rlen = nondet_int(); g_o_raw = nondet_bool();
  g_enc_calls = nondet_int(); g_enc_keep = nondet_bool(); g_enc_src = nondet_ulong(); g_enc_dst = nondet_ulong(); g_found = nondet_ulong(); g_find_npos = nondet_bool();
  g_hl_valid = nondet_bool(); g_hl_i = nondet_int(); g_hl_r = nondet_int();
  g_f_calls = 0;
  condenseWhiteSpace = nondet_bool();
}
#ifdef HAVE_hexCharRefLength
void h_hexCharRefLength(void) { const struct XStr* s; int i = nondet_int(); havoc_ghosts(); hexCharRefLength(s, i); XML_REACHED }
#endif
void h_EncodeString(void) { const struct XStr* s; struct XStr* o; bool keep = nondet_bool(); havoc_ghosts(); TiXmlBase_EncodeString(s, o, keep); XML_REACHED }
void h_AttributePrint(void) {
  const struct XStr* name; const struct XStr* value; FILE* f; int depth = nondet_int(); struct XStr* str; struct XStr* n; struct XStr* v;
  havoc_ghosts(); g_enc_calls = 0;
  TiXmlAttribute_Print(name, value, f, depth, str, n, v);
  XML_REACHED
}

/* ---- bounded companion (refutation aid): a concrete small input buffer, loops unwound, the real hexCharRefLength,
        the same postconditions as assertions ---- */
#ifndef XML_BOUND
#define XML_BOUND 6
#endif
#ifdef XML_BOUNDED_HARNESS
void h_EncodeString_bounded(void) {
  char in[XML_BOUND + 1];
  struct XStr s, o; int len = nondet_int(); int olen = nondet_int(); bool keep = nondet_bool();
  __CPROVER_assume(0 <= len && len <= XML_BOUND && 0 <= olen && olen <= 3);
  in[len] = 0;
  s.data = in; s.len = len;
  o.data = 0; o.len = olen; o.wpos = nondet_int();
  __CPROVER_assume(0 <= o.wpos && o.wpos <= 6 * XML_BOUND + 8);
  havoc_ghosts();
  __CPROVER_assume(XML_GHOSTS_WF);
  char old_w0 = o.w[0];
  int calls0 = g_enc_calls;
  TiXmlBase_EncodeString(&s, &o, keep);
  __CPROVER_assert(g_enc_calls == calls0 + 1 && g_enc_src == XS_ID(&s) && g_enc_dst == XS_ID(&o) && g_enc_keep == keep, "bounded EncodeString 1: call record");
  __CPROVER_assert(g_n0 == olen && olen <= o.len && o.len <= olen + 6 * len, "bounded EncodeString 2: appends at most six characters per input character");
  __CPROVER_assert(!(o.wpos < olen) || o.w[0] == old_w0, "bounded EncodeString 3: earlier output unchanged");
  __CPROVER_assert(XML_GI_CONST(in, len, keep, condenseWhiteSpace) && XML_IN_FACT(in, len, &o, len, keep, condenseWhiteSpace), "bounded EncodeString 4: output is the concatenation of enc(c_i)");
  __CPROVER_assert(!(0 <= g_gi && g_gi == len - 1) || XML_NEXT(len, &o) == o.len, "bounded EncodeString 4: the last encoding ends at the end of the output");
  __CPROVER_assert(XML_OUT_FACT(in, len, &o, keep), "bounded EncodeString 5: written by an escaping branch or copied from a well-formed hexadecimal reference");
  __CPROVER_assert(XML_SAFE_FACT(&o, keep), "bounded EncodeString 6: no raw < > in the output, no raw quote unless keepQuotes");
  __CPROVER_assert(XML_AMP_FACT(&o), "bounded EncodeString 7: every & starts an entity, a control reference or a copied well-formed hexadecimal reference");
}
#endif

/* ---- reachability behind the preconditions ---- */
#ifdef XML_COVER
void h_xml_cover(void) {
  char in[4]; struct XStr s, o; bool keep = nondet_bool();
  in[3] = 0; s.data = in; s.len = 3; o.data = 0; o.len = 0; o.wpos = 2;
  havoc_ghosts(); __CPROVER_assume(XML_GHOSTS_WF);
  TiXmlBase_EncodeString(&s, &o, keep);
  __CPROVER_cover(o.len == 3);              /* three plain characters */
  __CPROVER_cover(o.len == 18);             /* three six-character encodings */
  __CPROVER_cover(o.len > 2 && o.w[0] == ';');
}
#endif
