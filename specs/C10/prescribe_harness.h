/* Harnesses + ghost definitions for prescribeQ / prescribeU. */
int gk, gk_kind, gk_pos, g_nv;
int nondet_int(void);
static void havoc_ghosts(void) { gk = nondet_int(); gk_kind = nondet_int(); gk_pos = nondet_int(); g_nv = nondet_int(); }
void h_prescribeQ(void) { const struct Rep* self; struct State* s; havoc_ghosts(); Rep_prescribeQ(self, s); }
void h_prescribeU(void) { const struct Rep* self; struct State* s; havoc_ghosts(); Rep_prescribeU(self, s); }
/* the cut getTotalNum* accessors return the list sizes */
void h_counts(void) {
  struct SBInstanceCache ic;
  __CPROVER_assert(getTotalNumPresQ(&ic) == ic.presQ.n && getTotalNumZeroQ(&ic) == ic.zeroQ.n, "getTotalNumPresQ/ZeroQ == list sizes");
  __CPROVER_assert(getTotalNumPresU(&ic) == ic.presU.n && getTotalNumZeroU(&ic) == ic.zeroU.n, "getTotalNumPresU/ZeroU == list sizes");
}
/* reachability behind the preconditions */
void h_cover(void) {
  int npq, nzq; havoc_ghosts();
  __CPROVER_assume(0 < g_nv && g_nv < 1000000 && 0 <= gk && gk < g_nv && 0 <= npq && 0 <= nzq);
  __CPROVER_assume(gk_kind == K_FREE || gk_kind == K_PRES || gk_kind == K_ZERO);
  __CPROVER_assume(gk_kind == K_PRES ==> (0 <= gk_pos && gk_pos < npq));
  __CPROVER_assume(gk_kind == K_ZERO ==> (0 <= gk_pos && gk_pos < nzq));
  if (gk_kind == K_PRES && gk_pos > 0 && nzq > 0) __CPROVER_cover(1);
  if (gk_kind == K_ZERO && npq > 1) __CPROVER_cover(1);
  if (gk_kind == K_FREE && npq > 0 && nzq > 0) __CPROVER_cover(1);
  if (npq == 0 && nzq == 0) __CPROVER_cover(1);
}
