/* Contracts for prescribeQ / prescribeU (C10 first clause + frame). */
#define WF_VEC(v, len)  ((v).n == (len) && __CPROVER_is_fresh((v).data, sizeof(Real) * (unsigned long)((len) + 1)))
#define WF_LIST(l, k)   ((l).n >= 0 && (l).n < 1000000 && (l).kind == (k) && __CPROVER_is_fresh((l).data, sizeof(int) * (unsigned long)((l).n + 1)))

#define PRESCRIBE_CONTRACT(FN, V, PRES, ZERO, POOLOWNER, POOL, INVAL, OTHERINVAL)                                                        \
bool FN(const struct Rep* self, struct State* s)                                                                                        \
__CPROVER_requires(__CPROVER_is_fresh(self, sizeof(*self)) && __CPROVER_is_fresh(s, sizeof(*s)))                                        \
__CPROVER_requires(__CPROVER_is_fresh(s->mc, sizeof(struct SBModelCache)) && __CPROVER_is_fresh(s->ic, sizeof(struct SBInstanceCache))) \
__CPROVER_requires(__CPROVER_is_fresh(s->tc, sizeof(struct SBTimeCache)) && __CPROVER_is_fresh(s->cpc, sizeof(struct SBConstrainedPositionCache))) \
__CPROVER_requires(0 < g_nv && g_nv < 1000000 && WF_VEC(s->V, g_nv))                                                                    \
__CPROVER_requires(WF_LIST(s->ic->PRES, K_PRES) && WF_LIST(s->ic->ZERO, K_ZERO))                                                        \
/* the pool has one slot per prescribed coordinate (SB*Cache::allocate) */                                                             \
__CPROVER_requires(WF_VEC(s->POOLOWNER->POOL, s->ic->PRES.n))                                                                            \
/* ghost coordinate and its classification */                                                                                          \
__CPROVER_requires(0 <= gk && gk < g_nv && (gk_kind == K_FREE || gk_kind == K_PRES || gk_kind == K_ZERO))                               \
__CPROVER_requires(gk_kind == K_PRES ==> (0 <= gk_pos && gk_pos < s->ic->PRES.n && s->ic->PRES.data[gk_pos] == gk))                     \
__CPROVER_requires(gk_kind == K_ZERO ==> (0 <= gk_pos && gk_pos < s->ic->ZERO.n && s->ic->ZERO.data[gk_pos] == gk))                     \
/* type invariant: no NaN among the values involved for the ghost coordinate */                                                          \
__CPROVER_requires(!__CPROVER_isnand(s->V.data[gk]) && (gk_kind == K_PRES ==> !__CPROVER_isnand(s->POOLOWNER->POOL.data[gk_pos])))            \
__CPROVER_requires(!s->INVAL && !s->OTHERINVAL)                                                                                         \
__CPROVER_assigns(s->INVAL, __CPROVER_object_whole(s->V.data))                                                                          \
/* 1: returns false iff there is nothing prescribed or known-zero ... */                                                               \
__CPROVER_ensures(__CPROVER_return_value == !(s->ic->PRES.n == 0 && s->ic->ZERO.n == 0))                                                \
/* 2: ... and then nothing is invalidated */                                                                                           \
__CPROVER_ensures(s->INVAL == __CPROVER_return_value)                                                                                   \
/* 3: prescribed coordinate takes EXACTLY its prescribed value (same value, same sign of zero; values are non-NaN) */                                                        \
__CPROVER_ensures(gk_kind == K_PRES ==> SAME(s->V.data[gk], s->POOLOWNER->POOL.data[gk_pos < s->ic->PRES.n ? gk_pos : 0]))       \
/* 4: known-zero coordinate is +0.0 */                                                                                                 \
__CPROVER_ensures(gk_kind == K_ZERO ==> PZERO(s->V.data[gk]))                                                                       \
/* 5: frame: every other coordinate keeps its bit pattern */                                                                           \
__CPROVER_ensures(gk_kind == K_FREE ==> SAME(s->V.data[gk], __CPROVER_old(s->V.data[gk])))

PRESCRIBE_CONTRACT(Rep_prescribeQ, q, presQ, zeroQ, tc, presQPool, ghost_q_invalidated, ghost_u_invalidated);
PRESCRIBE_CONTRACT(Rep_prescribeU, u, presU, zeroU, cpc, presUPool, ghost_u_invalidated, ghost_q_invalidated);
