/* C10, first clause: "coordinates / speeds governed by prescribed Motion objects or locks take
   EXACTLY their prescribed values after the prescribe step" for the two solvers that copy them
   into the State: SimbodyMatterSubsystemRep::prescribeQ / prescribeU (SimbodyMatterSubsystemRep.cpp),
   plus SBInstanceCache::getTotalNumPresQ/ZeroQ/PresU/ZeroU (SimbodyTreeState.h).

   Containers by contract (assumed): Vector / Array_<Real> element access is bounds-checked raw
   storage; Array_<QIndex>/Array_<UIndex> index lists are IN RANGE, DUPLICATE-FREE and MUTUALLY
   DISJOINT (established where SBInstanceCache is built; assumed here). Quantifier-free encoding:
   one arbitrary coordinate gk of q (ghost, universally quantified through the harness) carries its
   ghost classification gk_kind in {FREE, PRES, ZERO} and, if listed, its position gk_pos in that
   list; the list accessor's contract states, for the element it returns, "if this is gk then this
   list is gk's list and this is gk's position" - the pointwise instance of duplicate-free+disjoint. */
#include <stdbool.h>
#include <stdint.h>
typedef double Real;
enum { K_FREE = 0, K_PRES = 1, K_ZERO = 2 };

struct Vector   { Real* data; int n; };                 /* Vector, Array_<Real> */
struct IdxList  { const int* data; int n; int kind; };   /* Array_<QIndex>/Array_<UIndex>; kind: ghost tag K_PRES/K_ZERO */
struct SBModelCache { int opaque; };
struct SBInstanceCache { struct IdxList presQ, zeroQ, presU, zeroU; };
struct SBTimeCache { struct Vector presQPool; };
struct SBConstrainedPositionCache { struct Vector presUPool; };
struct State {
  struct Vector q, u;
  const struct SBModelCache* mc; const struct SBInstanceCache* ic; const struct SBTimeCache* tc; const struct SBConstrainedPositionCache* cpc;
  bool ghost_q_invalidated, ghost_u_invalidated;   /* updQ()/updU() called: stage invalidated */
};
struct Rep { int opaque; };

/* ghosts */
extern int gk, gk_kind, gk_pos;
/* bit-exact equality of two non-NaN doubles: equal and same sign (distinguishes +0.0 / -0.0) */
#define SAME(a, b) ((a) == (b) && __CPROVER_signd(a) == __CPROVER_signd(b))
#define PZERO(a)   ((a) == 0.0 && !__CPROVER_signd(a))

/* ---- cache / state access (assumed) ---- */
static const struct SBModelCache* getModelCache(const struct Rep* self, const struct State* s) { return s->mc; }
static const struct SBInstanceCache* getInstanceCache(const struct Rep* self, const struct State* s) { return s->ic; }
static const struct SBTimeCache* getTimeCache(const struct Rep* self, const struct State* s) { return s->tc; }
static const struct SBConstrainedPositionCache* getConstrainedPositionCache(const struct Rep* self, const struct State* s) { return s->cpc; }
static struct Vector* updQ(const struct Rep* self, struct State* s) { s->ghost_q_invalidated = 1; return &s->q; }
static struct Vector* updU(const struct Rep* self, struct State* s) { s->ghost_u_invalidated = 1; return &s->u; }

/* ---- containers ---- */
static int idx_size(const struct IdxList* l) { return l->n; }
static Real* vec_upd(struct Vector* v, int k) {
  __CPROVER_assert(0 <= k && k < v->n, "Vector::operator[] index in range");
  return &v->data[k];
}
static Real vec_get(const struct Vector* v, int k) {
  __CPROVER_assert(0 <= k && k < v->n, "Array_<Real>::operator[] index in range");
  return v->data[k];
}
/* element i of an index list into a vector of length nv: in range; and, for the ghost coordinate gk,
   the pointwise instance of "lists are duplicate-free and mutually disjoint" */
extern int g_nv;
int idx_at(const struct IdxList* l, int i)
__CPROVER_requires(__CPROVER_r_ok(l, sizeof(*l)) && 0 <= i && i < l->n)
__CPROVER_assigns()
__CPROVER_ensures(__CPROVER_return_value == l->data[i])
__CPROVER_ensures(0 <= __CPROVER_return_value && __CPROVER_return_value < g_nv)
__CPROVER_ensures(__CPROVER_return_value == gk ==> (gk_kind == l->kind && gk_pos == i))
;
