/* C18: contracts on the functions cut from StateImpl.h / State.cpp (route M2).
   The structs (cut data-member declarations) are generated above this include.

   Abstract view (DESIGN C18): per subsystem (currentStage, stageVersions[0..10]); system
   (currentSystemStage, systemStageVersions[], q/u/zVersion); per cache entry (dependsOn,
   computedBy, versionWhenComputed, upToDateWithPrerequisites, valueVersion).
   Quantification over stages / subsystems / cache entries is by GHOST INDICES (arbitrary,
   constrained only to be in range), not by __CPROVER_forall (SAT ignores quantifiers).

   Every postcondition below is taken from the statement of property C18 and the documented
   model (State.h / StateImpl.h class comments), not from the function bodies.            */

extern int ghost_j;            /* an arbitrary stage index 0..10                      */
extern int ghost_k;            /* an arbitrary subsystem index 0..subsystems_size-1   */
extern int ghost_c;            /* an arbitrary cache entry index of a subsystem       */
extern int ghost_d;            /* an arbitrary discrete variable index of a subsystem */
int ghost_threw;

#define MINI(a, b) ((a) < (b) ? (a) : (b))
#define GHOST_J_OK (0 <= ghost_j && ghost_j < Stage_NValid)

/* ---------------- well-formedness (type invariants + the overflow assumption) ---------------- */
static inline bool vers_ok(const StageVersion* v) {
  bool ok = true;
  for (int i = 0; i < Stage_NValid; i++) ok = ok && VER_OK(v[i]);
  return ok;
}
/* a subsystem's stage is a legal stage, every stage version is >= 1 ("0 is never used") and
   < 2^62 (ASSUMPTION: fewer than 2^62 invalidations) */
#define SUB_WF(s) (STAGE_OK((s)->currentStage) && vers_ok((s)->stageVersions))
/* the same without a function call (loop invariants must be side-effect free) */
_Static_assert(Stage_NValid == 11, "VERS_OK_ALL enumerates 11 stages");
#define VERS_OK_ALL(v) (VER_OK((v)[0]) && VER_OK((v)[1]) && VER_OK((v)[2]) && VER_OK((v)[3]) && VER_OK((v)[4]) && VER_OK((v)[5]) && \
                        VER_OK((v)[6]) && VER_OK((v)[7]) && VER_OK((v)[8]) && VER_OK((v)[9]) && VER_OK((v)[10]))
#define SUB_WF_NOCALL(s) (STAGE_OK((s)->currentStage) && VERS_OK_ALL((s)->stageVersions))

/* cache entry type invariant: StateImpl::allocateCacheEntry's range checks + isReasonable() */
#define CE_WF(ce) (Stage_Topology <= (ce)->m_allocationStage && (ce)->m_allocationStage <= Stage_Instance && \
                   Stage_Topology <= (ce)->m_dependsOnStage && (ce)->m_dependsOnStage <= Stage_Report && \
                   (ce)->m_dependsOnStage <= (ce)->m_computedByStage && (ce)->m_computedByStage <= Stage_Infinity)
#define CE_VV_OK(ce) (1 <= (ce)->m_valueVersion && (ce)->m_valueVersion < VER_MAX)   /* overflow assumption */

/* discrete variable type invariant: StateImpl::allocateDiscreteVariable's range check */
#define DV_WF(dv) (Stage_Topology <= (dv)->m_invalidatedStage && (dv)->m_invalidatedStage <= Stage_Report && \
                   1 <= (dv)->m_valueVersion && (dv)->m_valueVersion < VER_MAX)

/* ---------------- Lemma L-valid: the validity invariant ----------------
   For a cache entry ce owned by subsystem ss, with d = ce.dependsOn, stamp = ce.versionWhenComputed:
     (1) 0 <= stamp <= ss.ver[d]
     (2) ss.stage < d  ==>  stamp < ss.ver[d]        (below its depends-on stage the stamp is already dead)
     (3) stamp == ss.ver[d]  ==>  ce.g_fresh         (history: marked valid after the last change of stage d)
   g_fresh is GHOST history state, updated by the model only:  markAsUpToDate sets it; every invalidation
   of a stage <= d (restoreToStage(g), g < d), and CacheEntryInfo::invalidate, clear it.            */
#define CE_STAMP(ce) ((ce)->m_dependsOnVersionWhenLastComputed)
#define CE_VD(ss, ce) ((ss)->stageVersions[(ce)->m_dependsOnStage])
#define CE_INV1(ss, ce) (0 <= CE_STAMP(ce) && CE_STAMP(ce) <= CE_VD(ss, ce))
#define CE_INV2(ss, ce) ((ss)->currentStage < (ce)->m_dependsOnStage ==> CE_STAMP(ce) < CE_VD(ss, ce))
#define CE_INV3(ss, ce) (CE_STAMP(ce) == CE_VD(ss, ce) ==> (ce)->g_fresh)
#define CE_INV(ss, ce) (CE_WF(ce) && CE_INV1(ss, ce) && CE_INV2(ss, ce) && CE_INV3(ss, ce))
/* the same, as three separately named postconditions */
#define ENSURES_CE_INV(guard, ss, ce) \
  __CPROVER_ensures((guard) ==> CE_INV1(ss, ce)) \
  __CPROVER_ensures((guard) ==> CE_INV2(ss, ce)) \
  __CPROVER_ensures((guard) ==> CE_INV3(ss, ce))

/* memberwise equality of the scalar view of two cache entries */
#define CE_EQ(a, b) ((a)->m_myKey_first == (b)->m_myKey_first && (a)->m_myKey_second == (b)->m_myKey_second && \
   (a)->m_allocationStage == (b)->m_allocationStage && (a)->m_dependsOnStage == (b)->m_dependsOnStage && \
   (a)->m_computedByStage == (b)->m_computedByStage && (a)->m_valueVersion == (b)->m_valueVersion && \
   CE_STAMP(a) == CE_STAMP(b) && (a)->m_isUpToDateWithPrerequisites == (b)->m_isUpToDateWithPrerequisites && \
   (a)->g_fresh == (b)->g_fresh)

/* =====================================================================================
   ASSUMED contracts on dependencies (container / payload code, not in the view; listed in
   the evidence under `assumptions`)
   ===================================================================================== */
/* Array_<T> element access `a[i]` -> vf_a_at(owner, i): bounds-checked against the ghost length; the element
   at the ghost index is the GHOST element object, any other index yields some OTHER (separate) element
   that satisfies the type invariant and the overflow assumption (SUB_WF). Because the ghost index is
   arbitrary, what is proved about the ghost element holds for every element. */
struct PerSubsystemInfo* vf_subsystems_at(const struct StateImpl* self, int i)
__CPROVER_requires(0 <= i && i < self->subsystems_size)
__CPROVER_assigns()
__CPROVER_ensures(i == ghost_k ==> __CPROVER_return_value == self->g_sub)
__CPROVER_ensures(i != ghost_k ==> (__CPROVER_is_fresh(__CPROVER_return_value, sizeof(struct PerSubsystemInfo)) && SUB_WF(__CPROVER_return_value)
                                   && 0 <= __CPROVER_return_value->cacheInfo_size && 0 <= __CPROVER_return_value->discreteInfo_size));
struct CacheEntryInfo* vf_cacheInfo_at(const struct PerSubsystemInfo* self, int i)
__CPROVER_requires(0 <= i && i < self->cacheInfo_size)
__CPROVER_assigns()
__CPROVER_ensures(i == ghost_c ==> __CPROVER_return_value == self->g_ce)
__CPROVER_ensures(i != ghost_c ==> (__CPROVER_is_fresh(__CPROVER_return_value, sizeof(struct CacheEntryInfo)) && CE_WF(__CPROVER_return_value)));
struct DiscreteVarInfo* vf_discreteInfo_at(const struct PerSubsystemInfo* self, int i)
__CPROVER_requires(0 <= i && i < self->discreteInfo_size)
__CPROVER_assigns()
__CPROVER_ensures(i == ghost_d ==> __CPROVER_return_value == self->g_dv)
__CPROVER_ensures(i != ghost_d ==> (__CPROVER_is_fresh(__CPROVER_return_value, sizeof(struct DiscreteVarInfo)) && DV_WF(__CPROVER_return_value)));

/* views into the global pools: payload only */
void clearReferencesToInstanceStageGlobals(struct PerSubsystemInfo* self) __CPROVER_requires(1) __CPROVER_assigns() __CPROVER_ensures(1);
void clearReferencesToModelStageGlobals(struct PerSubsystemInfo* self) __CPROVER_requires(1) __CPROVER_assigns() __CPROVER_ensures(1);
/* allocation stacks (Array_ code): popping only removes entries from the end, never edits survivors */
void popAllStacksBackToStage(struct PerSubsystemInfo* self, Stage g)
__CPROVER_assigns(self->cacheInfo_size, self->discreteInfo_size)
__CPROVER_ensures(0 <= self->cacheInfo_size && self->cacheInfo_size <= __CPROVER_old(self->cacheInfo_size))
__CPROVER_ensures(0 <= self->discreteInfo_size && self->discreteInfo_size <= __CPROVER_old(self->discreteInfo_size));
void clearAllStacks(struct PerSubsystemInfo* self)
__CPROVER_assigns(self->cacheInfo_size, self->discreteInfo_size)
__CPROVER_ensures(self->cacheInfo_size == 0 && self->discreteInfo_size == 0);
/* copyAllocationStackThroughStage + CacheEntryInfo::deepAssign (`*this = src`, memberwise, dependents reset):
   the destination stack becomes a prefix of the source stack; entry ghost_c, if it survives, is a
   memberwise copy (INCLUDING the recorded depends-on version stamp) */
void copyAllStacksThroughStage(struct PerSubsystemInfo* self, const struct PerSubsystemInfo* src, Stage g)
__CPROVER_assigns(self->cacheInfo_size, self->discreteInfo_size, *self->g_ce)
__CPROVER_ensures(0 <= self->cacheInfo_size && self->cacheInfo_size <= src->cacheInfo_size)
__CPROVER_ensures(0 <= self->discreteInfo_size && self->discreteInfo_size <= src->discreteInfo_size)
__CPROVER_ensures((0 <= ghost_c && ghost_c < self->cacheInfo_size) ==> CE_EQ(self->g_ce, src->g_ce));
/* prerequisite notification path (ListOfDependents is container code): it only calls
   CacheEntryInfo::invalidate() on OTHER registered entries (each such call preserves L-valid, see
   ce.invalidate); it does not touch stages, stage versions or the notifying entry */
void ListOfDependents_notePrerequisiteChange(const struct ListOfDependents* self, const struct StateImpl* stateImpl) __CPROVER_requires(1) __CPROVER_assigns() __CPROVER_ensures(1);
void validatePrerequisiteVersions(const struct StateImpl* stateImpl) __CPROVER_requires(1) __CPROVER_assigns() __CPROVER_ensures(1);
void recordPrerequisiteVersions(const struct StateImpl* stateImpl) __CPROVER_requires(1) __CPROVER_assigns() __CPROVER_ensures(1);

/* =====================================================================================
   PerSubsystemInfo
   ===================================================================================== */
#define SUB_FRESH(self) __CPROVER_is_fresh(self, sizeof(struct PerSubsystemInfo))
#define SUB_VERS(self)  __CPROVER_object_upto((self)->stageVersions, sizeof((self)->stageVersions))

/* initialize(): "reset an existing State into its just-constructed condition": stage Empty, every
   stage version 1 ("never 0"), all allocations forgotten */
void initialize(struct PerSubsystemInfo* self)
__CPROVER_requires(SUB_FRESH(self) && GHOST_J_OK)
__CPROVER_assigns(self->currentStage, SUB_VERS(self), self->cacheInfo_size, self->discreteInfo_size)
__CPROVER_ensures(self->currentStage == Stage_Empty)
__CPROVER_ensures(self->stageVersions[ghost_j] == 1)
__CPROVER_ensures(self->cacheInfo_size == 0 && self->discreteInfo_size == 0);

/* restoreToStage(g): "invalidate all stages > g":
     stage' == min(stage, g);
     g != Empty: version of stage i bumped by exactly 1 iff g < i <= stage (exactly the invalidated stages), others unchanged;
     g == Empty (from a non-empty subsystem): just-constructed condition (versions 1, no allocations);
     nothing else in the view changes (assigns clause = frame). */
void restoreToStage(struct PerSubsystemInfo* self, Stage g)
__CPROVER_requires(SUB_FRESH(self) && SUB_WF(self) && STAGE_OK(g) && GHOST_J_OK)
__CPROVER_requires(0 <= self->cacheInfo_size && 0 <= self->discreteInfo_size)
__CPROVER_assigns(self->currentStage, SUB_VERS(self), self->cacheInfo_size, self->discreteInfo_size)
__CPROVER_ensures(self->currentStage == MINI(__CPROVER_old(self->currentStage), g))
__CPROVER_ensures((g != Stage_Empty || __CPROVER_old(self->currentStage) == Stage_Empty) ==>
   self->stageVersions[ghost_j] == __CPROVER_old(self->stageVersions[ghost_j]) + ((g < ghost_j && ghost_j <= __CPROVER_old(self->currentStage)) ? 1 : 0))
__CPROVER_ensures((g == Stage_Empty && __CPROVER_old(self->currentStage) > Stage_Empty) ==>
   (self->stageVersions[ghost_j] == 1 && self->cacheInfo_size == 0 && self->discreteInfo_size == 0))
__CPROVER_ensures(0 <= self->cacheInfo_size && self->cacheInfo_size <= __CPROVER_old(self->cacheInfo_size))
__CPROVER_ensures(0 <= self->discreteInfo_size && self->discreteInfo_size <= __CPROVER_old(self->discreteInfo_size));

/* invalidateStageJustThisSubsystem(g), g > Empty: the property's first sentence for one subsystem:
     stage' == min(stage, g-1); exactly the versions of the invalidated stages g..stage are bumped. */
void invalidateStageJustThisSubsystem(struct PerSubsystemInfo* self, Stage g)
__CPROVER_requires(SUB_FRESH(self) && SUB_WF(self) && STAGE_OK(g) && g > Stage_Empty && GHOST_J_OK)
__CPROVER_requires(0 <= self->cacheInfo_size && 0 <= self->discreteInfo_size)
__CPROVER_assigns(self->currentStage, SUB_VERS(self), self->cacheInfo_size, self->discreteInfo_size)
__CPROVER_ensures(self->currentStage == MINI(__CPROVER_old(self->currentStage), g - 1))
__CPROVER_ensures((g > Stage_Topology || __CPROVER_old(self->currentStage) == Stage_Empty) ==>
   self->stageVersions[ghost_j] == __CPROVER_old(self->stageVersions[ghost_j]) + ((g <= ghost_j && ghost_j <= __CPROVER_old(self->currentStage)) ? 1 : 0))
__CPROVER_ensures((g == Stage_Topology && __CPROVER_old(self->currentStage) > Stage_Empty) ==>
   (self->stageVersions[ghost_j] == 1 && self->cacheInfo_size == 0 && self->discreteInfo_size == 0))
__CPROVER_ensures(0 <= self->cacheInfo_size && self->cacheInfo_size <= __CPROVER_old(self->cacheInfo_size))
__CPROVER_ensures(0 <= self->discreteInfo_size && self->discreteInfo_size <= __CPROVER_old(self->discreteInfo_size));

/* advanceToStage(g): from g-1 to g; "validates whatever the current version number is of stage g":
   no version changes (frame: only currentStage is assignable) */
void advanceToStage(struct PerSubsystemInfo* self, Stage g)
__CPROVER_requires(SUB_FRESH(self) && STAGE_OK(g) && g > Stage_Empty && self->currentStage == g - 1)
__CPROVER_assigns(self->currentStage)
__CPROVER_ensures(self->currentStage == g);

/* PerSubsystemInfo::copyFrom: contract stated and checked in the plain world (state_harness.h: h_sub_copyFrom) */

/* =====================================================================================
   StateImpl container accessors (real bodies are cut; these are their contracts)
   ===================================================================================== */
struct PerSubsystemInfo* StateImpl_getSubsystem(const struct StateImpl* self, int subx)
__CPROVER_requires(__CPROVER_is_fresh(self, sizeof(*self)) && 0 <= subx && subx < self->subsystems_size)
__CPROVER_assigns()
__CPROVER_ensures(subx == ghost_k ==> __CPROVER_return_value == self->g_sub);

/* =====================================================================================
   CacheEntryInfo
   ===================================================================================== */
/* a state in which cache entry (ghost_k, ghost_c) exists and knows its own location.
   NOTE (CBMC): never constrain a pointer PARAMETER by an assumed equality with a stored pointer and then
   dereference it (value sets are not refined by assumptions); objects are introduced by is_fresh on the
   very lvalue that is later dereferenced. CE_AT_SELF: for the real member functions (self is dereferenced,
   the stored element pointer is only compared). CE_AT_ST: for the lemma wrappers (entry reached through st). */
#define ST_SUB(st) (__CPROVER_is_fresh(st, sizeof(struct StateImpl)) && 0 <= ghost_k && ghost_k < (st)->subsystems_size && \
   __CPROVER_is_fresh((st)->g_sub, sizeof(struct PerSubsystemInfo)) && 0 <= ghost_c && ghost_c < (st)->g_sub->cacheInfo_size)
#define CE_KEY_OK(ce) ((ce)->m_myKey_first == ghost_k && (ce)->m_myKey_second == ghost_c)
#define CE_AT_SELF(st, self) (__CPROVER_is_fresh(self, sizeof(struct CacheEntryInfo)) && ST_SUB(st) && (st)->g_sub->g_ce == (self) && CE_KEY_OK(self))
#define CE_AT_ST(st) (ST_SUB(st) && __CPROVER_is_fresh((st)->g_sub->g_ce, sizeof(struct CacheEntryInfo)) && CE_KEY_OK((st)->g_sub->g_ce))
#define CE(st) ((st)->g_sub->g_ce)
#define OWNER(st) ((st)->g_sub)

/* CacheEntryInfo::isUpToDate / markAsUpToDate / invalidate: contracts stated and checked in the plain world
   (state_harness.h: h_ce_isUpToDate, h_ce_markAsUpToDate, h_ce_invalidate), together with Lemma L-valid. */

/* =====================================================================================
   StateImpl (contracts are stated and checked in the plain world, state_harness.h)
   ===================================================================================== */
#define VV_OK(v) (1 <= (v) && (v) < VER_MAX)     /* value versions: same overflow assumption */
#define SYS_WF(self) (STAGE_OK((self)->currentSystemStage) && vers_ok((self)->systemStageVersions) && \
                      VV_OK((self)->qVersion) && VV_OK((self)->uVersion) && VV_OK((self)->zVersion) && 0 <= (self)->subsystems_size)
#define SAME_REAL(a, b) ((a) == (b) || (__CPROVER_isnand(a) && __CPROVER_isnand(b)))

/* ---- loop contract of the loop over ALL subsystems in invalidateAll / invalidateAllCacheAtOrAbove ----
   (symbolic subsystem count; ghost subsystem index ghost_k; the real `for` is put into base/havoc/step form
   by the extractor, rule loop_to_induction)
   invariant:  0 <= i <= size;
               i <= ghost_k: the ghost subsystem is exactly as at loop entry (and well formed);
               i >  ghost_k: the ghost subsystem has been invalidated as specified for stage g
   assigns:    i, the view of the ghost subsystem (other subsystems are other objects)
   decreases:  size - i                                                                              */
#define SUB_INVALIDATED_REL(n, o, g) ( \
   (n)->currentStage == MINI((o)->currentStage, (g) - 1) && \
   (((g) > Stage_Topology || (o)->currentStage == Stage_Empty) ==> \
       (n)->stageVersions[ghost_j] == (o)->stageVersions[ghost_j] + (((g) <= ghost_j && ghost_j <= (o)->currentStage) ? 1 : 0)) && \
   (((g) == Stage_Topology && (o)->currentStage > Stage_Empty) ==> \
       ((n)->stageVersions[ghost_j] == 1 && (n)->cacheInfo_size == 0 && (n)->discreteInfo_size == 0)) && \
   0 <= (n)->cacheInfo_size && (n)->cacheInfo_size <= (o)->cacheInfo_size && \
   0 <= (n)->discreteInfo_size && (n)->discreteInfo_size <= (o)->discreteInfo_size)
#define SUB_SAME_VIEW(n, o) ((n)->currentStage == (o)->currentStage && (n)->stageVersions[ghost_j] == (o)->stageVersions[ghost_j] && \
   (n)->cacheInfo_size == (o)->cacheInfo_size && (n)->discreteInfo_size == (o)->discreteInfo_size)
#define LOOPINV_INVALIDATE_ALL(self, g, le) ( \
   0 <= i && i <= (self)->subsystems_size && \
   (i <= ghost_k ==> (SUB_WF((self)->g_sub) && 0 <= (self)->g_sub->cacheInfo_size && 0 <= (self)->g_sub->discreteInfo_size && SUB_SAME_VIEW((self)->g_sub, le))) && \
   (i >  ghost_k ==> SUB_INVALIDATED_REL((self)->g_sub, le, g)))

static bool st_same_sys(const struct StateImpl* a, const struct StateImpl* b);
#define VF_LOOP_HEAD_INVALIDATE_ALL(self, g) \
  struct PerSubsystemInfo vf_le = *(self)->g_sub;                      /* loop-entry snapshot */ \
  __CPROVER_assert(LOOPINV_INVALIDATE_ALL(self, g, &vf_le), "invalidateAll.loop_invariant_base"); \
  { struct PerSubsystemInfo vf_any; vf_any.g_ce = vf_le.g_ce; vf_any.g_dv = vf_le.g_dv; *(self)->g_sub = vf_any; int vf_ni; i = vf_ni; }   /* havoc assigns */ \
  __CPROVER_assume(LOOPINV_INVALIDATE_ALL(self, g, &vf_le)); \
  struct StateImpl vf_frame = *(self); int vf_i0 = i;
#define VF_LOOP_STEP_INVALIDATE_ALL(self, g) \
  __CPROVER_assert(LOOPINV_INVALIDATE_ALL(self, g, &vf_le), "invalidateAll.loop_invariant_step"); \
  __CPROVER_assert(st_same_sys(&vf_frame, self), "invalidateAll.loop_frame: the loop body assigns nothing of the system-level view"); \
  __CPROVER_assert(i == vf_i0 + 1, "invalidateAll.loop_decreases: size - i decreases"); \
  __CPROVER_assume(0);
