/* C18 / route M1: extern "C" wrappers around the REAL class SimTK::Stage (its text is cut
   from Stage.h on every run and placed above this include; only getName(), which needs
   SimTK::String, is dropped). Scalars only (dfcc cannot take typed C++ class pointers).
   No method call on a by-value temporary (CBMC C++ front end limitation). */
extern "C" {
int w_stage_prev(int l) { SimTK::Stage s(l); SimTK::Stage r = s.prev(); int x = r; return x; }
int w_stage_next(int l) { SimTK::Stage s(l); SimTK::Stage r = s.next(); int x = r; return x; }
/* op: 0 ==, 1 !=, 2 <, 3 <=, 4 >, 5 >=   (Stage,Stage) overloads */
int w_stage_cmp(int a, int b, int op) {
  SimTK::Stage x(a), y(b); bool r = false;
  if (op==0) r = (x==y); else if (op==1) r = (x!=y); else if (op==2) r = (x<y);
  else if (op==3) r = (x<=y); else if (op==4) r = (x>y); else r = (x>=y);
  return r ? 1 : 0;
}
/* (Stage,Level) overloads: the ones chosen for `g < Stage::Instance` */
int w_stage_cmp_level(int a, int b, int op) {
  SimTK::Stage x(a); SimTK::Stage::Level y = SimTK::Stage::Level(b); bool r = false;
  if (op==0) r = (x==y); else if (op==1) r = (x!=y); else if (op==2) r = (x<y);
  else if (op==3) r = (x<=y); else if (op==4) r = (x>y); else r = (x>=y);
  return r ? 1 : 0;
}
int w_stage_invalidate(int l, int tooHigh) { SimTK::Stage s(l); SimTK::Stage h(tooHigh); s.invalidate(h); int x = s; return x; }
int w_stage_preinc(int l) { SimTK::Stage s(l); ++s; int x = s; return x; }
int w_stage_predec(int l) { SimTK::Stage s(l); --s; int x = s; return x; }
int w_stage_postinc(int l, int* after) { SimTK::Stage s(l); SimTK::Stage r = s++; *after = s; int x = r; return x; }
int w_stage_postdec(int l, int* after) { SimTK::Stage s(l); SimTK::Stage r = s--; *after = s; int x = r; return x; }
int w_stage_default(void) { SimTK::Stage s; int x = s; return x; }
int w_stage_roundtrip(int l) { SimTK::Stage s(l); int x = s; return x; }
int w_stage_runtime(int l) { SimTK::Stage s(l); return s.isInRuntimeRange() ? 1 : 0; }
int w_stage_const(int which) {
  switch (which) {
    case 0: return SimTK::Stage::Empty;        case 1: return SimTK::Stage::Topology;
    case 2: return SimTK::Stage::Model;        case 3: return SimTK::Stage::Instance;
    case 4: return SimTK::Stage::Time;         case 5: return SimTK::Stage::Position;
    case 6: return SimTK::Stage::Velocity;     case 7: return SimTK::Stage::Dynamics;
    case 8: return SimTK::Stage::Acceleration; case 9: return SimTK::Stage::Report;
    case 10: return SimTK::Stage::Infinity;    case 11: return SimTK::Stage::NValid;
    case 12: return SimTK::Stage::LowestValid; case 13: return SimTK::Stage::HighestValid;
  }
  return -1;
}
}
