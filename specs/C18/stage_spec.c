/* C18 / M1 unit: contracts on the wrappers of the real SimTK::Stage class. */
#include "stage_contracts.h"

int w_stage_prev(int l) CONTRACT_STAGE_PREV(l);
int w_stage_next(int l) CONTRACT_STAGE_NEXT(l);

int w_stage_cmp(int a, int b, int op);
int w_stage_cmp_level(int a, int b, int op);
int w_stage_invalidate(int l, int tooHigh);
int w_stage_preinc(int l);
int w_stage_predec(int l);
int w_stage_postinc(int l, int* after);
int w_stage_postdec(int l, int* after);
int w_stage_default(void);
int w_stage_roundtrip(int l);
int w_stage_runtime(int l);
int w_stage_const(int which);

void h_stage_prev(void) { int l; w_stage_prev(l); }
void h_stage_next(void) { int l; w_stage_next(l); }

static int cmp_spec(int a, int b, int op) {
  return op==0 ? a==b : op==1 ? a!=b : op==2 ? a<b : op==3 ? a<=b : op==4 ? a>b : a>=b;
}

/* loop-free, full (finite) domain: a complete proof of every clause below */
void h_stage_algebra(void) {
  int a, b, op;
  __CPROVER_assume(0 <= a && a <= 10 && 0 <= b && b <= 10 && 0 <= op && op <= 5);
  __CPROVER_assert(w_stage_cmp(a, b, op) == cmp_spec(a, b, op), "Stage (Stage,Stage) comparison operators agree with integer order of levels");
  __CPROVER_assert(w_stage_cmp_level(a, b, op) == cmp_spec(a, b, op), "Stage (Stage,Level) comparison operators agree with integer order of levels");
  __CPROVER_assert(w_stage_roundtrip(a) == a, "Stage(int) followed by operator int is the identity on 0..10");
  __CPROVER_assert(w_stage_default() == 0, "default Stage is Empty");
  if (b > 0)
    __CPROVER_assert(w_stage_invalidate(a, b) == (a < b - 1 ? a : b - 1), "Stage::invalidate(tooHigh): stage' == min(stage, tooHigh-1)");
  if (a < 10) {
    int after;
    __CPROVER_assert(w_stage_preinc(a) == a + 1, "++Stage");
    __CPROVER_assert(w_stage_postinc(a, &after) == a && after == a + 1, "Stage++ returns old value, increments");
  }
  if (a > 0) {
    int after;
    __CPROVER_assert(w_stage_predec(a) == a - 1, "--Stage");
    __CPROVER_assert(w_stage_postdec(a, &after) == a && after == a - 1, "Stage-- returns old value, decrements");
  }
  __CPROVER_assert(w_stage_runtime(a) == (2 <= a && a <= 9), "isInRuntimeRange: Model..Report");
}

/* documented order of the stages (Stage.h / State.h): consecutive from Empty=0 */
void h_stage_consts(void) {
  __CPROVER_assert(w_stage_const(0) == 0, "Stage::Empty == 0");
  __CPROVER_assert(w_stage_const(1) == 1 && w_stage_const(2) == 2 && w_stage_const(3) == 3, "Topology, Model, Instance == 1,2,3");
  __CPROVER_assert(w_stage_const(4) == 4 && w_stage_const(5) == 5 && w_stage_const(6) == 6 && w_stage_const(7) == 7, "Time, Position, Velocity, Dynamics == 4..7");
  __CPROVER_assert(w_stage_const(8) == 8 && w_stage_const(9) == 9 && w_stage_const(10) == 10, "Acceleration, Report, Infinity == 8,9,10");
  __CPROVER_assert(w_stage_const(11) == 11 && w_stage_const(12) == 0 && w_stage_const(13) == 10, "NValid == 11, LowestValid == Empty, HighestValid == Infinity");
}
