/* C18 / route M2 prelude for the unit cut from StateImpl.h + State.cpp.
   Generated ABOVE this include (from Stage.h, every run):
     typedef long long StageVersion; typedef long long ValueVersion;
     enum { Stage_Empty = 0, ..., Stage_NValid = ... };
   Representation: a SimTK::Stage is represented by its level (the value of `operator int`);
   the comparison operators, prev(), next() of the real class are proved to agree with the
   integer operations on levels in the M1 unit (stage_spec.c). */
#include <stdbool.h>
#include <math.h>
#include "stage_contracts.h"

typedef int Stage;
typedef double Real;
#define NaN ((Real)NAN)

/* repo asserts are kept and become proof obligations (stricter than the NDEBUG build) */
#define assert(c) __CPROVER_assert((c), "repo assert: " #c)

/* exception plumbing (DESIGN 2.2): a throwing check sets a ghost flag and returns */
extern int ghost_threw;
#define VF_STAGECHECK_GE(cur, tgt, nm)        do { if (!((cur) >= (tgt))) { ghost_threw = 1; return; } } while (0)
#define VF_STAGECHECK_GE_ALWAYS(cur, tgt, nm) do { if (!((cur) >= (tgt))) { ghost_threw = 1; return; } } while (0)
/* index checks of container accessors become assertions (Debug-build semantics) */
#define VF_INDEXCHECK(ix, ub, where)          __CPROVER_assert(0 <= (ix) && (ix) < (ub), "repo SimTK_INDEXCHECK: " #ix)
/* unique index types (SubsystemIndex, CacheEntryIndex, ...) are ints; isValid() is `ix >= 0` */
#define VF_INDEX_ISVALID(ix) ((ix) >= 0)

static inline Stage vf_min_Stage(Stage a, Stage b) { return (b < a) ? b : a; }   /* std::min semantics */

/* SimTK::Stage::prev()/next() by contract (enforced on the real class in stage.prev / stage.next) */
Stage Stage_prev(Stage l) CONTRACT_STAGE_PREV(l);
Stage Stage_next(Stage l) CONTRACT_STAGE_NEXT(l);

/* the overflow assumption of the whole property: fewer than 2^62 invalidations
   (StageVersion / ValueVersion are long long; ++ would overflow otherwise) */
#define VER_MAX (1LL << 62)
#define VER_OK(v) (1 <= (v) && (v) < VER_MAX)
#define STAGE_OK(g) (STAGE_LOWEST <= (g) && (g) <= STAGE_HIGHEST)

struct StateImpl;
struct PerSubsystemInfo;
struct CacheEntryInfo;
/* ListOfDependents / allocation stacks are container code: not in the view (DESIGN C18 "not decided") */
struct ListOfDependents { int g_opaque; };
