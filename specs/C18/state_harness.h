/* C18: harnesses (one per function under contract) and the lemma wrappers of L-valid.
   Lemma wrappers are spec code: they call the REAL function (used through its contract, which is
   enforced in its own unit) and then apply the model's ghost-history update of g_fresh. */

/* ---------------- harnesses for dfcc contract enforcement ---------------- */
void h_initialize(void)        { struct PerSubsystemInfo* s; initialize(s); }
void h_restoreToStage(void)    { struct PerSubsystemInfo* s; Stage g; restoreToStage(s, g); }
void h_invalidateStageJustThisSubsystem(void) { struct PerSubsystemInfo* s; Stage g; invalidateStageJustThisSubsystem(s, g); }
void h_advanceToStage(void)    { struct PerSubsystemInfo* s; Stage g; advanceToStage(s, g); }
void h_getSubsystem(void)      { struct StateImpl* st; int i; StateImpl_getSubsystem(st, i); }


#ifdef PLAIN_WORLD
/* =====================================================================================
   PLAIN WORLD (no dfcc): explicit objects, REAL bodies of the cut functions, and executable
   versions of the ASSUMED container contracts of state_contracts.h (same clauses, written as
   assert-requires / havoc / assume-ensures). Loop-free after unwinding the 11-stage loops, full
   domain: each assertion below is a complete proof of its clause.
   (dfcc units with three nested fresh objects cost 30-90 s each here; these cost < 2 s.)
   ===================================================================================== */
int ghost_j, ghost_k, ghost_c, ghost_d, vf_any_subsys;
/* the ghost indices are ARBITRARY: globals are zero-initialised in C, so every harness havocs them first */
static void havoc_ghosts(void) { int a, b, c, d, e; ghost_j = a; ghost_k = b; ghost_c = c; ghost_d = d; vf_any_subsys = e; ghost_threw = 0; }
static struct StateImpl W_st; static struct PerSubsystemInfo W_ss; static struct CacheEntryInfo W_ce;
static struct PerSubsystemInfo W_ss_other; static struct CacheEntryInfo W_ce_other; static struct DiscreteVarInfo W_dv, W_dv_other;

Stage Stage_prev(Stage l) { __CPROVER_assert(STAGE_LOWEST < l && l <= STAGE_HIGHEST, "Stage_prev precondition"); return l - 1; }
Stage Stage_next(Stage l) { __CPROVER_assert(STAGE_LOWEST <= l && l < STAGE_HIGHEST, "Stage_next precondition"); return l + 1; }
void clearReferencesToInstanceStageGlobals(struct PerSubsystemInfo* self) {}
void clearReferencesToModelStageGlobals(struct PerSubsystemInfo* self) {}
void ListOfDependents_notePrerequisiteChange(const struct ListOfDependents* self, const struct StateImpl* stateImpl) {}
void popAllStacksBackToStage(struct PerSubsystemInfo* self, Stage g) {
  int n, m; __CPROVER_assume(0 <= n && n <= self->cacheInfo_size && 0 <= m && m <= self->discreteInfo_size);
  self->cacheInfo_size = n; self->discreteInfo_size = m;
}
void clearAllStacks(struct PerSubsystemInfo* self) { self->cacheInfo_size = 0; self->discreteInfo_size = 0; }
void copyAllStacksThroughStage(struct PerSubsystemInfo* self, const struct PerSubsystemInfo* src, Stage g) {
  int n, m; __CPROVER_assume(0 <= n && n <= src->cacheInfo_size && 0 <= m && m <= src->discreteInfo_size);
  self->cacheInfo_size = n; self->discreteInfo_size = m;
  struct CacheEntryInfo any; *self->g_ce = any;                  /* havoc the destination element ...           */
  if (0 <= ghost_c && ghost_c < n) *self->g_ce = *src->g_ce;     /* ... a surviving entry is a memberwise copy  */
}
struct PerSubsystemInfo* vf_subsystems_at(const struct StateImpl* self, int i) {
  __CPROVER_assert(0 <= i && i < self->subsystems_size, "Array_<PerSubsystemInfo> index in range");
  if (i == ghost_k) return self->g_sub;
  struct PerSubsystemInfo any; W_ss_other = any;
  __CPROVER_assume(SUB_WF(&W_ss_other) && 0 <= W_ss_other.cacheInfo_size && 0 <= W_ss_other.discreteInfo_size);
  return &W_ss_other;
}
struct CacheEntryInfo* vf_cacheInfo_at(const struct PerSubsystemInfo* self, int i) {
  __CPROVER_assert(0 <= i && i < self->cacheInfo_size, "Array_<CacheEntryInfo> index in range");
  if (i == ghost_c) return self->g_ce;
  struct CacheEntryInfo any; W_ce_other = any; __CPROVER_assume(CE_WF(&W_ce_other));
  return &W_ce_other;
}
struct DiscreteVarInfo* vf_discreteInfo_at(const struct PerSubsystemInfo* self, int i) {
  __CPROVER_assert(0 <= i && i < self->discreteInfo_size, "Array_<DiscreteVarInfo> index in range");
  if (i == ghost_d) return self->g_dv;
  struct DiscreteVarInfo any; W_dv_other = any; __CPROVER_assume(DV_WF(&W_dv_other));
  return &W_dv_other;
}

/* the world: state W_st, its subsystem ghost_k = W_ss, whose cache entry ghost_c = W_ce */
static void world(void) {
  havoc_ghosts();
  struct StateImpl a; struct PerSubsystemInfo b; struct CacheEntryInfo c;
  W_st = a; W_ss = b; W_ce = c;
  W_st.g_sub = &W_ss; W_ss.g_ce = &W_ce; W_ss.g_dv = &W_dv;
  __CPROVER_assume(0 <= ghost_k && ghost_k < W_st.subsystems_size);
  __CPROVER_assume(0 <= ghost_c && ghost_c < W_ss.cacheInfo_size && 0 <= W_ss.discreteInfo_size);
  __CPROVER_assume(W_ce.m_myKey_first == ghost_k && W_ce.m_myKey_second == ghost_c);
  __CPROVER_assume(SUB_WF(&W_ss) && CE_WF(&W_ce));
}
static bool ss_same(const struct PerSubsystemInfo* a, const struct PerSubsystemInfo* b) {
  bool eq = a->currentStage == b->currentStage && a->cacheInfo_size == b->cacheInfo_size && a->discreteInfo_size == b->discreteInfo_size
            && a->g_ce == b->g_ce && a->g_dv == b->g_dv;
  for (int i = 0; i < Stage_NValid; i++) eq = eq && a->stageVersions[i] == b->stageVersions[i];
  return eq;
}
#define CE_FIXED_SAME(a, b) ((a)->m_myKey_first == (b)->m_myKey_first && (a)->m_myKey_second == (b)->m_myKey_second && \
   (a)->m_allocationStage == (b)->m_allocationStage && (a)->m_dependsOnStage == (b)->m_dependsOnStage && (a)->m_computedByStage == (b)->m_computedByStage)

/* ---------------- CacheEntryInfo: contracts of the three real member functions ---------------- */
/* isUpToDate: the documented rule (StateImpl.h, class comment of CacheEntryInfo): stage >= computedBy -> valid;
   stage < dependsOn -> invalid; otherwise valid iff recorded depends-on version == current && prerequisite flag */
void h_ce_isUpToDate(void) {
  world(); struct PerSubsystemInfo ss0 = W_ss; struct CacheEntryInfo ce0 = W_ce;
  bool r = CacheEntryInfo_isUpToDate(&W_ce, &W_st);
  __CPROVER_assert(r == (W_ss.currentStage >= W_ce.m_computedByStage ||
     (W_ss.currentStage >= W_ce.m_dependsOnStage && W_ss.stageVersions[W_ce.m_dependsOnStage] == CE_STAMP(&W_ce) && W_ce.m_isUpToDateWithPrerequisites)),
     "isUpToDate.postcondition: documented validity rule (computed-by stage / depends-on stage / version stamp / prerequisite flag)");
  __CPROVER_assert(ss_same(&ss0, &W_ss) && CE_EQ(&ce0, &W_ce), "isUpToDate.frame: a read changes nothing");
}
/* markAsUpToDate: records the CURRENT version of the depends-on stage, sets the prerequisite flag, nothing else */
void h_ce_markAsUpToDate(void) {
  world(); struct PerSubsystemInfo ss0 = W_ss; struct CacheEntryInfo ce0 = W_ce;
  CacheEntryInfo_markAsUpToDate(&W_ce, &W_st);
  __CPROVER_assert(CE_STAMP(&W_ce) == W_ss.stageVersions[W_ce.m_dependsOnStage] && W_ce.m_isUpToDateWithPrerequisites,
     "markAsUpToDate.postcondition: stamp == current version of the depends-on stage, prerequisite flag set");
  __CPROVER_assert(ss_same(&ss0, &W_ss) && CE_FIXED_SAME(&ce0, &W_ce) && W_ce.m_valueVersion == ce0.m_valueVersion,
     "markAsUpToDate.frame: no stage, stage version, key, stage attribute or value version changes");
}
/* invalidate: cannot read valid below computed-by afterwards (0 is never a stage version; flag false);
   the value version changes ("value versions change whenever the corresponding values may have changed") */
void h_ce_invalidate(void) {
  world(); __CPROVER_assume(CE_VV_OK(&W_ce)); struct PerSubsystemInfo ss0 = W_ss; struct CacheEntryInfo ce0 = W_ce;
  CacheEntryInfo_invalidate(&W_ce, &W_st);
  __CPROVER_assert(CE_STAMP(&W_ce) == 0 && !W_ce.m_isUpToDateWithPrerequisites, "invalidate.postcondition: stamp 0 (never a version) and prerequisite flag cleared");
  __CPROVER_assert(W_ce.m_valueVersion == ce0.m_valueVersion + 1, "invalidate.postcondition: value version bumped");
  __CPROVER_assert(ss_same(&ss0, &W_ss) && CE_FIXED_SAME(&ce0, &W_ce), "invalidate.frame: nothing else changes");
  bool r = CacheEntryInfo_isUpToDate(&W_ce, &W_st);
  __CPROVER_assert(r == (W_ss.currentStage >= W_ce.m_computedByStage), "invalidate: afterwards the entry reads valid only by its computed-by stage");
}

/* =====================================================================================
   Lemma L-valid (DESIGN C18): the history property as an inductive invariant.
   CE_INV(owner, ce) (state_contracts.h) is preserved by every operation that can touch (owner, ce);
   with L_read this gives, for histories of ANY length:
      isUpToDate() == true  ==>  owner.stage >= ce.computedBy  ||  (ce.g_fresh && ce.upToDateWithPrerequisites)
   i.e. "a cache entry reads as valid only if it was marked valid after the last change to its
   depends-on stage (and its prerequisite flag is set), or its computed-by stage is realized".
   g_fresh is GHOST history state updated here by the model's event rules only.
   ===================================================================================== */
static void world_inv(void) { world(); __CPROVER_assume(CE_INV(&W_ss, &W_ce)); }
#define ASSERT_INV(tag) do { \
  __CPROVER_assert(CE_INV1(&W_ss, &W_ce), tag ": L-valid (1) 0 <= stamp <= version of depends-on stage"); \
  __CPROVER_assert(CE_INV2(&W_ss, &W_ce), tag ": L-valid (2) below its depends-on stage the stamp is dead"); \
  __CPROVER_assert(CE_INV3(&W_ss, &W_ce), tag ": L-valid (3) stamp == version ==> marked after the last change"); } while (0)

void h_L_read(void) {
  world_inv();
  bool r = CacheEntryInfo_isUpToDate(&W_ce, &W_st);
  __CPROVER_assert(!r || W_ss.currentStage >= W_ce.m_computedByStage || (W_ce.g_fresh && W_ce.m_isUpToDateWithPrerequisites),
     "L_read: reads valid ==> computed-by stage realized, or marked valid after the last change to its depends-on stage and prerequisite flag set");
  __CPROVER_assert(!(W_ss.currentStage < W_ce.m_dependsOnStage) || !r, "L_read: never valid below the depends-on stage");
}
/* markCacheValueRealized under its DOCUMENTED precondition (State.h: "current stage must be at least the earliest stage") */
void h_L_mark(void) {
  world_inv(); __CPROVER_assume(W_ss.currentStage >= W_ce.m_dependsOnStage);
  CacheEntryInfo_markAsUpToDate(&W_ce, &W_st); W_ce.g_fresh = true;          /* history event: marked valid */
  ASSERT_INV("L_mark");
  __CPROVER_assert(CacheEntryInfo_isUpToDate(&W_ce, &W_st), "L_mark: after marking (stage >= depends-on) the entry reads valid");
}
/* the code also lets an entry be marked while its depends-on stage is being realized (stage == dependsOn-1,
   StateImpl::markCacheValueRealized); the invariant is re-established by the advance that ends that realization */
void h_L_mark_window(void) {
  world_inv(); __CPROVER_assume(W_ss.currentStage == W_ce.m_dependsOnStage - 1);
  CacheEntryInfo_markAsUpToDate(&W_ce, &W_st); W_ce.g_fresh = true;
  advanceToStage(&W_ss, W_ce.m_dependsOnStage);
  ASSERT_INV("L_mark_window");
}
/* any lowering of the owner: history event "depends-on stage changed" iff g < dependsOn */
void h_L_restore(void) {
  world_inv(); Stage g; __CPROVER_assume(STAGE_OK(g));
  restoreToStage(&W_ss, g); if (g < W_ce.m_dependsOnStage) W_ce.g_fresh = false;
  if (ghost_c < W_ss.cacheInfo_size) ASSERT_INV("L_restore");
}
/* a variable change that invalidates stage g (what invalidateAll does to every subsystem) */
void h_L_invalidate(void) {
  world_inv(); Stage g; __CPROVER_assume(STAGE_OK(g) && g > Stage_Empty);
  invalidateStageJustThisSubsystem(&W_ss, g); if (g <= W_ce.m_dependsOnStage) W_ce.g_fresh = false;
  if (ghost_c < W_ss.cacheInfo_size) ASSERT_INV("L_invalidate");
  /* and the headline: right after a change that invalidates a stage <= dependsOn, the entry does not read valid */
  if (ghost_c < W_ss.cacheInfo_size && g <= W_ce.m_dependsOnStage)
    __CPROVER_assert(!CacheEntryInfo_isUpToDate(&W_ce, &W_st), "L_invalidate: after a change to a stage <= depends-on the entry reads invalid");
}
void h_L_advance(void) {
  world_inv(); Stage g; __CPROVER_assume(STAGE_OK(g) && g > Stage_Empty && W_ss.currentStage == g - 1);
  advanceToStage(&W_ss, g);
  ASSERT_INV("L_advance");
}
void h_L_ce_invalidate(void) {
  world_inv(); __CPROVER_assume(CE_VV_OK(&W_ce));
  CacheEntryInfo_invalidate(&W_ce, &W_st); W_ce.g_fresh = false;             /* history event: not marked */
  ASSERT_INV("L_ce_invalidate");
}
/* copy of a subsystem (PerSubsystemInfo::copyFrom, REAL body incl. the real restoreToStage): see h_sub_copyFrom */

/* ---------------- PerSubsystemInfo::copyFrom ----------------
   "makes this a copy of the source subsystem exactly as it was after being realized to stage maxStage":
     stage' == min(src.stage, maxStage); copied stages keep the source's versions;
     EVERY later stage gets a version greater than the source's, so that no stamp recorded in the source
     (stamp <= src.ver[d], L-valid) can look valid in the copy; L-valid holds for the copied entry
     (g_fresh travels with it); the source is not modified. */
void h_sub_copyFrom(void) {
  havoc_ghosts();
  struct PerSubsystemInfo dst, src; struct CacheEntryInfo dce, sce; Stage maxStage;
  dst.g_ce = &dce; src.g_ce = &sce;
  __CPROVER_assume(SUB_WF(&dst) && SUB_WF(&src) && STAGE_OK(maxStage) && GHOST_J_OK);
  __CPROVER_assume(0 <= dst.cacheInfo_size && 0 <= dst.discreteInfo_size && 0 <= src.discreteInfo_size);
  __CPROVER_assume(0 <= ghost_c && ghost_c < src.cacheInfo_size && CE_INV(&src, &sce));
  struct PerSubsystemInfo src0 = src; struct CacheEntryInfo sce0 = sce;
  PerSubsystemInfo_copyFrom(&dst, &src, maxStage);
  __CPROVER_assert(dst.currentStage == MINI(src.currentStage, maxStage), "copyFrom.postcondition: stage' == min(src.stage, maxStage)");
  __CPROVER_assert(!(ghost_j <= dst.currentStage) || dst.stageVersions[ghost_j] == src.stageVersions[ghost_j], "copyFrom.postcondition: copied stages keep the source's stage versions");
  __CPROVER_assert(!(ghost_j > dst.currentStage) || dst.stageVersions[ghost_j] > src.stageVersions[ghost_j], "copyFrom.postcondition: every later stage gets a version greater than the source's (no copied stamp can match)");
  if (ghost_c < dst.cacheInfo_size) {
    __CPROVER_assert(CE_INV1(&dst, &dce), "copyFrom.L-valid (1) for the copied entry");
    __CPROVER_assert(CE_INV2(&dst, &dce), "copyFrom.L-valid (2) for the copied entry");
    __CPROVER_assert(CE_INV3(&dst, &dce), "copyFrom.L-valid (3) for the copied entry");
  }
  __CPROVER_assert(ss_same(&src0, &src) && CE_EQ(&sce0, &sce), "copyFrom.frame: the source is not modified");
}

/* L_initial: a freshly allocated entry (default member initialisers read from the header) in any
   well-formed subsystem satisfies the invariant with g_fresh == false: it cannot read as valid before
   it is marked (or its computed-by stage is reached) */
void h_L_initial(void) {
  havoc_ghosts();
  struct PerSubsystemInfo ss; struct CacheEntryInfo ce;
  __CPROVER_assume(SUB_WF(&ss));
  ce.m_valueVersion = INIT_CE_m_valueVersion;
  ce.m_dependsOnVersionWhenLastComputed = INIT_CE_m_dependsOnVersionWhenLastComputed;
  ce.m_isUpToDateWithPrerequisites = INIT_CE_m_isUpToDateWithPrerequisites;
  ce.g_fresh = false;
  __CPROVER_assume(Stage_Topology <= ce.m_allocationStage && ce.m_allocationStage <= Stage_Instance);
  __CPROVER_assume(Stage_Topology <= ce.m_dependsOnStage && ce.m_dependsOnStage <= Stage_Report);
  __CPROVER_assume(ce.m_dependsOnStage <= ce.m_computedByStage && ce.m_computedByStage <= Stage_Infinity);
  __CPROVER_assert(CE_INV(&ss, &ce), "L_initial: a newly allocated cache entry satisfies the validity invariant, unmarked");
  __CPROVER_assert(CE_STAMP(&ce) != ss.stageVersions[ce.m_dependsOnStage], "L_initial: the initial stamp matches no stage version (0 is never a version)");
}


/* =====================================================================================
   StateImpl level (plain world, REAL bodies all the way down to the container stubs)
   ===================================================================================== */
static bool st_same_sys(const struct StateImpl* a, const struct StateImpl* b) {
  bool eq = a->currentSystemStage == b->currentSystemStage && a->qVersion == b->qVersion && a->uVersion == b->uVersion && a->zVersion == b->zVersion
            && SAME_REAL(a->t, b->t) && a->subsystems_size == b->subsystems_size && a->g_sub == b->g_sub;
  for (int i = 0; i < Stage_NValid; i++) eq = eq && a->systemStageVersions[i] == b->systemStageVersions[i];
  return eq;
}
static void world_sys(void) {
  world();
  __CPROVER_assume(SYS_WF(&W_st) && GHOST_J_OK && ghost_threw == 0);
  __CPROVER_assume(0 <= vf_any_subsys && vf_any_subsys < W_st.subsystems_size);
}
/* the system part of "invalidate stage g": system stage' == min(stage, g-1); exactly the versions of the
   invalidated stages g..stage are bumped; if Model stage is invalidated the continuous variables are
   de-allocated, so the q,u,z VALUE versions change; if Topology is invalidated time becomes NaN.
   Relations n(ew) vs o(ld), as expressions, so that they can be ASSERTED (units state.*) and ASSUMED (contract form). */
#define MODEL_GONE(o, g) (((o)->currentSystemStage >= Stage_Model && Stage_Model >= (g)) ? 1 : 0)
#define SYS_R1(n, o, g) ((n)->currentSystemStage == MINI((o)->currentSystemStage, (g) - 1))
#define SYS_R2(n, o, g) ((n)->systemStageVersions[ghost_j] == (o)->systemStageVersions[ghost_j] + (((g) <= ghost_j && ghost_j <= (o)->currentSystemStage) ? 1 : 0))
#define SYS_R3(n, o, g, bq, bu, bz) ((n)->qVersion == (o)->qVersion + MODEL_GONE(o, g) + (bq) && (n)->uVersion == (o)->uVersion + MODEL_GONE(o, g) + (bu) && \
                                     (n)->zVersion == (o)->zVersion + MODEL_GONE(o, g) + (bz))
#define SYS_R4(n, o, g) ((((o)->currentSystemStage >= Stage_Topology && Stage_Topology >= (g)) ? __CPROVER_isnand((n)->t) : SAME_REAL((n)->t, (o)->t)) && \
                         (n)->subsystems_size == (o)->subsystems_size && (n)->g_sub == (o)->g_sub)
#define ASSERT_SYS_INVALIDATED(tag, st0, g, bq, bu, bz) do { \
  __CPROVER_assert(SYS_R1(&W_st, &(st0), g), tag ".postcondition: system stage' == min(stage, g-1)"); \
  __CPROVER_assert(SYS_R2(&W_st, &(st0), g), tag ".postcondition: exactly the system stage versions g..stage are bumped"); \
  __CPROVER_assert(SYS_R3(&W_st, &(st0), g, bq, bu, bz), tag ".postcondition: q,u,z value versions change exactly when the values may have changed"); \
  __CPROVER_assert(SYS_R4(&W_st, &(st0), g), tag ".postcondition: time reset iff Topology invalidated; subsystem container untouched"); } while (0)
/* the per-subsystem part, for the GHOST subsystem (arbitrary, hence every subsystem) */
#define SUB_R1(n, o, g) ((n)->currentStage == MINI((o)->currentStage, (g) - 1))
#define SUB_R2(n, o, g) (!((g) > Stage_Topology || (o)->currentStage == Stage_Empty) || \
     (n)->stageVersions[ghost_j] == (o)->stageVersions[ghost_j] + (((g) <= ghost_j && ghost_j <= (o)->currentStage) ? 1 : 0))
#define SUB_R3(n, o, g) (!((g) == Stage_Topology && (o)->currentStage > Stage_Empty) || \
     ((n)->stageVersions[ghost_j] == 1 && (n)->cacheInfo_size == 0 && (n)->discreteInfo_size == 0))
#define SUB_R4(n, o, g) (0 <= (n)->cacheInfo_size && (n)->cacheInfo_size <= (o)->cacheInfo_size && 0 <= (n)->discreteInfo_size && (n)->discreteInfo_size <= (o)->discreteInfo_size && \
     (n)->g_ce == (o)->g_ce && (n)->g_dv == (o)->g_dv)
#define ASSERT_SUB_INVALIDATED(tag, ss0, g) do { \
  __CPROVER_assert(SUB_R1(&W_ss, &(ss0), g), tag ".postcondition: EVERY subsystem stage' == min(stage, g-1)"); \
  __CPROVER_assert(SUB_R2(&W_ss, &(ss0), g), tag ".postcondition: exactly the subsystem stage versions g..stage are bumped"); \
  __CPROVER_assert(SUB_R3(&W_ss, &(ss0), g), tag ".postcondition: Topology invalidated -> just-constructed subsystem"); \
  __CPROVER_assert(SUB_R4(&W_ss, &(ss0), g), tag ".frame: allocation stacks only shrink"); } while (0)

#ifdef INVALIDATEALL_BY_CONTRACT
/* invalidateAll's contract in assert-requires / havoc-assigns / assume-ensures form, for its callers.
   requires: well-formed state (incl. the overflow assumption), g a real stage; assigns: the system view and the
   view of the ghost subsystem; ensures: exactly the relations proved of the real body in unit state.invalidateAll
   (ghost_j arbitrary but fixed => all stage indices). */
int ghost_invalidateAll_calls;
void invalidateAll(struct StateImpl* self, Stage g) {
  __CPROVER_assert(self == &W_st && SYS_WF(self) && SUB_WF(self->g_sub) && STAGE_OK(g) && g > Stage_Empty, "invalidateAll precondition (well-formed state, g > Empty)");
  struct StateImpl o = *self; struct PerSubsystemInfo so = *self->g_sub;
  struct StateImpl n; struct PerSubsystemInfo sn; *self = n; *o.g_sub = sn;
  __CPROVER_assume(SYS_R1(self, &o, g) && SYS_R2(self, &o, g) && SYS_R3(self, &o, g, 0, 0, 0) && SYS_R4(self, &o, g));
  __CPROVER_assume(SUB_R1(self->g_sub, &so, g) && SUB_R2(self->g_sub, &so, g) && SUB_R3(self->g_sub, &so, g) && SUB_R4(self->g_sub, &so, g));
  ghost_invalidateAll_calls++;
}
#endif

/* vacuity guard: the ghost indices are not pinned (checked with --cover) */
void h_cover_ghosts(void) {
  world_sys(); __CPROVER_assume(CE_INV(&W_ss, &W_ce));
  if (ghost_j == 7 && ghost_k == 2 && ghost_c == 3 && W_ss.currentStage == 9 && W_st.currentSystemStage == 8 && W_ce.m_dependsOnStage == 5 && W_ce.g_fresh) __CPROVER_cover(1);
  if (ghost_j == 0 && ghost_k == 0 && ghost_c == 0 && W_ss.currentStage == 0 && W_st.currentSystemStage == 0 && vf_any_subsys == 1) __CPROVER_cover(1);
}
void h_noteChange(void) {
  world_sys(); struct StateImpl st0 = W_st; struct PerSubsystemInfo ss0 = W_ss; int which;
  if (which == 0) noteQChange(&W_st); else if (which == 1) noteUChange(&W_st); else if (which == 2) noteZChange(&W_st); else noteYChange(&W_st);
  __CPROVER_assert(W_st.qVersion == st0.qVersion + (which == 0 || which < 0 || which > 2), "noteQ/YChange.postcondition: q value version bumped exactly by its own notifier");
  __CPROVER_assert(W_st.uVersion == st0.uVersion + (which == 1 || which < 0 || which > 2), "noteU/YChange.postcondition: u value version");
  __CPROVER_assert(W_st.zVersion == st0.zVersion + (which == 2 || which < 0 || which > 2), "noteZ/YChange.postcondition: z value version");
  st0.qVersion = W_st.qVersion; st0.uVersion = W_st.uVersion; st0.zVersion = W_st.zVersion;
  __CPROVER_assert(st_same_sys(&st0, &W_st) && ss_same(&ss0, &W_ss), "note*Change.frame: no stage or stage version changes");
}
void h_invalidateJustSystemStage(void) {
  world_sys(); Stage g; __CPROVER_assume(STAGE_OK(g) && g > Stage_Empty);
  struct StateImpl st0 = W_st; struct PerSubsystemInfo ss0 = W_ss;
  invalidateJustSystemStage(&W_st, g);
  ASSERT_SYS_INVALIDATED("invalidateJustSystemStage", st0, g, 0, 0, 0);
  __CPROVER_assert(ss_same(&ss0, &W_ss), "invalidateJustSystemStage.frame: no subsystem stage or version changes");
}
void h_invalidateAll(void) {
  world_sys(); Stage g; __CPROVER_assume(STAGE_OK(g) && g > Stage_Empty);
  struct StateImpl st0 = W_st; struct PerSubsystemInfo ss0 = W_ss; struct CacheEntryInfo ce0 = W_ce;
  invalidateAll(&W_st, g);
  ASSERT_SYS_INVALIDATED("invalidateAll", st0, g, 0, 0, 0);
  ASSERT_SUB_INVALIDATED("invalidateAll", ss0, g);
  __CPROVER_assert(CE_EQ(&ce0, &W_ce), "invalidateAll.frame: cache entry stamps/flags are not edited (validity changes only through stage versions)");
}
void h_invalidateAllCacheAtOrAbove(void) {
  world_sys(); Stage g; __CPROVER_assume(STAGE_OK(g) && g > Stage_Empty);
  struct StateImpl st0 = W_st; struct PerSubsystemInfo ss0 = W_ss;
  invalidateAllCacheAtOrAbove(&W_st, g);
  __CPROVER_assert(ghost_threw == (g < Stage_Instance), "invalidateAllCacheAtOrAbove: throws exactly for g < Instance");
  if (ghost_threw) __CPROVER_assert(st_same_sys(&st0, &W_st) && ss_same(&ss0, &W_ss), "invalidateAllCacheAtOrAbove: a rejected call changes nothing");
  else { ASSERT_SYS_INVALIDATED("invalidateAllCacheAtOrAbove", st0, g, 0, 0, 0); ASSERT_SUB_INVALIDATED("invalidateAllCacheAtOrAbove", ss0, g); }
}

/* upd* accessors: "changing a variable lowers the realized stage of the system and of EVERY subsystem to just
   below the stage that variable invalidates" (DOCUMENTED stage D from State.h), "and value versions change
   whenever the corresponding values may have changed"; nothing else changes. Precondition: the documented
   minimum system stage (then the Debug-build stage check does not throw). */
#ifdef INVALIDATEALL_BY_CONTRACT
#define ACCESSOR_HARNESS(NAME, CALL, D, BQ, BU, BZ, MINSYS) \
void h_acc_##NAME(void) { \
  world_sys(); __CPROVER_assume(W_st.currentSystemStage >= (MINSYS)); \
  struct StateImpl st0 = W_st; struct PerSubsystemInfo ss0 = W_ss; struct CacheEntryInfo ce0 = W_ce; \
  CALL; \
  __CPROVER_assert(ghost_threw == 0, #NAME ": no exception when the documented minimum stage is met"); \
  __CPROVER_assert(ghost_invalidateAll_calls == 1, #NAME ": invalidates exactly once"); \
  ASSERT_SYS_INVALIDATED(#NAME, st0, D, BQ, BU, BZ); \
  ASSERT_SUB_INVALIDATED(#NAME, ss0, D); \
  __CPROVER_assert(CE_EQ(&ce0, &W_ce), #NAME ".frame: cache entry records untouched"); }
/* soundness-only variant (code invalidates an earlier stage than documented: conservative, see CONSERVATIVE_OK):
   stage' <= min(stage, D-1); every realized stage >= D gets its version bumped; stages that stay realized keep theirs */
#define ACCESSOR_HARNESS_CONSERVATIVE(NAME, CALL, D, BQ, BU, BZ, MINSYS) \
void h_acc_##NAME(void) { \
  world_sys(); __CPROVER_assume(W_st.currentSystemStage >= (MINSYS)); \
  struct StateImpl st0 = W_st; struct PerSubsystemInfo ss0 = W_ss; \
  CALL; \
  __CPROVER_assert(ghost_threw == 0, #NAME ": no exception when the documented minimum stage is met"); \
  __CPROVER_assert(W_st.currentSystemStage <= MINI(st0.currentSystemStage, (D) - 1) && W_ss.currentStage <= MINI(ss0.currentStage, (D) - 1), #NAME ".soundness: stages lowered at least to D-1"); \
  __CPROVER_assert(!((D) <= ghost_j && ghost_j <= ss0.currentStage) || W_ss.stageVersions[ghost_j] == ss0.stageVersions[ghost_j] + 1, #NAME ".soundness: versions of all invalidated documented stages bumped"); \
  __CPROVER_assert(!(ghost_j <= W_ss.currentStage) || W_ss.stageVersions[ghost_j] == ss0.stageVersions[ghost_j], #NAME ".soundness: still-realized stages keep their versions"); \
  __CPROVER_assert(W_st.qVersion == st0.qVersion + (BQ) && W_st.uVersion == st0.uVersion + (BU) && W_st.zVersion == st0.zVersion + (BZ), #NAME ": value versions"); }
#else
#define ACCESSOR_HARNESS(a,b,c,d,e,f,g)
#define ACCESSOR_HARNESS_CONSERVATIVE(a,b,c,d,e,f,g)
#endif /* INVALIDATEALL_BY_CONTRACT */
#endif /* PLAIN_WORLD */
