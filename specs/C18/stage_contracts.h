/* C18: contracts of SimTK::Stage::prev()/next(), shared TEXTUALLY between
   (a) the M1 unit, where they are enforced on extern "C" wrappers around the real class
       (stage_spec.c: w_stage_prev / w_stage_next), and
   (b) the M2 units, where Stage is represented by its level (operator int) and
       `g.prev()` is rewritten to Stage_prev(g), a body-less function used by contract. */
#ifndef C18_STAGE_CONTRACTS_H
#define C18_STAGE_CONTRACTS_H
#define STAGE_LOWEST 0
#define STAGE_HIGHEST 10
#define CONTRACT_STAGE_PREV(l) \
  __CPROVER_requires(STAGE_LOWEST < (l) && (l) <= STAGE_HIGHEST) \
  __CPROVER_assigns() \
  __CPROVER_ensures(__CPROVER_return_value == (l) - 1)
#define CONTRACT_STAGE_NEXT(l) \
  __CPROVER_requires(STAGE_LOWEST <= (l) && (l) < STAGE_HIGHEST) \
  __CPROVER_assigns() \
  __CPROVER_ensures(__CPROVER_return_value == (l) + 1)
#endif
