/* Prelude for the M2 unit cut from SimTKcommon/Random/src/Random.cpp (C31). */
#include <stdint.h>
#include <math.h>
#include <stdbool.h>
typedef double Real;
#define SP_N32 624
#define SP_N64 312

/* Abstract view of SimTK_SFMT::SFMTData as seen from Random.cpp: only what the
   contracts of init_gen_rand / fill_array64 (proved in the SFMT unit) talk about,
   plus ghost fields naming which stream the generator is on. */
struct SFMTData { int idx; int initialized; uint32_t ghost_seed; unsigned ghost_draws; };

/* ---- dependencies by contract (each contract is discharged in the SFMT unit,
   see sfmt_spec.c: w_init_gen_rand / w_fill_array64) ---- */
void init_gen_rand(uint32_t seed, struct SFMTData* data)
__CPROVER_requires(__CPROVER_rw_ok(data, sizeof(*data)))
__CPROVER_assigns(*data)
__CPROVER_ensures(data->initialized == 1 && data->idx == SP_N32 && data->ghost_seed == seed && data->ghost_draws == 0)
;

/* ---- trusted IEEE lemma (DESIGN 3.7): a correctly rounded product of u in [0,1]
   and a finite a >= 0 lies in [0,a]. Symbolic x symbolic double multiplication is
   out of reach of every back end here, so '*' between two symbolic doubles is
   rewritten by the extractor to vf_mul(), whose contract is this lemma. ---- */
double vf_mul_unit(double u, double a)
__CPROVER_requires(0.0 <= u && u <= 1.0 && a >= 0.0 && !__CPROVER_isinfd(a))
__CPROVER_assigns()
__CPROVER_ensures(0.0 <= __CPROVER_return_value && __CPROVER_return_value <= a)
__CPROVER_ensures(u == 1.0 ==> __CPROVER_return_value == a)
__CPROVER_ensures(u == 0.0 ==> __CPROVER_return_value == 0.0)
;
/* general product, sign lemma only */
double vf_mul(double a, double b)
__CPROVER_assigns()
__CPROVER_ensures((!__CPROVER_isnand(a) && !__CPROVER_isnand(b) && !__CPROVER_isinfd(a) && !__CPROVER_isinfd(b)) ==> !__CPROVER_isnand(__CPROVER_return_value))
;
/* square: non-negative, <= 1 for |x| <= 1, zero iff underflow (|x| tiny) */
double vf_sq(double x)
__CPROVER_requires(-1.0 <= x && x <= 1.0)
__CPROVER_assigns()
__CPROVER_ensures(0.0 <= __CPROVER_return_value && __CPROVER_return_value <= 1.0)
;
/* libm, assumed: nextafter(x,y) for finite y < x returns the largest double < x, which is >= y */
double vf_nextafter(double x, double y)
__CPROVER_requires(!__CPROVER_isnand(x) && !__CPROVER_isnand(y) && !__CPROVER_isinfd(x) && !__CPROVER_isinfd(y))
__CPROVER_assigns()
__CPROVER_ensures(y < x ==> (y <= __CPROVER_return_value && __CPROVER_return_value < x))
__CPROVER_ensures(y > x ==> (x < __CPROVER_return_value && __CPROVER_return_value <= y))
__CPROVER_ensures(y == x ==> __CPROVER_return_value == x)
;
/* libm, assumed: domains only */
double vf_log(double x)
__CPROVER_requires(x > 0.0)
__CPROVER_assigns()
__CPROVER_ensures(x < 1.0 ==> __CPROVER_return_value < 0.0)
;
double vf_sqrt(double x)
__CPROVER_requires(x >= 0.0)
__CPROVER_assigns()
__CPROVER_ensures(__CPROVER_return_value >= 0.0)
;
double vf_div(double a, double b)
__CPROVER_requires(b != 0.0)
__CPROVER_assigns()
__CPROVER_ensures((a >= 0.0 && b > 0.0) ==> __CPROVER_return_value >= 0.0)
;
