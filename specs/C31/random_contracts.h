/* Contracts on the functions cut from Random.cpp. `struct RandomImpl` and
   `bufferSize` come from the cut member declarations (generated above this include). */

/* oracle standing for "the words the SFMT stream (seed, draw#) produces": the SFMT
   unit proves they are a function of the state, which is a function of the seed */
extern uint64_t ORACLE[2][bufferSize];

/* fill_array64 by contract: preconditions are the asserts at the top of the real function,
   postconditions are those proved for w_fill_array64 in the SFMT unit (sfmt_spec.c).
   (In the 2-copy determinism harness an oracle body is linked instead, random_harness.h.) */
void fill_array64(uint64_t* array, int size, struct SFMTData* data)
__CPROVER_requires(data->initialized != 0 && data->idx == SP_N32 && size % 2 == 0 && size >= SP_N64)
__CPROVER_requires(__CPROVER_rw_ok(array, (unsigned long)size * 8))
__CPROVER_assigns(__CPROVER_object_upto(array, (unsigned long)size * 8), *data)
__CPROVER_ensures(data->initialized == __CPROVER_old(data->initialized) && data->idx == SP_N32)
__CPROVER_ensures(data->ghost_seed == __CPROVER_old(data->ghost_seed) && data->ghost_draws == __CPROVER_old(data->ghost_draws) + 1u)
;

#define WF_SFMT(d)  ((d)->initialized != 0 && (d)->idx == SP_N32)
#define WF_IMPL(s)  (0 <= (s)->nextIndex && (s)->nextIndex <= bufferSize)

/* ---- RandomImpl::getNextRandom ---- */
Real getNextRandom(struct RandomImpl* self)
__CPROVER_requires(__CPROVER_is_fresh(self, sizeof(*self)) && __CPROVER_is_fresh(self->sfmt, sizeof(struct SFMTData)))
__CPROVER_requires(WF_IMPL(self) && WF_SFMT(self->sfmt))
__CPROVER_assigns(self->nextIndex, __CPROVER_object_whole(self->sfmt), __CPROVER_object_upto(self->buffer, sizeof(self->buffer)))
__CPROVER_ensures(0.0 <= __CPROVER_return_value && __CPROVER_return_value <= 1.0)
__CPROVER_ensures(1 <= self->nextIndex && self->nextIndex <= bufferSize)
__CPROVER_ensures(self->sfmt->initialized != 0 && self->sfmt->idx == SP_N32)
/* consumes exactly one word: either the next one of the buffer, or (refill) word 0 of the next chunk */
__CPROVER_ensures(__CPROVER_old(self->nextIndex) < bufferSize ==> (self->nextIndex == __CPROVER_old(self->nextIndex) + 1 && self->sfmt->ghost_draws == __CPROVER_old(self->sfmt->ghost_draws)))
__CPROVER_ensures(__CPROVER_old(self->nextIndex) >= bufferSize ==> (self->nextIndex == 1 && self->sfmt->ghost_draws == __CPROVER_old(self->sfmt->ghost_draws) + 1u))
;

/* ---- RandomImpl::setSeed ---- */
void RandomImpl_setSeed(struct RandomImpl* self, int seed)
__CPROVER_requires(__CPROVER_is_fresh(self, sizeof(*self)) && __CPROVER_is_fresh(self->sfmt, sizeof(struct SFMTData)))
__CPROVER_assigns(self->nextIndex, __CPROVER_object_whole(self->sfmt))
/* determinism: everything a later draw reads is reset: buffer is dead (index at end), generator reseeded */
__CPROVER_ensures(self->nextIndex == bufferSize)
__CPROVER_ensures(self->sfmt->initialized == 1 && self->sfmt->idx == SP_N32 && self->sfmt->ghost_seed == (uint32_t)seed)
;

/* ---- GaussianImpl::setSeed ---- */
void GaussianImpl_setSeed(struct RandomImpl* self, int seed)
__CPROVER_requires(__CPROVER_is_fresh(self, sizeof(*self)) && __CPROVER_is_fresh(self->sfmt, sizeof(struct SFMTData)))
__CPROVER_assigns(self->nextIndex, __CPROVER_object_whole(self->sfmt), self->nextGaussianIsValid)
__CPROVER_ensures(self->nextIndex == bufferSize && self->nextGaussianIsValid == 0)
__CPROVER_ensures(self->sfmt->initialized == 1 && self->sfmt->idx == SP_N32 && self->sfmt->ghost_seed == (uint32_t)seed)
;

/* ---- UniformImpl::getValue ---- */
#define FINITE(x) (!__CPROVER_isnand(x) && !__CPROVER_isinfd(x))
Real UniformImpl_getValue(struct RandomImpl* self)
__CPROVER_requires(__CPROVER_is_fresh(self, sizeof(*self)) && __CPROVER_is_fresh(self->sfmt, sizeof(struct SFMTData)))
__CPROVER_requires(WF_IMPL(self) && WF_SFMT(self->sfmt))
/* class invariant of UniformImpl (established by ctor/setMin/setMax, proved below) */
__CPROVER_requires(FINITE(self->min) && FINITE(self->max) && self->min < self->max && self->range == self->max - self->min && FINITE(self->range))
__CPROVER_assigns(self->nextIndex, __CPROVER_object_whole(self->sfmt), __CPROVER_object_upto(self->buffer, sizeof(self->buffer)))
/* property C31: "uniform values always lie in the configured range" [min,max) */
__CPROVER_ensures(self->min <= __CPROVER_return_value)
__CPROVER_ensures(__CPROVER_return_value < self->max)
;

/* ---- UniformImpl::setMin / setMax keep range == max-min ---- */
void UniformImpl_setMin(struct RandomImpl* self, Real value)
__CPROVER_requires(__CPROVER_is_fresh(self, sizeof(*self)) && !__CPROVER_isnand(value) && !__CPROVER_isnand(self->max))
__CPROVER_assigns(self->min, self->range)
__CPROVER_ensures(self->min == value && self->max == __CPROVER_old(self->max) && (__CPROVER_isnand(self->max - self->min) || self->range == self->max - self->min))
;
void UniformImpl_setMax(struct RandomImpl* self, Real value)
__CPROVER_requires(__CPROVER_is_fresh(self, sizeof(*self)) && !__CPROVER_isnand(value) && !__CPROVER_isnand(self->min))
__CPROVER_assigns(self->max, self->range)
__CPROVER_ensures(self->max == value && self->min == __CPROVER_old(self->min) && (__CPROVER_isnand(self->max - self->min) || self->range == self->max - self->min))
;

/* ---- Random::Uniform::getIntValue: integers in [min,max) in integer mode ---- */
#define INTVAL(x) (-2147483000.0 <= (x) && (x) <= 2147483000.0 && (x) == floor(x))
int Uniform_getIntValue(struct RandomImpl* self)
__CPROVER_requires(__CPROVER_is_fresh(self, sizeof(*self)) && __CPROVER_is_fresh(self->sfmt, sizeof(struct SFMTData)))
__CPROVER_requires(WF_IMPL(self) && WF_SFMT(self->sfmt))
__CPROVER_requires(INTVAL(self->min) && INTVAL(self->max) && self->min < self->max && self->range == self->max - self->min)
__CPROVER_assigns(self->nextIndex, __CPROVER_object_whole(self->sfmt), __CPROVER_object_upto(self->buffer, sizeof(self->buffer)))
__CPROVER_ensures((double)__CPROVER_return_value >= self->min && (double)__CPROVER_return_value < self->max)
;

/* ---- GaussianImpl::getValue ---- */
Real GaussianImpl_getValue(struct RandomImpl* self)
__CPROVER_requires(__CPROVER_is_fresh(self, sizeof(*self)) && __CPROVER_is_fresh(self->sfmt, sizeof(struct SFMTData)))
__CPROVER_requires(WF_IMPL(self) && WF_SFMT(self->sfmt))
__CPROVER_requires(self->nextGaussianIsValid == 0 || self->nextGaussianIsValid == 1)
__CPROVER_assigns(self->nextIndex, __CPROVER_object_whole(self->sfmt), __CPROVER_object_upto(self->buffer, sizeof(self->buffer)),
                  self->nextGaussian, self->nextGaussianIsValid)
/* the cached second deviate is consumed exactly once: valid -> invalid -> valid ... */
__CPROVER_ensures(self->nextGaussianIsValid == !__CPROVER_old(self->nextGaussianIsValid))
/* the cached path draws nothing from the generator */
__CPROVER_ensures(__CPROVER_old(self->nextGaussianIsValid) ==> self->nextIndex == __CPROVER_old(self->nextIndex))
;
