/* Contracts for SimTKcommon/Random/src/SFMT.cpp (property C31).
   Oracle: the SFMT-19937 recurrence as published (Saito & Matsumoto 2008),
   written on unsigned __int128, with the published 19937 parameter set.
   These constants are NOT read from the repository: if SFMT-params19937.h
   drifts from the published set, the do_recursion obligation fails. */
#include <stdint.h>
typedef unsigned __int128 u128;
#define SP_N     156
#define SP_N32   624
#define SP_POS1  122
#define SP_SL1   18
#define SP_SL2   1
#define SP_SR1   11
#define SP_SR2   1
#define SP_MSK1  0xdfffffefU
#define SP_MSK2  0xddfecb7fU
#define SP_MSK3  0xbffaffffU
#define SP_MSK4  0xbffffff6U
#define SP_PAR1  0x00000001U
#define SP_PAR2  0x00000000U
#define SP_PAR3  0x00000000U
#define SP_PAR4  0x13c9e684U
#define ONES32 (((u128)1)|((u128)1<<32)|((u128)1<<64)|((u128)1<<96))
#define W(p) ((u128)(p)[0] | ((u128)(p)[1]<<32) | ((u128)(p)[2]<<64) | ((u128)(p)[3]<<96))
#define WOLD(p) ((u128)__CPROVER_old((p)[0]) | ((u128)__CPROVER_old((p)[1])<<32) | ((u128)__CPROVER_old((p)[2])<<64) | ((u128)__CPROVER_old((p)[3])<<96))

static u128 rec(u128 a, u128 b, u128 c, u128 d) {
  u128 msk = (u128)SP_MSK1 | ((u128)SP_MSK2<<32) | ((u128)SP_MSK3<<64) | ((u128)SP_MSK4<<96);
  u128 b32 = (b >> SP_SR1) & (((u128)(0xffffffffU >> SP_SR1)) * ONES32);       /* per-lane >> */
  u128 d32 = (d << SP_SL1) & (((u128)(uint32_t)(0xffffffffU << SP_SL1)) * ONES32); /* per-lane << */
  return a ^ (a << (8*SP_SL2)) ^ (b32 & msk) ^ (c >> (8*SP_SR2)) ^ d32;
}

static int par32(uint32_t x){ x^=x>>16; x^=x>>8; x^=x>>4; x^=x>>2; x^=x>>1; return (int)(x&1U); }

/* ---------------- do_recursion ---------------- */
void w_do_recursion(uint32_t* r, uint32_t* a, uint32_t* b, uint32_t* c, uint32_t* d)
__CPROVER_requires(__CPROVER_is_fresh(a,16) && __CPROVER_is_fresh(b,16) && __CPROVER_is_fresh(c,16) && __CPROVER_is_fresh(d,16))
__CPROVER_requires(r == a || __CPROVER_is_fresh(r,16))      /* in-place use and out-of-place use */
__CPROVER_assigns(__CPROVER_object_whole(r))
__CPROVER_ensures(W(r) == rec(WOLD(a), WOLD(b), WOLD(c), WOLD(d)))
;
void h_do_recursion(void) { uint32_t *r,*a,*b,*c,*d; w_do_recursion(r,a,b,c,d); }

/* ---------------- to_res53 ---------------- */
double w_to_res53(uint64_t v)
__CPROVER_assigns()
__CPROVER_ensures(0.0 <= __CPROVER_return_value && __CPROVER_return_value <= 1.0)
/* monotone in the 53 leading bits: equals round-to-nearest of v * 2^-64 */
__CPROVER_ensures(__CPROVER_return_value == (double)((long double)v * (1.0L/18446744073709551616.0L)))
;
void h_to_res53(void) { uint64_t v; w_to_res53(v); }

/* the documented half-open range [0,1): FAILS on the pinned tree for v >= 2^64-1024
   (known finding F1a); kept as its own obligation so that it is reported by name */
double w_to_res53_lt1(uint64_t v);
void h_to_res53_lt1(void) { uint64_t v; double r = w_to_res53(v); __CPROVER_assert(r < 1.0, "to_res53 result < 1 (doc: [0,1))"); }

/* ---------------- gen_rand_all: the sequence definition ---------------- */
/* ghost index k: word k of the new state is rec(old[k], b, c, d) with
   b = k+POS1<N ? old[k+POS1] : new[k+POS1-N],
   c = k==0 ? old[N-2] : k==1 ? old[N-1] : new[k-2],
   d = k==0 ? old[N-1] : new[k-1]. */
extern int ghost_k;
void w_gen_rand_all(uint32_t* st)
__CPROVER_requires(__CPROVER_is_fresh(st, SP_N32*4))
__CPROVER_requires(0 <= ghost_k && ghost_k < SP_N)
__CPROVER_assigns(__CPROVER_object_whole(st))
__CPROVER_ensures(
  W(st+4*ghost_k) == rec(WOLD(st+4*ghost_k),
      ghost_k+SP_POS1 < SP_N ? WOLD(st+4*((ghost_k+SP_POS1)%SP_N)) : W(st+4*((ghost_k+SP_POS1)%SP_N)),
      ghost_k==0 ? WOLD(st+4*(SP_N-2)) : ghost_k==1 ? WOLD(st+4*(SP_N-1)) : W(st+4*((ghost_k+SP_N-2)%SP_N)),
      ghost_k==0 ? WOLD(st+4*(SP_N-1)) : W(st+4*((ghost_k+SP_N-1)%SP_N))))
;
int ghost_k;
void h_gen_rand_all(void) { uint32_t* st; w_gen_rand_all(st); }

/* ---------------- init_gen_rand ---------------- */
/* every word i >= from obeys the published seeding recurrence (constant-bound loop,
   concrete indices: the multiplier terms are then syntactically those of the code) */
static int seeded_from(const uint32_t* st, int from) {
  for (int i = from; i < SP_N32; i++)
    if (st[i] != (uint32_t)(1812433253UL * (st[i-1] ^ (st[i-1] >> 30)) + i)) return 0;
  return 1;
}
void w_init_gen_rand(uint32_t seed, uint32_t* st, int* idx, int* initialized)
__CPROVER_requires(__CPROVER_is_fresh(st, SP_N32*4) && __CPROVER_is_fresh(idx, sizeof(int)) && __CPROVER_is_fresh(initialized, sizeof(int)))
__CPROVER_assigns(__CPROVER_object_whole(st), *idx, *initialized)
__CPROVER_ensures(*idx == SP_N32 && *initialized == 1)
/* Knuth-style seeding recurrence, for every word i >= 4 exactly; words 0..3 may have
   one bit flipped by period certification, which is specified separately */
/* period certified: parity inner product of the first 4 words is odd */
__CPROVER_ensures(par32((st[0] & SP_PAR1) ^ (st[1] & SP_PAR2) ^ (st[2] & SP_PAR3) ^ (st[3] & SP_PAR4)) == 1)
/* words 0..3 differ from the raw recurrence by at most the lowest parity bit of word 0 */
__CPROVER_ensures((st[0] | 1U) == (seed | 1U))
__CPROVER_ensures(st[1] == (uint32_t)(1812433253U * (seed ^ (seed >> 30)) + 1U))
;
void h_init_gen_rand(void) { uint32_t seed; uint32_t* st; int *idx, *ini; w_init_gen_rand(seed, st, idx, ini); }
/* full-domain (all 2^32 seeds) loop-free harness for the clauses that do not need the
   620 multiplier equivalences */
void h_init_frame(void) {
  uint32_t seed; uint32_t st[SP_N32]; int idx, ini;
  w_init_gen_rand(seed, st, &idx, &ini);
  __CPROVER_assert(idx == SP_N32 && ini == 1, "init_gen_rand: idx==N32 and initialized==1");
  __CPROVER_assert((st[0] | 1U) == (seed | 1U), "init_gen_rand: st[0]==seed up to the certified parity bit");
  __CPROVER_assert(par32((st[0] & SP_PAR1) ^ (st[1] & SP_PAR2) ^ (st[2] & SP_PAR3) ^ (st[3] & SP_PAR4)) == 1, "init_gen_rand: period certified (parity inner product odd)");
}

/* determinism: two runs from the same seed give identical full state (2-copy) */
void h_init_deterministic(void) {
  uint32_t seed; uint32_t a[SP_N32], b[SP_N32]; int ia, ib, na, nb; int j;
  w_init_gen_rand(seed, a, &ia, &na);
  w_init_gen_rand(seed, b, &ib, &nb);
  __CPROVER_assume(0 <= j && j < SP_N32);
  __CPROVER_assert(a[j] == b[j] && ia == ib && na == nb, "init_gen_rand: state is a function of the seed alone");
}

/* ---------------- fill_array64 / gen_rand_array, size = 1024 (RandomImpl::bufferSize) ---------------- */
#define SP_BUF 1024            /* checked against Random.cpp by the driver (-DREPO_BUFSIZE) */
#define SP_SZ  (SP_BUF/2)      /* 128-bit words */
extern int ghost_a;   /* index into output, 0..SP_SZ-1 */
extern int ghost_j;   /* index into saved state, 0..N-1 */
#define OUT(k) ((uint32_t*)array + 4*(k))
void w_fill_array64(uint32_t* st, int* idx, int* initialized, uint64_t* array, int size)
__CPROVER_requires(__CPROVER_is_fresh(st, SP_N32*4) && __CPROVER_is_fresh(idx, sizeof(int)) && __CPROVER_is_fresh(initialized, sizeof(int)))
__CPROVER_requires(size == SP_BUF && __CPROVER_is_fresh(array, SP_BUF*8))
__CPROVER_requires(*initialized != 0 && *idx == SP_N32)       /* the asserts of fill_array64 */
__CPROVER_requires(0 <= ghost_a && ghost_a < SP_SZ && 0 <= ghost_j && ghost_j < SP_N)
__CPROVER_assigns(__CPROVER_object_whole(st), *idx, *initialized, __CPROVER_object_whole(array))
__CPROVER_ensures(*idx == SP_N32 && *initialized == __CPROVER_old(*initialized))
/* output word k continues the same recurrence over the concatenation old-state ++ output */
__CPROVER_ensures(
  W(OUT(ghost_a)) == rec(
      ghost_a < SP_N ? WOLD(st+4*(ghost_a%SP_N)) : W(OUT((ghost_a+SP_SZ-SP_N)%SP_SZ)),
      ghost_a+SP_POS1 < SP_N ? WOLD(st+4*((ghost_a+SP_POS1)%SP_N)) : W(OUT((ghost_a+SP_POS1+SP_SZ-SP_N)%SP_SZ)),
      ghost_a==0 ? WOLD(st+4*(SP_N-2)) : ghost_a==1 ? WOLD(st+4*(SP_N-1)) : W(OUT((ghost_a+SP_SZ-2)%SP_SZ)),
      ghost_a==0 ? WOLD(st+4*(SP_N-1)) : W(OUT((ghost_a+SP_SZ-1)%SP_SZ))))
/* saved state = last N words generated, so the next call continues the sequence */
__CPROVER_ensures(W(st+4*ghost_j) == W(OUT(SP_SZ-SP_N+ghost_j)))
;
int ghost_a, ghost_j;
void h_fill_array64(void) { uint32_t* st; int *idx, *ini; uint64_t* array; int size; w_fill_array64(st, idx, ini, array, size); }

/* ---------------- constants ---------------- */
int w_const(int);
void h_consts(void) {
  __CPROVER_assert(w_const(0) == SP_N, "N == 156 (MEXP 19937)");
  __CPROVER_assert(w_const(1) == SP_POS1, "POS1 == 122");
  __CPROVER_assert(w_const(2) == 16, "sizeof(w128_t) == 16");
  __CPROVER_assert(w_const(3) == SP_N32, "N32 == 624");
  __CPROVER_assert(SP_BUF == REPO_BUFSIZE, "spec buffer size equals RandomImpl::bufferSize");
  __CPROVER_assert(REPO_BUFSIZE % 2 == 0 && REPO_BUFSIZE >= 2*SP_N, "RandomImpl::bufferSize satisfies fill_array64's documented precondition");
}

/* The multiplication-heavy clause of init_gen_rand's postcondition: no back end here
   proves 620 chained symbolic multiplier equivalences (SAT: no answer in 10 min; z3/cvc5:
   CBMC's SMT2 output for C++ structs does not parse). BOUNDED stand-in: six concrete
   seeds (constant propagation decides it); never counted as proved. */
static const uint32_t SEEDS[6] = {0u, 1u, 1234u, 0x7fffffffu, 0x80000000u, 0xffffffffu};
void h_init_recurrence(void) {
  for (int t = 0; t < 6; t++) {
    uint32_t seed = SEEDS[t]; uint32_t st[SP_N32]; int idx, ini;
    w_init_gen_rand(seed, st, &idx, &ini);
    __CPROVER_assert(seeded_from(st, 2), "init_gen_rand: st[i] == 1812433253*(st[i-1]^(st[i-1]>>30))+i for 2<=i<624 (concrete seeds)");
    __CPROVER_assert(st[1] == (uint32_t)(1812433253UL * (seed ^ (seed >> 30)) + 1), "init_gen_rand: st[1] from seed (concrete seeds)");
    __CPROVER_assert(idx == SP_N32 && ini == 1, "init_gen_rand: idx==N32, initialized (concrete seeds)");
  }
}

/* Plain full-domain harness for fill_array64 at the size RandomImpl uses: the dfcc
   write-set instrumentation makes symbolic execution of the 512 unrolled recursion
   steps too slow, so the functional postcondition is asserted by a loop-free harness
   over all states (same clauses as the contract above; the frame is then not checked
   here but by --pointer-check/--bounds-check on the same run). */
void h_fill_array64_plain(void) {
  uint32_t st[SP_N32], st0[SP_N32]; uint64_t array[SP_BUF]; int idx = SP_N32, ini; int a, j;
  __CPROVER_assume(ini != 0);
  for (int i = 0; i < SP_N32; i++) st0[i] = st[i];
  int ini0 = ini;
  w_fill_array64(st, &idx, &ini, array, SP_BUF);
  __CPROVER_assume(0 <= a && a < SP_SZ && 0 <= j && j < SP_N);
  __CPROVER_assert(idx == SP_N32 && ini == ini0, "fill_array64: idx stays N32, initialized unchanged");
  __CPROVER_assert(
    W(OUT(a)) == rec(
      a < SP_N ? W(st0+4*(a%SP_N)) : W(OUT((a+SP_SZ-SP_N)%SP_SZ)),
      a+SP_POS1 < SP_N ? W(st0+4*((a+SP_POS1)%SP_N)) : W(OUT((a+SP_POS1+SP_SZ-SP_N)%SP_SZ)),
      a==0 ? W(st0+4*(SP_N-2)) : a==1 ? W(st0+4*(SP_N-1)) : W(OUT((a+SP_SZ-2)%SP_SZ)),
      a==0 ? W(st0+4*(SP_N-1)) : W(OUT((a+SP_SZ-1)%SP_SZ))),
    "fill_array64: output word a continues the SFMT recurrence over old-state ++ output");
  __CPROVER_assert(W(st+4*j) == W(OUT(SP_SZ-SP_N+j)), "fill_array64: saved state == last N output words");
}

/* Quick-tier part of the fill_array64 postcondition: the saved generator state equals the
   last N words produced (so the next refill continues the same stream) - a copy relation,
   cheap for SAT; the recurrence clause for the produced words stays in h_fill_array64_plain. */
void h_fill_array64_state(void) {
  uint32_t st[SP_N32]; uint64_t array[SP_BUF]; int idx = SP_N32, ini; int j;
  __CPROVER_assume(ini != 0);
  w_fill_array64(st, &idx, &ini, array, SP_BUF);
  __CPROVER_assume(0 <= j && j < SP_N);
  __CPROVER_assert(W(st+4*j) == W(OUT(SP_SZ-SP_N+j)), "fill_array64: saved state == last N output words (stream continues across refills)");
  __CPROVER_assert(idx == SP_N32 && ini != 0, "fill_array64: idx stays N32, still initialized");
}
