/* Harnesses for the Random.cpp unit (one per function under contract) + the 2-copy
   determinism lemmas. */
void h_getNextRandom(void)      { struct RandomImpl* s; getNextRandom(s); }
void h_RandomImpl_setSeed(void) { struct RandomImpl* s; int seed; RandomImpl_setSeed(s, seed); }
void h_GaussianImpl_setSeed(void){ struct RandomImpl* s; int seed; GaussianImpl_setSeed(s, seed); }
void h_UniformImpl_getValue(void){ struct RandomImpl* s; UniformImpl_getValue(s); }
void h_UniformImpl_setMin(void) { struct RandomImpl* s; Real v; UniformImpl_setMin(s, v); }
void h_UniformImpl_setMax(void) { struct RandomImpl* s; Real v; UniformImpl_setMax(s, v); }
void h_Uniform_getIntValue(void){ struct RandomImpl* s; Uniform_getIntValue(s); }
void h_GaussianImpl_getValue(void){ struct RandomImpl* s; GaussianImpl_getValue(s); }

#ifdef ORACLE_BODY
/* ---- 2-copy (self-composition) determinism lemmas --------------------------------
   R(a,b): the two objects agree on every field a later draw may read:
   nextIndex, the generator (abstract) state, and the not-yet-consumed tail of the buffer.
   L1: setSeed(s) establishes R from ARBITRARY (different) prior states  -> no history leaks.
   L2: getNextRandom preserves R and returns bit-identical values      -> by induction all
       later draws agree, for any number of draws (unbounded). */
uint64_t ORACLE[2][bufferSize];
/* abstract body matching init_gen_rand's contract (proved for the real one in sfmt.*) */
void init_gen_rand(uint32_t seed, struct SFMTData* data) {
  data->initialized = 1; data->idx = SP_N32; data->ghost_seed = seed; data->ghost_draws = 0;
}
void fill_array64(uint64_t* array, int size, struct SFMTData* data) {
  __CPROVER_assert(data->initialized != 0 && data->idx == SP_N32 && size % 2 == 0 && size >= SP_N64, "fill_array64 precondition");
  unsigned d = data->ghost_draws & 1u;
  for (int i = 0; i < size; i++) array[i] = ORACLE[d][i];
  data->ghost_draws = data->ghost_draws + 1u;
}
static int sfmt_eq(const struct SFMTData* a, const struct SFMTData* b) {
  return a->idx == b->idx && a->initialized == b->initialized && a->ghost_seed == b->ghost_seed && a->ghost_draws == b->ghost_draws;
}
void h_det_setSeed(void) {
  struct RandomImpl A, B; struct SFMTData da, db; int seed;
  A.sfmt = &da; B.sfmt = &db;           /* everything else arbitrary and different */
  RandomImpl_setSeed(&A, seed); RandomImpl_setSeed(&B, seed);
  __CPROVER_assert(A.nextIndex == B.nextIndex && A.nextIndex >= bufferSize, "L1: after setSeed the buffer is dead in both copies");
  __CPROVER_assert(sfmt_eq(&da, &db), "L1: after setSeed the generator state is a function of the seed");
}
void h_det_GaussianSetSeed(void) {
  struct RandomImpl A, B; struct SFMTData da, db; int seed;
  A.sfmt = &da; B.sfmt = &db;
  GaussianImpl_setSeed(&A, seed); GaussianImpl_setSeed(&B, seed);
  __CPROVER_assert(A.nextIndex == B.nextIndex && A.nextIndex >= bufferSize && sfmt_eq(&da, &db), "L1g: generator part reset");
  __CPROVER_assert(A.nextGaussianIsValid == 0 && B.nextGaussianIsValid == 0, "L1g: cached deviate dropped by setSeed");
}
void h_det_next(void) {
  struct RandomImpl A, B; struct SFMTData da, db; int k;
  A.sfmt = &da; B.sfmt = &db;
  __CPROVER_assume(WF_IMPL(&A) && WF_SFMT(&da));
  __CPROVER_assume(A.nextIndex == B.nextIndex && sfmt_eq(&da, &db));
  for (int i = 0; i < bufferSize; i++) __CPROVER_assume(i < A.nextIndex || A.buffer[i] == B.buffer[i]);
  Real ra = getNextRandom(&A), rb = getNextRandom(&B);
  __CPROVER_assert(ra == rb, "L2: equal draws");
  __CPROVER_assert(A.nextIndex == B.nextIndex && sfmt_eq(&da, &db), "L2: R preserved (index, generator)");
  __CPROVER_assume(0 <= k && k < bufferSize);
  __CPROVER_assert(k < A.nextIndex || A.buffer[k] == B.buffer[k], "L2: R preserved (unconsumed buffer tail)");
}
#endif
