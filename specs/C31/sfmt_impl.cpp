/* Route M1: the real SFMT.cpp is #included unmodified (path given by -DSFMT_CPP);
   only extern "C" wrappers with scalar / uint32_t* parameters are added so that
   contracts written in sfmt_spec.c attach to them. The wrappers construct a real
   SFMTData (its constructor runs), copy the 624 state words in and out, and call
   the real function. */
#include SFMT_CPP
using namespace SimTK_SFMT;
extern "C" {
void w_do_recursion(uint32_t* r, uint32_t* a, uint32_t* b, uint32_t* c, uint32_t* d)
{ do_recursion((w128_t*)r,(w128_t*)a,(w128_t*)b,(w128_t*)c,(w128_t*)d); }

double w_to_res53(uint64_t v) { return to_res53(v); }

int w_const(int which) {
  switch (which) { case 0: return N; case 1: return POS1; case 2: return (int)sizeof(w128_t);
                   case 3: return N32; case 4: return N64; default: return -1; }
}

/* state in/out helpers (constant-bound loops, fully unwound) */
static void st_in(SFMTData& d, const uint32_t* st, int idx, int initialized) {
  for (int i = 0; i < N32; i++) d.psfmt32[i] = st[i];
  d.idx = idx; d.initialized = initialized;
}
static void st_out(SFMTData& d, uint32_t* st, int* idx, int* initialized) {
  for (int i = 0; i < N32; i++) st[i] = d.psfmt32[i];
  *idx = d.idx; *initialized = d.initialized;
}

void w_gen_rand_all(uint32_t* st) {
  SFMTData d; int idx, ini; st_in(d, st, N32, 1);
  gen_rand_all(d);
  st_out(d, st, &idx, &ini);
}

void w_fill_array64(uint32_t* st, int* idx, int* initialized, uint64_t* array, int size) {
  SFMTData d; st_in(d, st, *idx, *initialized);
  fill_array64(array, size, d);
  st_out(d, st, idx, initialized);
}

void w_init_gen_rand(uint32_t seed, uint32_t* st, int* idx, int* initialized) {
  SFMTData d;                      /* constructor: initialized=0, parity[] */
  init_gen_rand(seed, d);
  st_out(d, st, idx, initialized);
}

void w_period_certification(uint32_t* st) {
  SFMTData d; int idx, ini; st_in(d, st, N32, 0);
  period_certification(d);
  st_out(d, st, &idx, &ini);
}

uint64_t w_gen_rand64(uint32_t* st, int* idx, int* initialized) {
  SFMTData d; st_in(d, st, *idx, *initialized);
  uint64_t r = gen_rand64(d);
  st_out(d, st, idx, initialized);
  return r;
}
}
