/* Contracts for the character-level functions cut from String.cpp (C32). */
#define WF_CSTR(s) ((s)->len >= 0 && (s)->len < 2147483647)
#define SP(c) vf_isspace((unsigned char)(c))

/* ---- static String String::trimWhiteSpace(const std::string& in) ----
   result = in[first, last] where first/last are the first/last non-blank positions; everything
   dropped is blank; empty if in is all blank. (Result is a view: data = in->data + first.) */
struct CStr String_trimWhiteSpace_s(const struct CStr* in)
__CPROVER_requires(__CPROVER_is_fresh(in, sizeof(*in)) && WF_CSTR(in))
__CPROVER_requires(__CPROVER_is_fresh(in->data, in->len + 1))   /* std::string keeps data[size()] readable */
__CPROVER_assigns()
__CPROVER_ensures(0 <= __CPROVER_return_value.len && __CPROVER_return_value.len <= in->len)
/* it is a contiguous piece of the input (or the empty String()) ... */
__CPROVER_ensures(__CPROVER_return_value.len == 0 ==> __CPROVER_return_value.data == cs_empty_buf)
__CPROVER_ensures(__CPROVER_return_value.len > 0 ==> (__CPROVER_same_object(__CPROVER_return_value.data, in->data)
                  && __CPROVER_POINTER_OFFSET(__CPROVER_return_value.data) >= 0
                  && __CPROVER_POINTER_OFFSET(__CPROVER_return_value.data) + __CPROVER_return_value.len <= in->len))
/* no leading / trailing blank */
__CPROVER_ensures(__CPROVER_return_value.len > 0 ==> (!SP(__CPROVER_return_value.data[0]) && !SP(__CPROVER_return_value.data[__CPROVER_return_value.len - 1])))
/* ... and only blanks were dropped in front of it and behind it */
__CPROVER_ensures((__CPROVER_return_value.len > 0 && 0 <= gk_lead && gk_lead < in->len && gk_lead < (int)__CPROVER_POINTER_OFFSET(__CPROVER_return_value.data)) ==> SP(in->data[gk_lead]))
__CPROVER_ensures((__CPROVER_return_value.len > 0 && 0 <= gk_trail && gk_trail < in->len && gk_trail >= (int)__CPROVER_POINTER_OFFSET(__CPROVER_return_value.data) + __CPROVER_return_value.len) ==> SP(in->data[gk_trail]))
__CPROVER_ensures((__CPROVER_return_value.len == 0 && 0 <= gk_lead && gk_lead < in->len) ==> SP(in->data[gk_lead]))
;

/* ---- String& String::toLower() ---- */
struct CStr* String_toLower(struct CStr* self)
__CPROVER_requires(__CPROVER_is_fresh(self, sizeof(*self)) && WF_CSTR(self))
__CPROVER_requires(__CPROVER_is_fresh(self->data, self->len + 1))
__CPROVER_requires(0 <= gk_idx)
__CPROVER_assigns(__CPROVER_object_whole(self->data))
__CPROVER_ensures(__CPROVER_return_value == self && self->len == __CPROVER_old(self->len) && self->data == __CPROVER_old(self->data))
__CPROVER_ensures(gk_idx < self->len ==> self->data[gk_idx] == (char)vf_tolower(__CPROVER_old(self->data[gk_idx < self->len ? gk_idx : self->len])))
;

/* ---- String& String::trimWhiteSpace()  (in place) ---- */
struct CStr* String_trimWhiteSpace_m(struct CStr* self)
__CPROVER_requires(__CPROVER_is_fresh(self, sizeof(*self)) && WF_CSTR(self))
__CPROVER_requires(__CPROVER_is_fresh(self->data, self->len + 1))
__CPROVER_assigns(*self)
__CPROVER_ensures(__CPROVER_return_value == self && 0 <= self->len && self->len <= __CPROVER_old(self->len))
__CPROVER_ensures(self->len == 0 ==> self->data == cs_empty_buf)
__CPROVER_ensures(self->len > 0 ==> (__CPROVER_same_object(self->data, __CPROVER_old(self->data))
                  && __CPROVER_POINTER_OFFSET(self->data) >= 0
                  && __CPROVER_POINTER_OFFSET(self->data) + self->len <= __CPROVER_old(self->len)))
__CPROVER_ensures(self->len > 0 ==> (!SP(self->data[0]) && !SP(self->data[self->len - 1])))
;

/* ---- static String cleanUp(const String& in) : trimmed and lower-cased ---- */
struct CStr cleanUp(const struct CStr* in)
__CPROVER_requires(__CPROVER_is_fresh(in, sizeof(*in)) && WF_CSTR(in))
__CPROVER_requires(__CPROVER_is_fresh(in->data, in->len + 1))   /* std::string keeps data[size()] readable */
__CPROVER_requires(0 <= gk_idx)
__CPROVER_assigns()
__CPROVER_ensures(0 <= __CPROVER_return_value.len && __CPROVER_return_value.len <= in->len)
/* no leading/trailing blank */
__CPROVER_ensures((gk_idx < __CPROVER_return_value.len && (gk_idx == 0 || gk_idx == __CPROVER_return_value.len - 1))
                  ==> !SP(__CPROVER_return_value.data[gk_idx]))
/* no upper-case letter anywhere */
__CPROVER_ensures(gk_idx < __CPROVER_return_value.len ==> !vf_isupper(__CPROVER_return_value.data[gk_idx]))
;
