/* Character-level model for String::trimWhiteSpace / toLower / cleanUp (C32).
   A String's text is a byte buffer with a length (any length; loops get loop contracts).
   Assumed contracts on std::string (listed in the evidence): size(), operator[] (bounds
   asserted), the substring constructor, the default constructor, copy construction. */
#include <stdbool.h>
struct CStr { char* data; int len; };

/* ghost indices (universally quantified through the harness) */
extern int gk_lead, gk_trail, gk_idx;

static int cs_size(const struct CStr* s) { return s->len; }
static char cs_at(const struct CStr* s, int i) {
  __CPROVER_assert(0 <= i && i < s->len, "std::string::operator[] index in range");
  return s->data[i];
}
/* <cctype> in the C locale (assumed tables) */
#define VF_ISSPACE(c) ((c) == ' ' || ((c) >= 9 && (c) <= 13))
#define VF_TOLOWER(c) (((c) >= 'A' && (c) <= 'Z') ? (c) + ('a' - 'A') : (c))
static int vf_isspace(int c) { return VF_ISSPACE(c); }
static int vf_tolower(int c) { return VF_TOLOWER(c); }
static int vf_isupper(int c) { return c >= 'A' && c <= 'Z'; }

/* String(): empty text */
static char cs_empty_buf[1];   /* std::string() owns a readable terminator */
static struct CStr cs_empty(void) { struct CStr r; r.data = cs_empty_buf; r.len = 0; return r; }
/* String(in, pos, n): the text in[pos, pos+n). Modelled as a view on the source characters:
   storage identity is abstracted, the characters are exactly those of the source range. */
static struct CStr cs_substr(const struct CStr* in, int pos, int n) {
  __CPROVER_assert(0 <= pos && pos <= in->len, "std::string(str,pos,n): pos <= size (else out_of_range)");
  __CPROVER_assert(0 <= n && n <= in->len - pos, "std::string(str,pos,n): n within the source (no clipping relied upon)");
  struct CStr r; r.data = in->data + pos; r.len = n; return r;
}
/* String(in): a copy with its own storage (std::string copy constructor, assumed) */
#include <stdlib.h>
#include <string.h>
static void cs_copy(struct CStr* out, const struct CStr* in) {
  __CPROVER_assert(in->len >= 0, "length");
  out->data = malloc((unsigned long)in->len + 1);
  __CPROVER_assume(out->data != 0);
  memcpy(out->data, in->data, (unsigned long)in->len + 1);
  out->len = in->len;
}
