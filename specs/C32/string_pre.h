/* Prelude for the M2 unit cut from SimTKcommon/src/String.cpp and String.h (C32,
   clause "conversion from text succeeds exactly for strings that denote a value of the
   requested type apart from surrounding white space, and fails otherwise").

   Abstraction: the text of a SimTK::String is not modelled character by character in this
   unit (that is done for cleanUp/trimWhiteSpace/toLower in string_chars_*.h). A String
   carries GHOST attributes classifying its text w.r.t. the grammar that
   std::istream::operator>>(T&) accepts for the requested type T:

     lit            which special literal the trimmed, lower-cased text equals (LIT_NONE if none)
     clean          1 iff the text has been trimmed and lower-cased (result of cleanUp)
     hasValidPrefix after skipping leading white space, a non-empty prefix of the text is a
                    valid T literal (operator>> consumes the longest such prefix)
     consumedAll    that longest prefix reaches the end of the text
     restIsBlank    what follows that prefix is empty or white space only
     numval         the value the prefix denotes (double stands for T)

   std::istringstream is replaced by struct IStream with CONTRACTED operations; that contract
   is an ASSUMED contract on libstdc++ (listed with ctx.assume in checks/c32.py). */
#include <stdbool.h>
#include <math.h>

enum { LIT_UNKNOWN = -1, LIT_NONE = 0, LIT_TRUE, LIT_FALSE, LIT_NAN, LIT_INF, LIT_INFINITY,
       LIT_PINF, LIT_PINFINITY, LIT_MINF, LIT_MINFINITY, LIT__COUNT };

struct String {
  int  lit;
  bool clean;
  bool hasValidPrefix, consumedAll, restIsBlank;
  double numval;
};
/* type invariant of the ghost attributes */
#define WF_STRING(s) (LIT_NONE <= (s)->lit && (s)->lit < LIT__COUNT \
                      && (!(s)->consumedAll || (s)->restIsBlank) \
                      && !__CPROVER_isnand((s)->numval))

/* spec helper: identify a C string literal used by the code with its LIT_ id
   (constant strings only; constant-bound loops) */
static int lit_streq(const char* a, const char* b) {
  for (int i = 0; i < 12; i++) { if (a[i] != b[i]) return 0; if (a[i] == 0) return 1; }
  return 0;
}
static int lit_id(const char* l) {
  if (lit_streq(l, "true")) return LIT_TRUE;
  if (lit_streq(l, "false")) return LIT_FALSE;
  if (lit_streq(l, "nan")) return LIT_NAN;
  if (lit_streq(l, "inf")) return LIT_INF;
  if (lit_streq(l, "infinity")) return LIT_INFINITY;
  if (lit_streq(l, "+inf")) return LIT_PINF;
  if (lit_streq(l, "+infinity")) return LIT_PINFINITY;
  if (lit_streq(l, "-inf")) return LIT_MINF;
  if (lit_streq(l, "-infinity")) return LIT_MINFINITY;
  return LIT_UNKNOWN;
}

/* ---- std::string operator==(const std::string&, const char*)  [assumed] ----
   only decided by the ghost classification on a cleaned string */
bool str_eq_lit(const struct String* s, const char* l)
__CPROVER_requires(__CPROVER_r_ok(s, sizeof(*s)) && s->clean)
__CPROVER_requires(lit_id(l) != LIT_UNKNOWN)
__CPROVER_assigns()
__CPROVER_ensures(__CPROVER_return_value == (s->lit == lit_id(l)))
;

/* ---- abstract std::istringstream  [assumed contract on libstdc++] ---- */
struct IStream { const struct String* src; bool failbit, eofbit; int phase; };

/* std::istringstream sstream(str): good state, positioned at the start */
void iss_init(struct IStream* s, const struct String* str)
__CPROVER_requires(__CPROVER_rw_ok(s, sizeof(*s)) && __CPROVER_r_ok(str, sizeof(*str)))
__CPROVER_assigns(*s)
__CPROVER_ensures(s->src == str && !s->failbit && !s->eofbit && s->phase == 0)
;
/* sstream >> out  (formatted extraction; skips leading white space, consumes the longest
   valid prefix; failbit iff there is none; eofbit only if the end of the text was reached) */
#define ISS_EXTRACT_CONTRACT(OUT_OK) \
__CPROVER_requires(__CPROVER_rw_ok(s, sizeof(*s)) && __CPROVER_r_ok(s->src, sizeof(struct String))) \
__CPROVER_requires(__CPROVER_rw_ok(out, sizeof(*out))) \
__CPROVER_requires(s->phase == 0 && !s->failbit && !s->eofbit) \
__CPROVER_assigns(s->failbit, s->eofbit, s->phase, *out) \
__CPROVER_ensures(s->phase == 1) \
__CPROVER_ensures(s->failbit == !s->src->hasValidPrefix) \
__CPROVER_ensures((!s->failbit && s->eofbit) ==> s->src->consumedAll) \
__CPROVER_ensures(s->src->hasValidPrefix ==> (OUT_OK))

void iss_extract_double(struct IStream* s, double* out)
ISS_EXTRACT_CONTRACT(*out == s->src->numval);
void iss_extract_float(struct IStream* s, float* out)
ISS_EXTRACT_CONTRACT(*out == (float)s->src->numval);
/* bool without boolalpha: "0" / "1" only */
void iss_extract_bool(struct IStream* s, bool* out)
ISS_EXTRACT_CONTRACT(*out == (s->src->numval != 0.0));
/* generic T (tryConvertStringTo<T>): T is opaque, stands for int, long, Vec3, ... */
struct TVal { double v; };
void iss_extract_T(struct IStream* s, struct TVal* out)
ISS_EXTRACT_CONTRACT(out->v == s->src->numval);

/* sstream.fail(), sstream.eof(): plain state queries */
static bool iss_fail(const struct IStream* s) { return s->failbit; }
static bool iss_eof(const struct IStream* s)  { return s->eofbit; }

/* std::ws(sstream): skips white space; sets eofbit iff it runs into the end of the text.
   (C++11: the sentry of ws sets failbit if eofbit was already set.) */
void iss_ws(struct IStream* s)
__CPROVER_requires(__CPROVER_rw_ok(s, sizeof(*s)) && __CPROVER_r_ok(s->src, sizeof(struct String)))
__CPROVER_requires(s->phase == 1 && !s->failbit)
__CPROVER_assigns(s->failbit, s->eofbit, s->phase)
__CPROVER_ensures(s->phase == 2)
__CPROVER_ensures(s->failbit == __CPROVER_old(s->eofbit))
__CPROVER_ensures(s->eofbit == (__CPROVER_old(s->eofbit) || s->src->consumedAll || s->src->restIsBlank))
;

/* ---- NTraits<T>::getNaN()/getInfinity()  [assumed: numeric_limits values] ---- */
double NTraits_double_getNaN(void)      __CPROVER_assigns() __CPROVER_ensures(__CPROVER_isnand(__CPROVER_return_value));
double NTraits_double_getInfinity(void) __CPROVER_assigns() __CPROVER_ensures(__CPROVER_isinfd(__CPROVER_return_value) && __CPROVER_return_value > 0);
float  NTraits_float_getNaN(void)       __CPROVER_assigns() __CPROVER_ensures(__CPROVER_isnanf(__CPROVER_return_value));
float  NTraits_float_getInfinity(void)  __CPROVER_assigns() __CPROVER_ensures(__CPROVER_isinff(__CPROVER_return_value) && __CPROVER_return_value > 0);
