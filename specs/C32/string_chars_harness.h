/* Harnesses for the character-level unit. */
int gk_lead, gk_trail, gk_idx;
void h_trimWhiteSpace_s(void) { const struct CStr* in; String_trimWhiteSpace_s(in); }
void h_toLower(void)          { struct CStr* s; String_toLower(s); }
void h_trimWhiteSpace_m(void) { struct CStr* s; String_trimWhiteSpace_m(s); }
void h_cleanUp(void)          { const struct CStr* in; cleanUp(in); }
