/* Harnesses for the character-level unit. */
int gk_lead, gk_trail, gk_idx;
int nondet_int(void);
/* ghost indices are universally quantified: havoc them (file-scope objects start at 0 otherwise) */
static void havoc_ghosts(void) { gk_lead = nondet_int(); gk_trail = nondet_int(); gk_idx = nondet_int(); }
void h_trimWhiteSpace_s(void) { const struct CStr* in; havoc_ghosts(); String_trimWhiteSpace_s(in); }
void h_toLower(void)          { struct CStr* s; havoc_ghosts(); String_toLower(s); }
void h_trimWhiteSpace_m(void) { struct CStr* s; havoc_ghosts(); String_trimWhiteSpace_m(s); }
void h_cleanUp(void)          { const struct CStr* in; havoc_ghosts(); cleanUp(in); }
