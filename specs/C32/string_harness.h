/* Harnesses for the String conversion unit (one per function under contract). */
void h_tryConvertToBool(void)   { const struct String* s; bool* o;   String_tryConvertToBool(s, o); }
void h_tryConvertToFloat(void)  { const struct String* s; float* o;  String_tryConvertToFloat(s, o); }
void h_tryConvertToDouble(void) { const struct String* s; double* o; String_tryConvertToDouble(s, o); }
void h_tryConvertStringTo_T(void){ const struct String* s; struct TVal* o; tryConvertStringTo_T(s, o); }
#ifdef HAVE_consumedWholeString
void h_consumedWholeString(void){ struct IStream* s; consumedWholeString(s); }
#endif

/* reachability covers behind the preconditions (vacuity guard): each interesting class of
   input text must be admitted by WF_STRING */
void h_cover(void) {
  struct String s;
  __CPROVER_assume(WF_STRING(&s));
  if (s.lit == LIT_NAN) __CPROVER_cover(1);
  if (s.lit == LIT_NONE && s.hasValidPrefix && s.consumedAll) __CPROVER_cover(1);        /* "1.5"    */
  if (s.lit == LIT_NONE && s.hasValidPrefix && !s.consumedAll && !s.restIsBlank) __CPROVER_cover(1); /* "1.5abc" */
  if (s.lit == LIT_NONE && s.hasValidPrefix && !s.consumedAll && s.restIsBlank) __CPROVER_cover(1);  /* "1.5  " (generic) */
  if (s.lit == LIT_NONE && !s.hasValidPrefix) __CPROVER_cover(1);                         /* "abc"    */
}
