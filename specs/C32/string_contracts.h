/* Contracts on the functions cut from String.cpp / String.h (C32).
   Postconditions are taken from the property statement and the documentation of
   tryConvertToBool/Float/Double ("Recognizes NaN, [-]Inf, [-]Infinity (in any case) as well as
   whatever operator>>() accepts. Returns false if the contents of this String, ignoring leading
   and trailing whitespace, can't be interpreted as a ..."):
        succeeds  <==>  text is a special literal  ||  (valid prefix && nothing but blanks follow)  */

#define ACCEPTS(s)   ((s)->hasValidPrefix && ((s)->consumedAll || (s)->restIsBlank))
#define IS_INF_LIT(l)  ((l) == LIT_INF || (l) == LIT_INFINITY || (l) == LIT_PINF || (l) == LIT_PINFINITY)
#define IS_MINF_LIT(l) ((l) == LIT_MINF || (l) == LIT_MINFINITY)
#define IS_FP_LIT(l)   ((l) == LIT_NAN || IS_INF_LIT(l) || IS_MINF_LIT(l))
#define IS_BOOL_LIT(l) ((l) == LIT_TRUE || (l) == LIT_FALSE)

/* cleanUp at this level of abstraction: trimming + lower-casing does not change the
   classification (it is defined on the trimmed lower-cased text), removes trailing blanks
   (so "rest is blank" becomes "rest is empty"), and yields a clean string. The character-level
   facts (no leading/trailing blank, no upper-case letter, frame) are proved on the real
   trimWhiteSpace/toLower/cleanUp text in units string.chars.*. */
struct String cleanUp(const struct String* in)
__CPROVER_requires(__CPROVER_r_ok(in, sizeof(*in)) && WF_STRING(in))
__CPROVER_assigns()
__CPROVER_ensures(__CPROVER_return_value.clean)
__CPROVER_ensures(__CPROVER_return_value.lit == in->lit && __CPROVER_return_value.numval == in->numval)
__CPROVER_ensures(__CPROVER_return_value.hasValidPrefix == in->hasValidPrefix)
__CPROVER_ensures(__CPROVER_return_value.consumedAll == (in->consumedAll || in->restIsBlank))
__CPROVER_ensures(__CPROVER_return_value.restIsBlank == (in->consumedAll || in->restIsBlank))
;

/* ---- consumedWholeString (String.cpp; added by fix 96c7bb91) ---- */
bool consumedWholeString(struct IStream* sstream)
__CPROVER_requires(__CPROVER_is_fresh(sstream, sizeof(*sstream)) && __CPROVER_is_fresh(sstream->src, sizeof(struct String)))
__CPROVER_requires(WF_STRING(sstream->src))
/* stream state right after one formatted extraction */
__CPROVER_requires(sstream->phase == 1 && sstream->failbit == !sstream->src->hasValidPrefix)
__CPROVER_requires((!sstream->failbit && sstream->eofbit) ==> sstream->src->consumedAll)
__CPROVER_assigns(sstream->failbit, sstream->eofbit, sstream->phase)
__CPROVER_ensures(__CPROVER_return_value == ACCEPTS(sstream->src))
;

/* ---- String::tryConvertToBool ---- */
bool String_tryConvertToBool(const struct String* self, bool* out)
__CPROVER_requires(__CPROVER_is_fresh(self, sizeof(*self)) && __CPROVER_is_fresh(out, sizeof(*out)) && WF_STRING(self))
__CPROVER_assigns(*out)
/* 1: succeeds only for valid literals */
__CPROVER_ensures(__CPROVER_return_value ==> (IS_BOOL_LIT(self->lit) || ACCEPTS(self)))
/* 2: succeeds for every valid literal */
__CPROVER_ensures((self->hasValidPrefix && self->consumedAll) ==> __CPROVER_return_value)
__CPROVER_ensures((IS_BOOL_LIT(self->lit) || ACCEPTS(self)) ==> __CPROVER_return_value)
/* 3: the value */
__CPROVER_ensures(self->lit == LIT_TRUE ==> *out == 1)
__CPROVER_ensures(self->lit == LIT_FALSE ==> *out == 0)
__CPROVER_ensures((!IS_BOOL_LIT(self->lit) && __CPROVER_return_value) ==> *out == (self->numval != 0.0))
;

/* ---- String::tryConvertToFloat ---- */
bool String_tryConvertToFloat(const struct String* self, float* out)
__CPROVER_requires(__CPROVER_is_fresh(self, sizeof(*self)) && __CPROVER_is_fresh(out, sizeof(*out)) && WF_STRING(self))
__CPROVER_assigns(*out)
__CPROVER_ensures(__CPROVER_return_value ==> (IS_FP_LIT(self->lit) || ACCEPTS(self)))
__CPROVER_ensures((self->hasValidPrefix && self->consumedAll) ==> __CPROVER_return_value)
__CPROVER_ensures((IS_FP_LIT(self->lit) || ACCEPTS(self)) ==> __CPROVER_return_value)
__CPROVER_ensures(self->lit == LIT_NAN ==> __CPROVER_isnanf(*out))
__CPROVER_ensures(IS_INF_LIT(self->lit) ==> (__CPROVER_isinff(*out) && *out > 0))
__CPROVER_ensures(IS_MINF_LIT(self->lit) ==> (__CPROVER_isinff(*out) && *out < 0))
__CPROVER_ensures((!IS_FP_LIT(self->lit) && __CPROVER_return_value) ==> *out == (float)self->numval)
;

/* ---- String::tryConvertToDouble ---- */
bool String_tryConvertToDouble(const struct String* self, double* out)
__CPROVER_requires(__CPROVER_is_fresh(self, sizeof(*self)) && __CPROVER_is_fresh(out, sizeof(*out)) && WF_STRING(self))
__CPROVER_assigns(*out)
__CPROVER_ensures(__CPROVER_return_value ==> (IS_FP_LIT(self->lit) || ACCEPTS(self)))
__CPROVER_ensures((self->hasValidPrefix && self->consumedAll) ==> __CPROVER_return_value)
__CPROVER_ensures((IS_FP_LIT(self->lit) || ACCEPTS(self)) ==> __CPROVER_return_value)
__CPROVER_ensures(self->lit == LIT_NAN ==> __CPROVER_isnand(*out))
__CPROVER_ensures(IS_INF_LIT(self->lit) ==> (__CPROVER_isinfd(*out) && *out > 0))
__CPROVER_ensures(IS_MINF_LIT(self->lit) ==> (__CPROVER_isinfd(*out) && *out < 0))
__CPROVER_ensures((!IS_FP_LIT(self->lit) && __CPROVER_return_value) ==> *out == self->numval)
;

/* ---- generic tryConvertStringTo<T> (String.h): no cleanUp, no special literals ---- */
bool tryConvertStringTo_T(const struct String* value, struct TVal* out)
__CPROVER_requires(__CPROVER_is_fresh(value, sizeof(*value)) && __CPROVER_is_fresh(out, sizeof(*out)) && WF_STRING(value))
__CPROVER_assigns(*out)
__CPROVER_ensures(__CPROVER_return_value ==> ACCEPTS(value))
__CPROVER_ensures((value->hasValidPrefix && value->consumedAll) ==> __CPROVER_return_value)
__CPROVER_ensures(ACCEPTS(value) ==> __CPROVER_return_value)
__CPROVER_ensures(__CPROVER_return_value ==> out->v == value->numval)
;
