/* C25 helper part: glue that the cut code refers to (loop contract of resizeKeep_, ghost hook, view storage). */
int nondet_int(void);
bool nondet_bool(void);

#define VF_ASSERT(c) __CPROVER_assert(c, "assert() of the real code")

struct EltBlock { int row0, col0, nr, nc; };

/* new This(*this): member-wise copy (assumed contract of cloneHelper_) */
static struct Helper vf_clone_obj;
static struct Helper* vf_cloneHelper(const struct Helper* self) { vf_clone_obj = *self; return &vf_clone_obj; }

/* new T<S>(...): storage for a view object; its dynamic type is recorded */
enum { VIEW_NONE = 0, VIEW_ColElt, VIEW_ColScalar, VIEW_RowElt, VIEW_RowScalar };
static struct Helper vf_view_obj;
static int g_view_kind;
static struct Helper* vf_new_view(int kind) { g_view_kind = kind; return &vf_view_obj; }

/* ---- resizeKeep_: ghost description of the call, set by the harness ---- */
struct RKGhost {
    int  esz;
    int  old_nfast, old_nslow, old_ld;   /* old dimensions in storage terms (column order: fast = rows) */
    int  new_nfast, new_nslow;           /* requested dimensions in storage terms */
    long new_ld;                         /* new_nfast * esz */
    int  fastc, slowc;                   /* min(new,old) per direction: what has to be kept */
    bool has_g;                          /* an observed kept element exists */
    int  gf, gsl, gs;                    /* its fast index, slow index, scalar within the element */
    long g_newoff;                       /* its scalar offset in the new allocation */
    S    g_oldval;                       /* its payload on entry */
} G;

/* guarded lemma instances (no obligation: outside their hypotheses they say nothing) */
#define G_LE(a, b, c) do { if (0 <= (a) && (a) <= (b) && (c) >= 0) L_le(a, b, c); } while (0)
#define G_LT(a, b, c) do { if (0 <= (a) && (a) < (b) && (c) >= 0) L_lt(a, b, c); } while (0)

/* ghost hook at the start of the loop body; v is the loop counter (the slow index) */
#define HELPER_RK_HOOK(v) do { \
        G_LE(v, G.old_nslow - 1, G.old_ld);      /* source line starts inside the old allocation */ \
        G_LT(v, G.new_nslow, G.new_ld);          /* destination line ends inside the new allocation */ \
        if (G.has_g) { G_LT(v, G.gsl, G.new_ld); G_LT(G.gsl, v, G.new_ld); }   /* other lines do not touch the observed cell */ \
    } while (0)

/* loop contract (textual base / havoc / step, see tools: _help_c18.loop_to_induction).  The loop's locals
 * colsToCopy/rowsToCopy/newData are the REAL names; the bound of the counter is the one for the slow direction. */
#define RK_SLOWC (G.slowc)
#define RK_INV(v) (0 <= (v) && (v) <= RK_SLOWC && (!G.has_g || G.gsl >= (v) || *g_obs == G.g_oldval))
#ifndef HELPER_BOUNDED
#define VF_LOOP_HEAD_RK(v) \
    __CPROVER_assert(RK_INV(v), "resizeKeep_ loop invariant (base): 0 <= counter <= lines to keep; observed kept element already copied if its line is done"); \
    v = nondet_int(); if (newData) __CPROVER_havoc_object(newData); \
    __CPROVER_assume(RK_INV(v)); \
    int vf_entry_##v = v;
#define VF_LOOP_STEP_RK(v) \
    __CPROVER_assert(RK_INV(v), "resizeKeep_ loop invariant (step): preserved by one line copy"); \
    __CPROVER_assert(v > vf_entry_##v, "resizeKeep_ loop: counter increases (termination)"); \
    __CPROVER_assume(0);
#endif
