/* C25 helper part: model prelude for the storage-index kernel of SimTKcommon/BigMatrix/src/MatrixHelperRep_Full.h.
 *
 * A helper object (FullColOrderEltHelper / FullColOrderScalarHelper / FullRowOrderEltHelper / FullRowOrderScalarHelper)
 * is the struct below: the members the cut code mentions under their REAL names, plus a_nrow/a_ncol for
 * m_actual.nrow()/ncol().  A scalar S is an abstract payload tag (int); only its identity is observed.
 *
 * INDEX PRODUCTS.  No SAT back end decides the products of two symbolic 32/64-bit integers occurring in the index
 * arithmetic (probed: > 120 s for a single in-bounds obligation).  In the unbounded units every index product of the
 * cut code (logged rewrite rule) and of the specification is the uninterpreted function vf_imul (functional
 * consistency only); what is known about it comes exclusively from the lemma calls below, each of which is a theorem
 * of integer multiplication (proved separately by z3 over the mathematical integers: obligations helper.lemmas:*).
 * With -DHELPER_BOUNDED vf_imul IS the 64-bit product and every lemma is an ASSERTION. */
#include <stddef.h>
#include <stdlib.h>
#include <stdbool.h>

typedef int S;

#ifdef HELPER_BOUNDED
/* the real product; operands of the bounded model are small (obligation), which lets the bit-blaster drop the high partial products */
static long vf_imul_small(long a, long b) {
    __CPROVER_assert(0 <= a && a <= 255 && 0 <= b && b <= 255, "bounded model: index-product operands within 0..255");
    return (long)((int)(unsigned char)a * (int)(unsigned char)b);
}
#define vf_imul(a, b) vf_imul_small((long)(a), (long)(b))
#define VF_LEMMA(c, text) __CPROVER_assert(c, "lemma checked (bounded unit): " text)
#else
long __CPROVER_uninterpreted_imul(long a, long b);
#define vf_imul(a, b) __CPROVER_uninterpreted_imul((long)(a), (long)(b))
#define VF_LEMMA(c, text) __CPROVER_assume(c)
#endif

#define HELPER_BIG (1L << 40) /* type invariant: any allocation has fewer than 2^40 scalars */

struct Helper {
    S*   m_data;
    int  m_leadingDim;   /* in scalars */
    int  m_eltSize;
    int  m_cppEltSize;
    bool m_owner;
    bool m_writable;
    int  a_nrow, a_ncol; /* m_actual.nrow(), m_actual.ncol() */
};

static inline int vf_min_int(int a, int b) { return b < a ? b : a; }

/* ---- lemmas of integer multiplication (hypotheses are obligations at every use) ---- */
static void L_nonneg(long a, long c) {
    __CPROVER_assert(a >= 0 && c >= 0, "lemma hypothesis: a>=0, c>=0");
    VF_LEMMA(vf_imul(a, c) >= 0 && vf_imul(c, a) >= 0, "a*c >= 0");
}
static void L_lt(long a, long b, long c) { /* 0<=a<b, c>=0  ==>  0 <= a*c  and  a*c + c <= b*c */
    __CPROVER_assert(0 <= a && a < b && c >= 0, "lemma hypothesis: 0<=a<b, c>=0");
    VF_LEMMA(vf_imul(a, c) >= 0 && vf_imul(b, c) >= 0 && vf_imul(a, c) <= vf_imul(b, c) - c, "0 <= a*c <= b*c - c");
}
static void L_le(long a, long b, long c) { /* 0<=a<=b, c>=0  ==>  0 <= a*c <= b*c */
    __CPROVER_assert(0 <= a && a <= b && c >= 0, "lemma hypothesis: 0<=a<=b, c>=0");
    VF_LEMMA(vf_imul(a, c) >= 0 && vf_imul(a, c) <= vf_imul(b, c), "a*c <= b*c");
}
static void L_le2(long a, long c, long d) { /* a>=0, 0<=c<=d  ==>  0 <= a*c <= a*d */
    __CPROVER_assert(a >= 0 && 0 <= c && c <= d, "lemma hypothesis: a>=0, 0<=c<=d");
    VF_LEMMA(vf_imul(a, c) >= 0 && vf_imul(a, c) <= vf_imul(a, d), "a*c <= a*d");
}
static void L_unit(long c) { /* 0*c == 0, 1*c == c, c*1 == c, c*0 == 0 */
    VF_LEMMA(vf_imul(0, c) == 0 && vf_imul(1, c) == c && vf_imul(c, 1) == c && vf_imul(c, 0) == 0, "0*c==0, 1*c==c");
}
static void L_comm(long a, long b) { VF_LEMMA(vf_imul(a, b) == vf_imul(b, a), "a*b == b*a"); }
static void L_pack(long j, long n, long i, long e) { /* (j*n + i)*e == j*(n*e) + i*e */
    VF_LEMMA(vf_imul(vf_imul(j, n) + i, e) == vf_imul(j, vf_imul(n, e)) + vf_imul(i, e), "(j*n+i)*e == j*(n*e) + i*e");
}
static void L_dist(long a, long b, long c) { VF_LEMMA(vf_imul(a + b, c) == vf_imul(a, c) + vf_imul(b, c), "(a+b)*c == a*c + b*c"); }
static void L_assoc(long a, long b, long c) { /* (a*b)*c == b*(a*c) == a*(b*c) */
    VF_LEMMA(vf_imul(vf_imul(a, b), c) == vf_imul(b, vf_imul(a, c)) && vf_imul(vf_imul(a, b), c) == vf_imul(a, vf_imul(b, c)), "(a*b)*c == b*(a*c) == a*(b*c)");
}

/* ---- ghost state of the resizeKeep_ units ---- */
S*   g_old_data;   /* the allocation held on entry */
S*   g_new_data;   /* the allocation made by allocateMemory(m,n) */
long g_new_size;   /* its size in scalars */
S*   g_obs;        /* the observed cell of the new allocation (arbitrary, fixed) or 0 */
long g_obs_off = -1; /* its scalar offset (set by the harness before the call), -1: none */
int  g_alloc_calls, g_clear_calls, g_freed_old;

/* ---- contracted stubs of the MatrixHelperRep base (assumed contracts, see ctx.assume) ---- */
/* S* allocateMemory(int m, int n) const: null for m*n == 0, else fresh storage for m*n elements of m_eltSize scalars */
static S* vf_allocateMemory(const struct Helper* self, int m, int n) {
    __CPROVER_assert(m >= 0 && n >= 0, "allocateMemory(m,n): m>=0 && n>=0 (assert in the real code)");
    long nelt = vf_imul(m, n);
    long nsc = vf_imul(nelt, self->m_eltSize);
    __CPROVER_assume(0 <= nelt && nelt < HELPER_BIG && 0 <= nsc && nsc < HELPER_BIG);       /* type invariant on sizes */
    g_alloc_calls++;
    if (nelt == 0) { g_new_data = 0; g_new_size = 0; g_obs = 0; return 0; }
    g_new_data = (S*)malloc((size_t)nsc * sizeof(S));
    g_new_size = nsc;
    g_obs = g_obs_off >= 0 ? g_new_data + g_obs_off : 0;
    return g_new_data;
}
/* void clearData(): frees the data if owner (handle not locked), then m_data = 0 */
static void vf_clearData(struct Helper* self) {
    g_clear_calls++;
    if (self->m_owner && self->m_data == g_old_data) g_freed_old++;
    self->m_data = 0;
}

/* std::copy(first, last, dest) on scalars.
 * Unbounded units: abstracted to what an observer of ONE fixed cell g_obs of the destination allocation sees
 * (the cell receives first[g_obs-dest] if it lies in the written range and keeps its value otherwise; every other
 * cell of the destination allocation is havocked).  Reads must lie in the OLD allocation, writes in the NEW one.
 * Bounded units: the element-by-element loop. */
static void vf_copy(const S* first, const S* last, S* dest) {
    __CPROVER_assert(__CPROVER_same_object(first, last), "std::copy: first and last delimit a range of one object");
    __CPROVER_assert(__CPROVER_POINTER_OFFSET(last) >= __CPROVER_POINTER_OFFSET(first), "std::copy: last >= first");
    size_t n = (__CPROVER_POINTER_OFFSET(last) - __CPROVER_POINTER_OFFSET(first)) / sizeof(S);   /* last - first (also for two null pointers) */
    if (n > 0) {
        __CPROVER_assert(__CPROVER_same_object(first, g_old_data) && __CPROVER_r_ok(first, n * sizeof(S)), "std::copy: source range inside the OLD allocation");
        __CPROVER_assert(__CPROVER_same_object(dest, g_new_data) && __CPROVER_w_ok(dest, n * sizeof(S)), "std::copy: destination range inside the NEW allocation");
#ifdef HELPER_BOUNDED
        for (size_t k = 0; k < n; ++k) dest[k] = first[k];
#else
        if (g_obs) {
            size_t od = __CPROVER_POINTER_OFFSET(dest), oo = __CPROVER_POINTER_OFFSET(g_obs);
            S keep = (oo >= od && (oo - od) / sizeof(S) < n) ? first[(oo - od) / sizeof(S)] : *g_obs;       /* k = g_obs - dest in [0,n) ? first[k] : unchanged */
            __CPROVER_havoc_object(dest);
            *g_obs = keep;
        } else
            __CPROVER_havoc_object(dest);
#endif
    }
}
