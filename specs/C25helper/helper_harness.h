/* C25 helper part: harnesses (plain CBMC programs; every assertion is an obligation). */
struct Dims { int nfast, nslow; long need; };

/* vacuity guard (manual use, NOT scheduled: one run over all harnesses needs > 200 s): with -DHELPER_COVER -DHELPER_REACH the end of
 * every harness is a cover goal (entry h_helper_reach) */
#if defined(HELPER_COVER) && defined(HELPER_REACH)
#define HELPER_END __CPROVER_cover(1);
#else
#define HELPER_END
#endif
/* scheduled vacuity guard of the two resizeKeep_ units (lemma instances are assumptions, the loop cut ends in assume(0)): -DHELPER_COVER
 * -DHELPER_REACH_RK makes the end of both harnesses a cover goal (entry h_helper_reach_rk) */
#if defined(HELPER_COVER) && defined(HELPER_REACH_RK)
#define HELPER_END_RK(c) __CPROVER_cover(c);
#else
#define HELPER_END_RK(c)
#endif

#ifdef HELPER_BOUNDED
#ifndef HB
#define HB 3
#endif
#define HB_DIM(x) __CPROVER_assume((x) <= HB)
#else
#define HB_DIM(x)
#endif

/* arbitrary helper object satisfying the class/allocation invariant; row: row order; scalar: a *ScalarHelper */
static struct Dims hp_setup(struct Helper* h, bool row, bool scalar) {
    struct Dims d;
    h->m_eltSize = nondet_int(); h->m_cppEltSize = nondet_int(); h->m_leadingDim = nondet_int();
    h->a_nrow = nondet_int(); h->a_ncol = nondet_int(); h->m_owner = nondet_bool(); h->m_writable = nondet_bool();
    __CPROVER_assume(h->m_eltSize >= 1 && (!scalar || h->m_eltSize == 1) && h->a_nrow >= 0 && h->a_ncol >= 0 && h->m_leadingDim >= 0);
    HB_DIM(h->a_nrow); HB_DIM(h->a_ncol);
#ifdef HELPER_BOUNDED
    __CPROVER_assume(h->m_eltSize <= 2);
#endif
    d.nfast = row ? h->a_ncol : h->a_nrow;
    d.nslow = row ? h->a_nrow : h->a_ncol;
    L_nonneg(d.nfast, h->m_eltSize);
    L_unit(d.nfast); L_unit(h->m_leadingDim); L_unit(h->m_eltSize);
    __CPROVER_assume(h->m_leadingDim >= vf_imul(d.nfast, h->m_eltSize));            /* the constructors assert ldim >= nfast*esz */
#ifdef HELPER_BOUNDED
    __CPROVER_assume(h->m_leadingDim <= vf_imul(d.nfast, h->m_eltSize) + 1);
#endif
    if (d.nfast > 0 && d.nslow > 0) {
        L_nonneg(d.nslow - 1, h->m_leadingDim);
        __CPROVER_assume(vf_imul(d.nslow - 1, h->m_leadingDim) < HELPER_BIG);       /* type invariant on sizes */
        d.need = vf_imul(d.nslow - 1, h->m_leadingDim) + vf_imul(d.nfast, h->m_eltSize);
    } else
        d.need = 0;
    __CPROVER_assume(0 <= d.need && d.need < HELPER_BIG);
    h->m_data = d.need ? (S*)malloc((size_t)d.need * sizeof(S)) : (S*)0;
    g_old_data = h->m_data;
    return d;
}

#define SPEC_OFF(h, f, sl) (vf_imul(sl, (h).m_leadingDim) + vf_imul(f, (h).m_eltSize))

/* ---------------- element addressing ---------------- */
#ifndef HELPER_DISJOINT_ELT
#define HELPER_DISJOINT_ELT 0   /* disjointness of composite elements costs about a minute per class: thorough tier only */
#endif
#define H_ADDR(K, ROW, SC) void h_addr_##K(void) { \
    struct Helper h; struct Dims d = hp_setup(&h, ROW, SC); \
    int i = nondet_int(), j = nondet_int(), s = nondet_int(), i2 = nondet_int(), j2 = nondet_int(); \
    __CPROVER_assume(0 <= i && i < h.a_nrow && 0 <= j && j < h.a_ncol && 0 <= s && s < h.m_eltSize); \
    __CPROVER_assume(0 <= i2 && i2 < h.a_nrow && 0 <= j2 && j2 < h.a_ncol); \
    int f = ROW ? j : i, sl = ROW ? i : j, f2 = ROW ? j2 : i2, sl2 = ROW ? i2 : j2; \
    L_lt(f, d.nfast, h.m_eltSize); L_le(sl, d.nslow - 1, h.m_leadingDim); L_unit(f); \
    L_lt(f2, d.nfast, h.m_eltSize); L_le(sl2, d.nslow - 1, h.m_leadingDim); L_unit(f2); \
    G_LT(sl, sl2, h.m_leadingDim); G_LT(sl2, sl, h.m_leadingDim); G_LT(f, f2, h.m_eltSize); G_LT(f2, f, h.m_eltSize); \
    long off = SPEC_OFF(h, f, sl), off2 = SPEC_OFF(h, f2, sl2); \
    const S* p = K##_getElt_(&h, i, j); S* q = K##_updElt_(&h, i, j); \
    __CPROVER_assert(p == h.m_data + off, "getElt_(i,j) == m_data + slow*m_leadingDim + fast*m_eltSize (column order: fast=i, slow=j; row order: fast=j, slow=i)"); \
    __CPROVER_assert(q == h.m_data + off, "updElt_(i,j) == m_data + slow*m_leadingDim + fast*m_eltSize (column order: fast=i, slow=j; row order: fast=j, slow=i)"); \
    __CPROVER_assert(__CPROVER_same_object(p, h.m_data) && __CPROVER_r_ok(p + s, sizeof(S)), "getElt_(i,j): every scalar of the element lies inside the allocation (0<=i<nrow, 0<=j<ncol)"); \
    __CPROVER_assert(__CPROVER_same_object(q, h.m_data) && __CPROVER_w_ok(q + s, sizeof(S)), "updElt_(i,j): every scalar of the element lies inside the allocation (0<=i<nrow, 0<=j<ncol)"); \
    const S* p2 = K##_getElt_(&h, i2, j2); \
    __CPROVER_assert(p2 == h.m_data + off2, "getElt_(i2,j2) == m_data + slow2*m_leadingDim + fast2*m_eltSize (second arbitrary index pair)"); \
    if (!(SC) && !HELPER_DISJOINT_ELT) { } else \
    if (sl < sl2) __CPROVER_assert(off2 - off >= h.m_eltSize, "distinct (i,j) address disjoint elements: earlier storage line"); \
    else if (sl2 < sl) __CPROVER_assert(off - off2 >= h.m_eltSize, "distinct (i,j) address disjoint elements: later storage line"); \
    else if (f < f2) __CPROVER_assert(off2 - off >= h.m_eltSize, "distinct (i,j) address disjoint elements: same line, earlier position"); \
    else if (f2 < f) __CPROVER_assert(off - off2 >= h.m_eltSize, "distinct (i,j) address disjoint elements: same line, later position"); \
    else __CPROVER_assert(i == i2 && j == j2 && p == p2, "equal (i,j) address the same element"); \
    HELPER_END \
}
H_ADDR(ColElt, 0, 0) H_ADDR(ColScalar, 0, 1) H_ADDR(RowElt, 1, 0) H_ADDR(RowScalar, 1, 1)

/* ---------------- contiguity ---------------- */
#define H_CONTIG(K, ROW, SC) void h_contig_##K(void) { \
    struct Helper h; struct Dims d = hp_setup(&h, ROW, SC); \
    bool r = K##_hasContiguousData_(&h); \
    __CPROVER_assert(r == (h.m_leadingDim == vf_imul(d.nfast, h.m_eltSize)), "hasContiguousData_() <=> m_leadingDim == nfast*m_eltSize (nfast = nrow in column order, ncol in ROW order)"); \
    if (d.nslow >= 2 && d.nfast >= 1) { /* the second storage line starts where the first one ends */ \
        const S* l1 = ROW ? K##_getElt_(&h, 1, 0) : K##_getElt_(&h, 0, 1); \
        L_unit(0); \
        __CPROVER_assert(r == (l1 == h.m_data + vf_imul(d.nfast, h.m_eltSize)), "hasContiguousData_() <=> consecutive storage lines are adjacent"); \
    } \
    int i = nondet_int(), j = nondet_int(); \
    __CPROVER_assume(0 <= i && i < h.a_nrow && 0 <= j && j < h.a_ncol); \
    int f = ROW ? j : i, sl = ROW ? i : j; \
    L_lt(f, d.nfast, h.m_eltSize); L_le(sl, d.nslow - 1, h.m_leadingDim); L_unit(f); L_unit(d.nfast); \
    L_le2(d.nfast, 1, h.m_eltSize); L_le2(sl, d.nfast, h.m_leadingDim);      /* nfast <= nfast*esz <= ld, hence sl*nfast <= sl*ld */ \
    long k = vf_imul(sl, d.nfast) + f;     /* packed index */ \
    if (r) L_pack(sl, d.nfast, f, h.m_eltSize); \
    const S* p = K##_getElt_(&h, i, j); \
    if (r) __CPROVER_assert(p == h.m_data + vf_imul(k, h.m_eltSize), "contiguous: address(i,j) == m_data + k*m_eltSize for the packed index k = slow*nfast + fast"); \
    HELPER_END \
}
H_CONTIG(ColElt, 0, 0) H_CONTIG(ColScalar, 0, 1) H_CONTIG(RowElt, 1, 0) H_CONTIG(RowScalar, 1, 1)

/* ---------------- resizeKeep_ ---------------- */
#define H_RK(K, ROW) void h_resizeKeep_##K(void) { \
    struct Helper h; struct Dims d = hp_setup(&h, ROW, 0); \
    __CPROVER_assume(h.m_owner);                       /* MatrixHelperRep::resize() refuses views */ \
    int m = nondet_int(), n = nondet_int(), gi = nondet_int(), gj = nondet_int(), gs = nondet_int(); \
    __CPROVER_assume(0 <= m && 0 <= n); HB_DIM(m); HB_DIM(n); \
    G.esz = h.m_eltSize; G.old_nfast = d.nfast; G.old_nslow = d.nslow; G.old_ld = h.m_leadingDim; \
    G.new_nfast = ROW ? n : m; G.new_nslow = ROW ? m : n; \
    L_nonneg(G.new_nfast, G.esz); L_nonneg(m, n); L_unit(m); L_unit(n); L_unit(G.esz); \
    G.new_ld = vf_imul(G.new_nfast, G.esz); \
    __CPROVER_assume(G.new_ld < (1L << 31));           /* type invariant: the new leading dimension is an int */ \
    G.fastc = vf_min_int(G.new_nfast, G.old_nfast); G.slowc = vf_min_int(G.new_nslow, G.old_nslow); \
    L_le(G.fastc, G.old_nfast, G.esz); L_le(G.fastc, G.new_nfast, G.esz); \
    __CPROVER_assume(vf_imul(m, n) < HELPER_BIG && vf_imul(vf_imul(m, n), G.esz) < HELPER_BIG);     /* type invariant on sizes */ \
    L_assoc(m, n, G.esz); L_nonneg(G.new_nslow, G.new_ld); \
    if (G.new_nslow > 0) { L_lt(G.new_nslow - 1, G.new_nslow, G.new_ld); } \
    if (m > 0 && n > 0) { L_lt(0, m, n); } \
    G.has_g = nondet_bool(); g_obs_off = -1; g_obs = 0; \
    if (G.has_g) { \
        __CPROVER_assume(0 <= gi && gi < m && gi < h.a_nrow && 0 <= gj && gj < n && gj < h.a_ncol && 0 <= gs && gs < G.esz); \
        G.gf = ROW ? gj : gi; G.gsl = ROW ? gi : gj; G.gs = gs; \
        L_lt(G.gf, d.nfast, G.esz); L_le(G.gsl, d.nslow - 1, G.old_ld); L_lt(G.gf, G.fastc, G.esz); \
        L_lt(G.gf, G.new_nfast, G.esz); L_le(G.gsl, G.new_nslow - 1, G.new_ld); \
        G.g_oldval = h.m_data[vf_imul(G.gsl, G.old_ld) + vf_imul(G.gf, G.esz) + gs]; \
        G.g_newoff = vf_imul(G.gsl, G.new_ld) + vf_imul(G.gf, G.esz) + gs; \
        g_obs_off = G.g_newoff; \
    } \
    g_alloc_calls = g_clear_calls = g_freed_old = 0; \
    K##_resizeKeep_(&h, m, n); \
    __CPROVER_assert(h.m_leadingDim == G.new_ld, "resizeKeep_(m,n): new leading dimension == nfast*m_eltSize (nfast = m in column order, n in row order)"); \
    __CPROVER_assert(g_alloc_calls == 1 && h.m_data == g_new_data && g_new_size == vf_imul(vf_imul(m, n), G.esz), "resizeKeep_(m,n): the helper holds the new allocation of m*n elements"); \
    __CPROVER_assert(g_freed_old == 1, "resizeKeep_(m,n): the old storage is released exactly once"); \
    if (G.has_g) { \
        __CPROVER_assert(g_obs == h.m_data + G.g_newoff && __CPROVER_r_ok(g_obs, sizeof(S)), "resizeKeep_(m,n): the kept element lies inside the new allocation"); \
        __CPROVER_assert(h.m_data[G.g_newoff] == G.g_oldval, "resizeKeep_(m,n): element (gi,gj), gi < min(m, old nrow), gj < min(n, old ncol), equals the old element"); \
    } \
    HELPER_END HELPER_END_RK(1) HELPER_END_RK(G.has_g && G.gsl >= 1 && G.slowc >= 2 && m != h.a_nrow && n != h.a_ncol) \
}
H_RK(ColElt, 0) H_RK(RowElt, 1)

/* ---------------- block view ---------------- */
#define H_BLOCK(K, ROW, SC) void h_block_##K(void) { \
    struct Helper h; struct Dims d = hp_setup(&h, ROW, SC); \
    struct EltBlock b; b.row0 = nondet_int(); b.col0 = nondet_int(); b.nr = nondet_int(); b.nc = nondet_int(); \
    int r0 = b.row0, c0 = b.col0, bnr = b.nr, bnc = b.nc; \
    __CPROVER_assume(0 <= r0 && 0 <= bnr && r0 <= h.a_nrow - bnr && 0 <= c0 && 0 <= bnc && c0 <= h.a_ncol - bnc);   /* SimTK_SIZECHECKs of MatrixHelperRep::createBlockView */ \
    int i = nondet_int(), j = nondet_int(); \
    __CPROVER_assume(0 <= i && i < bnr && 0 <= j && j < bnc);     /* non-empty block, arbitrary element of it */ \
    int f = ROW ? j : i, sl = ROW ? i : j, f0 = ROW ? c0 : r0, sl0 = ROW ? r0 : c0; \
    L_lt(f, d.nfast, h.m_eltSize); L_le(sl, d.nslow - 1, h.m_leadingDim); L_lt(f0, d.nfast, h.m_eltSize); L_le(sl0, d.nslow - 1, h.m_leadingDim); \
    L_lt(f0 + f, d.nfast, h.m_eltSize); L_le(sl0 + sl, d.nslow - 1, h.m_leadingDim); \
    L_dist(sl0, sl, h.m_leadingDim); L_dist(f0, f, h.m_eltSize); if (SC) { L_unit(f); L_unit(f0); L_unit(f0 + f); } \
    struct Helper* p = K##_createBlockView_(&h, &b); \
    p->a_nrow = bnr; p->a_ncol = bnc;                  /* the caller: p->m_actual.setActualSize(block.nrow(), block.ncol()) */ \
    __CPROVER_assert(p->m_leadingDim == h.m_leadingDim && p->m_eltSize == h.m_eltSize, "createBlockView_: the view keeps leading dimension and element size"); \
    __CPROVER_assert(p != &h && h.m_data == g_old_data, "createBlockView_: the parent is unchanged"); \
    __CPROVER_assert(K##_getElt_(p, i, j) == K##_getElt_(&h, r0 + i, c0 + j), "createBlockView_: view.address(i,j) == parent.address(row0+i, col0+j)"); \
    /* in-bounds of view elements follows: parent.address(row0+i, col0+j) is in bounds by helper.addr (0 <= row0+i < nrow, 0 <= col0+j < ncol) */ \
    HELPER_END \
}
H_BLOCK(ColElt, 0, 0) H_BLOCK(ColScalar, 0, 1) H_BLOCK(RowElt, 1, 0) H_BLOCK(RowScalar, 1, 1)

/* ---------------- transpose view ---------------- */
static const S* view_getElt(const struct Helper* v, int i, int j) {
    switch (g_view_kind) {
    case VIEW_ColElt: return ColElt_getElt_(v, i, j);
    case VIEW_ColScalar: return ColScalar_getElt_(v, i, j);
    case VIEW_RowElt: return RowElt_getElt_(v, i, j);
    case VIEW_RowScalar: return RowScalar_getElt_(v, i, j);
    }
    __CPROVER_assert(0, "createTransposeView_: the view has one of the four regular helper types");
    return 0;
}
#define H_TRANSPOSE(K, ROW, SC) void h_transpose_##K(void) { \
    struct Helper h; struct Dims d = hp_setup(&h, ROW, SC); \
    g_view_kind = VIEW_NONE; \
    struct Helper* p = K##_createTransposeView_(&h); \
    int i = nondet_int(), j = nondet_int(); \
    __CPROVER_assume(0 <= i && i < h.a_ncol && 0 <= j && j < h.a_nrow); \
    L_lt(ROW ? i : j, d.nfast, h.m_eltSize); L_le(ROW ? j : i, d.nslow - 1, h.m_leadingDim); \
    __CPROVER_assert(p->a_nrow == h.a_ncol && p->a_ncol == h.a_nrow, "createTransposeView_: the view is ncol x nrow"); \
    __CPROVER_assert(g_view_kind == (ROW ? (SC ? VIEW_ColScalar : VIEW_ColElt) : (SC ? VIEW_RowScalar : VIEW_RowElt)), "createTransposeView_: storage order flipped, scalar/composite kind kept"); \
    __CPROVER_assert(p->m_data == h.m_data && p->m_leadingDim == h.m_leadingDim && p->m_eltSize == h.m_eltSize && !p->m_owner, "createTransposeView_: shares data, leading dimension and element size; not an owner"); \
    __CPROVER_assert(view_getElt(p, i, j) == K##_getElt_(&h, j, i), "createTransposeView_: view.address(i,j) == parent.address(j,i)"); \
    __CPROVER_assert(p->m_writable == h.m_writable, "createTransposeView_: writable iff the parent is"); \
    HELPER_END \
}
H_TRANSPOSE(ColElt, 0, 0) H_TRANSPOSE(ColScalar, 0, 1) H_TRANSPOSE(RowElt, 1, 0) H_TRANSPOSE(RowScalar, 1, 1)

/* ---------------- reachability of the harness preconditions ---------------- */
#if defined(HELPER_COVER) && !defined(HELPER_REACH_RK) && !defined(HELPER_REACH)
void h_helper_cover(void) {
    struct Helper h; struct Dims d = hp_setup(&h, nondet_bool(), 0);
    int i = nondet_int(), j = nondet_int();
    __CPROVER_assume(0 <= i && i < h.a_nrow && 0 <= j && j < h.a_ncol);
    L_lt(i, h.a_nrow, h.m_eltSize); L_le(j, h.a_ncol - 1, h.m_leadingDim);
    __CPROVER_cover(h.a_nrow >= 3 && h.a_ncol >= 2 && h.m_eltSize >= 3 && i >= 1 && j >= 1);
    __CPROVER_cover(h.m_leadingDim > vf_imul(d.nfast, h.m_eltSize));
    __CPROVER_cover(h.m_leadingDim == vf_imul(d.nfast, h.m_eltSize) && d.nfast > 1);
    __CPROVER_cover(d.need > 100);
    __CPROVER_cover(h.m_data != 0);
    __CPROVER_cover(h.m_data == 0);
}
#endif
#ifdef HELPER_COVER
#ifdef HELPER_REACH_RK
void h_helper_reach_rk(void) { if (nondet_bool()) h_resizeKeep_ColElt(); else h_resizeKeep_RowElt(); }
#endif
#ifdef HELPER_REACH
#define HC(n, f) case n: f(); break;
void h_helper_reach(void) {
    switch (nondet_int()) {
    HC(0, h_addr_ColElt) HC(1, h_addr_ColScalar) HC(2, h_addr_RowElt) HC(3, h_addr_RowScalar)
    HC(4, h_contig_ColElt) HC(5, h_contig_ColScalar) HC(6, h_contig_RowElt) HC(7, h_contig_RowScalar)
    HC(8, h_block_ColElt) HC(9, h_block_ColScalar) HC(10, h_block_RowElt) HC(11, h_block_RowScalar)
    HC(12, h_transpose_ColElt) HC(13, h_transpose_ColScalar) HC(14, h_transpose_RowElt) HC(15, h_transpose_RowScalar)
    HC(16, h_resizeKeep_ColElt) HC(17, h_resizeKeep_RowElt)
    }
}
#endif
#endif
