"""Part of C32: the ESCAPING side of the XML writer (SimTKcommon/src/tinyxml.cpp) under contract.

Back end A, route M2.  hexCharRefLength, TiXmlBase::EncodeString and TiXmlAttribute::Print are cut from /repo on each run
(tools/extract.py), together with the entity table (tinyxmlparser.cpp), struct Entity / IsWhiteSpace / the default of
keepQuotes (tinyxml.h), rewritten to C by logged rules and verified with CBMC function contracts (goto-instrument --dfcc)
and loop contracts (any input length).  An input string is a byte buffer; an output string (append-only in this code) is its
exact length plus an observation window at an arbitrary position (specs/C32xml/xml_pre.h); ghost variables record for an
arbitrary input position and the arbitrary output position where / by which branch they were consumed / written.

  xml.hexCharRefLength, xml.EncodeString, xml.AttributePrint : unbounded (function + loop contracts)
  xml.bounded.EncodeString : (thorough tier) bounded companion (length <= 4, loops unwound, --unwinding-assertions, the real
                             hexCharRefLength executed): refutation aid with a concrete input string, never counted as proved

add_jobs(ctx, J) appends the units; replay(ctx, ob) is the replayer for units `xml.*`."""
import os, re
import vlib
from vlib import *
from extract import *

SPEC = os.path.join(VERIF, "specs", "C32xml")
SRC = os.path.join(REPO, "SimTKcommon/src")
TINYXML_CPP = os.path.join(SRC, "tinyxml.cpp")
TINYXML_H = os.path.join(SRC, "tinyxml.h")
PARSER_CPP = os.path.join(SRC, "tinyxmlparser.cpp")


def hook_at_body_start(r, rule, loop_rx, ordinal, hook):
    """ghost statements (assign ghost variables only) at the first position of a loop body; located by brace matching"""
    blank = blank_comments(r.text)
    ms = list(re.finditer(loop_rx, blank))
    if len(ms) < ordinal:
        raise ExtractionError("%s: ghost-hook rule '%s' /%s/ matched %d times, need ordinal %d" % (r.name, rule, loop_rx, len(ms), ordinal))
    op = blank.find("(", ms[ordinal - 1].start())
    cp = match_brace(blank, op)
    k = cp + 1
    while blank[k].isspace():
        k += 1
    if blank[k] != "{":
        raise ExtractionError("%s: ghost-hook rule '%s': loop body is not a block" % (r.name, rule))
    r.text = r.text[:k + 1] + " " + hook + "\n" + r.text[k + 1:]
    r.log.append(dict(rule=rule, pattern=loop_rx, replacement="ghost statements %s at the start of the loop body" % hook, hits=1,
                      examples=[" ".join(blank[ms[ordinal - 1].start():cp + 1].split())[:80]]))


def hexcharref_text(ctx):
    """static int hexCharRefLength(const String& str, int i)  (absent on a tree from before the pass-through repair)"""
    c = cut_function(TINYXML_CPP, r"static int hexCharRefLength\(const String& str, int i\)\s*", "hexCharRefLength", expect_total=1)
    r = Rewriter("{" + c.body + "}", "hexCharRefLength")
    r.sub("container->contracted stub: length()", r"\bstr\.length\(\)", "xs_length(str)", 1)
    r.sub("container->contracted stub: operator[] (index < length is an obligation)", r"\bstr\[([^\]]+)\]", r"xs_at(str, \1)", 2)
    r.sub("libc: isxdigit (C locale table)", r"\bisxdigit\(", "vf_isxdigit(", 1)
    nloops = len(re.findall(r"\b(while|for|do)\b", blank_comments(r.text)))
    if nloops != 1:
        raise ExtractionError("hexCharRefLength: expected exactly one loop, found %d" % nloops)
    r.splice_loop("loop-contract:hexCharRefLength#loop1", r"\bwhile\s*\(", "HCL_LOOP_CONTRACT", 1)
    ctx.add_function(TINYXML_CPP, "hexCharRefLength", c.start, c.end, c.text, "M2", r.dropped, r.log)
    return "int hexCharRefLength(const struct XStr* str, int i)\n" + r.text + "\n#define HAVE_hexCharRefLength 1\n"


def encode_string_text(ctx):
    c = cut_function(TINYXML_CPP, r"void TiXmlBase::EncodeString\s*\(const String& str, String\* outString, bool keepQuotes\)\s*",
                     "TiXmlBase::EncodeString", expect_total=1)
    r = Rewriter("{" + c.body + "}", "TiXmlBase::EncodeString")
    S = r.sub
    S("container->contracted stub: length()", r"\bstr\.length\(\)", "xs_length(str)", 2)
    S("container->contracted stub: operator[] (index < length is an obligation)", r"\bstr\[([^\]]+)\]", r"xs_at(str, \1)", 3)
    S("container->contracted stub: append(c_str()+i, n) of a piece of the input (provenance of the ghost positions recorded)",
      r"\boutString->append\(\s*str\.c_str\(\)\s*\+\s*i\s*,\s*(\w+)\s*\)", r"xs_append_from(outString, str, i, \1)", 1)
    S("container->contracted stub: append(ptr, n)", r"\boutString->append\(", "xs_append(outString, ", 6)
    S("container->contracted stub: operator+=(char)", r"\*outString \+= \(char\) c;", "xs_push(outString, (char) c);", 1)
    S("overload resolution: IsWhiteSpace(unsigned char) -> IsWhiteSpace(int) (integral promotion)", r"\bIsWhiteSpace\(c\)", "IsWhiteSpace_int(c)", 1)
    S("callee by contract + assumed determinism of a pure function: hexCharRefLength", r"\bhexCharRefLength\(\s*str\s*,\s*i\s*\)", "hexCharRefLength_det(str, i)", 2)
    r.text = "{ XML_FN_BEGIN\n" + r.text[1:]
    r.log.append(dict(rule="ghost hook at function entry (assigns ghost variables only)", pattern="{", replacement="{ XML_FN_BEGIN", hits=1))
    nloops = len(re.findall(r"\bwhile\s*\(", blank_comments(r.text)))
    others = len(re.findall(r"\b(for|do)\b", blank_comments(r.text)))
    if others or nloops not in (1, 2):
        raise ExtractionError("TiXmlBase::EncodeString: expected the outer while loop (and at most one inner loop), found %d while / %d other loops" % (nloops, others))
    if nloops == 2:
        r.splice_loop("loop-contract:EncodeString#loop2 (inner copying loop of a tree from before the pass-through repair)", r"\bwhile\s*\(", "XML_INNER_CONTRACT", 2)
        r.log.append(dict(rule="loop-contract:EncodeString#loop2", pattern=r"\bwhile\s*\(", hits=1,
                          deviation="the tree has an inner loop in the pass-through branch (tree differs from the pinned one)"))
    hook_at_body_start(r, "ghost hook (outer loop; assigns ghost variables only)", r"\bwhile\s*\(", 1, "XML_OUTER_BEGIN")
    r.splice_loop("loop-contract:EncodeString#loop1 (outer loop)", r"\bwhile\s*\(", "XML_OUTER_CONTRACT", 1)
    ctx.add_function(TINYXML_CPP, "TiXmlBase::EncodeString", c.start, c.end, c.text, "M2", r.dropped, r.log)
    return ("#if defined(XML_BOUNDED_HARNESS) || defined(XML_COVER)\n#define hexCharRefLength_det hexCharRefLength   /* executed, not abstracted */\n#endif\n"
            "void TiXmlBase_EncodeString(const struct XStr* str, struct XStr* outString, bool keepQuotes)\n" + r.text + "\n"), nloops == 2


def tables_text(ctx):
    out = []
    # struct Entity + NUM_ENTITY (tinyxml.h), verbatim
    c = cut_region(TINYXML_H, r"struct Entity\b", r"static Entity entity\[", "TiXmlBase::Entity, NUM_ENTITY (declarations)")
    ctx.add_function(TINYXML_H, c.name, c.start, c.end, c.text, "M2 (verbatim declarations)")
    out.append(strip_comments(c.text))
    # the entity table (tinyxmlparser.cpp)
    c = cut_region(PARSER_CPP, r"TiXmlBase::Entity TiXmlBase::entity\[ NUM_ENTITY \]\s*=", r";", "TiXmlBase::entity[] (table)")
    r = Rewriter(c.text, c.name)
    r.sub("scope flattening: static member definition -> file-scope table", r"TiXmlBase::Entity TiXmlBase::entity\[ NUM_ENTITY \]", "static const struct Entity entity[ NUM_ENTITY ]", 1)
    ctx.add_function(PARSER_CPP, c.name, c.start, c.end, c.text, "M2", r.dropped, r.log)
    out.append(r.text + ";\n")
    # IsWhiteSpace(char) / IsWhiteSpace(int) (tinyxml.h)
    c = cut_function(TINYXML_H, r"inline static bool IsWhiteSpace\( char c \)\s*", "TiXmlBase::IsWhiteSpace(char)", expect_total=1)
    r = Rewriter("{" + c.body + "}", c.name)
    r.sub("libc: isspace (C locale table)", r"\bisspace\(", "vf_isspace(", 1)
    ctx.add_function(TINYXML_H, c.name, c.start, c.end, c.text, "M2", r.dropped, r.log)
    out.append("static bool IsWhiteSpace_char(char c)\n" + r.text + "\n")
    c = cut_function(TINYXML_H, r"inline static bool IsWhiteSpace\( int c \)\s*", "TiXmlBase::IsWhiteSpace(int)", expect_total=1)
    r = Rewriter("{" + c.body + "}", c.name)
    r.sub("overload resolution: IsWhiteSpace((char) c) -> IsWhiteSpace(char)", r"\bIsWhiteSpace\( \(char\) c \)", "IsWhiteSpace_char( (char) c )", 1)
    ctx.add_function(TINYXML_H, c.name, c.start, c.end, c.text, "M2", r.dropped, r.log)
    out.append("static bool IsWhiteSpace_int(int c)\n" + r.text + "\n")
    return "\n".join(out)


def keepquotes_default(ctx):
    """the default argument of EncodeString's declaration (made explicit at the call sites that omit it)"""
    src = blank_comments(open(TINYXML_H).read())
    ms = list(re.finditer(r"static void EncodeString\( const String& str, String\* out,\s*bool keepQuotes\s*=\s*(\w+)\s*\);", src))
    if len(ms) != 1 or ms[0].group(1) not in ("true", "false"):
        raise ExtractionError("tinyxml.h: declaration of EncodeString with a default for keepQuotes not found")
    m = ms[0]
    line = src.count("\n", 0, m.start()) + 1
    ctx.add_function(TINYXML_H, "TiXmlBase::EncodeString (declaration: default of keepQuotes)", line, src.count("\n", 0, m.end()) + 1,
                     open(TINYXML_H).read()[m.start():m.end()], "M2 (default argument read)")
    return m.group(1)


def encode_calls(r, default, srcmap, expect):
    """EncodeString(a, &b[, flag]) -> TiXmlBase_EncodeString(<a>, b, flag-or-default)   (callee BY CONTRACT)"""
    pat = r"(?:TiXmlBase::)?EncodeString\(\s*([\w.()]+)\s*,\s*&(\w+)\s*(?:,\s*(\w+)\s*)?\)"
    def rep(m):
        a = srcmap.get(m.group(1))
        if a is None:
            raise ExtractionError("%s: EncodeString called on an unknown source %r" % (r.name, m.group(1)))
        return "TiXmlBase_EncodeString(%s, %s, %s)" % (a, m.group(2), m.group(3) or default)
    r.sub("callee by contract: EncodeString (reference -> pointer, address of local String -> parameter, default argument %s made explicit)" % default,
          pat, rep, expect)


def attribute_print_text(ctx, default):
    c = cut_function(TINYXML_CPP, r"void TiXmlAttribute::Print\(\s*FILE\* cfile, int\s*(?:depth)?\s*, String\* str \) const\s*", "TiXmlAttribute::Print", expect_total=1)
    r = Rewriter("{" + c.body + "}", "TiXmlAttribute::Print")
    S = r.sub
    S("local String objects -> parameters n, v of the C unit (empty on entry)", r"\bString n, v;", "", 1)
    encode_calls(r, default, {"name": "name", "value": "value"}, 2)
    S("container->contracted stub: find(char)", r"\bvalue\.find\s*\(('(?:\\.|[^'])')\)", r"xs_find_char(value, \1)", 1)
    S("scope flattening: String::npos", r"\bString::npos\b", "XS_NPOS", 1)
    S("opaque statement: fprintf(cfile, fmt, n.c_str(), v.c_str()) -> recorded call", r"\bfprintf\s*\(cfile, (\"(?:\\.|[^\"])*\"), n\.c_str\(\), v\.c_str\(\) \);",
      r"vf_fprintf2(cfile, \1, xs_c_str(n), xs_c_str(v));", 2)
    S("container->contracted stub: operator+=(String)", r"\(\*str\) \+= (n|v);", r"xs_append_str(str, \1);", 4)
    S("container->contracted stub: operator+=(literal)", r"\(\*str\) \+= (\"(?:\\.|[^\"])*\");", r"xs_append_lit(str, \1);", 4)
    ctx.add_function(TINYXML_CPP, "TiXmlAttribute::Print", c.start, c.end, c.text, "M2", r.dropped, r.log)
    return ("void TiXmlAttribute_Print(const struct XStr* name, const struct XStr* value, FILE* cfile, int depth, struct XStr* str, struct XStr* n, struct XStr* v)\n"
            + r.text + "\n")


def build_unit(ctx):
    default = keepquotes_default(ctx)
    try:
        hcl = hexcharref_text(ctx)
    except ExtractionError as e:
        hcl = "/* hexCharRefLength not found in this tree: %s */\n" % str(e).replace("*/", "* /")
    enc, has_inner = encode_string_text(ctx)
    parts = ['#include "%s/xml_pre.h"' % SPEC, tables_text(ctx), '#include "%s/xml_contracts.h"' % SPEC, hcl, enc, attribute_print_text(ctx, default)]
    parts.append('#include "%s/xml_harness.h"' % SPEC)
    path = os.path.join(ctx.out, "xml_unit.c")
    open(path, "w").write("\n".join(parts))
    return path, has_inner, "HAVE_hexCharRefLength" in hcl


ARGS = ["--bounds-check", "--no-pointer-check", "--signed-overflow-check", "--object-bits", "10"]
CEX = ("in", "len", "olen", "keep", "g_gi", "g_go", "g_gs", "g_i_raw", "g_o_raw", "g_i_pos", "g_o_src", "condenseWhiteSpace", "keepQuotes")
BOUND = "input length <= 4, output prefix <= 3, loops unwound 6 times with --unwinding-assertions"


def reach_unit(ctx, unit, sources, entry, enforce, replace, loop_contracts, function):
    """Vacuity guard for a dfcc unit: the same pipeline with -DXML_REACH, whose harness ends in assert(0); that assertion must FAIL
    (the end of the harness is reachable through the assumed preconditions, replaced contracts and loop invariants)."""
    only = os.environ.get("VERIF_ONLY")
    if only and not re.search(only, unit):
        return
    d = os.path.join(ctx.out, unit)
    os.makedirs(d, exist_ok=True)
    gb, linked, inst = os.path.join(d, "unit.gb"), os.path.join(d, "linked.gb"), os.path.join(d, "inst.gb")
    t_all = 0.0
    cmds = [["goto-cc", "-c", sources[0], "-o", gb, "-DVERIF_CBMC", "-DXML_REACH"], ["goto-cc", "--function", entry, gb, "-o", linked],
            ["goto-instrument", "--dfcc", entry, "--enforce-contract", enforce] + sum([["--replace-call-with-contract", r] for r in replace], [])
            + (["--apply-loop-contracts"] if loop_contracts else []) + [linked, inst]]
    for cmd in cmds:
        rc, o, e, t = run(cmd, 300)
        t_all += t
        if rc != 0:
            ctx.add(Obligation(unit + ".build", unit, "goto-cc", "undecided", t_all, (o + e)[-400:], function=function))
            return
    rc, o, e, t = run(["cbmc", inst, "--no-standard-checks", "--object-bits", "10", "--property", entry + ".assertion.1"], 600)
    t_all += t
    m = re.search(r"vacuity guard: the end of the harness is reachable: (\w+)", o)
    ok = bool(m) and m.group(1) == "FAILURE"
    ctx.add(Obligation(unit + ":reachable", unit, "cbmc+minisat", "discharged" if ok else "undecided", t_all,
                       "vacuity guard: assert(0) at the end of the harness " + ("fails as it must (reachable)" if ok else "does NOT fail (vacuous unit?) / no answer: " + (m.group(1) if m else (o + e)[-200:])),
                       function=function))
    with ctx.lock:
        ctx.units.append(dict(unit=unit, backend="cbmc+minisat (reachability of the harness end)", entry=entry, obligations=1, discharged=int(ok), solver_s=round(t_all, 2)))


def add_jobs(ctx, J):
    """J(f, *a, **k) queues f(ctx, *a, **k)"""
    unit_c, has_inner, has_hcl = build_unit(ctx)
    loopreq = [r"loop_invariant_base", r"loop_invariant_step", r"decreases"]
    if has_hcl:
        J(cbmc_unit, "xml.hexCharRefLength", [unit_c], "h_hexCharRefLength", enforce="hexCharRefLength", replace=[], loop_contracts=True,
          cbmc_args=ARGS, require_props=[r"postcondition\.1$"] + loopreq, min_obligations=10, function="hexCharRefLength", timeout=300, cex_vars=CEX)
    J(cbmc_unit, "xml.EncodeString", [unit_c], "h_EncodeString", enforce="TiXmlBase_EncodeString", replace=["hexCharRefLength_det"], loop_contracts=True,
      cbmc_args=ARGS, require_props=[r"postcondition\.8$"] + loopreq, min_obligations=40, function="TiXmlBase::EncodeString", timeout=600, cex_vars=CEX)
    J(cbmc_unit, "xml.AttributePrint", [unit_c], "h_AttributePrint", enforce="TiXmlAttribute_Print",
      replace=["TiXmlBase_EncodeString", "xs_find_char"], cbmc_args=ARGS, require_props=[r"postcondition\.12$"], min_obligations=20,
      function="TiXmlAttribute::Print", timeout=300, cex_vars=CEX)
    if ctx.tier == "thorough":      # refutation aid with a concrete input string; as a proof it is slower than the inductive unit (about 3 min)
        J(cbmc_unit, "xml.bounded.EncodeString", [unit_c], "h_EncodeString_bounded", no_dfcc=True,
          cbmc_args=ARGS + ["--unwind", "6", "--unwinding-assertions"], cc_args=["-DXML_BOUNDED_HARNESS", "-DXML_BOUND=4"], bounded=BOUND,
          require_props=[r"assertion\.\d+$", r"unwind"], min_obligations=20, function="TiXmlBase::EncodeString", timeout=900, cex_vars=CEX)
    if has_hcl:
        J(reach_unit, "xml.reach.hexCharRefLength", [unit_c], "h_hexCharRefLength", "hexCharRefLength", [], True, "hexCharRefLength")
    J(reach_unit, "xml.reach.EncodeString", [unit_c], "h_EncodeString", "TiXmlBase_EncodeString", ["hexCharRefLength_det"] if has_hcl else [], True, "TiXmlBase::EncodeString")
    J(reach_unit, "xml.reach.AttributePrint", [unit_c], "h_AttributePrint", "TiXmlAttribute_Print", ["TiXmlBase_EncodeString", "xs_find_char"], False, "TiXmlAttribute::Print")
    J(cover_unit, "xml.cover", [unit_c], "h_xml_cover", cc_args=["-DXML_COVER"], cbmc_args=["--unwind", "8"], expect_min=3, function="EncodeString model reachability")
    ctx.extra["xml_part"] = dict(inner_loop_in_pass_through_branch=has_inner, hexCharRefLength_present=has_hcl)
    ctx.assume("XML unit: an input String (std::string) is a byte buffer of at most 10^8 characters, distinct from the output string; length(), operator[] (index < length is an OBLIGATION, "
               "although C++11 also allows reading the terminator at [size()]) and c_str() read it.  An output String is append-only in the code under contract and is modelled by its exact "
               "length and the six characters at an arbitrary position (observation window): append(ptr,n<=8), append(c_str()+i,n), operator+=(char/String/literal) add at the end, change "
               "nothing before it and never fail (assumed std::string behaviour; output lengths up to 10^9)")
    ctx.assume("XML unit: snprintf(buf, 32, \"&#x%02X;\", v) with v <= 255 writes '&#x', two upper-case hexadecimal digits, ';' and a terminator (the format and the buffer size are obligations); "
               "strlen of that buffer by a loop-free model; C locale: isspace(c) is true exactly for ' ', \\t \\n \\v \\f \\r, isxdigit(c) exactly for 0-9 a-f A-F")
    ctx.assume("XML unit: determinism of hexCharRefLength: the unit xml.hexCharRefLength proves that it assigns nothing; that a second call with the same arguments on the unchanged string "
               "returns the same value is assumed (ghost memo in the contract EncodeString is verified against)")
    ctx.assume("XML unit: std::string::find(char) returns npos iff the character does not occur, else a position holding it (ghost-indexed assumed contract); "
               "fprintf(cfile, fmt, a, b) is an opaque statement whose arguments are recorded (what reaches the file is not modelled)")
    ctx.assume("XML unit: TiXmlBase::condenseWhiteSpace is arbitrary; TiXmlAttribute's members name/value and the local Strings n, v are separate objects passed as parameters")
    ctx.trust("rewrite rules, ghost hooks and loop-contract splices of checks/part_c32_xml.py (every rule, hit and dropped text is listed per function in extraction_report.json)")
    ctx.not_decided += ["XML: the READER (TiXmlBase::ReadText/GetEntity/TiXmlAttribute::Parse): that it maps enc(c) back to c and stops at the right delimiter is exercised natively only "
                        "(replay driver), so exact round trip = writer contract here + reader behaviour not under contract",
                        "XML: documented TinyXML pass-through: a VALUE that literally contains a well-formed hexadecimal character reference (\"&#x41;\") is written unchanged and "
                        "re-read DECODED (\"A\"); the writer contract only promises that such a reference is copied as it is (characters & # x, hex digits, ;) -- exact reproduction of "
                        "such values is not promised by the code and not a contract clause",
                        "XML: TiXmlText::Print / TiXmlPrinter::Visit(const TiXmlText&) (they call EncodeString(value, &buffer, true) and append the result; CDATA is written raw), element/attribute "
                        "NAMES, comments, declarations, unknown nodes, indentation/line breaks, UTF-8 multi-byte sequences, white-space condensation of the reader, what fprintf sends to a FILE*"]


# ----------------------------------------------------------------------
_exe = {}


def replay_exe(ctx):
    if "exe" not in _exe:
        _exe["exe"] = native_build(ctx, "c32_xml_replay", os.path.join(VERIF, "replay/c32_xml_replay.cpp"), libs=False,
                                   extra_srcs=[TINYXML_CPP, PARSER_CPP, os.path.join(SRC, "Xml.cpp"), os.path.join(SRC, "String.cpp")], extra_inc=[SRC])
    return _exe["exe"]


def cex_string(ob):
    """the input string of a bounded counterexample (in[0..len-1]) as a C-escaped text"""
    cex = ob.cex or {}
    chars, ln = {}, None
    for k, v in cex.items():
        m = re.match(r"^in\[(\d+)l?\]$", k)
        if m and "binary" in v:
            chars[int(m.group(1))] = int(v["binary"], 2) & 0xff
        if k == "len" and "binary" in v:
            ln = int(v["binary"], 2)
    if ln is None or ln <= 0 or ln > 16:
        return None
    bs = [chars.get(j, ord("a")) or ord("a") for j in range(ln)]
    return "".join("\\x%02X" % b for b in bs)


def replay(ctx, ob):
    if not ob.unit.startswith("xml."):
        return {}, None
    exe = replay_exe(ctx)
    tries = []

    def go(args, what):
        rc, o, e, t = vlib.run([exe] + args, 120)
        lines = [l[:500] for l in o.splitlines() if l.startswith(("MISMATCH", "REPRODUCED", "NOT-REPRODUCED"))]
        tries.append(dict(cmd="c32_xml_replay " + " ".join(args), what=what, output="\n".join(lines[:6] + lines[-1:])))
        return re.search(r"^REPRODUCED:", o, re.M) is not None
    # 1. the verifier's own input string (bounded companion), if it is free of "&#x"
    s = cex_string(ob)
    if s and "\\x26\\x23\\x78" not in s and go(["value", s], "counterexample string of the verifier"):
        return dict(tries=tries, witness=s, witness_class="plain-value (no \"&#x\" inside)"), True
    # 2. random values that cannot enter the pass-through branch
    if go([str(ctx.seed), "plain"], "random values without \"&#x\""):
        return dict(tries=tries, witness_class="plain-value (no \"&#x\" inside)"), True
    # 3. values containing "&#x"
    if s and go(["value", s], "counterexample string of the verifier"):
        return dict(tries=tries, witness=s, witness_class="value-contains-&#x"), True
    if go([str(ctx.seed), "hexref"], "random values containing \"&#x\""):
        return dict(tries=tries, witness_class="value-contains-&#x"), True
    return dict(tries=tries), False
