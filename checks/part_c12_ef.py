"""Part of C12: one foundation spring of ElasticFoundationForceImpl::processContact (Simbody/src/ElasticFoundationForce.cpp).

Back end B, route M3.  processContact is cut and transliterated on every run (the std::set iterator loop is rewritten to an index loop, the
out-parameters of findNearestPoint to a pair of calls, `Real& pe` to a cell; all logged) and executed on dual numbers for ONE spring in the
configuration  mesh on an arbitrary moving body (arbitrary pose, linear and angular velocity, identity surface frame)  against a half-space
fixed on Ground (ContactGeometry::HalfSpace convention: x > 0 inside, nearest point = projection on x = 0; an ASSUMED geometry contract).
Every branch of the body:  power delivered + d/dt(reported PE)  that is <= 0 for k, c, A, areaScale >= 0 (proved on the friction-free branches; with friction active the sign is NOT decided), and == 0 without damping and friction on every branch; the reported PE is k (areaScale A) depth^2 / 2:
the force magnitude and the energy use the same stiffness and the same (scaled) area.
Not decided: other geometries (the nearest point slides on curved surfaces), both surfaces moving, non-identity surface frames, the mesh loops."""
import os, re, z3
from vlib import *
from extract import *
import symlib as S
from symlib import *
import forcelib as FL
from blib import BUnit

EF_CPP = os.path.join(REPO, "Simbody/src/ElasticFoundationForce.cpp")
ANCHOR = (r"void ElasticFoundationForceImpl::processContact\s*\(const State& state,\s*ContactSurfaceIndex meshIndex, ContactSurfaceIndex otherBodyIndex,\s*"
          r"const Parameters& param, const std::set<int>& insideFaces,\s*Real areaScale, Vector_<SpatialVec>& bodyForces, Real& pe\) const\s*")
U = "elasticfoundation.spring"
FN = "ElasticFoundationForceImpl::processContact"


def pre(b):
    n = []
    def sub(rx, rep, b):
        b2, k = re.subn(rx, rep, b)
        n.append(k)
        return b2
    b = sub(r"for \(std::set<int>::const_iterator iter = insideFaces\.begin\(\);\s*iter != insideFaces\.end\(\); \+\+iter\) \{\s*int face = \*iter;",
            "for (int fi = 0; fi < insideFaces.size(); ++fi) {\n int face = insideFaces[fi];", b)
    b = sub(r"UnitVec3 normal;\s*bool inside;\s*Vec3 nearestPoint = otherObject\.findNearestPoint\(([^;]*), inside, normal\);",
            r"Vec3 nearestPoint = otherObject.findNearestPoint(\1); bool inside = otherObject.lastInside();", b)
    b = sub(r"\bpe \+=", "pe.v +=", b)
    if n != [1, 1, 1]:
        raise ExtractionError("processContact: plumbing rewrites (iterator loop, findNearestPoint out-parameters, pe cell) fired %r times, expected [1, 1, 1]" % (n,))
    return b


class Xf:
    """Transform with its textbook meaning (assumed contract on Transform_): composition, action on a point; the inverse is only used for the
    Ground-fixed identity frame of this scenario (exact there) -- anything else is refused rather than approximated."""
    def __init__(self, R, p): self._R, self._p = R, p
    def R(self): return self._R
    def p(self): return self._p
    def __mul__(self, o):
        if isinstance(o, Xf) or hasattr(o, "_R"):
            return Xf(self._R * o._R, self._R * o._p + self._p)
        return self._R * o + self._p
    def __invert__(self):
        def is_c(x, c_):
            x = val(x)
            return (x == c_) if isinstance(x, (int, float)) or not z3.is_expr(x) else z3.is_true(z3.simplify(x == c_))
        ident = all(is_c(self._R.m[i][j], 1 if i == j else 0) for i in range(3) for j in range(3)) and all(is_c(self._p[i], 0) for i in range(3))
        if not ident:
            raise ExtractionError("Xf inverse requested for a non-identity transform (scenario restriction violated)")
        return Xf(self._R, self._p)


class SizedList(list):
    def size(self): return len(self)


def run(ctx, B=None):
    B = B or BUnit(ctx)
    ns = B.ns
    ns.setdefault("UnitVec3", FL.UnitVec3)
    ns["min_"] = lambda a, b: S.ITE(val(a) < val(b), a, b)
    cls = type("ElasticFoundation", (FL.Obj,), {})
    try:
        B.add_method(cls, EF_CPP, ANCHOR, "processContact", members=["subsystem", "set", "transitionVelocity"], extra_pre=pre, cxxname=FN)
    except ExtractionError as e:
        ctx.undecide("extraction (%s): %s" % (FN, e))
        return
    B.dump_sources()
    W = FL.World(2, rot="free")
    b1, g = W.bodies[1], W.bodies[0]
    k, c, us, ud, uv, A, sc, vt = z3.Reals("ef_k ef_c ef_us ef_ud ef_uv ef_A ef_scale ef_vt")
    sp = Vec(*[z3.Real("ef_s%d" % i) for i in range(3)])
    class Prm: pass
    prm = Prm(); prm.stiffness, prm.dissipation, prm.staticFriction, prm.dynamicFriction, prm.viscousFriction = D(k), D(c), D(us), D(ud), D(uv)
    prm.springPosition = [sp]; prm.springArea = [D(A)]
    class HalfSpace:
        def findNearestPoint(s_, p):
            s_.inside = val(p[0]) > 0
            return Vec(D(0), p[1], p[2])
        def lastInside(s_): return ns["BR"](s_.inside)      # symbolic branch decided here, so that `!inside` is a concrete bool
    hs = HalfSpace()
    class Sub: pass
    sub = Sub()
    sub.getBodyGeometry = lambda set_, ix: hs
    sub.getBody = lambda set_, ix: {1: b1, 0: g}[ix]
    sub.getBodyTransform = lambda set_, ix: Xf(eye(3), Vec(0, 0, 0))
    for b_ in (b1, g):
        b_.getBodyTransform = (lambda state, b_=b_: Xf(b_.R, b_.p))
    e = cls(); e.subsystem, e.set, e.transitionVelocity = sub, 0, D(vt)
    class Cell: pass
    st = object()
    def runit():
        S.reset_env()
        bf, pf, mf = W.fresh_forces()
        cell = Cell(); cell.v = D(0)
        e.processContact(st, 1, 0, prm, SizedList([0]), D(sc), bf, cell)
        return bf, mf, cell, list(S.ENV.side)
    base = list(W.side) + [k >= 0, c >= 0, A >= 0, sc >= 0, vt > 0, ud >= 0, us >= ud, uv >= 0]
    seen = set(); npaths = 0; undecided_friction = []
    for path, script, (bf, mf, cell, envside) in B.run_paths(runit, 5):
        key = tuple(str(x) for x in path)
        if key in seen:
            continue
        seen.add(key)
        cond = base + list(path) + envside
        s_ = z3.Solver(); s_.set("timeout", 20000); s_.add(*cond)
        if s_.check() == z3.unsat:
            continue
        npaths += 1
        P = W.power(bf, mf); pe = D.lift(cell.v)
        diss = P + der(pe)
        tag = "path %d" % npaths
        friction = len(path) >= 4 and script[2] and script[3]          # branch order: inside, distance == 0, f > 0, (f > 0 && vslip != 0)
        if friction:
            undecided_friction.append(tag)      # sqrt + min + rational friction law: z3 does not finish; listed under not decided, not claimed
        else:
            B.prove_bool("ElasticFoundation spring vs half-space, %s: dissipation term (power + d/dt PE) <= 0" % tag, diss <= 0, cond, U, FN, timeout_ms=60000)
        B.prove_bool("ElasticFoundation spring vs half-space, %s: dissipation term == 0 without damping and friction" % tag, diss == 0,
                     cond + [c == 0, us == 0, ud == 0, uv == 0], U, FN, timeout_ms=60000)
        # the reported energy is the documented one: k * (areaScale*A) * depth^2 / 2 with depth = x-coordinate of the spring in the half-space frame
        depth = val((b1.R * sp + b1.p)[0])
        B.prove_bool("ElasticFoundation spring vs half-space, %s: PE == k (areaScale A) depth^2 / 2 or no contact" % tag,
                     z3.Or(val(pe) == k * sc * A * depth * depth / 2, val(pe) == 0), cond, U, FN, timeout_ms=60000)
    if npaths < 3:
        ctx.undecide("ElasticFoundation spring: only %d feasible paths explored" % npaths)
    ctx.assume("ElasticFoundation spring unit: ContactGeometry::HalfSpace::findNearestPoint by contract (inside <=> x > 0, nearest point = (0,y,z), in the surface frame); "
               "ContactSurface/body lookup of GeneralContactSubsystem by contract; half-space fixed on Ground, identity surface-to-body frames; one spring")
    if undecided_friction:
        ctx.not_decided += ["ElasticFoundation spring, friction-active branch (%s): sign of the dissipation term with friction (only '== 0 without damping and friction' and the PE formula are proved there)" % ", ".join(undecided_friction)]
    ctx.not_decided += ["ElasticFoundationForce beyond one spring against a Ground-fixed half-space: curved other surfaces (sliding nearest point), both bodies moving, "
                        "non-identity surface frames, calcForce's loops over contacts and the areaScale selection, TriangleMesh spring placement"]


_EXE = {}


def replay(ctx, ob):
    """native witness: undamped frictionless ElasticFoundationForce, power vs central-difference dPE/dt, mesh on half-space and mesh on mesh (both with parameters)"""
    if "exe" not in _EXE:
        src = os.path.join(REPO, "Simbody/src")
        _EXE["exe"] = native_build(ctx, "c12_ef_replay", os.path.join(VERIF, "replay/c12_ef_replay.cpp"), libs=True,
                                   extra_srcs=[os.path.join(src, "ElasticFoundationForce.cpp")], extra_inc=[src])
    import vlib
    rc, o, e, t = vlib.run([_EXE["exe"], str(ctx.seed)], 300)
    return dict(cmd="c12_ef_replay %d" % ctx.seed, output=o[-3000:], witness_class="elastic-foundation-power-vs-energy"), "REPRODUCED:" in o
