"""C01 (PARTIAL, per-node kernel) - mass-matrix operators agree, M symmetric, kinetic energy = 1/2 u'Mu.
Back end B (route M3): the per-node passes multiplyByMInvPass1Inward/Pass2Outward, multiplyByMPass1Outward/Pass2Inward, realizeArticulatedBodyInertiasInward
of Simbody/src/RigidBodyNodeSpec.cpp (+ RigidBodyNode.cpp, RBGroundBody, the level loops of SimbodyMatterSubsystemRep.cpp) are cut from the current tree
and transliterated each run (checks/dynamicslib.py, shared with C02) and executed on symbolic reals."""
import os, re, json, time, z3
from vlib import *
from extract import *
import symlib as S
from symlib import *
import dynamicslib as DL
import c02 as C02

PID = "C01"
META = dict(
    category="other",
    text=("PARTIAL, per-node kernel of C01 (+ bounded small-tree composition). The real realizeArticulatedBodyInertiasInward, multiplyByMInvPass1Inward/Pass2Outward, multiplyByMPass1Outward/"
          "Pass2Inward of RigidBodyNodeSpec<dof>, calcCompositeBodyInertiasInward / calcKineticEnergy / calcJointIndependentKinematicsVel of RigidBodyNode, realizeVelocity, the Ground node and the "
          "level loops of SimbodyMatterSubsystemRep::multiplyByM / multiplyByMInv / realizeArticulatedBodyInertias / calcKineticEnergy / calcCompositeBodyInertias / realizeVelocityKinematics are "
          "transliterated each run and executed on symbolic reals. (N) node lemmas for dof = 1,2,3 (6 in the thorough tier), fully symbolic hinge matrix H, ANY symmetric articulated inertia, any "
          "parent shift, one arbitrary child: P = Mk + sum Phi P+ ~Phi; D = ~H P H symmetric; DI*D = D*DI = 1 (real Mat<dof,dof>::invert, det D != 0), DI symmetric; G = P H DI; P+ = (1 - G ~H) P, "
          "~H P+ = 0, P+ symmetric; multiplyByMInv passes: z = sum shift(z+_c), A_GB = shift(A_GP) + H udot, P A_GB + z = P+ shift(A_GP) + z+ and the joint equation ~H(P A_GB + z) = f; "
          "multiplyByM passes: A_GB = shift(A_GP) + H udot, F = Mk A_GB + sum shift(F_c) (Newton-Euler written out), tau = ~H F; body kinetic energy = 1/2 m |v_cm|^2 + 1/2 w.I_cm w; H = H_PB_G from H_FM for the 8 frame specialisations "
          "<noR_FM,noX_MB,noR_PF> of calcParentToChildVelocityJacobianInGround[Dot] (each specialised branch equals the general relation under what its flag promises). "
          "(T, BOUNDED: ground + 1 body, ground + 2-body chain, ground + 2 bodies both on Ground, 1 symbolic mobility per body, passes run in the transliterated driver order): multiplyByM(multiplyByMInv(v)) = v, "
          "multiplyByMInv(multiplyByM(x)) = x, ~x M y = ~y M x, calcKineticEnergy = 1/2 ~u M u with V_GB from the real velocity recursion, M entries = composite-rigid-body closed form "
          "(~H Mk H for one body; ~H_k R_k H_k and ~H_1 shift(R_2 H_2) with R from the real calcCompositeBodyInertias), ~u M u = sum m_k(|v_cm|^2 + w.Gc w) >= 0 for valid bodies. "
          "The special node RBNodeLoneParticle (Translation on Ground, identity frames) satisfies the same multiplyByMInv / multiplyByM node lemmas with H = [0; 1] (M = m*1; uIndex != qIndex scenario). "
          "Over the reals (z3 QF_NRA). NOT decided: the induction over arbitrary trees, strict positive definiteness, calcM/calcMInv column assembly, prescribed motion, the mobilizer-specific H, "
          "position kinematics, float rounding."),
    note=("Assumes real arithmetic; trusts z3/cvc5, the transliterator + plumbing rule tables (logged per function), the symlib Vec/Mat shim and the node store / array-view shim of "
          "checks/dynamicslib.py. Let-abstraction by substitution on the term DAG (sound generalisation) and lemma chains keep the goals polynomial identities. Level 'other': per-node kernel + "
          "bounded composition; the tree induction is a textbook step, not machine checked."),
    technique="symbolic execution of transliterated real code over the reals + SMT (z3 QF_NRA); let-abstraction + lemma chains; native random-tree replay through the public API",
    design_ref="5 C01 (partial kernel added)")


def main(ctx):
    ctx.level = "other"
    try:
        B = DL.build(ctx)
    except ExtractionError as e:
        ctx.undecide("extraction: %s" % e)
        return ctx.finish(replayer=lambda ob: C02.replay(ctx, ob))
    thorough = ctx.tier == "thorough"
    unit = C02.unit
    dofs = [1, 2, 3] + ([6] if thorough else [])
    for dof in dofs:
        def node(dof=dof):
            sc = DL.NodeScenario(B, dof, 1)
            abi = DL.abi_lemmas(B, sc, "abi.dof%d" % dof)
            DL.fd_lemmas(B, sc, abi, "mi.dof%d" % dof, zero_bias=True)
        unit(ctx, "abi+mi.dof%d" % dof, node)
        unit(ctx, "mm.dof%d" % dof, lambda dof=dof: DL.id_lemmas(B, DL.NodeScenario(B, dof, 1), "mm.dof%d" % dof, zero_bias=True))
        unit(ctx, "ke.dof%d" % dof, lambda dof=dof: DL.vel_lemmas(B, dof, "ke.dof%d" % dof, which="V1 V5"))
        unit(ctx, "hpbg.dof%d" % dof, lambda dof=dof: DL.hpbg_lemmas(B, dof, "hpbg.dof%d" % dof))
    def shapes():
        for nchild, dof in [(0, 1), (0, 3), (2, 1)] + ([(2, 3)] if thorough else []):
            sc = DL.NodeScenario(B, dof, nchild)
            abi = DL.abi_lemmas(B, sc, "abi.dof%d.children%d" % (dof, nchild))
            DL.fd_lemmas(B, sc, abi, "mi.dof%d.children%d" % (dof, nchild), zero_bias=True)
            DL.id_lemmas(B, DL.NodeScenario(B, dof, nchild), "mm.dof%d.children%d" % (dof, nchild), zero_bias=True)
    unit(ctx, "shapes", shapes)
    for nb in (1, 2):
        unit(ctx, "tree%d.mass" % nb, lambda nb=nb: (DL.tree_roundtrips(B, nb, "tree%d.mass" % nb, "mass"), DL.tree_mass(B, nb, "tree%d.mass" % nb), DL.tree_psd(B, nb, "tree%d.mass" % nb)))
    unit(ctx, "fork2.mass", lambda: (DL.tree_roundtrips(B, 2, "fork2.mass", "mass", shape="fork"), DL.tree_mass(B, 2, "fork2.mass", shape="fork"), DL.tree_psd(B, 2, "fork2.mass", shape="fork")))
    # the special node class RBNodeLoneParticle: M = m*1 for its three mobilities
    unit(ctx, "lone.mm", lambda: DL.lone_id_lemmas(B, "lone.mm", zero_bias=True))
    unit(ctx, "lone.mi", lambda: DL.lone_fd_lemmas(B, "lone.mi", zero_bias=True))
    unit(ctx, "lone.tree", lambda: DL.lone_roundtrips(B, "lone.tree"))
    for k, v in B.drivers.items():
        if v < 1:
            ctx.undecide("driver %s: no level loop transliterated" % k)
    C02.common_evidence(ctx, B)
    ctx.assume("positive semidefiniteness is stated for physically valid bodies: m_k >= 0 and w.Gc_k w >= 0 (Gc_k = G_k - (|c|^2 1 - c c') the unit central inertia); "
               "calcCompositeBodyInertias: total mass != 0 (SpatialInertia += divides by it)")
    ctx.not_decided += [
        "induction over arbitrary trees: the node lemmas are the induction step (arbitrary parent motion, arbitrary child P+/z+/F), the composition is enacted only for ground + 1 body and ground + 2-body chain "
        "and ground + 2 bodies both on Ground (1 mobility per body); deeper chains and branching below a moving body are not composed",
        "strict positive definiteness of M (equivalent to D_k > 0 for every joint in the ABA factorisation; needs physically valid mass properties and H of full column rank); "
        "only M*MInv = MInv*M = 1 under det D_k != 0, symmetry and semidefiniteness are machine checked, the native replay checks LDL' pivots > 0",
        "calcM / calcMInv column-by-column assembly (Matrix column views, contiguity branches): only their columns multiplyByM(e_k) / multiplyByMInv(e_k) are under obligation; compared natively in the replay",
        "prescribed motion (Mrr^-1 sub-block semantics of multiplyByMInv), constraints",
        "the mobilizer-specific H_FM (C03/C05 cover it per mobilizer); H_PB_G is tied to H_FM here for the 8 frame specialisations, but whether each built-in mobilizer class is instantiated "
        "with flags that match its frames (RigidBodyNodeSpec_Derived.cpp factory) is not checked",
        "position kinematics: Phi = PhiMatrix(p_PB_G), Mk_G (calcJointIndependentKinematicsPos; C29 covers the mass-property operators)",
        "Weld nodes, Custom mobilizers (the LoneParticle node: MInv/M node lemmas and round trips only, lone.*); the State/cache/stage plumbing of the SimbodyMatterSubsystemRep drivers",
        "dof = 4, 5 and, in the quick tier, dof = 6 (thorough tier only; Mat<N,N>::invert() for N > 3 (Lapack) modelled by its defining equations)",
        "float rounding; ill-conditioned or singular D"]
    nbd = len([o for o in ctx.obligations if o.bounded])
    ctx.explanation = ("%d functions transliterated; %d obligations (%d of them bounded small-tree composition)." % (len(ctx.functions), len(ctx.obligations), nbd))
    return ctx.finish(replayer=lambda ob: C02.replay(ctx, ob))
