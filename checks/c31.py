"""C31 - Random generators are deterministic and in range.
Back end A (CBMC contracts). Routes: M1 (#include of the unmodified SFMT.cpp +
extern "C" wrappers) and M2 (verbatim cut + token rewrite of Random.cpp members)."""
import os, re, json
from vlib import *
from extract import *

PID = "C31"
META = dict(
    category="proof",
    text=("CBMC code contracts on the real SFMT.cpp (recurrence, whole-state update, seeding frame/parity, to_res53) and on "
          "Random.cpp members cut mechanically each run (buffer protocol, setSeed reset, Uniform range [min,max) for all finite "
          "min<max, integer mode, Gaussian rejection-loop domain and cached-deviate protocol, 2-copy determinism lemmas). All inputs, "
          "all iterations; the seeding multiplier recurrence is a bounded stand-in (6 seeds) and is reported as such; statistics not decided."),
    note=("Trusted: CBMC 6.11 + MiniSat, its IEEE/x87 model, extractor rule tables; assumed: product lemma 0<=fl(u*a)<=a, libm "
          "nextafter/log/sqrt contracts, abstract SFMTData view linking the two units."),
    technique="CBMC function contracts (dfcc) + loop contract + loop-free full-domain harnesses on mechanically extracted real code",
    design_ref="4 C31")
SPEC = os.path.join(VERIF, "specs", PID)
SFMT_DIR = os.path.join(REPO, "SimTKcommon/Random/src")
RANDOM_CPP = os.path.join(SFMT_DIR, "Random.cpp")
SFMT_H = os.path.join(SFMT_DIR, "SFMT.h")
SFMT_CPP = os.path.join(SFMT_DIR, "SFMT.cpp")


def build_random_unit(ctx):
    """M2: cut member declarations and function bodies from Random.cpp, rewrite to C."""
    parts = []
    # --- member declarations ------------------------------------------------
    base = cut_region(RANDOM_CPP, r"class Random::RandomImpl \{\s*private:", r"public:", "RandomImpl members")
    rb = Rewriter(base.body, "RandomImpl members")
    rb.sub("class-head", r"class Random::RandomImpl \{\s*private:", "", 1)
    m = re.search(r"static const int bufferSize = (\d+);", rb.text)
    if not m:
        raise ExtractionError("bufferSize constant not found in RandomImpl")
    bufsize = int(m.group(1))
    rb.sub("static-const->enum(hoisted)", r"static const int bufferSize = \d+;", "", 1)
    rb.drop("static-seed-counter", r"static std::atomic<int> nextSeed;", "", 1)
    rb.sub("mutable", r"\bmutable\s+", "", 3)
    rb.sub("scope-flatten", r"SimTK_SFMT::SFMTData\*", "struct SFMTData*", 1)
    ctx.add_function(RANDOM_CPP, "Random::RandomImpl (data members)", base.start, base.end, base.text, "M2", rb.dropped, rb.log)
    uni = cut_region(RANDOM_CPP, r"class Random::Uniform::UniformImpl : public Random::RandomImpl \{\s*private:", r"public:", "UniformImpl members")
    ru = Rewriter(uni.body, "UniformImpl members")
    ru.sub("class-head", r"class Random::Uniform::UniformImpl : public Random::RandomImpl \{\s*private:", "", 1)
    ctx.add_function(RANDOM_CPP, "Random::Uniform::UniformImpl (data members)", uni.start, uni.end, uni.text, "M2", [], ru.log)
    gau = cut_region(RANDOM_CPP, r"class Random::Gaussian::GaussianImpl : public Random::RandomImpl \{\s*private:", r"public:", "GaussianImpl members")
    rg = Rewriter(gau.body, "GaussianImpl members")
    rg.sub("class-head", r"class Random::Gaussian::GaussianImpl : public Random::RandomImpl \{\s*private:", "", 1)
    rg.sub("mutable", r"\bmutable\s+", "", 2)
    ctx.add_function(RANDOM_CPP, "Random::Gaussian::GaussianImpl (data members)", gau.start, gau.end, gau.text, "M2", [], rg.log)
    parts.append('#include "%s/random_pre.h"\n' % SPEC)
    parts.append("enum { bufferSize = %d };\n" % bufsize)
    parts.append("struct RandomImpl {\n%s\n%s\n%s\n};\n" % (rb.text.strip(), ru.text.strip(), rg.text.strip()))
    parts.append('#include "%s/random_contracts.h"\n' % SPEC)

    # --- to_res53 from SFMT.h (valid C as is) -------------------------------
    c = cut_function(SFMT_H, r"inline static double to_res53\(uint64_t v\)\s*", "to_res53", expect_total=1)
    r = Rewriter(c.text, "to_res53")
    r.sub("inline-static", r"inline static double", "static double", 1)
    ctx.add_function(SFMT_H, "SimTK_SFMT::to_res53", c.start, c.end, c.text, "M2", [], r.log)
    parts.append(r.text + "\n")

    def member_fn(anchor, name, header, members, extra=None, expect_total=1, occurrence=1):
        c = cut_function(RANDOM_CPP, anchor, name, occurrence=occurrence, expect_total=expect_total)
        r = Rewriter("{" + c.body + "}", name)
        if extra:
            extra(r)
        r.members(members)
        ctx.add_function(RANDOM_CPP, name, c.start, c.end, c.text, "M2", r.dropped, r.log)
        parts.append(header + "\n" + r.text + "\n")

    # RandomImpl::getNextRandom
    def x_next(r):
        r.lit("deref-member-ref", "*sfmt", "self->sfmt", 1)
        r.lit("functional-cast", "Real(to_res53(", "(Real)(to_res53(", 1)
    member_fn(r"Real getNextRandom\(\) const\s*", "RandomImpl::getNextRandom",
              "Real getNextRandom(struct RandomImpl* self)", ["nextIndex", "buffer"], x_next)

    # RandomImpl::setSeed
    def x_seed(r):
        r.lit("deref-member-ref", "*sfmt", "self->sfmt", 1)
    member_fn(r"virtual void setSeed\(int seed\)\s*", "RandomImpl::setSeed",
              "void RandomImpl_setSeed(struct RandomImpl* self, int seed)", ["nextIndex"], x_seed)

    # UniformImpl::getValue   (Real getValue() const override: 1st = Uniform, 2nd = Gaussian)
    def x_uni(r):
        r.lit("symbolic-product->trusted-lemma", "getNextRandom()*range", "vf_mul_unit(getNextRandom(self), range)", 1)
        r.sub("libm", r"std::nextafter\(", "vf_nextafter(", None, 0)
    member_fn(r"Real getValue\(\) const override\s*", "UniformImpl::getValue",
              "Real UniformImpl_getValue(struct RandomImpl* self)", ["min", "max", "range"], x_uni, expect_total=2, occurrence=1)

    member_fn(r"void setMin\(Real value\)\s*", "UniformImpl::setMin",
              "void UniformImpl_setMin(struct RandomImpl* self, Real value)", ["min", "max", "range"])
    member_fn(r"void setMax\(Real value\)\s*", "UniformImpl::setMax",
              "void UniformImpl_setMax(struct RandomImpl* self, Real value)", ["min", "max", "range"])

    # GaussianImpl::getValue
    def x_gau(r):
        r.sub("implicit-this-call", r"getNextRandom\(\)", "getNextRandom(self)", 2)
        r.lit("symbolic-product->lemma", "x*x + y*y", "vf_sq(x) + vf_sq(y)", 1)
        r.lit("libm+symbolic-quotient", "std::sqrt((-2*std::log(r2))/r2)", "vf_sqrt(vf_div((-2*vf_log(r2)),r2))", 1)
        r.lit("symbolic-product", "y*multiplier", "vf_mul(y,multiplier)", 1)
        r.lit("symbolic-product", "mean+stddev*x*multiplier", "mean+vf_mul(vf_mul(stddev,x),multiplier)", 1)
        r.lit("symbolic-product", "mean+stddev*nextGaussian", "mean+vf_mul(stddev,nextGaussian)", 1)
        # loop contract for the rejection loop (do ... while): spliced after the condition
        r.sub("loop-contract:getValue#loop1", r"\bdo \{",
              "do\n"
              "  __CPROVER_assigns(x, y, r2, self->nextIndex, __CPROVER_object_whole(self->sfmt), __CPROVER_object_upto(self->buffer, sizeof(self->buffer)))\n"
              "  __CPROVER_loop_invariant(WF_IMPL(self) && WF_SFMT(self->sfmt) && self->nextGaussianIsValid == 0)\n  {", 1)
    member_fn(r"Real getValue\(\) const override\s*", "GaussianImpl::getValue",
              "Real GaussianImpl_getValue(struct RandomImpl* self)",
              ["mean", "stddev", "nextGaussianIsValid", "nextGaussian"], x_gau, expect_total=2, occurrence=2)

    # GaussianImpl::setSeed
    def x_gseed(r):
        r.lit("base-call", "RandomImpl::setSeed(seed)", "RandomImpl_setSeed(self, seed)", 1)
    try:
        member_fn(r"void setSeed\(int seed\) override\s*", "GaussianImpl::setSeed",
                  "void GaussianImpl_setSeed(struct RandomImpl* self, int seed)", ["nextGaussianIsValid"], x_gseed)
    except ExtractionError:
        # virtual-dispatch rule: no override of setSeed inside GaussianImpl -> a Gaussian object's
        # setSeed() is the inherited RandomImpl::setSeed (cut above); the contract of
        # GaussianImpl_setSeed is then enforced on that inherited body
        ctx.add_function(RANDOM_CPP, "GaussianImpl::setSeed (no override in class: resolves to inherited RandomImpl::setSeed)", 0, 0, "", "M2",
                         [], [dict(rule="virtual dispatch resolved to base class method", hits=1, examples=["RandomImpl::setSeed"])])
        parts.append("void GaussianImpl_setSeed(struct RandomImpl* self, int seed)\n{ RandomImpl_setSeed(self, seed); }\n")

    # Random::Uniform::getIntValue
    c = cut_function(RANDOM_CPP, r"int Random::Uniform::getIntValue\(\)\s*", "Random::Uniform::getIntValue", expect_total=1)
    r = Rewriter("{" + c.body + "}", "getIntValue")
    r.lit("impl-forwarding", "getImpl().getValue()", "UniformImpl_getValue(self)", 1)
    r.lit("libm", "std::floor(", "floor(", 1)
    ctx.add_function(RANDOM_CPP, "Random::Uniform::getIntValue", c.start, c.end, c.text, "M2", [], r.log)
    parts.append("int Uniform_getIntValue(struct RandomImpl* self)\n" + r.text + "\n")

    parts.append('#include "%s/random_harness.h"\n' % SPEC)
    path = os.path.join(ctx.out, "random_unit.c")
    open(path, "w").write("\n".join(parts))
    return path, bufsize


def main(ctx):
    ctx.level = "proof"
    try:
        unit_c, bufsize = build_random_unit(ctx)
    except ExtractionError as e:
        ctx.undecide("extraction: %s" % e)
        return ctx.finish()

    # record the M1 functions (whole-file include; spans located for the report only)
    for nm, rx in [("do_recursion", r"inline static void do_recursion\(w128_t \*r, w128_t \*a, w128_t \*b, w128_t \*c,\s*w128_t \*d\)\s*"),
                   ("gen_rand_all", r"inline static void gen_rand_all\(SFMTData& data\)\s*"),
                   ("gen_rand_array", r"inline static void gen_rand_array\(w128_t \*array, int size, SFMTData& data\)\s*"),
                   ("period_certification", r"static void period_certification\(SFMTData& data\)\s*"),
                   ("fill_array64", r"void fill_array64\(uint64_t \*array, int size, SFMTData& data\)\s*"),
                   ("init_gen_rand", r"void init_gen_rand\(uint32_t seed, SFMTData& data\)\s*"),
                   ("rshift128", r"inline static void rshift128\(w128_t \*out, w128_t const \*in, int shift\)\s*"),
                   ("lshift128", r"inline static void lshift128\(w128_t \*out, w128_t const \*in, int shift\)\s*")]:
        try:
            occ = 2 if nm in ("do_recursion", "rshift128", "lshift128") else 1   # 2nd = the !ONLY64 variant that is compiled
            c = cut_function(SFMT_CPP, rx, nm, occurrence=occ)
            ctx.add_function(SFMT_CPP, "SimTK_SFMT::" + nm, c.start, c.end, c.text, "M1 (#include of unmodified SFMT.cpp; nothing dropped)")
        except ExtractionError as e:
            ctx.undecide("extraction: %s" % e)

    sfmt_srcs = [os.path.join(SPEC, "sfmt_impl.cpp"), os.path.join(SPEC, "sfmt_spec.c")]
    sfmt_cc = ["-I" + SFMT_DIR, '-DSFMT_CPP="%s"' % SFMT_CPP, "-DREPO_BUFSIZE=%d" % bufsize]
    UNW = ["--unwind", "630", "--unwinding-assertions", "--object-bits", "12"]
    CHK = ["--bounds-check", "--pointer-check", "--signed-overflow-check", "--div-by-zero-check", "--object-bits", "10"]
    CHKF = ["--bounds-check", "--pointer-check", "--div-by-zero-check"]
    thorough = ctx.tier == "thorough"
    jobs = []

    def J(f, *a, **k):
        jobs.append(lambda: f(ctx, *a, **k))

    # ---- SFMT (M1) ----
    J(cbmc_unit, "sfmt.do_recursion", sfmt_srcs, "h_do_recursion", enforce="w_do_recursion", cc_args=sfmt_cc,
      cbmc_args=CHKF, require_props=[r"postcondition"], function="SimTK_SFMT::do_recursion", timeout=300)
    J(cbmc_unit, "sfmt.to_res53", sfmt_srcs, "h_to_res53", enforce="w_to_res53", cc_args=sfmt_cc,
      cbmc_args=[], require_props=[r"postcondition"], function="SimTK_SFMT::to_res53", timeout=300)
    J(cbmc_unit, "sfmt.consts", sfmt_srcs, "h_consts", no_dfcc=True, cc_args=sfmt_cc, min_obligations=5,
      function="SFMT-params19937.h / RandomImpl::bufferSize", timeout=120)
    J(cbmc_unit, "sfmt.init_gen_rand", sfmt_srcs, "h_init_frame", no_dfcc=True, cc_args=sfmt_cc,
      cbmc_args=UNW + CHKF, min_obligations=3, function="SimTK_SFMT::init_gen_rand + period_certification", timeout=900)
    J(cbmc_unit, "sfmt.gen_rand_all", sfmt_srcs, "h_gen_rand_all", enforce="w_gen_rand_all", cc_args=sfmt_cc,
      cbmc_args=UNW + CHKF, require_props=[r"postcondition"], function="SimTK_SFMT::gen_rand_all", timeout=1200)
    J(cbmc_unit, "sfmt.init_recurrence", sfmt_srcs, "h_init_recurrence", no_dfcc=True, cc_args=sfmt_cc,
      cbmc_args=UNW, min_obligations=3, function="SimTK_SFMT::init_gen_rand",
      bounded="seeding recurrence checked for %d concrete seeds only (620 chained symbolic multiplier equivalences: no back end finishes)" % 6, timeout=600)

    J(cbmc_unit, "sfmt.fill_array64.state", sfmt_srcs, "h_fill_array64_state", no_dfcc=True, cc_args=sfmt_cc,
      cbmc_args=UNW + CHKF, min_obligations=2, function="SimTK_SFMT::fill_array64 + gen_rand_array (size 1024): saved state", timeout=900)
    if thorough:
        J(cbmc_unit, "sfmt.fill_array64", sfmt_srcs, "h_fill_array64_plain", no_dfcc=True, cc_args=sfmt_cc,
          cbmc_args=UNW + CHKF, min_obligations=3, function="SimTK_SFMT::fill_array64 + gen_rand_array (size 1024 = RandomImpl::bufferSize)", timeout=2400)
    # ---- Random.cpp (M2) ----
    rs = [unit_c]
    LIBM = ["vf_mul_unit", "vf_mul", "vf_sq", "vf_nextafter", "vf_log", "vf_sqrt", "vf_div"]
    def R(name, harness, enforce, replace=(), loops=False, extra=(), req=(r"postcondition",)):
        J(cbmc_unit, "random." + name, rs, harness, enforce=enforce, replace=list(replace), loop_contracts=loops,
          cbmc_args=CHK + list(extra), require_props=list(req), function=name, timeout=600)
    R("RandomImpl::getNextRandom", "h_getNextRandom", "getNextRandom", ["fill_array64"])
    R("RandomImpl::setSeed", "h_RandomImpl_setSeed", "RandomImpl_setSeed", ["init_gen_rand"])
    R("GaussianImpl::setSeed", "h_GaussianImpl_setSeed", "GaussianImpl_setSeed", ["RandomImpl_setSeed"])
    R("UniformImpl::getValue", "h_UniformImpl_getValue", "UniformImpl_getValue", ["getNextRandom", "vf_mul_unit", "vf_nextafter"])
    R("UniformImpl::setMin", "h_UniformImpl_setMin", "UniformImpl_setMin")
    R("UniformImpl::setMax", "h_UniformImpl_setMax", "UniformImpl_setMax")
    R("Uniform::getIntValue", "h_Uniform_getIntValue", "Uniform_getIntValue", ["UniformImpl_getValue"], extra=["--conversion-check"])
    R("GaussianImpl::getValue", "h_GaussianImpl_getValue", "GaussianImpl_getValue",
      ["getNextRandom", "vf_mul", "vf_sq", "vf_log", "vf_sqrt", "vf_div"], loops=True,
      req=(r"postcondition", r"loop_invariant_step", r"loop_invariant_base"))
    # 2-copy determinism lemmas (plain harnesses over the same cut text, oracle body for fill_array64)
    for h, n in [("h_det_setSeed", 2), ("h_det_GaussianSetSeed", 2), ("h_det_next", 3)]:
        J(cbmc_unit, "random.lemma." + h, rs, h, no_dfcc=True, cc_args=["-DORACLE_BODY"],
          cbmc_args=["--unwind", str(bufsize + 2), "--unwinding-assertions", "--bounds-check", "--pointer-check"],
          min_obligations=n, function="determinism lemma " + h, timeout=900)
    only = os.environ.get("VERIF_ONLY")
    if only:
        pass
    parallel(jobs)

    ctx.trust("cbmc/goto-cc/goto-instrument 6.11.0 (C front end for the M2 unit and specs, C++ front end for SFMT.cpp), MiniSat")
    ctx.trust("tools/extract.py rule tables (extraction_report.json lists every rewrite and dropped token)")
    ctx.trust("CBMC's IEEE-754 binary64 / x87 long double model, round-to-nearest-even")
    ctx.assume("trusted IEEE lemma vf_mul_unit: for 0<=u<=1 and finite a>=0, 0 <= fl(u*a) <= a (correct rounding is monotone); used in UniformImpl::getValue")
    ctx.assume("libm contracts assumed: nextafter(x,y) lies strictly between for y<x; log(x)<0 for 0<x<1; sqrt>=0; sign of quotient")
    ctx.assume("SFMTData seen from Random.cpp through the abstract contract of init_gen_rand/fill_array64; those contracts' clauses (idx==N32, initialized) are the ones proved on the real SFMT.cpp in units sfmt.*")
    ctx.assume("UniformImpl class invariant range==max-min, min<max, all finite (constructor establishes it; setMin/setMax proved to keep range==max-min)")
    if not thorough:
        ctx.assume("quick tier: of fill_array64/gen_rand_array (size 1024) only the saved-state clause, bounds and frame are discharged; the recurrence clause for the 512 produced words is discharged in the thorough tier (6.5 min, loop-free full-domain harness)")
    ctx.not_decided += ["configured mean and variance within statistical tolerance (statistical statement, no contract expresses it)",
                        "fill_array64/gen_rand_array for sizes other than RandomImpl::bufferSize",
                        "init_by_array, gen_rand32, fill_array32 (not used by Random)"]
    ctx.explanation = ("SFMT-19937 recurrence (do_recursion), whole-state update (gen_rand_all, ghost index, full unrolling of the 156-word state), "
                       "seeding frame/parity, to_res53 range; Random.cpp: getNextRandom buffer protocol, setSeed reset of all later-read state, "
                       "Uniform range [min,max) for all finite min<max, integer mode, Gaussian rejection loop domain + cached deviate protocol, "
                       "2-copy determinism lemmas L1/L2 (unbounded number of draws by induction).")
    return ctx.finish(replayer=lambda ob: replay(ctx, ob))


# ----------------------------------------------------------------------
_exe = {}


def replay_exe(ctx):
    if "exe" not in _exe:
        incs = [os.path.join(REPO, "SimTKcommon/Random/src"), os.path.join(REPO, "SimTKcommon/src")]
        _exe["exe"] = native_build(ctx, "c31_replay", os.path.join(VERIF, "replay/c31_replay.cpp"),
                                   extra_srcs=[SFMT_CPP], defines=['REPO_RANDOM_CPP="%s"' % RANDOM_CPP], extra_inc=incs)
    return _exe["exe"]


def bits_to_hex(b):
    return "%X" % int(b, 2)


def replay(ctx, ob):
    """Map a failed obligation to a native run of the real code."""
    exe = replay_exe(ctx)
    cex = ob.cex or {}
    def val(name):
        for k, v in cex.items():
            if k == name or k.endswith("::" + name) or k.split(".")[-1] == name or k.endswith("->" + name):
                if "binary" in v:
                    return bits_to_hex(v["binary"])
        return None
    rep = {}
    if ob.unit.startswith("sfmt.to_res53"):
        v = val("v") or "FFFFFFFFFFFFFC00"
        rc, o, e, t = run([exe, "to_res53", v], 60)
        rep = dict(cmd="c31_replay to_res53 " + v, output=o)
        return rep, "REPRODUCED" in o
    if ob.unit.startswith("random.UniformImpl::getValue") or ob.unit.startswith("random.Uniform::getIntValue"):
        mn, mx = val("min"), val("max")
        tries = []
        # the verifier's (min,max) with the raw words that make u==1 and u==1-2^-53
        cands = []
        if mn and mx:
            cands += [(mn, mx, "FFFFFFFFFFFFFC00"), (mn, mx, "FFFFFFFFFFFFF800")]
        cands += [("3FF0000000000000", "4008000000000000", "FFFFFFFFFFFFFC00")]
        for a, b, v in cands:
            rc, o, e, t = run([exe, "uniform", a, b, v], 60)
            tries.append(dict(cmd="c31_replay uniform %s %s %s" % (a, b, v), output=o))
            if "REPRODUCED:" in o:
                return dict(tries=tries, witness_class="uniform-returns-max"), True
        return dict(tries=tries), False
    if "setSeed" in ob.unit or "lemma" in ob.unit:
        outs = []
        for mode in ("gaussian_seed", "uniform_seed"):
            for k in (1, 3, 1023, 1025):
                rc, o, e, t = run([exe, mode, "12345", str(k)], 60)
                outs.append(dict(cmd="c31_replay %s 12345 %d" % (mode, k), output=o))
                if "REPRODUCED:" in o:
                    return dict(tries=outs), True
        return dict(tries=outs), False
    if ob.unit.startswith("sfmt.fill") or ob.unit.startswith("sfmt.gen_rand"):
        outs = []
        for sd in ("1234", "1", "-7"):
            rc, o, e, t = run([exe, "stream", sd], 60)
            outs.append(dict(cmd="c31_replay stream " + sd, output=o))
            if "REPRODUCED:" in o:
                return dict(tries=outs), True
        return dict(tries=outs), False
    if ob.unit.startswith("sfmt."):
        rc, o, e, t = run([exe, "kat"], 60)
        return dict(cmd="c31_replay kat (reference SFMT-19937 first outputs for seed 1234)", output=o), "KAT-MISMATCH" in o
    return rep, None
