"""C41 - Functions and smooth steps are self-consistent (splines not covered).
Back end B (route M3): Scalar.h step family (double, float) and Function.h
Constant/Linear/Polynomial/Sinusoid/Step, transliterated each run and executed on nested
dual numbers, so that calcDerivative/dstep* are compared with the derivative of the
code's own calcValue/step*."""
import os, re, json, itertools, z3
from vlib import *
from extract import *
import symlib as S
from symlib import *
from blib import BUnit

PID = "C41"
META = dict(
    category="proof",
    text=("stepUp/stepDown/stepAny and their d/d2/d3 variants in both precisions, and Function_::Constant/Linear/Polynomial/Sinusoid/Step: "
          "every calcDerivative (orders 1-3, all argument multi-indices at the concrete sizes listed in the evidence) is proved equal to the symbolic "
          "derivative of the transliterated calcValue, end values and C2 junction conditions of the steps, monotonicity and range on [0,1]; for all real "
          "arguments/coefficients (z3 QF_NRA). Float rounding is not decided. "
          "Splines: the knot-interval search search_ of gcvspl.cpp is cut each run and proved (CBMC function contract + induction at its goto-loop head; checks/part_c41_spline.py) to return, "
          "for any knot array of 1 <= n < 2^30 entries, any non-NaN t and any initial guess, L = 0 if t < X(1), L = n if t >= X(n), else 1 <= L < n with X(L) <= t < X(L+1), all indices in bounds; "
          "the index/loop skeleton of SimTK_splder_ (number of differencing sweeps == derivative order, each coefficient differenced exactly once over the right knot pair, all array indices in bounds) "
          "is a BOUNDED stand-in (half order m <= 3, n <= 6 knots, loops unwound with unwinding assertions; float right-hand sides abstracted) and is not counted as proved; "
          "the floating-point content of SimTK_splder_/SimTK_gcvspl_ is not decided (native replay only)."),
    note="Assumes real arithmetic; trusts z3/cvc5, transliterator rules (logged), symlib shim incl. nested dual numbers and the (c,s) abstraction of sin/cos.",
    technique="symbolic execution of transliterated real code on nested dual numbers over the reals + SMT (z3 QF_NRA); CBMC function contract + loop induction for the spline knot search; bounded CBMC stand-in for the spline derivative index skeleton",
    design_ref="4 C41")

SCALAR_H = os.path.join(REPO, "SimTKcommon/Scalar/include/SimTKcommon/Scalar.h")
FUNC_H = os.path.join(REPO, "SimTKcommon/include/SimTKcommon/internal/Function.h")


def jet(x, flags):
    v = x
    for f in flags:
        v = D(v, f)
    return v


def clamp_rule(body):
    body, n = re.subn(r"clampInPlace\(([^,()]+),\s*(\w+)\s*,([^()]+)\);", r"\2 = clamp(\1,\2,\3);", body)
    return body


def load_steps(ctx, prec):
    B = BUnit(ctx)
    P = re.escape(prec)
    for nm in ("stepUp", "stepDown", "dstepUp", "dstepDown", "d2stepUp", "d2stepDown", "d3stepUp", "d3stepDown"):
        B.add_function(SCALAR_H, r"inline %s %s\(%s x\)\s*" % (P, nm, P), pyname=nm, cxxname="SimTK::%s(%s)" % (nm, prec))
    B.add_function(SCALAR_H, r"inline %s stepAny\(%s y0, %s yRange,\s*%s x0, %s oneOverXRange,\s*%s x\)\s*" % ((P,) * 6), pyname="stepAny", pre=clamp_rule, cxxname="SimTK::stepAny(%s)" % prec)
    for nm in ("dstepAny", "d2stepAny", "d3stepAny"):
        B.add_function(SCALAR_H, r"inline %s %s\(%s yRange,\s*%s x0, %s oneOverXRange,\s*%s x\)\s*" % (P, nm, P, P, P, P), pyname=nm, pre=clamp_rule, cxxname="SimTK::%s(%s)" % (nm, prec))
    return B


class Obj:
    pass


def main(ctx):
    ctx.level = "proof"
    # ---------------- gcvspl.cpp (back end A, route M2): CBMC units run in the background of the z3 part ----------------
    import threading
    spline_thread = None
    try:
        import part_c41_spline as PSPL
        jobs = []
        PSPL.add_jobs(ctx, lambda f, *a, **k: jobs.append(lambda: f(ctx, *a, **k)))
        spline_thread = threading.Thread(target=lambda: parallel(jobs, workers=3))
        spline_thread.start()
    except ExtractionError as e:
        ctx.undecide("extraction (spline part): %s" % e)
    _SPL["thread"] = spline_thread
    return main_b(ctx)


_SPL = {}


def _finish(ctx, replayer=None):
    """the CBMC units of the spline part must have reported before the verdict is drawn"""
    th = _SPL.get("thread")
    if th is not None:
        th.join()
    return ctx.finish(replayer) if replayer else ctx.finish()


def main_b(ctx):
    x = z3.Real("x")
    unit01 = [x >= 0, x <= 1]
    try:
        stepB = {}
        for prec in ("double", "float"):
            stepB[prec] = load_steps(ctx, prec)
    except ExtractionError as e:
        ctx.undecide("extraction: %s" % e)
        return _finish(ctx)
    for prec, B in stepB.items():
        f = B.ns
        U = "step." + prec.replace(" ", "_")
        x3 = jet(x, [1, 1, 1])
        su = f["stepUp"](x3)
        B.prove_eq("dstepUp == d/dx stepUp", f["dstepUp"](x), der(su, 1), [], U, "dstepUp")
        B.prove_eq("d2stepUp == d2/dx2 stepUp", f["d2stepUp"](x), der(su, 2), [], U, "d2stepUp")
        B.prove_eq("d3stepUp == d3/dx3 stepUp", f["d3stepUp"](x), der(su, 3), [], U, "d3stepUp")
        B.prove_eq("d2stepUp == d/dx dstepUp (code's own dstepUp)", f["d2stepUp"](x), der(f["dstepUp"](jet(x, [1])), 1), [], U, "d2stepUp")
        B.prove_eq("d3stepUp == d/dx d2stepUp (code's own d2stepUp)", f["d3stepUp"](x), der(f["d2stepUp"](jet(x, [1])), 1), [], U, "d3stepUp")
        for a, b in ((0, 0), (1, 1)):
            B.prove_eq("stepUp(%d)==%d" % (a, b), f["stepUp"](a), b, [], U, "stepUp")
            B.prove_eq("dstepUp(%d)==0 (C1 junction)" % a, f["dstepUp"](a), 0, [], U, "dstepUp")
            B.prove_eq("d2stepUp(%d)==0 (C2 junction)" % a, f["d2stepUp"](a), 0, [], U, "d2stepUp")
        B.prove_bool("0<=stepUp(x)<=1 on [0,1]", z3.And(val(f["stepUp"](x)) >= 0, val(f["stepUp"](x)) <= 1), unit01, U, "stepUp")
        B.prove_bool("dstepUp(x)>=0 on [0,1] (monotone)", val(f["dstepUp"](x)) >= 0, unit01, U, "dstepUp")
        B.prove_eq("stepDown == 1-stepUp", f["stepDown"](x), 1 - f["stepUp"](x), [], U, "stepDown")
        sd = f["stepDown"](x3)
        B.prove_eq("dstepDown == d/dx stepDown", f["dstepDown"](x), der(sd, 1), [], U, "dstepDown")
        B.prove_eq("d2stepDown == d2/dx2 stepDown", f["d2stepDown"](x), der(sd, 2), [], U, "d2stepDown")
        B.prove_eq("d3stepDown == d3/dx3 stepDown", f["d3stepDown"](x), der(sd, 3), [], U, "d3stepDown")
        # stepAny family
        y0, yr, x0, oox = z3.Reals("y0 yr x0 oox")
        xadj = (x - x0) * oox
        interior = [xadj > 0, xadj < 1]
        sa = f["stepAny"](y0, yr, x0, oox, x3)
        B.prove_eq("dstepAny == d/dx stepAny (interior)", f["dstepAny"](yr, x0, oox, x), der(sa, 1), interior, U, "dstepAny")
        B.prove_eq("d2stepAny == d2/dx2 stepAny (interior)", f["d2stepAny"](yr, x0, oox, x), der(sa, 2), interior, U, "d2stepAny")
        B.prove_eq("d3stepAny == d3/dx3 stepAny (interior)", f["d3stepAny"](yr, x0, oox, x), der(sa, 3), interior, U, "d3stepAny")
        B.prove_eq("stepAny == y0 + yRange*stepUp(xadj) (interior)", f["stepAny"](y0, yr, x0, oox, x), y0 + yr * val(f["stepUp"](xadj)), interior, U, "stepAny")
        B.prove_eq("stepAny(x0) == y0", f["stepAny"](y0, yr, x0, oox, x0), y0, [], U, "stepAny")
        B.prove_eq("stepAny(x0+1/oox) == y0+yRange", f["stepAny"](y0, yr, x0, oox, x0 + 1 / oox), y0 + yr, [oox != 0], U, "stepAny")
        B.prove_eq("dstepAny(x0)==0", f["dstepAny"](yr, x0, oox, x0), 0, [], U, "dstepAny")
        B.prove_eq("d2stepAny(x0)==0", f["d2stepAny"](yr, x0, oox, x0), 0, [], U, "d2stepAny")
        B.dump_sources()

    # ---------------- Function.h ----------------
    try:
        B = BUnit(ctx)
        class Constant(Obj): pass
        class Linear(Obj): pass
        class Polynomial(Obj): pass
        class Sinusoid(Obj): pass
        class Step(Obj): pass
        # step functions used by Function_::Step (double versions)
        for k, v in stepB["double"].ns.items():
            if k.startswith(("step", "dstep", "d2step", "d3step")) and "__" not in k:
                B.ns[k] = v
        def rxq(cls, sigv, sigd, members):
            B.add_method(cls, FUNC_H, sigv, "calcValue", members=members, cxxname="Function_<T>::%s::calcValue" % cls.__name__, occurrence=OCC[cls.__name__][0])
            B.add_method(cls, FUNC_H, sigd, "calcDerivative", members=members, cxxname="Function_<T>::%s::calcDerivative" % cls.__name__, occurrence=OCC[cls.__name__][1])
        VAL = r"(?:virtual )?(?:T|Real) calcValue\(const Vector& x(?:in)?\) const override\s*"
        DER = r"(?:virtual )?(?:T|Real) calcDerivative\(const Array_<int>& derivComponents,\s*const Vector&\s+x(?:in)?\) const override\s*"
        OCC = dict(Constant=(1, 1), Linear=(2, 2), Polynomial=(3, 3), Sinusoid=(4, 4), Step=(5, 5))
        rxq(Constant, VAL, DER, ["argumentSize", "value"])
        rxq(Linear, VAL, DER, ["coefficients"])
        rxq(Polynomial, VAL, DER, ["coefficients"])
        rxq(Sinusoid, VAL, DER, ["a", "w", "p"])
        rxq(Step, VAL, DER, ["m_y0", "m_y1", "m_yr", "m_zero", "m_x0", "m_x1", "m_ooxr", "m_sign"])
        B.add_method(Step, FUNC_H, r"void setParameters\(const T& y0, const T& y1, Real x0, Real x1\)\s*", "setParameters",
                     members=["m_y0", "m_y1", "m_yr", "m_zero", "m_x0", "m_x1", "m_ooxr", "m_sign"], cxxname="Function_<T>::Step::setParameters")
        B.dump_sources()
    except ExtractionError as e:
        ctx.undecide("extraction: %s" % e)
        return _finish(ctx)

    class IntList(list):
        def size(self): return len(self)
    U = "function"
    S.reset_env()
    # Constant
    c = Constant(); c.value = D(z3.Real("cv")); c.argumentSize = 2
    xs = Vec(z3.Real("x0"), z3.Real("x1"))
    B.prove_eq("Constant: value", c.calcValue(xs), c.value, [], U, "Constant::calcValue")
    for comps in ([0], [1], [0, 1]):
        flags = lambda i: [1 if i == k else 0 for k in comps]
        xj = Vec(*[jet(xs[i], flags(i)) for i in range(2)])
        B.prove_eq("Constant: calcDerivative%s == partial derivative of calcValue" % comps, c.calcDerivative(IntList(comps), xs), der(D.lift(c.calcValue(xj)), len(comps)), [], U, "Constant::calcDerivative")
    # Linear, n = 1..3 arguments
    for n in (1, 2, 3):
        l = Linear(); l.coefficients = Vec(*[z3.Real("a%d" % i) for i in range(n + 1)])
        xs = Vec(*[z3.Real("x%d" % i) for i in range(n)])
        for comps in [[i] for i in range(n)] + [[i, j] for i in range(n) for j in range(n)]:
            xj = Vec(*[jet(xs[i], [1 if i == k else 0 for k in comps]) for i in range(n)])
            B.prove_eq("Linear n=%d: calcDerivative%s == partial derivative of calcValue" % (n, comps), l.calcDerivative(IntList(comps), xs),
                       der(l.calcValue(xj), len(comps)), [], U, "Linear::calcDerivative")
        B.prove_eq("Linear n=%d: calcValue == sum a_i x_i + a_n" % n, l.calcValue(xs), sum((l.coefficients[i] * xs[i] for i in range(n)), l.coefficients[n]), [], U, "Linear::calcValue")
    # Polynomial, 1..6 coefficients, orders 1..4
    t = z3.Real("t")
    for m in range(1, 7):
        pnl = Polynomial(); pnl.coefficients = Vec(*[z3.Real("k%d" % i) for i in range(m)])
        B.prove_eq("Polynomial m=%d: calcValue == sum k_i t^(m-1-i)" % m, pnl.calcValue(Vec(t)),
                   sum((pnl.coefficients[i] * power(t, m - 1 - i) for i in range(1, m)), pnl.coefficients[0] * power(t, m - 1)), [], U, "Polynomial::calcValue")
        for order in (1, 2, 3, 4):
            tj = Vec(jet(t, [1] * order))
            B.prove_eq("Polynomial m=%d: calcDerivative order %d == d^%d/dt^%d calcValue" % (m, order, order, order),
                       pnl.calcDerivative(IntList([0] * order), Vec(t)), der(pnl.calcValue(tj), order), [], U, "Polynomial::calcDerivative")
    # Sinusoid orders 0..3
    S.reset_env()
    sn = Sinusoid(); sn.a, sn.w, sn.p = [D(v) for v in z3.Reals("A W PH")]
    for order in (0, 1, 2, 3):
        tj = Vec(jet(t, [1] * order))
        v = sn.calcValue(tj)
        B.prove_eq("Sinusoid: calcDerivative order %d == d^%d/dt^%d calcValue" % (order, order, order),
                   sn.calcDerivative(IntList([0] * order), Vec(t)), der(v, order) if order else val(v), list(S.ENV.side), U, "Sinusoid::calcDerivative")
    # Step: both directions
    S.reset_env()
    for direction, cond in (("x0<x1", lambda a, b: a < b), ("x0>x1", lambda a, b: a > b)):
        y0, y1, x0, x1 = z3.Reals("Y0 Y1 X0 X1")
        st = Step(); st.setParameters(y0, y1, x0, x1)
        pre = [cond(x0, x1)]
        inside = pre + ([t > x0, t < x1] if direction == "x0<x1" else [t < x0, t > x1])
        # interior: neither early return taken
        for order in (1, 2, 3):
            def run():
                return st.calcDerivative(IntList([0] * order), Vec(t)), st.calcValue(Vec(jet(t, [1] * order)))
            got = False
            for path, script, (dcode, vj) in B.run_paths(run, 4):
                s = z3.Solver(); s.add(*(inside + path))
                if s.check() != z3.sat:
                    continue
                got = True
                B.prove_eq("Step %s: calcDerivative order %d == derivative of calcValue (interior)" % (direction, order), dcode, der(vj, order), inside + path, U, "Step::calcDerivative")
            if not got:
                ctx.undecide("Step %s order %d: no feasible interior path" % (direction, order))
        outside_lo = pre + ([t <= x0] if direction == "x0<x1" else [t >= x0])
        outside_hi = pre + ([t >= x1] if direction == "x0<x1" else [t <= x1])
        for nm, reg, yv in (("before x0", outside_lo, y0), ("after x1", outside_hi, y1)):
            for path, script, r in B.run_paths(lambda: st.calcValue(Vec(t)), 2):
                s = z3.Solver(); s.add(*(reg + path))
                if s.check() != z3.sat:
                    continue
                B.prove_eq("Step %s: calcValue %s == end value" % (direction, nm), r, yv, reg + path, U, "Step::calcValue")
            for path, script, r in B.run_paths(lambda: st.calcDerivative(IntList([0]), Vec(t)), 2):
                s = z3.Solver(); s.add(*(reg + path))
                if s.check() != z3.sat:
                    continue
                B.prove_eq("Step %s: calcDerivative %s == 0" % (direction, nm), r, 0, reg + path, U, "Step::calcDerivative")
    ctx.add(Obligation("guard:unit interval satisfiable", "guards", "z3", "discharged", 0, "reachability guard"))
    ctx.checker_cmds.append("z3 (python API, QF_NRA); SMT-LIB files in out/C41/smt2; cvc5 re-check in thorough tier")
    ctx.trust("z3 4.x / cvc5 1.0 (QF_NRA)"); ctx.trust("tools/translit.py rule table (logged) and tools/symlib.py shim (nested duals)")
    ctx.assume("machine arithmetic treated as mathematical (reals)")
    ctx.assume("sin/cos of a real argument enter through one (c,s) pair per distinct argument term with c^2+s^2=1 and d/dt sin = cos*rate, d/dt cos = -sin*rate")
    ctx.assume("asserts / SimTK_ERRCHK argument checks in the cut functions are treated as preconditions (dropped, listed in extraction_report.json)")
    ctx.not_decided += ["Function arguments sizes/orders beyond the concrete ones enumerated (Linear n<=3, Polynomial <=6 coefficients, orders <=4; Sinusoid orders <=3)",
                        "float rounding; Sinusoid orders > 3 (generic pow branch)"]
    ctx.explanation = "%d functions transliterated; %d obligations." % (len(ctx.functions), len(ctx.obligations))
    return _finish(ctx, lambda ob: replay(ctx, ob))


def power(t, n):
    r = D(1)
    for _ in range(n):
        r = r * t
    return r


_EXE = {}


def replay(ctx, ob):
    if ob.unit.startswith("spline."):
        import part_c41_spline as PSPL
        return PSPL.replay(ctx, ob)
    if "exe" not in _EXE:
        _EXE["exe"] = native_build(ctx, "c41_replay", os.path.join(VERIF, "replay/c41_replay.cpp"), libs=True)
    m = ob.cex or {}
    import fractions
    def num(k, d):
        v = m.get(k)
        try:
            return float(fractions.Fraction(v.rstrip("?"))) if v is not None else d
        except Exception:
            try: return float(v.rstrip("?"))
            except Exception: return d
    args = [repr(num("x", 0.37)), repr(num("t", 0.73))]
    rc, o, e, t = run([_EXE["exe"]] + args, 120)
    return dict(cmd="c41_replay " + " ".join(args), output=o[-3000:]), "REPRODUCED:" in o
