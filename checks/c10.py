"""C10 - prescribed motion honoured exactly: first clause only ("coordinates / speeds governed by
prescribed Motion objects or locks take exactly their prescribed values after the prescribe step")
for the two solvers that copy them into the State, plus their frame.
Back end A (CBMC contracts + loop contracts), route M2: SimbodyMatterSubsystemRep::prescribeQ /
prescribeU (SimbodyMatterSubsystemRep.cpp) and SBInstanceCache::getTotalNumPresQ/ZeroQ/PresU/ZeroU
(SimbodyTreeState.h) are cut from /repo each run."""
import os, re
from vlib import *
from extract import *

PID = "C10"
META = dict(
    category="other",
    text=("CBMC function + loop contracts on SimbodyMatterSubsystemRep::prescribeQ/prescribeU cut mechanically from the real source: returns false and "
          "invalidates nothing iff there are no prescribed/known-zero coordinates; otherwise every prescribed q/u equals its pool value bit-exactly, "
          "every known-zero one is +0.0, and every other coordinate keeps its bit pattern (frame); any vector length and list lengths (loop "
          "contracts, ghost coordinate). Everything else in C10 (partitioned dynamics, multipliers) is not decided. "
          "Lock protocol (checks/part_c10_lock.py): MobilizedBodyImpl::lock/lockAt/unlock/getLockLevel/getLockValueAsVector and the prescribed-udot part of "
          "realizeDynamics cut from MobilizedBody.cpp and proved against their documented contracts (ghost slot indices, frame for other mobilizers, lock(Acceleration) stores +0 from any history). "
          "realizeDynamics (checks/part_c10_lock_dyn.py): over abstract Motion::calcPrescribed*/multiplyByNDot/multiplyByNInv the own presUDotPool slots receive N^-1 applied to exactly "
          "(prescribed qdotdot - NDot*u of this mobilizer's u) at position level, the prescribed velocity derivative / acceleration at the other levels, lockedUs under a lock, and nothing else is written."),
    note=("Assumed: Vector/Array_ element access is bounds-checked raw storage; the presQ/zeroQ (presU/zeroU) index lists are in range, duplicate-free and "
          "mutually disjoint, and the pools have one slot per prescribed coordinate (established where SBInstanceCache/SBTimeCache are built)."),
    technique="CBMC function contracts (dfcc) + loop contracts with a ghost coordinate on mechanically extracted real code",
    design_ref="4 C10")
SPEC = os.path.join(VERIF, "specs", PID)
REP_CPP = os.path.join(REPO, "Simbody/src/SimbodyMatterSubsystemRep.cpp")
TREESTATE_H = os.path.join(REPO, "Simbody/src/SimbodyTreeState.h")


def loop_contract(vec, kind, target, n):
    """invariant for one of the two copy loops; target: C expression for the value a done element has."""
    done = "(gk_kind == %s && gk_pos < i)" % kind
    return ("__CPROVER_assigns(i, __CPROVER_object_whole(%s->data))\n"
            "__CPROVER_loop_invariant(0 <= i && i <= %s\n"
            "    && (%s ==> %s)\n"
            "    && (!%s ==> SAME(%s->data[gk], __CPROVER_loop_entry(%s->data[gk]))))\n"
            "__CPROVER_decreases(%s - i)" % (vec, n, done, target, done, vec, vec, n))


def build_unit(ctx):
    parts = ['#include "%s/prescribe_pre.h"\n' % SPEC]
    # --- SBInstanceCache::getTotalNum{Pres,Zero}{Q,U} ---
    for nm in ("PresQ", "ZeroQ", "PresU", "ZeroU"):
        c = cut_function(TREESTATE_H, r"int getTotalNum%s\(\) const\s*" % nm, "SBInstanceCache::getTotalNum" + nm, expect_total=1)
        r = Rewriter("{" + c.body + "}", "getTotalNum" + nm)
        r.sub("implicit-this + container->stub: size()", r"\b(pres|zero)(Q|U)\.size\(\)", r"idx_size(&self->\1\2)", 1)
        ctx.add_function(TREESTATE_H, "SBInstanceCache::getTotalNum" + nm, c.start, c.end, c.text, "M2", r.dropped, r.log)
        parts.append("static int getTotalNum%s(const struct SBInstanceCache* self)\n%s\n" % (nm, r.text))
    parts.append('#include "%s/prescribe_contracts.h"\n' % SPEC)
    # --- prescribeQ / prescribeU ---
    for X, x, cachevar, cachetype, getter, pool in (("Q", "q", "tc", "SBTimeCache", "getTimeCache", "presQPool"),
                                                    ("U", "u", "cpc", "SBConstrainedPositionCache", "getConstrainedPositionCache", "presUPool")):
        nm = "SimbodyMatterSubsystemRep::prescribe" + X
        c = cut_function(REP_CPP, r"bool SimbodyMatterSubsystemRep::prescribe%s\(State& s\) const\s*" % X, nm, expect_total=1)
        r = Rewriter("{" + c.body + "}", nm)
        r.sub("reference->pointer + implicit this: cache getters", r"const (SBModelCache|SBInstanceCache|%s)&\s*(\w+) = (\w+)\(s\);" % cachetype,
              r"const struct \1* \2 = \3(self, s);", 3)
        r.sub("reference->pointer + implicit this: upd%s" % X, r"Vector& %s = upd%s\(s\);" % (x, X), "struct Vector* %s = upd%s(self, s);" % (x, X), 1)
        r.sub("reference->pointer: ic.getTotalNum*()", r"\bic\.getTotalNum(Pres|Zero)%s\(\)" % X, r"getTotalNum\1%s(ic)" % X, 2)
        r.sub("container->contracted-stub: v[ic.list[i]] = pool[i]", r"\b%s\[ic\.(pres%s)\[i\]\] = %s\.%s\[i\];" % (x, X, cachevar, pool),
              r"*vec_upd(%s, idx_at(&ic->\1, i)) = vec_get(&%s->%s, i);" % (x, cachevar, pool), 1)
        r.sub("container->contracted-stub: v[ic.list[i]] = 0", r"\b%s\[ic\.(zero%s)\[i\]\] = ([^;]*);" % (x, X), r"*vec_upd(%s, idx_at(&ic->\1, i)) = \2;" % x, 1)
        np_, nz_ = "np" + x, "nz" + x
        r.splice_loop("loop-contract:prescribe%s#loop1" % X, r"\bfor\s*\(",
                      loop_contract(x, "K_PRES", "SAME(%s->data[gk], %s->%s.data[gk_pos])" % (x, cachevar, pool), np_), 1)
        r.splice_loop("loop-contract:prescribe%s#loop2" % X, r"\bfor\s*\(", loop_contract(x, "K_ZERO", "PZERO(%s->data[gk])" % x, nz_), 2)
        ctx.add_function(REP_CPP, nm, c.start, c.end, c.text, "M2", r.dropped, r.log)
        parts.append("bool Rep_prescribe%s(const struct Rep* self, struct State* s)\n%s\n" % (X, r.text))
    parts.append('#include "%s/prescribe_harness.h"\n' % SPEC)
    path = os.path.join(ctx.out, "prescribe_unit.c")
    open(path, "w").write("\n".join(parts))
    return path


def main(ctx):
    ctx.level = "other"
    try:
        unit_c = build_unit(ctx)
    except ExtractionError as e:
        ctx.undecide("extraction: %s" % e)
        return ctx.finish()
    CHK = ["--bounds-check", "--pointer-check", "--signed-overflow-check", "--object-bits", "10"]
    jobs = []
    for X in ("Q", "U"):
        jobs.append(lambda X=X: cbmc_unit(ctx, "matter.prescribe" + X, [unit_c], "h_prescribe" + X, enforce="Rep_prescribe" + X, replace=["idx_at"],
                                          loop_contracts=True, cbmc_args=CHK, timeout=120, function="SimbodyMatterSubsystemRep::prescribe" + X,
                                          require_props=[r"postcondition\.1$", r"postcondition\.3$", r"postcondition\.5$", r"loop_invariant_base", r"loop_invariant_step"]))
    jobs.append(lambda: cbmc_unit(ctx, "matter.getTotalNum", [unit_c], "h_counts", no_dfcc=True, cbmc_args=["--bounds-check", "--pointer-check"],
                                  min_obligations=2, function="SBInstanceCache::getTotalNumPresQ/ZeroQ/PresU/ZeroU", timeout=120))
    jobs.append(lambda: cover_unit(ctx, "matter.prescribe.cover", [unit_c], "h_cover", expect_min=4, function="prescribeQ/U contract precondition"))
    parallel(jobs)
    lock_replayer = None
    try:
        import part_c10_lock
        lock_replayer = part_c10_lock.run(ctx)
    except ExtractionError as e:
        ctx.undecide("extraction (lock protocol): %s" % e)
    ctx.trust("cbmc/goto-cc/goto-instrument 6.11.0 (C front end), MiniSat")
    ctx.trust("tools/extract.py + the rewrite table in checks/c10.py (extraction_report.json lists every rewrite)")
    ctx.assume("Vector::operator[] / Array_<Real>::operator[] are bounds-checked raw storage (index in range is an obligation of the caller, checked here)")
    ctx.assume("index lists presQ/zeroQ (presU/zeroU) are in range, duplicate-free and mutually disjoint (precondition established where SBInstanceCache is built; "
               "encoded pointwise for the ghost coordinate in the contract of the list accessor idx_at)")
    ctx.assume("presQPool/presUPool have exactly one slot per prescribed coordinate (SBTimeCache/SBConstrainedPositionCache::allocate)")
    ctx.assume("getModelCache/getInstanceCache/getTimeCache/getConstrainedPositionCache return the State's cache entries; updQ/updU return this subsystem's "
               "q/u and invalidate the stage (ghost flag)")
    ctx.not_decided += ["that the presQPool/presUPool values are the values the Motion objects / locks prescribe (Motion::calcPrescribedPosition/Velocity, realizeTime/Position pool filling); "
                        "for presUDotPool this is decided by the lock.realizeDynamics units, relative to abstract Motion / N operators",
                        "partitioned forward dynamics: other mobilities solved as if the prescribed ones were inputs; motion multipliers reproduce the accelerations",
                        "disabling a Motion (Motion::disable) and lockByDefault; realizeTime/realizePosition pool filling",
                        "known-zero q of quaternion mobilizers should be the reference configuration, not 0 (TODO in the source)"]
    ctx.explanation = ("prescribeQ/prescribeU: exact (bit-pattern) copy of prescribed values, +0.0 for known-zero entries, frame for all other coordinates, "
                       "false/no invalidation iff nothing to do - proved for any sizes via loop contracts and a ghost coordinate. Index-list well-formedness assumed.")
    def replayer(ob):
        if ob.unit.startswith("lock.") and lock_replayer:
            return lock_replayer(ob)
        return replay(ctx, ob)
    return ctx.finish(replayer=replayer)


_exe = {}


def replay(ctx, ob):
    """API-level replay: System::prescribeQ/prescribeU on a small chain with Motion::Sinusoid, Motion::Steady and a velocity lock."""
    if not ob.unit.startswith("matter.prescribe"):
        return {}, None
    if "exe" not in _exe:
        _exe["exe"] = native_build(ctx, "c10_replay", os.path.join(VERIF, "replay/c10_replay.cpp"), libs=True)
    rc, o, e, t = run([_exe["exe"]], 120)
    return dict(cmd="c10_replay", output=o[-2500:], counterexample_note="abstract counterexample: ghost coordinate gk/gk_kind/gk_pos in the obligation's trace"), "REPRODUCED:" in o
