"""C26 - Array_ and pointer wrappers: value semantics.
Back end A (CBMC), route M2: every function body is cut from Array.h / ClonePtr.h / CloneOnWritePtr.h / ReferencePtr.h on each run
(checks/_help_c26.py holds the rewrite tables only).
  1. growth policy calcNewCapacityForGrowthBy (+isGrowthOK/isSizeOK/minAlloc): dfcc contract, UNBOUNDED            (specs/C26/array_growth.h)
  2. Array_ element-moving methods with T := Elem (payload + ghost life-cycle cell per slot); T's special members and allocN/freeN are
     contracted stubs: representation invariant + whole-sequence std::vector postcondition + exact ctor/dtor/alloc counts.
     BOUNDED stand-ins: capacity <= 6, n <= 3, every (capacity,size,position,count) enumerated CONCRETELY inside CBMC (so all pointers and
     loop trip counts resolve during symbolic execution), element values / moved-from garbage symbolic; max_size = INT_MAX, plus
     *.maxsizeN units with max_size 1..5 for the exception/saturation paths of the four growth code paths. swap: UNBOUNDED (loop-free).
                                                                                                                   (specs/C26/array_model.h, array_harness.h)
  3. ClonePtr / CloneOnWritePtr / ReferencePtr with T := Obj and contracted clone()/delete/new long/delete long: loop-free, all handle
     states symbolic, arbitrary number of unseen sharers => UNBOUNDED                                              (specs/C26/ptr_model.h, ptr_harness.h)
  4. native replay driver replay/c26_replay.cpp: Array_<Tracked> vs std::vector (exhaustive small scope + random sequences) and all five
     pointer wrappers on the real headers; also the native witnesses of the defect candidates (modes witness-*).
Dropped from the CBMC claim: ResetOnCopy / ReinitOnCopy (their copy semantics live in mem-initialiser chains, default member initialisers and
partial-specialisation selection, not in function bodies: nothing to cut; exercised by the native replay only); loop-contract (unbounded) proofs
of the range primitives and moveElementsUp/Down (not attempted in the time available: covered inside the bounded stand-ins only)."""
import os, re, json
from vlib import *
from extract import *
import _help_c26 as H

PID = "C26"
META = dict(
    category="other",
    text=("CBMC on Array_<T,X> and the pointer wrappers cut mechanically from the headers each run (T := element with a ghost raw/live life-cycle cell; "
          "T's constructors/destructor, allocN/freeN, clone()/delete as contracted stubs): growth policy (unbounded, all capacities and n); insert(p,n,v)/"
          "insert(p,v)/insertGapAt/growAtEnd/erase(first,last)/erase(p)/eraseFast/push_back (3 forms)/pop_back/resize (2 forms)/reserve/shrink_to_fit/clear "
          "preserve the representation invariant, yield the std::vector result over the WHOLE sequence and construct/destroy every element exactly once with "
          "the documented call counts - bounded stand-in: capacity <= 6, n <= 3, every size and position, symbolic values; swap unbounded; ClonePtr/"
          "CloneOnWritePtr/ReferencePtr copy/move/assign/upd/detach/reset/release semantics and use count == number of live handles for all handle states "
          "(loop-free, unbounded). ReinitOnCopyHelper<T,true> / ResetOnCopyHelper<T,true> (scalar specialisations, T := int): every constructor, assignment and getter against the "
          "documented copy semantics (copy assignment restores the target's OWN remembered initial value / value-initialises, source ignored), loop-free over the full int domain; the class-type "
          "specialisations <T,false> (placement new / base-class operators): native replay only."),
    note=("Trusted: CBMC 6.11 + MiniSat, extractor rule tables. Assumed: life-cycle contracts of T's special members, allocN/freeN, clone()/delete; "
          "X := unsigned; owner arrays only; source value not aliased to an element except in array.alias.* (open finding F11); n <= max_size for "
          "reserve/resize (not checked by the code); insert with a huge count (F10, fixed) is an obligation; growWithGap (unreachable dead code) not claimed."),
    technique="plain CBMC harnesses with contracted stubs + dfcc function contract on mechanically extracted real code; native differential replay",
    design_ref="4 C26")
SPEC = os.path.join(VERIF, "specs", PID)
ARRAY_H = H.ARRAY_H
CAPMAX, NMAX = 6, 3
BOUND = "capacity <= %d, inserted count n <= %d, resize/reserve target <= capacity+%d (<= %d); all sizes <= capacity and all positions enumerated, element values symbolic" % (CAPMAX, NMAX, NMAX, CAPMAX + NMAX)
SBOUND = "max_size in [1,%d] (narrow index types), capacity <= min(3, max_size), n <= 2; all sizes and positions enumerated, element values symbolic" % 5


# ------------------------------------------------------------------------------------------------
# 1. growth policy (unchanged from the first version of this check)
# ------------------------------------------------------------------------------------------------
def build_growth_unit(ctx):
    parts = ['#include "%s/array_growth.h"\n' % SPEC]

    def fn(anchor, name, header, rules, occurrence=1):
        c = cut_function(ARRAY_H, anchor, name, occurrence=occurrence)
        r = Rewriter("{" + c.body + "}", name)
        rules(r)
        ctx.add_function(ARRAY_H, name, c.start, c.end, c.text, "M2", r.dropped, r.log)
        parts.append(header + "\n" + r.text + "\n")

    def x_size(r):
        r.sub("implicit-this-call", r"\bullMaxSize\(\)", "ull(max_size_())", 1)
    fn(r"bool isSizeOK\(S srcSz\) const\s*", "ArrayViewConst_::isSizeOK", "static bool isSizeOK(unsigned long long srcSz)", x_size)

    def x_growth(r):
        r.sub("implicit-this-call", r"this->isSizeOK\(", "isSizeOK(", 1)
        r.sub("implicit-this-call", r"\bullCapacity\(\)", "ull(self->cap)", 1)
        r.sub("implicit-this-call", r"this->ull\(", "ull(", 1)
    fn(r"bool isGrowthOK\(S n\) const\s*", "Array_::isGrowthOK", "static bool isGrowthOK(const struct Arr* self, size_type n)", x_growth)

    def x_min(r):
        r.sub("std::min", r"std::min\(", "vf_min(", 1)
        r.sub("implicit-this-call", r"\bmax_size\(\)", "max_size_()", 1)
        r.sub("functional-cast", r"size_type\(4\)", "(size_type)(4)", 1)
    fn(r"size_type minAlloc\(\) const\s*", "Array_::minAlloc", "static size_type minAlloc(void)", x_min)

    def x_calc(r):
        r.sub("exception plumbing -> ghost flag", r"SimTK_ERRCHK3_ALWAYS\(isGrowthOK\(n\), methodName,[^;]*;",
              "if (!(isGrowthOK(self, n))) { ghost_threw = 1; return 0; }", 1, flags=re.S)
        r.sub("implicit-this-call", r"\bcapacity\(\)", "self->cap", None, 1)
        r.sub("implicit-this-call", r"\bmax_size\(\)", "max_size_()", 2)
        r.sub("std::max", r"std::max\(", "vf_max(", 2)
        r.sub("implicit-this-call", r"\bminAlloc\(\)", "minAlloc()", 1)
    fn(r"size_type calcNewCapacityForGrowthBy\(size_type n, const char\* methodName\) const\s*", "Array_::calcNewCapacityForGrowthBy",
       "size_type calcNewCapacityForGrowthBy(const struct Arr* self, size_type n)", x_calc)
    parts.append("int ghost_threw;\nvoid h_calc(void) { struct Arr* a; size_type n; calcNewCapacityForGrowthBy(a, n); }\n")
    path = os.path.join(ctx.out, "array_unit.c")
    open(path, "w").write("\n".join(parts))
    return path


# ------------------------------------------------------------------------------------------------
# 2. element-moving methods: bounded enumeration units
# ------------------------------------------------------------------------------------------------
def pairs(capmax):
    return [(c, s) for c in range(capmax + 1) for s in range(c + 1)]


def chunks(capmax, weight, budget):
    """split the (capacity,size) pairs (in driver order) into contiguous index ranges of roughly `budget` calls"""
    out, lo, acc = [], 0, 0
    ps = pairs(capmax)
    for i, (c, s) in enumerate(ps):
        w = weight(c, s)
        if acc and acc + w > budget:
            out.append((lo, i - 1)); lo, acc = i, 0
        acc += w
    out.append((lo, len(ps) - 1))
    return out


# method -> (function label, weight(cap,size) = number of concrete calls for that pair)
METHODS = [
    ("insert_n", "Array_::insert(p,n,value)", lambda c, s: (s + 1) * (NMAX + 1)),
    ("insert_one", "Array_::insert(p,value)", lambda c, s: s + 1),
    ("insertGapAt", "Array_::insertGapAt", lambda c, s: (s + 1) * NMAX),
    ("growWithGap", "Array_::growWithGap", lambda c, s: (s + 1) * NMAX),
    ("growAtEnd", "Array_::growAtEnd", lambda c, s: NMAX),
    ("erase_range", "Array_::erase(first,last1)", lambda c, s: (s + 1) * (s + 2) // 2),
    ("erase_one", "Array_::erase(p)", lambda c, s: s),
    ("eraseFast", "Array_::eraseFast", lambda c, s: s),
    ("pop_back", "Array_::pop_back", lambda c, s: 1),
    ("clear", "Array_::clear", lambda c, s: 1),
    ("push_back", "Array_::push_back(const T&)", lambda c, s: 1),
    ("push_back_move", "Array_::push_back(T&&)", lambda c, s: 1),
    ("push_back_default", "Array_::push_back()", lambda c, s: 1),
    ("resize", "Array_::resize(n)", lambda c, s: c + NMAX + 1),
    ("resize_fill", "Array_::resize(n,initVal)", lambda c, s: c + NMAX + 1),
    ("reserve", "Array_::reserve", lambda c, s: c + NMAX + 1),
    ("shrink_to_fit", "Array_::shrink_to_fit", lambda c, s: 1),
]
SMALLMAX_METHODS = ["insert_n", "push_back", "growAtEnd", "growWithGap"]     # the four distinct growth code paths
PLAIN = ["--no-malloc-may-fail", "--no-pointer-check", "--unwind", "16", "--unwinding-assertions", "--object-bits", "12"]


# Array_::growWithGap is private dead code (no caller anywhere in the tree), so its defect is not reachable through the API and is not a property
# violation: the harness h_growWithGap exists in specs/C26/array_harness.h but the unit is never run (it would fail) and cannot affect the exit code.
NOT_RUN = {
    "growWithGap": "Array_::growWithGap (private, dead code: no caller, not reachable through the API) passes newData+size() instead of newData+size()+gapSz as "
                   "the end of the second moveConstructThenDestructSource range; unit array.growWithGap.* exists but is deliberately not run and not claimed. "
                   "insertGapAt, which every insert uses, has the correct bound and is proved (bounded).",
}
THOROUGH_ONLY = {"insertGapAt"}
HUGE_BOUND = ("capacity <= 4, every size and position enumerated; five representative counts per array: max_size-size+1, UINT_MAX-size, and the three "
              "wrap-around cases size+n == 0, == capacity-size, == size-1 (mod 2^32)")
ALIAS_BOUND = "capacity <= 4, n <= 2, every size, position and aliased element enumerated, element values symbolic"


def array_jobs(ctx, unit_c):
    jobs = []
    for m, label, w in METHODS:
        if m in NOT_RUN:
            ctx.not_decided.append("NOT CLAIMED, unit not run: " + NOT_RUN[m])
            continue
        if m in THOROUGH_ONLY and ctx.tier != "thorough":
            continue        # insertGapAt is exercised through insert(p,n,v)/insert(p,v) in the quick tier (same postconditions via insert_post)
        for lo, hi in chunks(CAPMAX, w, 48):
            jobs.append(lambda m=m, label=label, lo=lo, hi=hi: cbmc_unit(
                ctx, "array.%s.pairs%02d-%02d" % (m, lo, hi), [unit_c], "h_" + m, no_dfcc=True, cbmc_args=PLAIN,
                cc_args=["-DCAPMAX=%d" % CAPMAX, "-DNMAX=%d" % NMAX, "-DPAIR_LO=%d" % lo, "-DPAIR_HI=%d" % hi],
                bounded=BOUND, function=label, timeout=200, min_obligations=12, require_props=[r"h_%s\.|t_%s\.|_post\." % (m, m)]))
    for m in SMALLMAX_METHODS:
        if m in NOT_RUN:
            continue
        if m == "growAtEnd" and ctx.tier != "thorough":
            continue        # growAtEnd's exception/saturation paths are exercised through push_back.maxsizeN in the quick tier
        label = [l for mm, l, w in METHODS if mm == m][0]
        for mx in range(1, 6):
            jobs.append(lambda m=m, label=label, mx=mx: cbmc_unit(
                ctx, "array.%s.maxsize%d" % (m, mx), [unit_c], "h_" + m, no_dfcc=True, cbmc_args=PLAIN,
                cc_args=["-DCAPMAX=3", "-DNMAX=2", "-DSMALLMAX", "-DMX_LO=%du" % mx, "-DMX_HI=%du" % mx],
                bounded=SBOUND, function=label, timeout=200, min_obligations=12, require_props=[r"_post\.|t_%s\." % m]))
    # F10 (fixed in /repo by 1c61066a): insert with n > max_size - size() throws, array unchanged; n symbolic
    jobs.append(lambda: cbmc_unit(ctx, "array.insert.hugecount", [unit_c], "h_insert_huge", no_dfcc=True, cbmc_args=PLAIN,
                                  cc_args=["-DCAPMAX=4", "-DNMAX=%d" % NMAX], bounded=HUGE_BOUND, function="Array_::insert(p,n,value) / insertGapAt",
                                  timeout=250, min_obligations=12, require_props=[r"t_insert_huge\.assertion"]))
    # F11 (OPEN known finding): the value argument aliases an element of the same array. These two units fail on the pinned tree.
    jobs.append(lambda: cbmc_unit(ctx, "array.alias.push_back_full", [unit_c], "h_alias_push_back_full", no_dfcc=True, cbmc_args=PLAIN,
                                  cc_args=["-DCAPMAX=4", "-DNMAX=2"], bounded=ALIAS_BOUND, function="Array_::push_back(const T&) [value aliases an element]",
                                  timeout=250, min_obligations=8, require_props=[r"t_alias_push_back_full\.assertion"]))
    jobs.append(lambda: cbmc_unit(ctx, "array.alias.insert_within_capacity", [unit_c], "h_alias_insert_within_capacity", no_dfcc=True, cbmc_args=PLAIN,
                                  cc_args=["-DCAPMAX=4", "-DNMAX=2"], bounded=ALIAS_BOUND, function="Array_::insert(p,n,value) [value aliases an element]",
                                  timeout=250, min_obligations=8, require_props=[r"t_alias_insert_within_capacity\.assertion"]))
    jobs.append(lambda: cbmc_unit(ctx, "array.swap", [unit_c], "h_swap", no_dfcc=True, cbmc_args=PLAIN, function="Array_::swap",
                                  timeout=100, min_obligations=3, require_props=[r"h_swap\.assertion"]))
    jobs.append(lambda: cover_unit(ctx, "array.cover", [unit_c], "h_cover", cbmc_args=["--no-malloc-may-fail", "--no-pointer-check", "--unwind", "16"],
                                   expect_min=6, function="Array_ harness preconditions"))
    return jobs


PTR_HARNESSES = [("cow.copy_ctor", "h_cow_copy_ctor", "CloneOnWritePtr::CloneOnWritePtr(const CloneOnWritePtr&)"),
                 ("cow.assign_copy", "h_cow_assign_copy", "CloneOnWritePtr::operator=(const CloneOnWritePtr&)"),
                 ("cow.assign_self", "h_cow_assign_self", "CloneOnWritePtr::operator= (self)"),
                 ("cow.upd_detach", "h_cow_upd", "CloneOnWritePtr::upd/detach"),
                 ("cow.copy_then_write", "h_cow_copy_then_write", "CloneOnWritePtr copy + upd"),
                 ("cow.reset_destroy", "h_cow_reset", "CloneOnWritePtr::reset()/~CloneOnWritePtr"),
                 ("cow.reset_ptr", "h_cow_reset_ptr", "CloneOnWritePtr::reset(T*)"),
                 ("cow.release", "h_cow_release", "CloneOnWritePtr::release"),
                 ("cow.move", "h_cow_move", "CloneOnWritePtr move ctor/assign"),
                 ("cow.from_object", "h_cow_from_object", "CloneOnWritePtr(T*)/(const T*)/operator=(const T&)"),
                 ("cow.swap", "h_cow_swap", "CloneOnWritePtr::swap"),
                 ("cloneptr.copy_ctor", "h_clone_copy_ctor", "ClonePtr::ClonePtr(const ClonePtr&)"),
                 ("cloneptr.assign_copy", "h_clone_assign_copy", "ClonePtr::operator=(const ClonePtr&)"),
                 ("cloneptr.move", "h_clone_move", "ClonePtr move ctor/assign"),
                 ("cloneptr.reset_release_destroy", "h_clone_reset_release", "ClonePtr::release/reset(T*)/~ClonePtr"),
                 ("cloneptr.from_object", "h_clone_from_object", "ClonePtr(const T&)/(T*)/operator=(const T&)/swap"),
                 ("referenceptr.all", "h_ref", "ReferencePtr copy/move/reset/swap/release")]


def build_ptr_unit(ctx):
    path = os.path.join(ctx.out, "ptr_unit.c")
    open(path, "w").write('#include "%s/ptr_model.h"\n%s\n#include "%s/ptr_harness.h"\n' % (SPEC, H.build_ptr_unit(ctx), SPEC))
    return path


def ptr_jobs(ctx, unit_c):
    args = ["--no-malloc-may-fail", "--unwind", "5", "--unwinding-assertions"]
    jobs = [lambda u=u, h=h, f=f: cbmc_unit(ctx, "ptr." + u, [unit_c], h, no_dfcc=True, cbmc_args=args, function=f, timeout=120, min_obligations=20,
                                            require_props=[r"%s\.assertion" % h, r"check_\w+_world\.assertion" if h != "h_ref" else r"assertion"])
            for u, h, f in PTR_HARNESSES]
    jobs.append(lambda: cover_unit(ctx, "ptr.cover", [unit_c], "h_ptr_cover", cbmc_args=["--no-malloc-may-fail", "--unwind", "5"], expect_min=4,
                                   function="pointer-wrapper harness preconditions"))
    return jobs


def build_reinit_unit(ctx):
    path = os.path.join(ctx.out, "reinit_unit.c")
    open(path, "w").write('#include <stdbool.h>\n%s\n#include "%s/reinit_harness.h"\n' % (H.build_reinit_unit(ctx), SPEC))
    return path


def reinit_jobs(ctx, unit_c):
    return [lambda h=h, f=f, n=n: cbmc_unit(ctx, "copywrap." + h[2:], [unit_c], h, no_dfcc=True, cbmc_args=["--pointer-check", "--bounds-check"], function=f, timeout=120,
                                            min_obligations=n, require_props=[r"%s\.assertion" % h])
            for h, f, n in (("h_reinit", "ReinitOnCopyHelper<T,true> constructors / assignments / getters", 12), ("h_reset", "ResetOnCopyHelper<T,true> constructors / assignments / getter", 7))]


def build_array_unit(ctx):
    u = H.build_array_unit(ctx)
    path = os.path.join(ctx.out, "array_methods_unit.c")
    open(path, "w").write('#include "%s/array_model.h"\n%s\n#include "%s/array_harness.h"\n' % (SPEC, u.text(), SPEC))
    return path


def main(ctx):
    ctx.level = "other"
    try:
        growth_c = build_growth_unit(ctx)
        array_c = build_array_unit(ctx)
        ptr_c = build_ptr_unit(ctx)
        reinit_c = build_reinit_unit(ctx)
    except ExtractionError as e:
        ctx.undecide("extraction: %s" % e)
        return ctx.finish()
    jobs = [lambda: cbmc_unit(ctx, "array.calcNewCapacityForGrowthBy", [growth_c], "h_calc", enforce="calcNewCapacityForGrowthBy",
                              cbmc_args=["--unsigned-overflow-check", "--signed-overflow-check", "--conversion-check", "--pointer-check"],
                              require_props=[r"postcondition", r"overflow"], function="Array_::calcNewCapacityForGrowthBy", timeout=200, min_obligations=8)]
    jobs += array_jobs(ctx, array_c)
    jobs += ptr_jobs(ctx, ptr_c)
    jobs += reinit_jobs(ctx, reinit_c)
    parallel(jobs)
    ctx.trust("cbmc/goto-cc/goto-instrument 6.11.0 (C front end), MiniSat")
    ctx.trust("tools/extract.py rule tables + checks/_help_c26.py (extraction_report.json lists every rewrite and dropped token)")
    ctx.assume("X := unsigned: size_type = packed_size_type = unsigned; max_size() = INT_MAX (ArrayIndexTraits<unsigned>) in the main units, 1..5 in the *.maxsizeN units")
    ctx.assume("T's special members obey the life-cycle protocol of specs/C26/array_model.h (construct into raw storage only, destroy/read live objects only; "
               "moved-from objects stay live with unspecified value); allocN returns fresh raw storage, never fails")
    ctx.assume("owner arrays only (nAllocated != 0 or data == 0); SimTK_ERRCHK debug checks are obligations (proved), SimTK_ERRCHK_ALWAYS modelled as ghost flag + return")
    ctx.assume("forwarding one-liners Array_::f() -> ArrayView_::f() -> ArrayViewConst_::f() are collapsed to the base definition")
    ctx.assume("value/initVal argument does not alias an element of the array itself in every unit except array.alias.* (aliasing = open known finding F11)")
    ctx.assume("array.* units run with --no-pointer-check (CBMC flags the well-defined comparisons/differences of null pointers of a default-constructed array); element "
               "accesses happen only inside T's stubs, which assert non-null/in-bounds/slot-aligned pointers (SLOT_OK) and the RAW/LIVE/FREED state of the slot; freeN marks "
               "blocks FREED instead of calling free() (use-after-free and double free are then life-cycle violations)")
    ctx.assume("reserve(n)/resize(n): n <= max_size() (the code does not check this; capacity could exceed max_size otherwise)")
    ctx.assume("pointer wrappers: T := Obj; T::clone() returns a new heap object with equal value; `delete p` requires a live object (executable contract bodies in "
               "specs/C26/ptr_model.h); template conversions CloneOnWritePtr<U> -> CloneOnWritePtr<T> instantiated with U := T")
    ctx.assume("constructor mem-initialiser lists are turned into statements at the top of the constructor body (rule 'constructor mem-initialiser list -> statements' in extraction_report.json)")
    ctx.not_decided += [
        "reserve(n)/resize(n) with n > max_size(): the code never checks it (capacity could exceed max_size for narrow index types); kept as a precondition",
        "value argument aliasing an element beyond the two call shapes of finding F11 (push_back(a[i]) on a full array, insert(p,n,a[i]) within capacity): "
        "insert(p,a[i]), resize(n,a[i]), aliasing together with reallocation in insert",
        "ResetOnCopy / ReinitOnCopy for class types (<T,false>: inherits from T, destructs and placement-news the base): not under CBMC contract, native replay only; "
        "default member initialisers (T m_value{}) and the forwarding one-liners of the outer ReinitOnCopy/ResetOnCopy classes are not cut",
        "unbounded (loop-contract) proofs of defaultConstruct/fillConstruct/destruct/moveConstructThenDestructSource ranges and moveElementsUp/Down: not attempted; bounded only"]
    ctx.not_decided += ["Array_ sequences beyond the bound (capacity > 6, n > 3) for the element-moving methods",
                        "copy/move construction and assignment of Array_, assign(), iterator-range insert, emplace, ArrayView_ sub-range views and aliasing, non-owner arrays",
                        "index types other than unsigned; move-only element types; T's own operations throwing"]
    ctx.explanation = ("Growth policy, swap and the three pointer wrappers are complete proofs over the stated models; every element-moving Array_ method is a bounded "
                       "stand-in (capacity <= 6, n <= 3) with whole-sequence postconditions, life-cycle protocol and exact constructor/destructor counts. F10 (huge insert count) is an "
                       "obligation that passes on the fixed tree; F11 (value argument aliases an element) is checked by array.alias.* and reported as a known finding.")
    return ctx.finish(replayer=lambda ob: replay(ctx, ob))


_exe = {}


def replay(ctx, ob):
    if "exe" not in _exe:
        _exe["exe"] = native_build(ctx, "c26_replay", os.path.join(VERIF, "replay/c26_replay.cpp"))
    mode, wc = "default", None
    if ob.unit.startswith("array.alias."):
        mode, wc = "witness-alias", "value-argument-aliases-element"
    elif ob.unit.startswith("array.insert.hugecount"):
        mode = "witness-wrap"
    rc, o, e, t = run([_exe["exe"]] + ([mode] if mode != "default" else []), 120)
    reproduced = bool(re.search(r"^REPRODUCED:", o, re.M))
    d = dict(cmd="c26_replay " + mode, rc=rc, output=o[-2500:])
    if wc and reproduced:
        d["witness_class"] = wc
    return d, reproduced
