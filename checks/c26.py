"""C26 - Array_ and pointer wrappers: value semantics.  PARTIAL: only the growth policy of Array_<T,X>
(calcNewCapacityForGrowthBy + isGrowthOK + isSizeOK + minAlloc) is under contract here (unbounded, X := unsigned);
insert/erase/resize/... and the pointer wrappers were not reached in the time available and are listed as not decided."""
import os, re, json
from vlib import *
from extract import *

PID = "C26"
META = dict(
    category="other",
    text=("CBMC contract on Array_<T,unsigned>::calcNewCapacityForGrowthBy with isGrowthOK/isSizeOK/minAlloc cut from Array.h each run: for every capacity "
          "<= max_size and every n it throws exactly when capacity+n > max_size, otherwise returns a capacity >= capacity+n, <= max_size, >= 2*capacity unless "
          "that exceeds max_size, >= 4, with no size_type wrap-around. Element-moving operations (insert/erase/resize/...) and ClonePtr/CloneOnWritePtr/"
          "ReferencePtr/ResetOnCopy are NOT decided by this check."),
    note="Trusted: CBMC 6.11 + MiniSat, extractor rule tables; assumed: representation invariant capacity <= max_size; X := unsigned (max_size = INT_MAX).",
    technique="CBMC function contract (dfcc) on mechanically extracted real code",
    design_ref="4 C26")
SPEC = os.path.join(VERIF, "specs", PID)
ARRAY_H = os.path.join(REPO, "SimTKcommon/include/SimTKcommon/internal/Array.h")


def build_unit(ctx):
    parts = ['#include "%s/array_growth.h"\n' % SPEC]

    def fn(anchor, name, header, rules, occurrence=1):
        c = cut_function(ARRAY_H, anchor, name, occurrence=occurrence)
        r = Rewriter("{" + c.body + "}", name)
        rules(r)
        ctx.add_function(ARRAY_H, name, c.start, c.end, c.text, "M2", r.dropped, r.log)
        parts.append(header + "\n" + r.text + "\n")

    def x_size(r):
        r.sub("implicit-this-call", r"\bullMaxSize\(\)", "ull(max_size_())", 1)
    fn(r"bool isSizeOK\(S srcSz\) const\s*", "ArrayViewConst_::isSizeOK", "static bool isSizeOK(unsigned long long srcSz)", x_size)

    def x_growth(r):
        r.sub("implicit-this-call", r"this->isSizeOK\(", "isSizeOK(", 1)
        r.sub("implicit-this-call", r"\bullCapacity\(\)", "ull(self->cap)", 1)
        r.sub("implicit-this-call", r"this->ull\(", "ull(", 1)
    fn(r"bool isGrowthOK\(S n\) const\s*", "Array_::isGrowthOK", "static bool isGrowthOK(const struct Arr* self, size_type n)", x_growth)

    def x_min(r):
        r.sub("std::min", r"std::min\(", "vf_min(", 1)
        r.sub("implicit-this-call", r"\bmax_size\(\)", "max_size_()", 1)
        r.sub("functional-cast", r"size_type\(4\)", "(size_type)(4)", 1)
    fn(r"size_type minAlloc\(\) const\s*", "Array_::minAlloc", "static size_type minAlloc(void)", x_min)

    def x_calc(r):
        r.sub("exception plumbing -> ghost flag", r"SimTK_ERRCHK3_ALWAYS\(isGrowthOK\(n\), methodName,[^;]*;",
              "if (!(isGrowthOK(self, n))) { ghost_threw = 1; return 0; }", 1, flags=re.S)
        r.sub("implicit-this-call", r"\bcapacity\(\)", "self->cap", None, 1)
        r.sub("implicit-this-call", r"\bmax_size\(\)", "max_size_()", 2)
        r.sub("std::max", r"std::max\(", "vf_max(", 2)
        r.sub("implicit-this-call", r"\bminAlloc\(\)", "minAlloc()", 1)
    fn(r"size_type calcNewCapacityForGrowthBy\(size_type n, const char\* methodName\) const\s*", "Array_::calcNewCapacityForGrowthBy",
       "size_type calcNewCapacityForGrowthBy(const struct Arr* self, size_type n)", x_calc)
    parts.append("int ghost_threw;\nvoid h_calc(void) { struct Arr* a; size_type n; calcNewCapacityForGrowthBy(a, n); }\n")
    path = os.path.join(ctx.out, "array_unit.c")
    open(path, "w").write("\n".join(parts))
    return path


def main(ctx):
    ctx.level = "other"
    try:
        unit_c = build_unit(ctx)
    except ExtractionError as e:
        ctx.undecide("extraction: %s" % e)
        return ctx.finish()
    cbmc_unit(ctx, "array.calcNewCapacityForGrowthBy", [unit_c], "h_calc", enforce="calcNewCapacityForGrowthBy",
              cbmc_args=["--unsigned-overflow-check", "--signed-overflow-check", "--conversion-check", "--pointer-check"],
              require_props=[r"postcondition", r"overflow"], function="Array_::calcNewCapacityForGrowthBy", timeout=200, min_obligations=8)
    ctx.trust("cbmc/goto-cc/goto-instrument 6.11.0 (C front end), MiniSat")
    ctx.trust("tools/extract.py rule tables (extraction_report.json lists every rewrite and dropped token)")
    ctx.assume("X := unsigned: size_type = unsigned, max_size() = INT_MAX (ArrayIndexTraits<unsigned>); other index types not instantiated")
    ctx.assume("representation invariant capacity() <= max_size() (not re-established here: the mutating methods are not under contract)")
    ctx.assume("SimTK_ERRCHK3_ALWAYS modelled as ghost flag + return (exception plumbing rule)")
    ctx.not_decided += ["insertGapAt, growWithGap, growAtEnd, moveElementsUp/Down, erase, eraseFast, push_back, pop_back, insert, resize, reserve, shrink_to_fit, clear, swap: "
                        "element values/order preserved and each element constructed/destroyed exactly once - NOT under contract in this check (not reached in the time available)",
                        "ArrayView_ sub-range views and aliasing", "ClonePtr, CloneOnWritePtr, ReferencePtr, ResetOnCopy, ReinitOnCopy copy semantics",
                        "index types other than unsigned; move-only element types"]
    ctx.explanation = "Only the growth policy is proved (unbounded, all capacities and n); everything else of C26 is listed as not decided."
    return ctx.finish()
