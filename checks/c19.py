"""C19 - Integrators honour the step/report/final-time contract.
Back end A (CBMC contracts), route M2: AbstractIntegratorRep::stepTo (serves every non-CPodes integrator), the inline
state-machine accessors of IntegratorRep.h, IntegratorRep::reinitialize, Integrator::stepBy and the t1-selection block of
takeOneStep are cut from /repo on every run and rewritten to a C unit; contracts live in specs/C19."""
import os, re, json
from vlib import *
from extract import *
from _help_c19c22 import *

PID = "C19"
META = dict(
    category="proof",
    text=("CBMC code contracts on the real text of AbstractIntegratorRep::stepTo (main stepping loop under a loop-head invariant, "
          "takeOneStep replaced by its contract), the IntegratorRep state-machine accessors, IntegratorRep::reinitialize, "
          "Integrator::stepBy and the t1-selection block of takeOneStep: for every state satisfying the class invariant and every "
          "(reportTime, scheduledEventTime, finalTime, options) the returned time is <= min(report, scheduled, final), never "
          "decreases, the advanced time never passes scheduled/final time, report/scheduled/final stops are exact, EndOfSimulation "
          "is returned once and stepping is refused afterwards (ghost 'threw' flag), no scheduled/final time and no report time of "
          "the stepping call lies inside a reported event window; the class invariant is re-established, so the clauses hold for "
          "any sequence of requests. CPodesIntegratorRep::stepTo is not covered."),
    note=("Trusted: CBMC 6.11 + MiniSat, its IEEE-754 model, extractor rule tables. Assumed contracts: takeOneStep (proved in part "
          "by C22 + unit takeonestep.t1; attemptDAEStep reaching t1 assumed), createInterpolatedState/save*AsPrevious effect on "
          "times, non-NaN times, scheduledEventTime >= advanced time. Open finding F7: report time of a LATER call inside an "
          "earlier-localised window."),
    technique="CBMC function contracts (dfcc) + loop contract (loop-head invariant, loop cut at takeOneStep) on mechanically extracted real code",
    design_ref="4 C19")
SPEC = os.path.join(VERIF, "specs", PID)
STAGE_H = os.path.join(REPO, "SimTKcommon/Simulation/include/SimTKcommon/internal/Stage.h")

ACCESSORS = ["getStepCommunicationStatus", "setStepCommunicationStatus", "getAdvancedTime", "getAdvancedState", "getState",
             "getEventWindowLow", "getEventWindowHigh", "setUseInterpolatedState", "getPreviousTime", "isSimulationOver"]
STEPTO_CALLS = ACCESSORS + ["createInterpolatedState", "saveStateAndDerivsAsPrevious", "saveTimeAndStateAsPrevious",
                            "saveStateDerivsAsPrevious", "realizeStateDerivatives", "takeOneStep"]
STEPTO_MEMBERS = ["initialized", "startOfContinuousInterval", "userFinalTime", "userAllowInterpolation",
                  "userReturnEveryInternalStep", "userInternalStepLimit", "statsStepsTaken", "terminationReason"]


def stage_report_value():
    src = blank_comments(open(STAGE_H).read())
    m = re.search(r"\bReport\s*=\s*(\d+)\s*,", src)
    if not m:
        raise ExtractionError("Stage::Report enumerator not found in Stage.h")
    return int(m.group(1))


def accessor_text(ctx):
    """inline accessors of IntegratorRep.h that stepTo/reinitialize use, cut and rewritten (explicit self, State view)"""
    out = []
    def state_time(r):
        r.sub("State::getTime()->view field", r"\.getTime\(\)", ".t", None, 0)
    def ref_ret(names):
        def f(r):
            for n in names:
                r.sub("reference-return->pointer", r"(?<![\w.>&])" + n + r"\b", "&" + n, None, 1)
        return f
    A = lambda *a, **k: out.append(cut_inline(ctx, INTEGREP_H, *a, **k))
    A(r"StepCommunicationStatus getStepCommunicationStatus\(\) const\s*", "IntegratorRep::getStepCommunicationStatus",
      "static int getStepCommunicationStatus(const struct IntegratorRep* self)", ["stepCommunicationStatus"])
    A(r"void setStepCommunicationStatus\(StepCommunicationStatus scs\)\s*", "IntegratorRep::setStepCommunicationStatus",
      "static void setStepCommunicationStatus(struct IntegratorRep* self, int scs)", ["stepCommunicationStatus"])
    A(r"Real\s+getAdvancedTime\(\)\s+const\s*", "IntegratorRep::getAdvancedTime",
      "static Real getAdvancedTime(const struct IntegratorRep* self)", ["advancedState"], extra=state_time)
    A(r"const State& getAdvancedState\(\) const\s*", "IntegratorRep::getAdvancedState",
      "static const struct State* getAdvancedState(const struct IntegratorRep* self)", ["advancedState"], extra=ref_ret(["advancedState"]))
    A(r"const State& getState\(\) const\s*", "IntegratorRep::getState",
      "static const struct State* getState(const struct IntegratorRep* self)", ["useInterpolatedState", "interpolatedState", "advancedState"],
      extra=ref_ret(["interpolatedState", "advancedState"]))
    A(r"Real getEventWindowLow\(\)\s+const\s*", "IntegratorRep::getEventWindowLow",
      "static Real getEventWindowLow(const struct IntegratorRep* self)", ["tLow"])
    A(r"Real getEventWindowHigh\(\)\s+const\s*", "IntegratorRep::getEventWindowHigh",
      "static Real getEventWindowHigh(const struct IntegratorRep* self)", ["tHigh"])
    A(r"void setUseInterpolatedState\(bool shouldUse\)\s*", "IntegratorRep::setUseInterpolatedState",
      "static void setUseInterpolatedState(struct IntegratorRep* self, bool shouldUse)", ["useInterpolatedState"])
    A(r"const Real&\s+getPreviousTime\(\)\s+const\s*", "IntegratorRep::getPreviousTime",
      "static Real getPreviousTime(const struct IntegratorRep* self)", ["tPrev"])
    A(r"bool isSimulationOver\(\) const\s*", "IntegratorRep::isSimulationOver",
      "static bool isSimulationOver(const struct IntegratorRep* self)", ["stepCommunicationStatus"])
    return "\n".join(out)


def common_head(ctx):
    parts = ['#include "%s/pre.h"\n' % os.path.join(VERIF, "specs", "C19")]
    parts.append(cut_enum(INTEGREP_H, "StepCommunicationStatus", "IntegratorRep::StepCommunicationStatus", ctx))
    parts.append(cut_enum(INTEGRATOR_H, "SuccessfulStepStatus", "Integrator::SuccessfulStepStatus", ctx))
    parts.append(cut_enum(INTEGRATOR_H, "TerminationReason", "Integrator::TerminationReason", ctx))
    parts.append("enum { Stage_Report = %d }; /* value read from Stage.h */\n" % stage_report_value())
    parts.append(accessor_text(ctx))
    return parts


def build_unit(ctx):
    parts = common_head(ctx)
    parts.append('#include "%s/contracts.h"\n' % SPEC)

    # ---- AbstractIntegratorRep::stepTo ---------------------------------------------------------
    c = cut_function(ABSTRACT_CPP, r"AbstractIntegratorRep::stepTo\(Real reportTime, Real scheduledEventTime\)\s*", "AbstractIntegratorRep::stepTo", expect_total=1)
    r = Rewriter("{" + c.body + "}", "AbstractIntegratorRep::stepTo")
    r.sub("exception-plumbing: try frame", r"\btry\s*\{", "{", 1)
    r.drop("exception-plumbing: catch blocks (restore previous state + rethrow as StepFailed)",
           r"\}\s*catch\s*\(const std::exception& e\)\s*\{[^{}]*\}\s*catch\s*\(\.\.\.\)\s*\{[^{}]*\}", "}", 1)
    literal_not(r, None, 1)
    rewrite_call(r, "exception-plumbing: SimTK_ERRCHK2_ALWAYS -> ghost flag", "SimTK_ERRCHK2_ALWAYS",
                 lambda a: ("{ ghost_threw = 1; return InvalidSuccessfulStepStatus; }" if a[0].strip() == "0" else
                            "if (!(%s)) { ghost_threw = 1; return InvalidSuccessfulStepStatus; }" % a[0]), 1)
    # the throw above is unconditional (!"literal"): the `break;` behind it is dead code, which goto-instrument's natural-loop
    # analysis rejects ("incoming edge from outside the loop"); listed as dropped
    r.drop("dead `break;` behind the unconditional throw", r"(\{ ghost_threw = 1; return InvalidSuccessfulStepStatus; \});\s*break;", r"\1", 1)
    r.sub("scope-flatten Integrator::", r"\bIntegrator::", "", None, 1)
    r.sub("std::min", r"\bstd::min\(", "vf_min(", None, 1)
    r.lit("opaque statement", "updAdvancedState().autoUpdateDiscreteVariables();", "opaque_autoUpdateDiscreteVariables(self);", 1)
    this_calls(r, STEPTO_CALLS)
    r.sub("State::getTime()->view field", r"\)\.getTime\(\)", ")->t", None, 1)
    r.members(STEPTO_MEMBERS)
    r.sub("loop-contract:stepTo#loop1 (MAIN STEPPING LOOP)", r"for\s*\(\s*;\s*;\s*\)\s*\{",
          "for(;1;)\n"
          "  __CPROVER_assigns(self->stepCommunicationStatus, self->useInterpolatedState, self->interpolatedState.t, self->advancedState.t,\n"
          "                    self->tPrev, self->tLow, self->tHigh, self->statsStepsTaken, self->terminationReason, self->currentStepSize,\n"
          "                    self->lastStepSize, self->actualInitialStepSizeTaken, ghost_threw, ghost_steps, ghost_stepped, internalStepsTaken)\n"
          "  __CPROVER_loop_invariant(STEPTO_LINV(self, reportTime, scheduledEventTime, finalTime, internalStepsTaken))\n  {", 1)
    ctx.add_function(ABSTRACT_CPP, "AbstractIntegratorRep::stepTo", c.start, c.end, c.text, "M2", r.dropped, r.log)
    parts.append("SuccessfulStepStatus AbstractIntegratorRep_stepTo(struct IntegratorRep* self, Real reportTime, Real scheduledEventTime)\n" + r.text + "\n")

    # ---- IntegratorRep::reinitialize -------------------------------------------------------------
    c = cut_function(INTEGRATOR_CPP, r"void IntegratorRep::reinitialize\(Stage stage, bool shouldTerminate\)\s*", "IntegratorRep::reinitialize", expect_total=1)
    r = Rewriter("{" + c.body + "}", "IntegratorRep::reinitialize")
    r.sub("scope-flatten Stage::", r"\bStage::Report\b", "Stage_Report", 1)
    r.sub("scope-flatten Integrator::", r"\bIntegrator::", "", None, 0)
    this_calls(r, ["setUseInterpolatedState", "setStepCommunicationStatus", "methodReinitialize"])
    r.members(["startOfContinuousInterval", "terminationReason"])
    ctx.add_function(INTEGRATOR_CPP, "IntegratorRep::reinitialize", c.start, c.end, c.text, "M2", r.dropped, r.log)
    parts.append("void IntegratorRep_reinitialize(struct IntegratorRep* self, int stage, bool shouldTerminate)\n" + r.text + "\n")

    # ---- Integrator::stepBy ----------------------------------------------------------------------
    c = cut_function(INTEGRATOR_CPP, r"Integrator::stepBy\(Real interval, Real advanceIntervalLimit\)\s*", "Integrator::stepBy", expect_total=1)
    r = Rewriter("{" + c.body + "}", "Integrator::stepBy")
    r.lit("handle->rep forwarding", "getRep().getState()", "getState(self)", 1)
    r.sub("State::getTime()->view field", r"\)\.getTime\(\)", ")->t", 1)
    r.lit("handle->rep forwarding (callee by contract)", "updRep().stepTo(", "rep_stepTo(self, ", 1)
    r.sub("symbolic double sum -> uninterpreted function (only congruence is needed; sound abstraction)", r"\bt \+ (\w+)", r"VF_ADD(t, \1)", None, 0)
    ctx.add_function(INTEGRATOR_CPP, "Integrator::stepBy", c.start, c.end, c.text, "M2", r.dropped, r.log)
    parts.append("SuccessfulStepStatus Integrator_stepBy(struct IntegratorRep* self, Real interval, Real advanceIntervalLimit)\n" + r.text + "\n")

    parts.append('#include "%s/harness.h"\n' % SPEC)
    path = os.path.join(ctx.out, "stepto_unit.c")
    open(path, "w").write("\n".join(parts))
    return path


def build_t1_unit(ctx):
    """the t1-selection block of takeOneStep (verbatim region), wrapped into a function of (t0, tMax)"""
    c = cut_region(ABSTRACT_CPP, r"bool hWasArtificiallyLimited = false;", r"int errOrder;", "AbstractIntegratorRep::takeOneStep#t1-selection")
    r = Rewriter(c.body, "takeOneStep#t1-selection")
    rewrite_call(r, "exception-plumbing: SimTK_ERRCHK1_ALWAYS -> ghost flag", "SimTK_ERRCHK1_ALWAYS",
                 lambda a: "if (!(%s)) { ghost_threw = 1; *hLimited = hWasArtificiallyLimited; return t1; }" % a[0], 1)
    r.sub("symbolic float sum/product-by-constant -> trusted monotonicity lemma", r"\bt0 \+ ([0-9.]+)\s*\*\s*currentStepSize", r"vf_add(t0, vf_mulc(\1, currentStepSize))", 2)
    r.sub("symbolic float sum -> trusted monotonicity lemma", r"\bt0 \+ currentStepSize", "vf_add(t0, currentStepSize)", 1)
    r.members(["currentStepSize"])
    ctx.add_function(ABSTRACT_CPP, "AbstractIntegratorRep::takeOneStep (t1 selection block)", c.start, c.end, c.text, "M2 (region)", r.dropped, r.log)
    text = ('#include "%s/pre.h"\n#include "%s/t1_contract.h"\n' % (SPEC, SPEC)
            + "Real takeOneStep_t1(struct IntegratorRep* self, Real t0, Real tMax, bool* hLimited)\n{\n  Real t1;\n"
            + r.text + "\n  *hLimited = hWasArtificiallyLimited;\n  return t1;\n}\n"
            + "int ghost_threw;\n"
            + "void h_t1(void) {\n  struct IntegratorRep S; Real t0, tMax; bool lim;\n"
            + "  __CPROVER_assume(NN(t0) && NN(tMax));   /* precondition: times are not NaN */\n"
            + "  ghost_threw = 0; ghost_add_n = 0;\n"
            + "  Real t1 = takeOneStep_t1(&S, t0, tMax, &lim);\n"
            + '  __CPROVER_assert(ghost_threw == 0 ==> (t0 < t1 && t1 <= tMax), "t1 block: time strictly advances and the step target never passes tMax");\n'
            + '  __CPROVER_assert(ghost_threw == 1 ==> !(t1 > t0), "t1 block: the unable-to-advance error is raised only when t1 <= t0");\n'
            + '  __CPROVER_assert(lim ==> t1 == tMax, "t1 block: artificially limited only when the target is tMax itself");\n'
            + "}\n"
            + "void h_t1_cover(void) {\n  struct IntegratorRep S; Real t0, tMax; bool lim;\n  __CPROVER_assume(NN(t0) && NN(tMax));\n  ghost_threw = 0; ghost_add_n = 0;\n"
            + "  Real t1 = takeOneStep_t1(&S, t0, tMax, &lim);\n"
            + "  __CPROVER_cover(ghost_threw == 0 && t1 < tMax);\n  __CPROVER_cover(ghost_threw == 0 && t1 == tMax && lim);\n"
            + "  __CPROVER_cover(ghost_threw == 0 && t1 == tMax && !lim);\n  __CPROVER_cover(ghost_threw == 1);\n}\n")
    path = os.path.join(ctx.out, "t1_unit.c")
    open(path, "w").write(text)
    return path


def main(ctx):
    ctx.level = "proof"
    try:
        unit = build_unit(ctx)
        t1 = build_t1_unit(ctx)
    except ExtractionError as e:
        ctx.undecide("extraction: %s" % e)
        return ctx.finish()

    CHK = ["--bounds-check", "--pointer-check", "--div-by-zero-check", "--object-bits", "12"]
    NOOVF = ["--no-signed-overflow-check"]   # the int step counters (statsStepsTaken, internalStepsTaken) may wrap after 2^31 steps: not part of the property
    REPL = ["takeOneStep", "createInterpolatedState", "saveTimeAndStateAsPrevious", "saveStateAndDerivsAsPrevious",
            "saveStateDerivsAsPrevious", "realizeStateDerivatives", "opaque_autoUpdateDiscreteVariables"]
    LOOPREQ = [r"postcondition", r"loop_invariant_step", r"loop_invariant_base", r"precondition"]
    jobs = []

    def J(f, *a, **k):
        jobs.append(lambda: f(ctx, *a, **k))
    J(cbmc_unit, "stepto.contract", [unit], "h_stepTo", enforce="AbstractIntegratorRep_stepTo", replace=REPL, loop_contracts=True,
      cbmc_args=CHK + NOOVF, require_props=LOOPREQ, min_obligations=40, function="AbstractIntegratorRep::stepTo", timeout=600)
    J(cbmc_unit, "stepto.finding.refusal_after_reinit", [unit], "h_stepTo_refusal", enforce="stepTo_refusal_after_reinit", replace=REPL,
      loop_contracts=True, cbmc_args=CHK + NOOVF, require_props=[r"stepTo_refusal_after_reinit\.postcondition"],
      function="AbstractIntegratorRep::stepTo (refusal clause, F6)", timeout=600)
    J(cbmc_unit, "stepto.finding.report_in_window", [unit], "h_stepTo_window", enforce="stepTo_report_in_window", replace=REPL,
      loop_contracts=True, cbmc_args=CHK + NOOVF, require_props=[r"stepTo_report_in_window\.postcondition"],
      function="AbstractIntegratorRep::stepTo (report time inside an earlier-localised window, F7)", timeout=600)
    J(cbmc_unit, "reinitialize.contract", [unit], "h_reinitialize", enforce="IntegratorRep_reinitialize", replace=["methodReinitialize"],
      cbmc_args=CHK, require_props=[r"postcondition"], function="IntegratorRep::reinitialize", timeout=300)
    J(cbmc_unit, "stepby.forwarding", [unit], "h_stepBy_plain", no_dfcc=True, cc_args=["-DSTEPBY_PLAIN"],
      min_obligations=3, function="Integrator::stepBy", timeout=300)
    J(cbmc_unit, "takeonestep.t1", [t1], "h_t1", no_dfcc=True, cbmc_args=["--bounds-check", "--pointer-check"], min_obligations=5,
      function="AbstractIntegratorRep::takeOneStep (t1 selection block)", timeout=300)
    J(cover_unit, "takeonestep.t1.cover", [t1], "h_t1_cover", expect_min=4, function="takeOneStep t1 block: lemma stubs are satisfiable on every branch")
    J(cover_unit, "stepto.cover", [unit], "h_cover_stepTo", expect_min=9, function="AbstractIntegratorRep::stepTo preconditions")
    parallel(jobs)

    ctx.trust("cbmc/goto-cc/goto-instrument 6.11.0 (C front end, dfcc contracts, loop contracts), MiniSat")
    ctx.trust("tools/extract.py + checks/_help_c19c22.py rule tables (extraction_report.json lists every rewrite and dropped token)")
    ctx.trust("CBMC's IEEE-754 binary64 model (comparisons, +, *constant only; no symbolic products in these units)")
    ctx.assume("takeOneStep(tMax,tReport) by contract: tPrev < tAdvanced' <= tMax; on event tPrev <= tLow' < tHigh' == tAdvanced' and not (tLow' < tReport < tHigh'); "
               "otherwise window unchanged. Discharged in part elsewhere: t1 block (unit takeonestep.t1), localisation loop and window bookkeeping (check C22); "
               "that attemptDAEStep/attemptODEStep leave the advanced state exactly at t1 is assumed (step taker by contract)")
    ctx.assume("createInterpolatedState(t): requires tPrev < tAdvanced and tPrev <= t <= tAdvanced (the asserts of interpolateOrder3), sets the interpolated time to t; "
               "saveTimeAndStateAsPrevious/saveStateAndDerivsAsPrevious set tPrev to the given state's time; realizeStateDerivatives, saveStateDerivsAsPrevious, "
               "autoUpdateDiscreteVariables, methodReinitialize do not touch the times/status (framed opaque calls)")
    ctx.assume("class invariant CINV (specs/C19/contracts.h) holds after IntegratorRep::initialize (not cut: it is system/State code); it is PROVED to be preserved by stepTo and reinitialize")
    ctx.assume("preconditions: times are not NaN; reportTime, scheduledEventTime >= getState().getTime() (the real asserts); scheduledEventTime >= getAdvancedTime() "
               "(a pending scheduled time is never moved to before a time the integrator was already allowed to reach: the code cannot honour 'never passes' otherwise); "
               "userFinalTime not changed to before the advanced time between calls")
    ctx.assume("reinitialize is called only in a *HasBeenReturned*/Final status (what TimeStepperRep::stepTo does; proved in C22)")
    ctx.assume("contracts are stated for executions in which takeOneStep does not throw; the catch blocks of stepTo (restore previous state, rethrow StepFailed) are dropped by the extractor")
    ctx.not_decided += ["CPodesIntegratorRep::stepTo (own implementation, not cut)",
                        "behaviour with NaN times; termination of the stepping loop; exception paths (StepFailed restores the previous state)",
                        "that every concrete attemptDAEStep/attemptODEStep (Euler, RK*, Verlet, SemiExplicitEuler*) lands exactly on t1",
                        "requests with scheduledEventTime earlier than the already advanced time"]
    ctx.explanation = ("stepTo: 22 postcondition clauses from the property statement + class invariant, all paths of the status state machine from every "
                       "invariant state, main loop by loop-head invariant with takeOneStep replaced by its contract (all iterations, no bound); every callee "
                       "precondition (createInterpolatedState interpolation range, takeOneStep tMax > tPrev) and every assert of the real text proved; "
                       "reinitialize keeps the invariant; stepBy forwards times relative to the returned time; t1 block: t0 < t1 <= tMax or the 'unable to advance' error, all doubles.")
    return ctx.finish(replayer=lambda ob: replay(ctx, ob))


# ----------------------------------------------------------------------------------------------
_exe = {}


def replay_exe(ctx):
    if "exe" not in _exe:
        # the driver is compiled together with the CURRENT tree's AbstractIntegratorRep.cpp / Integrator.cpp (they interpose the
        # copies inside the private library build), so a mutated tree is replayed without rebuilding the libraries
        _exe["exe"] = native_build(ctx, "c19_replay", os.path.join(VERIF, "replay/c19_replay.cpp"),
                                   extra_srcs=[ABSTRACT_CPP, INTEGRATOR_CPP], libs=True, extra_inc=[INTEG_SRC], timeout=900)
    return _exe["exe"]


def replay(ctx, ob):
    exe = replay_exe(ctx)
    tries = []
    def go(args, t=300):
        rc, o, e, _ = run([exe] + args, t)
        tries.append(dict(cmd="c19_replay " + " ".join(args), output=(o + e)[-1500:]))
        if "Assertion `" in e:      # an assert of the real code fired on a real run: that is a failing input
            o += "\nREPRODUCED: " + e.strip()[-300:]
        return o
    if ob.unit == "stepto.finding.report_in_window":
        o = go(["window"])
        if "REPRODUCED:" in o:
            return dict(tries=tries, witness_class="later-call-report-time-inside-earlier-window"), True
        return dict(tries=tries), False
    if ob.unit == "stepto.finding.refusal_after_reinit" or re.search(r"postcondition\.(2|3)$", ob.name):
        o = go(["refusal"])
        if "REPRODUCED:" in o:
            return dict(tries=tries, witness_class="stepping-not-refused-after-reinitialize"), True
    if ob.unit.startswith("takeonestep.t1"):
        o = go(["t1"])
        return dict(tries=tries), "REPRODUCED:" in o
    # fallback witness search: request sequences on real integrators, same postconditions evaluated natively
    for seed in ("1", "2", "3"):
        o = go(["seq", seed, "400"], 600)
        if "REPRODUCED:" in o:
            return dict(tries=tries, witness_class="request-sequence"), True
    return dict(tries=tries), False
