"""Part of C37: HuntCrossleyForceImpl::calcForce contact-loop control slice.

Back end A, route M2. calcForce is cut from /repo/Simbody/src/HuntCrossleyForce.cpp each run;
the control flow is kept verbatim (the `for` over the contacts of the set, the two `continue`s,
the `if (f <= 0)` exit, the friction `if`, the two applyForceToBodyPoint calls), the float law is
abstracted by contracted stubs (hc_law_f, hc_vslip), and every remaining statement of the body
(pure local float/vector computation) is dropped by the slicer and listed in the extraction report.
Loop invariant with a ghost contact index: every point contact j with f_j > 0 gets its pair of
body forces applied exactly once, whatever the other contacts of the set do.

run(ctx) adds units `huntcrossley.calcForce.loop*` and returns a replayer."""
import os, re
import vlib
from vlib import *
from extract import *

SPEC = os.path.join(VERIF, "specs", "C37loop")
HC_CPP = os.path.join(REPO, "Simbody/src/HuntCrossleyForce.cpp")

CONTROL_VARS = ["i", "f", "vslip", "contacts"]       # variables read by kept control conditions
KEEP_TOKENS = re.compile(r"\b(hc_law_f|hc_vslip|hc_getContacts|applyForceToBodyPoint|PointContact_isInstance|contacts_size)\b")

LOOP_CONTRACT = ("__CPROVER_assigns(i, cnt_b1, cnt_b2, cnt_bad)\n"
                 "__CPROVER_loop_invariant(0 <= i && i <= contacts->n && cnt_bad == 0\n"
                 "    && (i <= gj ==> (cnt_b1 == 0 && cnt_b2 == 0))\n"
                 "    && (i >  gj ==> (cnt_b1 == HIT && cnt_b2 == HIT)))\n"
                 "__CPROVER_decreases(contacts->n - i)")


class SliceError(ExtractionError):
    pass


def _skip_ws(t, i):
    while i < len(t) and t[i].isspace():
        i += 1
    return i


def _stmt_end(b, i):
    dp, k = 0, i
    while k < len(b):
        ch = b[k]
        if ch in "([{":
            dp += 1
        elif ch in ")]}":
            dp -= 1
        elif ch == ";" and dp == 0:
            return k + 1
        k += 1
    raise SliceError("statement without ';' near %r" % b[i:i + 60])


class ControlSlicer:
    """Keeps control statements (for/if/continue/return/break), statements mentioning a kept token, and
    drops the rest after checking that a dropped statement cannot influence the kept ones."""

    def __init__(self):
        self.dropped, self.kept = [], []

    def block(self, t):
        b = blank_comments(t)
        out, i = [], 0
        while True:
            i = _skip_ws(t, i)
            if i >= len(t):
                break
            s, i = self.one(t, b, i)
            if s:
                out.append(s)
        return "\n".join(out)

    def one(self, t, b, i):
        if b[i] == "{":
            cb = match_brace(b, i)
            return "{\n" + self.block(t[i + 1:cb]) + "\n}", cb + 1
        m = re.match(r"(if|for|while)\s*\(", b[i:])
        if m:
            op = i + m.end() - 1
            cp = match_brace(b, op)
            head = t[i:cp + 1]
            # loop contracts spliced after a loop header stay attached to it
            j = _skip_ws(t, cp + 1)
            extra = ""
            while b[j:].startswith("__CPROVER_"):
                mm = re.match(r"__CPROVER_\w+\s*\(", b[j:])
                e = match_brace(b, j + mm.end() - 1)
                extra += "\n" + t[j:e + 1]
                j = _skip_ws(t, e + 1)
            body, j = self.one(t, b, j)
            els = ""
            if m.group(1) == "if":
                k = _skip_ws(t, j)
                if re.match(r"else\b", b[k:]):
                    e, j = self.one(t, b, _skip_ws(t, k + 4))
                    els = "\nelse " + (e or "{ }")
            self.kept.append("control: " + " ".join(head.split()))
            return head + extra + "\n" + (body or "{ }") + els, j
        if re.match(r"(do|switch|try|goto)\b", b[i:]):
            raise SliceError("unsupported control statement %r" % t[i:i + 40])
        e = _stmt_end(b, i)
        st, bl = t[i:e], b[i:e]
        if re.match(r"\s*(continue|break|return)\s*;", bl):
            self.kept.append("control: " + st.strip())
            return st.strip(), e
        if KEEP_TOKENS.search(bl):
            self.kept.append("kept: " + " ".join(st.split()))
            return st.strip(), e
        # opaque statement: must not write a control variable (plain or compound assignment, ++/--)
        for v in CONTROL_VARS:
            if re.search(r"(?<![\w.>])%s\s*(=(?!=)|\+=|-=|\*=|/=|\+\+|--)" % re.escape(v), bl) or re.search(r"(\+\+|--)\s*%s\b" % re.escape(v), bl):
                raise SliceError("dropped statement would assign control variable '%s': %r" % (v, st[:100]))
            m2 = re.match(r"\s*(?:const\s+)?[\w:<>]+\s*[&*]?\s*%s\s*(=|\(|;)" % re.escape(v), bl)
            if m2:
                raise SliceError("dropped statement declares control variable '%s': %r" % (v, st[:100]))
        if re.search(r"\b(bodyForces|particleForces|mobilityForces)\b", bl):
            raise SliceError("dropped statement touches an output force array: %r" % st[:100])
        self.dropped.append(dict(rule="opaque-statement (local float/vector computation)", text=" ".join(st.split())))
        return "", e


def build_unit(ctx):
    c = cut_function(HC_CPP, r"void HuntCrossleyForceImpl::calcForce\(const State& state, Vector_<SpatialVec>& bodyForces,\s*"
                     r"Vector_<Vec3>& particleForces, Vector& mobilityForces\) const\s*", "HuntCrossleyForceImpl::calcForce", expect_total=1)
    r = Rewriter(c.body, "HuntCrossleyForceImpl::calcForce")
    r.sub("container->contracted-stub: getContacts", r"const Array_<Contact>& contacts = subsystem\.getContacts\(state, set\);",
          "const struct Contacts* contacts = hc_getContacts(self, state);", 1)
    r.sub("container->contracted-stub: size()", r"\bcontacts\.size\(\)", "contacts_size(contacts)", 1)
    r.sub("scope-flatten + container access: isInstance(contacts[i])", r"PointContact::isInstance\(contacts\[i\]\)", "PointContact_isInstance(contacts, i)", 1)
    r.sub("symbolic float law -> contracted stub: f", r"const Real f = [^;]*;", "const Real f = hc_law_f(contacts, i);", 1)
    r.sub("symbolic float law -> contracted stub: vslip", r"const Real vslip = [^;]*;", "const Real vslip = hc_vslip(contacts, i);", 1)
    napply = len(re.findall(r"applyForceToBodyPoint|applyBodyForce|applyBodyTorque|applyForceToPoint|bodyForces\s*[\[(]", r.text))
    r.sub("opaque callee -> contracted stub: bodyN.applyForceToBodyPoint(state, stationN, +-force, bodyForces)",
          r"body([12])\.applyForceToBodyPoint\(state, station[12], (-?)\s*force, bodyForces\);",
          lambda m: "applyForceToBodyPoint(contacts, i, %s, %s, bodyForces);" % (m.group(1), "-1" if m.group(2) else "1"), None, 1)
    if len(re.findall(r"applyForceToBodyPoint\(contacts, i, ", r.text)) != napply:
        raise ExtractionError("calcForce: a force application in the body is not of the form bodyN.applyForceToBodyPoint(state, stationN, +-force, bodyForces)")
    r.splice_loop("loop-contract:calcForce#loop1", r"\bfor\s*\(", LOOP_CONTRACT, 1)
    if len(re.findall(r"\b(for|while|do)\b", blank_comments(r.text))) != 1:
        raise ExtractionError("calcForce: expected exactly one loop in the body")
    sl = ControlSlicer()
    body = sl.block(r.text)
    ctx.add_function(HC_CPP, "HuntCrossleyForceImpl::calcForce", c.start, c.end, c.text, "M2 (control slice: float law by contracted stubs)",
                     r.dropped + sl.dropped, r.log + [dict(rule="control-slice", kept=sl.kept, hits=len(sl.kept))])
    src = ('#include "%s/hc_loop_pre.h"\n' % SPEC
           + "void HC_calcForce(const struct HCImpl* self, const struct State* state, struct BodyForces* bodyForces)\n{\n" + body + "\n}\n"
           + '#include "%s/hc_loop_harness.h"\n' % SPEC)
    path = os.path.join(ctx.out, "hc_loop_unit.c")
    open(path, "w").write(src)
    return path


def run(ctx):
    try:
        unit_c = build_unit(ctx)
    except ExtractionError as e:
        ctx.undecide("extraction (huntcrossley.calcForce): %s" % e)
        return None
    jobs = [lambda: cbmc_unit(ctx, "huntcrossley.calcForce.loop", [unit_c], "h_calcForce", enforce="HC_calcForce",
                              replace=["PointContact_isInstance", "hc_law_f", "hc_vslip", "applyForceToBodyPoint"], loop_contracts=True,
                              cbmc_args=["--bounds-check", "--pointer-check", "--signed-overflow-check", "--object-bits", "10"],
                              require_props=[r"postcondition\.1$", r"postcondition\.2$", r"postcondition\.3$", r"loop_invariant_base", r"loop_invariant_step", r"loop_decreases|decreases"],
                              function="HuntCrossleyForceImpl::calcForce", timeout=300),
            lambda: cover_unit(ctx, "huntcrossley.calcForce.loop.cover", [unit_c], "h_cover", expect_min=3, function="calcForce contract precondition")]
    parallel(jobs)
    ctx.assume("HuntCrossley control slice: Array_<Contact>::size()/operator[] and PointContact::isInstance are a container contract (index in range is an obligation); "
               "the float law f=fH*(1+1.5*c*vnormal) and the slip speed are abstracted by stubs returning an arbitrary value per contact (the law itself is back end B)")
    ctx.assume("MobilizedBody::applyForceToBodyPoint only adds to bodyForces (counted by ghost counters per contact; frame assumed)")
    ctx.trust("control slicer in checks/part_c37_loop.py: dropped statements are checked not to write i, f, vslip, contacts or the force arrays (listed in extraction_report.json)")
    return lambda ob: replay(ctx, ob)


_exe = {}


def replay(ctx, ob):
    if not ob.unit.startswith("huntcrossley.calcForce"):
        return {}, None
    if "exe" not in _exe:
        _exe["exe"] = native_build(ctx, "c37_loop_replay", os.path.join(VERIF, "replay/c37_loop_replay.cpp"), libs=True)
    rc, o, e, t = vlib.run([_exe["exe"]], 120)
    return dict(cmd="c37_loop_replay", output=o[-2000:], witness_class="later-contact-dropped-after-nonpositive-force"), "REPRODUCED:" in o
