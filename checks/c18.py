"""C18 - State stage and cache semantics follow the documented model.
Back end A (CBMC contracts). Routes: M1 (the real class SimTK::Stage in a C++ TU + extern "C"
wrappers) and M2 (verbatim cut + token rewrite of PerSubsystemInfo / CacheEntryInfo / StateImpl
members from StateImpl.h and State.cpp)."""
import os, re, json
from vlib import *
from extract import *
import _help_c18 as H

PID = "C18"
META = dict(
    category="proof",
    text=("CBMC code contracts on the real stage/cache machinery of SimTK::State, cut mechanically each run."),
    note=("Trusted: CBMC 6.11 + MiniSat, extractor rule tables."),
    technique="CBMC function contracts (dfcc), ghost indices, loop contract; inductive validity invariant (Lemma L-valid)",
    design_ref="4 C18")
SPEC = H.SPEC


def main(ctx):
    ctx.level = "proof"
    try:
        stage_cpp = H.build_stage_m1(ctx)
        unit_c, accessors = H.build_state_unit(ctx)
    except ExtractionError as e:
        ctx.undecide("extraction: %s" % e)
        return ctx.finish()
    jobs = []

    def J(f, *a, **k):
        jobs.append(lambda: f(ctx, *a, **k))
    CHK = ["--bounds-check", "--pointer-check", "--signed-overflow-check", "--div-by-zero-check", "--unwind", "13", "--unwinding-assertions", "--object-bits", "12"]
    cc = ["-I" + SPEC, "-DNDEBUG"]
    # ---- M1: class Stage ----
    st_srcs = [stage_cpp, os.path.join(SPEC, "stage_spec.c")]
    J(cbmc_unit, "stage.prev", st_srcs, "h_stage_prev", enforce="w_stage_prev", cc_args=cc, require_props=[r"postcondition"], function="SimTK::Stage::prev", timeout=120)
    J(cbmc_unit, "stage.next", st_srcs, "h_stage_next", enforce="w_stage_next", cc_args=cc, require_props=[r"postcondition"], function="SimTK::Stage::next", timeout=120)
    J(cbmc_unit, "stage.algebra", st_srcs, "h_stage_algebra", no_dfcc=True, cc_args=cc, min_obligations=9, function="SimTK::Stage operators", timeout=120)
    J(cbmc_unit, "stage.consts", st_srcs, "h_stage_consts", no_dfcc=True, cc_args=cc, min_obligations=5, function="SimTK::Stage::Level", timeout=120)

    # ---- M2 ----
    us = [unit_c]
    STUBS_ = ["Stage_prev", "Stage_next", "clearReferencesToInstanceStageGlobals", "clearReferencesToModelStageGlobals",
              "popAllStacksBackToStage", "clearAllStacks", "copyAllStacksThroughStage", "ListOfDependents_notePrerequisiteChange",
              "validatePrerequisiteVersions", "recordPrerequisiteVersions",
              "vf_subsystems_at", "vf_cacheInfo_at", "vf_discreteInfo_at"]

    def R(name, harness, enforce, replace=(), loops=False, extra=(), req=(r"postcondition",), fn=None, timeout=90, **kw):
        J(cbmc_unit, name, us, harness, enforce=enforce, replace=STUBS_ + list(replace), loop_contracts=loops, cc_args=cc,
          cbmc_args=CHK + list(extra), require_props=list(req), function=fn or enforce, timeout=timeout, **kw)
    R("subsys.initialize", "h_initialize", "initialize", fn="PerSubsystemInfo::initialize")
    R("subsys.restoreToStage", "h_restoreToStage", "restoreToStage", ["initialize"], fn="PerSubsystemInfo::restoreToStage")
    R("subsys.invalidateStageJustThisSubsystem", "h_invalidateStageJustThisSubsystem", "invalidateStageJustThisSubsystem", ["restoreToStage"],
      fn="PerSubsystemInfo::invalidateStageJustThisSubsystem")
    R("subsys.advanceToStage", "h_advanceToStage", "advanceToStage", fn="PerSubsystemInfo::advanceToStage")
    R("state.getSubsystem", "h_getSubsystem", "StateImpl_getSubsystem", fn="StateImpl::getSubsystem")
    # ---- plain world: real bodies, explicit objects, executable container contracts ----
    ccp = cc + ["-DPLAIN_WORLD"]
    PCHK = ["--bounds-check", "--pointer-check", "--signed-overflow-check", "--unwind", "13", "--unwinding-assertions"]

    def PW(name, harness, nmin, fn):
        J(cbmc_unit, name, us, harness, no_dfcc=True, cc_args=ccp, cbmc_args=PCHK, min_obligations=nmin, function=fn, timeout=120,
          require_props=[re.escape(harness) + r"\.assertion"])
    PW("subsys.copyFrom", "h_sub_copyFrom", 7, "PerSubsystemInfo::copyFrom")
    PW("ce.isUpToDate", "h_ce_isUpToDate", 2, "CacheEntryInfo::isUpToDate")
    PW("ce.markAsUpToDate", "h_ce_markAsUpToDate", 2, "CacheEntryInfo::markAsUpToDate")
    PW("ce.invalidate", "h_ce_invalidate", 4, "CacheEntryInfo::invalidate")
    for nm, n in [("read", 2), ("mark", 4), ("mark_window", 3), ("restore", 3), ("invalidate", 4), ("advance", 3), ("ce_invalidate", 3), ("initial", 2)]:
        PW("lvalid." + nm, "h_L_" + nm, n, "Lemma L-valid: " + nm)
    PW("state.noteChange", "h_noteChange", 4, "StateImpl::noteQChange/noteUChange/noteZChange/noteYChange")
    PW("state.invalidateJustSystemStage", "h_invalidateJustSystemStage", 8, "StateImpl::invalidateJustSystemStage")
    for nm in ("invalidateAll", "invalidateAllCacheAtOrAbove"):
        J(cbmc_unit, "state." + nm, us, "h_" + nm, no_dfcc=True, cc_args=ccp, cbmc_args=PCHK, min_obligations=12, function="StateImpl::" + nm, timeout=120,
          require_props=[r"h_%s\.assertion" % nm, r"%s\.assertion" % nm])
    for (cname, docstage, bumps, per_sub, doc) in accessors:
        J(cbmc_unit, "acc." + cname, us, "h_acc_" + cname, no_dfcc=True, cc_args=ccp + ["-DINVALIDATEALL_BY_CONTRACT"], cbmc_args=PCHK, min_obligations=5,
          function="StateImpl::" + cname.replace("_sub", "(SubsystemIndex)"), timeout=120, require_props=[r"h_acc_%s\.assertion" % cname])
    parallel(jobs)
    return ctx.finish(replayer=None)
