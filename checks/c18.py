"""C18 - State stage and cache semantics follow the documented model.
Back end A (CBMC contracts). Routes: M1 (the real class SimTK::Stage in a C++ TU + extern "C"
wrappers) and M2 (verbatim cut + token rewrite of PerSubsystemInfo / CacheEntryInfo / StateImpl
members from StateImpl.h and State.cpp)."""
import os, re, json
from vlib import *
from extract import *
import _help_c18 as H

PID = "C18"
META = dict(
    category="proof",
    text=("Contracts on the real stage/cache machinery of SimTK::State (class Stage via M1; PerSubsystemInfo, CacheEntryInfo, StateImpl members cut from "
          "StateImpl.h/State.cpp via M2), discharged by CBMC for all inputs: a variable change lowers the system and EVERY subsystem (ghost index, symbolic "
          "subsystem count, loop contract) to min(stage, g-1) and bumps exactly the invalidated stage versions, nothing else changes; 16 upd* accessors "
          "invalidate their documented stage and bump the right value versions; isUpToDate equals the documented rule; the history property 'valid only if marked "
          "valid after the last change to its depends-on stage' is an inductive invariant over stage versions (Lemma L-valid) preserved by every operation incl. "
          "copyFrom. Overflow assumption: < 2^62 invalidations. Payload copies, auto-update swap, prerequisite lists not decided."),
    note=("Trusted: CBMC 6.11 + MiniSat, extractor rule tables, Stage-as-int representation (proved on the real class). Assumed: container (Array_ / "
          "ListOfDependents) contracts, < 2^62 invalidations. Found: F5 (stale cache entry valid in a copied State), fixed in a8c23502."),
    technique="CBMC function contracts (dfcc) + loop-free full-domain harnesses on mechanically extracted real code; ghost indices; textual loop-contract transformation; inductive validity invariant with ghost history state",
    design_ref="4 C18")
SPEC = H.SPEC


def main(ctx):
    ctx.level = "proof"
    try:
        stage_cpp = H.build_stage_m1(ctx)
        unit_c, accessors = H.build_state_unit(ctx)
    except ExtractionError as e:
        ctx.undecide("extraction: %s" % e)
        return ctx.finish()
    jobs = []

    def J(f, *a, **k):
        jobs.append(lambda: f(ctx, *a, **k))
    CHK = ["--bounds-check", "--pointer-check", "--signed-overflow-check", "--div-by-zero-check", "--unwind", "13", "--unwinding-assertions", "--object-bits", "12"]
    cc = ["-I" + SPEC, "-DNDEBUG"]
    # ---- M1: class Stage ----
    st_srcs = [stage_cpp, os.path.join(SPEC, "stage_spec.c")]
    J(cbmc_unit, "stage.prev", st_srcs, "h_stage_prev", enforce="w_stage_prev", cc_args=cc, require_props=[r"postcondition"], function="SimTK::Stage::prev", timeout=120)
    J(cbmc_unit, "stage.next", st_srcs, "h_stage_next", enforce="w_stage_next", cc_args=cc, require_props=[r"postcondition"], function="SimTK::Stage::next", timeout=120)
    J(cbmc_unit, "stage.algebra", st_srcs, "h_stage_algebra", no_dfcc=True, cc_args=cc, min_obligations=9, function="SimTK::Stage operators", timeout=120)
    J(cbmc_unit, "stage.consts", st_srcs, "h_stage_consts", no_dfcc=True, cc_args=cc, min_obligations=5, function="SimTK::Stage::Level", timeout=120)

    # ---- M2 ----
    us = [unit_c]
    STUBS_ = ["Stage_prev", "Stage_next", "clearReferencesToInstanceStageGlobals", "clearReferencesToModelStageGlobals",
              "popAllStacksBackToStage", "clearAllStacks", "copyAllStacksThroughStage", "ListOfDependents_notePrerequisiteChange",
              "validatePrerequisiteVersions", "recordPrerequisiteVersions",
              "vf_subsystems_at", "vf_cacheInfo_at", "vf_discreteInfo_at"]

    def R(name, harness, enforce, replace=(), loops=False, extra=(), req=(r"postcondition",), fn=None, timeout=280, **kw):
        J(cbmc_unit, name, us, harness, enforce=enforce, replace=STUBS_ + list(replace), loop_contracts=loops, cc_args=cc,
          cbmc_args=CHK + list(extra), require_props=list(req), function=fn or enforce, timeout=timeout, **kw)
    R("subsys.initialize", "h_initialize", "initialize", fn="PerSubsystemInfo::initialize")
    R("subsys.restoreToStage", "h_restoreToStage", "restoreToStage", ["initialize"], fn="PerSubsystemInfo::restoreToStage")
    R("subsys.invalidateStageJustThisSubsystem", "h_invalidateStageJustThisSubsystem", "invalidateStageJustThisSubsystem", ["restoreToStage"],
      fn="PerSubsystemInfo::invalidateStageJustThisSubsystem")
    R("subsys.advanceToStage", "h_advanceToStage", "advanceToStage", fn="PerSubsystemInfo::advanceToStage")
    R("state.getSubsystem", "h_getSubsystem", "StateImpl_getSubsystem", fn="StateImpl::getSubsystem")
    # ---- plain world: real bodies, explicit objects, executable container contracts ----
    ccp = cc + ["-DPLAIN_WORLD"]
    PCHK = ["--bounds-check", "--pointer-check", "--signed-overflow-check", "--unwind", "13", "--unwinding-assertions"]

    def PW(name, harness, nmin, fn):
        J(cbmc_unit, name, us, harness, no_dfcc=True, cc_args=ccp, cbmc_args=PCHK, min_obligations=nmin, function=fn, timeout=280,
          require_props=[re.escape(harness) + r"\.assertion"])
    PW("subsys.copyFrom", "h_sub_copyFrom", 7, "PerSubsystemInfo::copyFrom")
    PW("ce.isUpToDate", "h_ce_isUpToDate", 2, "CacheEntryInfo::isUpToDate")
    PW("ce.markAsUpToDate", "h_ce_markAsUpToDate", 2, "CacheEntryInfo::markAsUpToDate")
    PW("ce.invalidate", "h_ce_invalidate", 4, "CacheEntryInfo::invalidate")
    for nm, n in [("read", 2), ("mark", 4), ("mark_window", 3), ("restore", 3), ("invalidate", 4), ("advance", 3), ("ce_invalidate", 3), ("initial", 2)]:
        PW("lvalid." + nm, "h_L_" + nm, n, "Lemma L-valid: " + nm)
    J(cover_unit, "vacuity.ghosts", us, "h_cover_ghosts", cc_args=ccp, cbmc_args=["--unwind", "13"], expect_min=2, function="world preconditions / ghost indices")
    PW("state.noteChange", "h_noteChange", 4, "StateImpl::noteQChange/noteUChange/noteZChange/noteYChange")
    PW("state.invalidateJustSystemStage", "h_invalidateJustSystemStage", 8, "StateImpl::invalidateJustSystemStage")
    for nm in ("invalidateAll", "invalidateAllCacheAtOrAbove"):
        J(cbmc_unit, "state." + nm, us, "h_" + nm, no_dfcc=True, cc_args=ccp, cbmc_args=PCHK, min_obligations=12, function="StateImpl::" + nm, timeout=280,
          require_props=[r"h_%s\.assertion" % nm, r"%s\.assertion" % nm])
    for (cname, docstage, bumps, per_sub, doc) in accessors:
        J(cbmc_unit, "acc." + cname, us, "h_acc_" + cname, no_dfcc=True, cc_args=ccp + ["-DINVALIDATEALL_BY_CONTRACT"], cbmc_args=PCHK, min_obligations=5,
          function="StateImpl::" + cname.replace("_sub", "(SubsystemIndex)"), timeout=280, require_props=[r"h_acc_%s\.assertion" % cname])
    parallel(jobs)
    finalize(ctx, accessors)
    return ctx.finish(replayer=lambda ob: replay(ctx, ob))


def finalize(ctx, accessors):
    ctx.trust("cbmc/goto-cc/goto-instrument 6.11.0 (C++ front end for class Stage, C front end for the M2 unit and specs), MiniSat")
    ctx.trust("checks/_help_c18.py + tools/extract.py rule tables (extraction_report.json lists every rewrite and every dropped token)")
    ctx.trust("representation of SimTK::Stage by its level (operator int) in the M2 unit: comparison operators, prev(), next(), invalidate() of the real class are proved equal to the integer operations in units stage.*")
    ctx.assume("OVERFLOW ASSUMPTION: fewer than 2^62 invalidations / value changes: every StageVersion and ValueVersion is in [1, 2^62) in every precondition (they are long long; ++ would overflow otherwise)")
    ctx.assume("type invariants as preconditions: stages in Empty..Infinity; cache entry dependsOn in Topology..Report, dependsOn <= computedBy <= Infinity, allocation in Topology..Instance (StateImpl::allocateCacheEntry range checks)")
    ctx.assume("assumed contracts on container code (Array_ allocation stacks): popAllStacksBackToStage/clearAllStacks only remove entries from the end (clearAllStacks removes all) and never edit survivors; "
               "copyAllStacksThroughStage makes the destination a prefix of the source with memberwise-copied entries (CacheEntryInfo::deepAssign = `*this = src`, stamp included)")
    ctx.assume("assumed: ListOfDependents::notePrerequisiteChange only calls CacheEntryInfo::invalidate() on other registered entries (prerequisite notification path; each such call preserves L-valid, unit lvalid.ce_invalidate)")
    ctx.assume("container element access a[i] is a contracted stub: index ghost_* yields the ghost element, any other index yields a separate well-formed element; ghost indices are arbitrary, so results hold for every subsystem / stage / cache entry")
    ctx.assume("markCacheValueRealized under its documented precondition (State.h: stage >= the entry's earliest stage); the code also accepts stage == dependsOn-1 (entry marked while its depends-on stage is being realized): "
               "covered only by lemma lvalid.mark_window (mark followed by the advance that ends the realization, no variable change in between)")
    ctx.assume("upd* accessors: the documented minimum system stage is a precondition (then the Debug-only SimTK_STAGECHECK_GE does not throw)")
    for k, v in H.CONSERVATIVE_OK.items():
        ctx.assume("NOTE (not a violation, soundness-only clauses checked): " + v)
    ctx.not_decided += [
        "deep-copy independence of value payloads (AbstractValue clones), copies of q/u/z/weights vectors",
        "auto-update discrete variables: swap only on request (autoUpdateDiscreteVariables, CacheEntryInfo::swapValue)",
        "explicit prerequisite lists (ListOfDependents, registerWithPrerequisites/unregister, recordPrerequisiteVersions): only the flag upToDateWithPrerequisites is in the view",
        "updDiscreteVariable (discrete variable update path), StateImpl::advanceSystemToStage pool allocation, StateImpl::copyFrom / invalidateCopiedStageVersions system-version rules: "
        "exercised only by the native replay driver, not under contract",
        "a variable change between a mark made at stage dependsOn-1 and the advance to dependsOn is not noticed by the version stamp (outside the documented precondition of markCacheValueRealized)",
        "termination/allocation behaviour of Array_ code; thread safety",
    ]
    ctx.explanation = ("Real code, cut each run: class Stage (M1) and, from StateImpl.h/State.cpp (M2), PerSubsystemInfo::restoreToStage/initialize/invalidateStageJustThisSubsystem/advanceToStage/copyFrom, "
                       "CacheEntryInfo::isUpToDate/markAsUpToDate/invalidate, StateImpl::invalidateJustSystemStage/invalidateAll/invalidateAllCacheAtOrAbove/note*Change and 16 upd* accessors. "
                       "Proved for all inputs (ghost stage / subsystem / cache-entry indices; symbolic subsystem count via a loop contract on the loop of invalidateAll): "
                       "stage' == min(stage, g-1) for the system and every subsystem, exactly the versions of the invalidated stages bumped, frame; value versions bumped by exactly the documented accessors; "
                       "isUpToDate == documented rule; Lemma L-valid (inductive validity invariant over stage versions with ghost history flag) preserved by mark/restore/invalidate/advance/explicit invalidate/copyFrom and "
                       "implying: reads valid ==> computed-by stage realized or marked valid after the last change to the depends-on stage; copyFrom version rules.")


# ----------------------------------------------------------------------
_exe = {}
ACC_TOKEN = {"updTime": "Ut", "updY": "Uy", "updQ": "Uq", "updU": "Uu", "updZ": "Uz", "updUWeights": "Uw", "updZWeights": "UW",
             "updQErrWeights": "Ue", "updUErrWeights": "UE", "updQ_sub": "Pq1", "updU_sub": "Pu1", "updZ_sub": "Pz1",
             "updUWeights_sub": "Pw1", "updZWeights_sub": "PW1", "updQErrWeights_sub": "Pe1", "updUErrWeights_sub": "PE1"}
PRE = "S3 aq au az c05A c16A c27A c039 c148 v07 v15 R9 m00 m10 m20 "
BATTERY = [PRE + t for t in ("Ut", "Uy", "Uq", "Uu", "Uz", "Uw", "Ue", "UE", "I1", "I2", "I3", "I4", "I9", "J3", "J5", "J9", "D00", "D10",
                             "Uq R9 m00 Uu R9", "x00 R9", "Uu C R9", "I4 C R9", "Uq = R9", "I2 aq c05A R5 m00 Uq C R5")]


def replay_exe(ctx):
    if "exe" not in _exe:
        _exe["exe"] = native_build(ctx, "c18_replay", os.path.join(VERIF, "replay/c18_replay.cpp"), extra_srcs=[H.STATE_CPP],
                                   libs=True, defines=["NDEBUG"], timeout=900)
    return _exe["exe"]


def replay(ctx, ob):
    """Map a failed obligation to runs of the real State API (current tree: headers + State.cpp compiled in)."""
    exe = replay_exe(ctx)
    tries = []

    def attempt(args):
        rc, o, e, t = run([exe] + args, 120)
        tries.append(dict(cmd="c18_replay " + " ".join(args), output=(o + e)[-600:]))
        return bool(re.search(r"^REPRODUCED:", o, re.M))
    unit = ob.unit
    first = []
    if unit.startswith("subsys.copyFrom") or "copy" in unit:
        first.append(["copywitness"])
    if unit.startswith("acc."):
        tok = ACC_TOKEN.get(unit[4:])
        if tok:
            first += [["script", PRE + tok], ["script", PRE + tok + " R9 m00 m10 m20 " + tok]]
    for a in first:
        if attempt(a):
            return dict(tries=tries[-3:]), True
    for s in BATTERY:
        if attempt(["script", s]):
            return dict(tries=tries[-3:]), True
    for seed in (ctx.seed + 1, ctx.seed + 2):
        if attempt(["search", str(seed), "4000", "30"]):
            return dict(tries=tries[-3:]), True
    return dict(tries=tries[-4:], note="the real State API conformed to the documented model on the targeted scripts, the battery and 8000 random scripts"), False
