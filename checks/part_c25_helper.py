"""Part of C25: the storage-index kernel of SimTKcommon/BigMatrix/src/MatrixHelperRep_Full.h under contract.

Back end A, route M2.  For the four regular full helpers (FullColOrderEltHelper, FullColOrderScalarHelper,
FullRowOrderEltHelper, FullRowOrderScalarHelper) the bodies of getElt_/updElt_/hasContiguousData_, of
FullHelper::eltIx/scalarIx/isContiguousElt/isContiguousScalar/createBlockView_, of the two resizeKeep_ (column and row
order; the scalar classes inherit them), of the four createTransposeView_ and of the shared-memory constructors they
call, and MatrixHelperRep::setData are cut from /repo on each run (tools/extract.py), rewritten to C by logged rules
and verified with CBMC 6.11 as plain harnesses (specs/C25helper).

  helper.addr.<K>       unbounded: getElt_/updElt_(i,j) == m_data + slow*m_leadingDim + fast*m_eltSize (column order:
                        fast=i, slow=j; row order: fast=j, slow=i), every scalar of the element lies inside the
                        allocation, distinct index pairs give disjoint elements
  helper.contig.<K>     unbounded: hasContiguousData_() <=> m_leadingDim == nfast*m_eltSize <=> the second storage line starts
                        where the first ends; if true, address(i,j) == m_data + k*m_eltSize for the packed index k (ghost i,j)
  helper.resizeKeep.<K> unbounded (loop cut into base/havoc/step by the extractor): new leading dimension, new allocation
                        m*n*eltSize, arbitrary kept element equal to the old one, reads inside the OLD / writes inside the
                        NEW allocation, old storage released once
  (a bounded companion of resizeKeep_ - real products, real copy loops, lemma instances asserted: -DHELPER_BOUNDED in the
   spec headers - is NOT scheduled: SAT gave no answer within 170 s even for dimensions <= 2)
  helper.block.<K>, helper.transpose.<K>  unbounded: view.address(i,j) == parent.address(r0+i, c0+j) resp. parent.address(j,i)
  helper.lemmas         z3 over the integers: the facts about products that the units use (see helper_pre.h)

add_jobs(ctx, J) appends the units; replay(ctx, ob) is the replayer for units `helper.*`."""
import os, re
import vlib
from vlib import *
from extract import *
from _help_c18 import loop_to_induction
from part_c32_xml import hook_at_body_start

SPEC = os.path.join(VERIF, "specs", "C25helper")
SRC = os.path.join(REPO, "SimTKcommon/BigMatrix/src")
FULL_H = os.path.join(SRC, "MatrixHelperRep_Full.h")
REP_H = os.path.join(SRC, "MatrixHelperRep.h")

CLASSES = dict(ColElt=("FullColOrderEltHelper", 0, 0), ColScalar=("FullColOrderScalarHelper", 0, 1),
               RowElt=("FullRowOrderEltHelper", 1, 0), RowScalar=("FullRowOrderScalarHelper", 1, 1))
SHORT = dict((v[0], k) for k, v in CLASSES.items())


def cut_member(path, cls, anchor, name):
    """cut_function restricted to the body of `class cls ... { }` (anchors recur in every helper class)"""
    src = open(path).read()
    blank = blank_comments(src)
    cm = list(re.finditer(r"\bclass %s\b[^;{]*\{" % re.escape(cls), blank))
    if len(cm) != 1:
        raise ExtractionError("%s: class %s found %d times" % (path, cls, len(cm)))
    ob = cm[0].end() - 1
    cb = match_brace(blank, ob)
    ms = []
    for m in re.finditer(anchor, blank):
        if not (ob < m.start() < cb):
            continue
        b = blank.find("{", m.end() - 1 if blank[m.end() - 1] == "{" else m.end())
        semi = blank.find(";", m.end())
        if b < 0 or (0 <= semi < b):
            continue
        ms.append((m, b))
    if len(ms) != 1:
        raise ExtractionError("%s: member anchor /%s/ has %d definitions in class %s, expected 1" % (path, anchor, len(ms), cls))
    m, b = ms[0]
    e = match_brace(blank, b)
    return Cut(path, name, src[m.start():e + 1], src.count("\n", 0, m.start()) + 1, src.count("\n", 0, e) + 1, src[m.start():b], src[b + 1:e])


def to_c(r, K=None):
    """the closed rewrite list for this file (every rule logged with its hits)"""
    S = lambda rule, pat, rep: r.sub(rule, pat, rep, None, 0)
    S("symbolic index product -> uninterpreted vf_imul + lemmas: (ptrdiff_t)a*b", r"\(ptrdiff_t\)\s*(\w+)\s*\*\s*((?:this->)?\w+)", r"vf_imul(\1, \2)")
    S("symbolic index product -> uninterpreted vf_imul + lemmas: a*this->m_eltSize", r"\b(\w+)\s*\*\s*this->m_eltSize\b", r"vf_imul(\1, this->m_eltSize)")
    S("symbolic index product -> uninterpreted vf_imul + lemmas: a*esz (constructor argument)", r"\b(n[rc])\s*\*\s*esz\b", r"vf_imul(\1, esz)")
    S("container access: m_actual.nrow()", r"\bthis->nrow\(\)", "self->a_nrow")
    S("container access: m_actual.ncol()", r"\bthis->ncol\(\)", "self->a_ncol")
    for f in ("eltIx", "scalarIx", "isContiguousElt", "isContiguousScalar"):
        S("scope flattening: FullHelper::" + f, r"\bthis->%s\s*\(" % f, "FullHelper_%s(self, " % f)
    S("callee by assumed contract: allocateMemory(m,n)", r"\bthis->allocateMemory\(", "vf_allocateMemory(self, ")
    S("callee by assumed contract: clearData()", r"\bthis->clearData\(\)", "vf_clearData(self)")
    S("scope flattening: MatrixHelperRep::setData", r"\bthis->setData\(", "MatrixHelperRep_setData(self, ")
    S("std::min -> vf_min_int", r"\bstd::min\(", "vf_min_int(")
    S("std::copy on scalars -> contracted stub (observer abstraction)", r"\bstd::copy\(", "vf_copy(")
    S("assert -> obligation", r"\bassert\s*\(", "VF_ASSERT(")
    if K:
        S("virtual dispatch resolved for the dynamic type " + K, r"\bthis->(getElt_|updElt_|hasContiguousData_)\s*\(\s*", K + r"_\1(self, ")
    S("implicit this", r"\bthis->", "self->")
    r.text = re.sub(r"\(self,\s*\)", "(self)", r.text)
    r.members(["m_leadingDim", "m_data", "m_eltSize"])
    return r


def emit(ctx, c, r, sig, path=FULL_H):
    ctx.add_function(path, c.name, c.start, c.end, c.text, "M2", r.dropped, r.log)
    return sig + "\n" + r.text + "\n"


def base_text(ctx):
    out = []
    for nm, anchor, sig in (("eltIx", r"ptrdiff_t eltIx\s*\(int fast, int slow\) const\s*", "static ptrdiff_t FullHelper_eltIx(const struct Helper* self, int fast, int slow)"),
                            ("scalarIx", r"ptrdiff_t scalarIx\s*\(int fast, int slow\) const\s*", "static ptrdiff_t FullHelper_scalarIx(const struct Helper* self, int fast, int slow)"),
                            ("isContiguousElt", r"bool isContiguousElt\s*\(int nFast\) const\s*", "static bool FullHelper_isContiguousElt(const struct Helper* self, int nFast)"),
                            ("isContiguousScalar", r"bool isContiguousScalar\s*\(int nFast\) const\s*", "static bool FullHelper_isContiguousScalar(const struct Helper* self, int nFast)")):
        c = cut_member(FULL_H, "FullHelper", anchor, "FullHelper::" + nm)
        out.append(emit(ctx, c, to_c(Rewriter("{" + c.body + "}", c.name)), sig))
    c = cut_function(REP_H, r"void setData\(S\* datap\)\s*", "MatrixHelperRep::setData", expect_total=1)
    out.append(emit(ctx, c, to_c(Rewriter("{" + c.body + "}", c.name)), "static void MatrixHelperRep_setData(struct Helper* self, S* datap)", REP_H))
    return "\n".join(out)


def class_text(ctx, K):
    cls = CLASSES[K][0]
    out = []
    for nm, anchor, sig in (("getElt_", r"const S\*\s+getElt_\(int i, int j\) const\s*", "const S* %s_getElt_(const struct Helper* self, int i, int j)"),
                            ("updElt_", r"(?<!const )\bS\*\s+updElt_\(int i, int j\)\s*", "S* %s_updElt_(struct Helper* self, int i, int j)"),
                            ("hasContiguousData_", r"bool\s+hasContiguousData_\(\)\s*const\s*", "bool %s_hasContiguousData_(const struct Helper* self)")):
        c = cut_member(FULL_H, cls, anchor, cls + "::" + nm)
        out.append(emit(ctx, c, to_c(Rewriter("{" + c.body + "}", c.name), K), sig % K))
    return "\n".join(out)


def resize_keep_text(ctx, K):
    cls = CLASSES[K][0]
    c = cut_member(FULL_H, cls, r"void resizeKeep_\(int m, int n\)\s*", cls + "::resizeKeep_")
    texts = []
    for bounded in (False, True):
        r = to_c(Rewriter("{" + c.body + "}", c.name), K)
        blank = blank_comments(r.text)
        loops = list(re.finditer(r"\bfor\s*\(\s*int\s+(\w+)\s*=", blank))
        if len(loops) != 1 or len(re.findall(r"\b(while|do)\b", blank)):
            raise ExtractionError("%s::resizeKeep_: expected exactly one for loop with an int counter, found %d" % (cls, len(loops)))
        v = loops[0].group(1)
        hook_at_body_start(r, "ghost hook (lemma instances at the loop counter; assigns nothing)", r"\bfor\s*\(", 1, "HELPER_RK_HOOK(%s);" % v)
        if not bounded:
            loop_to_induction(r, "loop -> base/havoc/step (loop contract RK_INV, specs/C25helper/helper_contracts.h)", r"\bfor\s*\(", "RK", v)
        texts.append(r.text)
    ctx.add_function(FULL_H, c.name, c.start, c.end, c.text, "M2", r.dropped, r.log)
    K2 = K.replace("Elt", "")
    return ("#ifndef HELPER_BOUNDED\nvoid %s_resizeKeep_(struct Helper* self, int m, int n)\n%s\n#else\nvoid %s_resizeKeep_(struct Helper* self, int m, int n)\n%s\n#endif\n"
            % (K, texts[0], K, texts[1]))


def block_view_text(ctx, K):
    c = cut_member(FULL_H, "FullHelper", r"FullHelper\* createBlockView_\(const EltBlock& block\)\s*", "FullHelper::createBlockView_ (dynamic type %s)" % CLASSES[K][0])
    r = Rewriter("{" + c.body + "}", c.name)
    r.sub("callee by assumed contract: cloneHelper_() = new This(*this) (member-wise copy)", r"FullHelper\* p = cloneHelper_\(\);", "struct Helper* p = vf_cloneHelper(self);", 1)
    r.sub("reference -> pointer: block.row0()/col0()", r"\bblock\.(row0|col0)\(\)", r"block->\1", 2)
    to_c(r, K)
    return emit(ctx, c, r, "struct Helper* %s_createBlockView_(struct Helper* self, const struct EltBlock* block)" % K)


def ctor_text(ctx):
    """shared-memory constructors used by createTransposeView_: FullHelper, RegularFullHelper, the four leaf classes"""
    out = []
    c = cut_member(FULL_H, "FullHelper", r"FullHelper\(int esz, int cppesz, int nr, int nc, int ldim,\s*const S\* shared, bool canWrite\)\s*:\s*Base\(esz,cppesz\), m_leadingDim\(ldim\)\s*",
                   "FullHelper::FullHelper(shared)")
    r = Rewriter("{" + c.body + "}", c.name)
    r.sub("container access: m_actual.setStructure (storage attributes are not modelled)", r"this->m_actual\.setStructure\(MatrixStructure::Full\);", "", 1)
    r.sub("container access: m_actual.setActualSize(nr,nc)", r"this->m_actual\.setActualSize\(nr,nc\);", "self->a_nrow = nr; self->a_ncol = nc;", 1)
    r.sub("const_cast", r"const_cast<S\*>\(shared\)", "(S*)shared", 1)
    to_c(r)
    r.text = "{ self->m_eltSize = esz; self->m_cppEltSize = cppesz; self->m_data = 0; self->m_leadingDim = ldim; /* initialiser list: Base(esz,cppesz), m_leadingDim(ldim) */\n" + r.text[1:]
    r.log.append(dict(rule="member initialiser list -> assignments (Base(esz,cppesz) sets m_eltSize/m_cppEltSize and m_data=0 - assumed -, m_leadingDim(ldim))", pattern=": Base(esz,cppesz), m_leadingDim(ldim)", hits=1))
    out.append(emit(ctx, c, r, "static void FullHelper_ctor_shared(struct Helper* self, int esz, int cppesz, int nr, int nc, int ldim, const S* shared, bool canWrite)"))
    for K in ("ColElt", "RowElt"):
        cls = CLASSES[K][0]
        c = cut_member(FULL_H, cls, re.escape(cls) + r"\(int esz, int cppesz, int nr, int nc, int ldim,\s*S\* shared, bool canWrite\)\s*:\s*Base\(esz, cppesz, nr, nc, ldim, shared, canWrite\)\s*", cls + "::" + cls + "(shared)")
        r = Rewriter("{" + c.body + "}", c.name)
        r.sub("container access: m_actual.setStorage (storage attributes are not modelled)", r"this->m_actual\.setStorage\s*\(MatrixStorage\([^;]*\)\);", "", 1, flags=re.S)
        to_c(r)
        r.text = "{ FullHelper_ctor_shared(self, esz, cppesz, nr, nc, ldim, shared, canWrite); /* Base(...) through RegularFullHelper (forwarding only) */\n" + r.text[1:]
        r.log.append(dict(rule="member initialiser list -> base constructor call", pattern=": Base(esz, cppesz, nr, nc, ldim, shared, canWrite)", hits=1))
        out.append(emit(ctx, c, r, "static void %s_ctor_shared(struct Helper* self, int esz, int cppesz, int nr, int nc, int ldim, S* shared, bool canWrite)" % K))
    for K, B in (("ColScalar", "ColElt"), ("RowScalar", "RowElt")):
        cls = CLASSES[K][0]
        c = cut_member(FULL_H, cls, re.escape(cls) + r"\(int nr, int nc, int ldim, S\* shared, bool canWrite\)\s*:\s*Base\(1, 1, nr, nc, ldim, shared, canWrite\)\s*", cls + "::" + cls + "(shared)")
        r = Rewriter("{" + c.body + "}", c.name)
        r.text = "{ %s_ctor_shared(self, 1, 1, nr, nc, ldim, shared, canWrite);\n" % B + r.text[1:]
        r.log.append(dict(rule="member initialiser list -> base constructor call", pattern=": Base(1, 1, nr, nc, ldim, shared, canWrite)", hits=1))
        out.append(emit(ctx, c, r, "static void %s_ctor_shared(struct Helper* self, int nr, int nc, int ldim, S* shared, bool canWrite)" % K))
    return "\n".join(out)


def transpose_text(ctx, K):
    cls = CLASSES[K][0]
    c = cut_function(FULL_H, r"template <class S> inline RegularFullHelper<S>\*\s*" + re.escape(cls) + r"<S>::createTransposeView_\(\)\s*", cls + "::createTransposeView_", expect_total=1)
    r = Rewriter("{" + c.body + "}", c.name)
    def rep(m):
        if m.group(1) != m.group(2) or m.group(1) not in SHORT:
            raise ExtractionError("%s: unexpected view class %s/%s" % (c.name, m.group(1), m.group(2)))
        return "struct Helper* p = vf_new_view(VIEW_%s); %s_ctor_shared(p, " % (SHORT[m.group(1)], SHORT[m.group(1)])
    r.sub("new T<S>(args) -> storage for the view (its dynamic type recorded) + constructor call", r"(\w+)<S>\*\s*p\s*=\s*new\s+(\w+)<S>\(", rep, 1)
    to_c(r, K)
    return emit(ctx, c, r, "struct Helper* %s_createTransposeView_(struct Helper* self)" % K)


def build_unit(ctx):
    parts = ['#include "%s/helper_pre.h"' % SPEC, '#include "%s/helper_contracts.h"' % SPEC, base_text(ctx)]
    for K in CLASSES:
        parts.append(class_text(ctx, K))
    for K in ("ColElt", "RowElt"):
        parts.append(resize_keep_text(ctx, K))
    for K in CLASSES:
        parts.append(block_view_text(ctx, K))
    parts.append(ctor_text(ctx))
    for K in CLASSES:
        parts.append(transpose_text(ctx, K))
    parts.append('#include "%s/helper_harness.h"' % SPEC)
    path = os.path.join(ctx.out, "helper_unit.c")
    open(path, "w").write("\n".join(parts))
    return path


ARGS = ["--no-malloc-may-fail", "--signed-overflow-check", "--conversion-check", "--object-bits", "8"]
CEX = ("h.a_nrow", "h.a_ncol", "h.m_leadingDim", "h.m_eltSize", "m", "n", "gi", "gj", "gs", "i", "j", "i2", "j2", "s", "r", "nrow", "ncol", "ld", "esz", "r0", "c0", "bnr", "bnc")


def lemma_unit(ctx):
    """the product facts of helper_pre.h over the mathematical integers (z3)"""
    import z3, time
    a, b, c, i, j, n, e = z3.Ints("a b c i j n e")
    L = [("L_nonneg", z3.Implies(z3.And(a >= 0, c >= 0), a * c >= 0)),
         ("L_lt", z3.Implies(z3.And(0 <= a, a < b, c >= 0), z3.And(a * c >= 0, b * c >= 0, a * c <= b * c - c))),
         ("L_le2", z3.Implies(z3.And(a >= 0, 0 <= c, c <= b), z3.And(a * c >= 0, a * c <= a * b))),
         ("L_le", z3.Implies(z3.And(0 <= a, a <= b, c >= 0), z3.And(a * c >= 0, a * c <= b * c))),
         ("L_unit", z3.And(0 * c == 0, 1 * c == c, c * 1 == c, c * 0 == 0)),
         ("L_comm", a * b == b * a),
         ("L_pack", (j * n + i) * e == j * (n * e) + i * e),
         ("L_assoc", z3.And((a * b) * c == b * (a * c), (a * b) * c == a * (b * c))),
         ("L_dist", (a + b) * c == a * c + b * c)]
    nd = 0
    for nm, f in L:
        s = z3.Solver(); s.set("timeout", 20000); s.add(z3.Not(f))
        t0 = time.time(); res = s.check(); t = time.time() - t0
        ok = res == z3.unsat
        nd += ok
        ctx.add(Obligation("helper.lemmas:" + nm, "helper.lemmas", "z3", "discharged" if ok else ("failed" if res == z3.sat else "undecided"), t,
                           "product lemma %s of specs/C25helper/helper_pre.h over the integers: %s" % (nm, "valid" if ok else str(res)), function="index-product lemmas"))
    with ctx.lock:
        ctx.units.append(dict(unit="helper.lemmas", backend="z3 (integers)", entry="-", obligations=len(L), discharged=nd, solver_s=0.1))


def add_jobs(ctx, J):
    unit_c = build_unit(ctx)
    J(lemma_unit)
    for K, (cls, row, sc) in CLASSES.items():
        J(cbmc_unit, "helper.addr." + K, [unit_c], "h_addr_" + K, no_dfcc=True, cbmc_args=ARGS, cc_args=["-DHELPER_DISJOINT_ELT=%d" % (1 if ctx.tier == "thorough" else 0)], require_props=[r"assertion\.\d+$"], min_obligations=8,
          function=cls + "::getElt_/updElt_", timeout=240, cex_vars=CEX)
        J(cbmc_unit, "helper.contig." + K, [unit_c], "h_contig_" + K, no_dfcc=True, cbmc_args=ARGS, require_props=[r"assertion\.\d+$"], min_obligations=5,
          function=cls + "::hasContiguousData_", timeout=240, cex_vars=CEX)
        J(cbmc_unit, "helper.block." + K, [unit_c], "h_block_" + K, no_dfcc=True, cbmc_args=ARGS, require_props=[r"assertion\.\d+$"], min_obligations=5,
          function="FullHelper::createBlockView_ (%s)" % cls, timeout=240, cex_vars=CEX)
        J(cbmc_unit, "helper.transpose." + K, [unit_c], "h_transpose_" + K, no_dfcc=True, cbmc_args=ARGS, require_props=[r"assertion\.\d+$"], min_obligations=5,
          function=cls + "::createTransposeView_", timeout=240, cex_vars=CEX)
    for K in ("ColElt", "RowElt"):
        cls = CLASSES[K][0]
        J(cbmc_unit, "helper.resizeKeep." + K, [unit_c], "h_resizeKeep_" + K, no_dfcc=True, cbmc_args=ARGS, require_props=[r"assertion\.\d+$"], min_obligations=12,
          function=cls + "::resizeKeep_", timeout=300, cex_vars=CEX)
    J(cover_unit, "helper.cover", [unit_c], "h_helper_cover", cc_args=["-DHELPER_COVER"], cbmc_args=["--no-malloc-may-fail", "--object-bits", "8"], expect_min=6,
      function="helper harness preconditions")
    J(cover_unit, "helper.reach.resizeKeep", [unit_c], "h_helper_reach_rk", cc_args=["-DHELPER_COVER", "-DHELPER_REACH_RK"], cbmc_args=["--no-malloc-may-fail", "--object-bits", "8"],
      expect_min=4, timeout=300, function="resizeKeep_ harnesses: end reachable through lemma instances, loop cut and stubs (with a kept element beyond the first line, both sizes changed)")
    ctx.assume("helper units: a helper object is the struct of specs/C25helper/helper_pre.h (m_data, m_leadingDim [in scalars], m_eltSize, m_cppEltSize, m_owner, m_writable, and a_nrow/a_ncol "
               "for m_actual.nrow()/ncol()); a scalar S is an abstract tag.  Class/allocation invariant assumed on entry: m_eltSize >= 1 (== 1 in the Scalar classes), nrow, ncol >= 0, "
               "m_leadingDim >= nfast*m_eltSize (nfast = nrow in column order, ncol in row order; the constructors assert it), and m_data addresses at least (nslow-1)*m_leadingDim + "
               "nfast*m_eltSize scalars (exactly that many in the harness: the tightest allocation, also valid for block views) - fewer than 2^40")
    ctx.assume("helper units: every symbolic index product of the cut code and of the contracts is the uninterpreted function vf_imul (no SAT back end decides 32/64-bit symbolic products: "
               "probed > 120 s per obligation); all that is used about it are the lemma instances of helper_pre.h, proved valid over the integers by z3 (helper.lemmas).  Consequently "
               "overflow of the int products m*m_eltSize, n*m_eltSize, fast*m_eltSize, rowsToCopy*m_eltSize and of the ptrdiff_t products is NOT checked (assumed absent: new leading "
               "dimension < 2^31, allocations < 2^40 scalars)")
    ctx.assume("helper units: assumed contracts of the MatrixHelperRep base: allocateMemory(m,n) returns null for m*n == 0 and else fresh storage of m*n*m_eltSize scalars (never fails); "
               "clearData() releases the data of an unlocked owner and nulls m_data; cloneHelper_() = new This(*this) is a member-wise copy; Base(esz,cppesz) sets m_eltSize/m_cppEltSize and a "
               "null m_data; std::copy(first,last,dest) on scalars copies last-first scalars (modelled for an observer of one arbitrary fixed destination cell; bounded companion: real loop); "
               "resizeKeep_ is entered on an owner (MatrixHelperRep::resize checks it) and m_actual is updated by the caller")
    ctx.trust("rewrite rules, ghost hook and loop cut of checks/part_c25_helper.py (every rule, hit and dropped text is listed per function in extraction_report.json); CBMC's uninterpreted-function support (__CPROVER_uninterpreted_*)")
    ctx.not_decided += ["BigMatrix helpers: createRegularView_/FullIndexed*Helper (indexed views), createDiagonalView_/createColumnView_/createRowView_ (VectorHelper classes), createDeepCopy_ "
                        "(only exercised natively), resize_, Tri/Vector helpers, the MatrixHelper handle layer (commitments, locking, MatrixHelperRep::resize/createBlockView size checks), "
                        "element-wise arithmetic (fillWith, addIn, scaleBy...), int overflow of index products"]


# ----------------------------------------------------------------------
_exe = {}


def replay(ctx, ob):
    if not ob.unit.startswith("helper."):
        return {}, None
    if "exe" not in _exe:
        _exe["exe"] = native_build(ctx, "c25_helper_replay", os.path.join(VERIF, "replay/c25_helper_replay.cpp"), libs=True,
                                   extra_srcs=[os.path.join(SRC, "MatrixHelper.cpp"), "-l:libopenblas.so.0"], extra_inc=[SRC])
    tries = []
    for seed in (ctx.seed, ctx.seed + 1):
        rc, o, e, t = vlib.run([_exe["exe"], str(seed)], 120)
        lines = [l[:300] for l in o.splitlines() if l.startswith(("MISMATCH", "REPRODUCED", "NOT-REPRODUCED"))]
        tries.append(dict(cmd="c25_helper_replay %d (Matrix / Matrix_<Vec3>, column- and row-ordered owners, resizeKeep, blocks of transposes; MatrixHelper.cpp of the tree compiled in)" % seed,
                          rc=rc, output="\n".join(lines[:8] + lines[-1:]) or (o + e)[-400:]))
        if re.search(r"^REPRODUCED:", o, re.M) or rc in (-11, -6, 134, 139):      # mismatch lines, or the driver crashed (SIGSEGV/SIGABRT)
            return dict(tries=tries), True
    return dict(tries=tries), False
