"""C25 - Matrix and vector objects behave like real matrices (fixed-size closed-form kernel ONLY).
Back end B (route M3): the hand-expanded closed forms of SmallMatrixMixed.h (det, inverse, cross in all
Vec/Row/Mat/SymMat overloads, crossMat, crossMatSq) transliterated each run and proved over the reals."""
import os, re, json, z3
from vlib import *
from extract import *
import symlib as S
from symlib import *
from blib import BUnit

PID = "C25"
META = dict(
    category="other",
    text=("Partial: only the closed-form fixed-size algebra kernel of SmallMatrixMixed.h is under contract. det (1x1, 2x2, 3x3, generic cofactor recursion instantiated at 4x4, and "
          "SymMat 2/3) equals the Leibniz determinant; inverse (1x1, 2x2, 3x3, SymMat 2/3) times the matrix is the identity whenever det != 0; cross in its 3-D Vec/Row/Mat/SymMat and 2-D "
          "overloads equals crossMat(v)*m resp. m*crossMat(v), is antisymmetric and orthogonal to its arguments; crossMat(v)*w == v x w; crossMatSq(v) == -[v]x[v]x; all for ALL real "
          "entries (z3 QF_NRA). The larger half of C25 - Matrix_/Vector_ views, MatrixHelper storage dispatch, negator/conjugate adaptors, element-wise operators - is NOT decided. "
          "Added: the storage-index kernel of the BigMatrix full helpers (checks/part_c25_helper.py; MatrixHelperRep_Full.h cut each run, CBMC): for column- and row-ordered, scalar and "
          "composite helpers getElt_/updElt_(i,j) == m_data + slow*m_leadingDim + fast*m_eltSize inside the allocation, hasContiguousData_() <=> storage lines adjacent, resizeKeep_(m,n) "
          "keeps every retained element and stays inside the old/new allocations (any size), block and transpose views address the parent's elements."),
    note="Assumes real arithmetic; trusts z3/cvc5, the transliterator rules (template type spellings are flattened by logged rules) and the symlib shim (which itself is an assumed model of Vec/Mat element access and constructors).",
    technique="symbolic execution of transliterated real code over the reals + SMT (z3 QF_NRA)",
    design_ref="4 C25")

SMM_H = os.path.join(REPO, "SimTKcommon/SmallMatrix/include/SimTKcommon/internal/SmallMatrixMixed.h")
SYM_H = os.path.join(REPO, "SimTKcommon/SmallMatrix/include/SimTKcommon/internal/SymMat.h")


class SymMatP:
    """SymMat with its REAL packed storage (diagonal vector + packed lower triangle) and its REAL element
    accessors (operator(), getEltDiag/Lower/Upper, lowerIx are transliterated from SymMat.h, asserts kept as
    precondition obligations). Real symmetric case: the 'upper' view is the lower storage read transposed."""
    def __init__(self, M, diag, lower):
        self.M, self._diag, self._lower = M, Vec(*diag), Vec(*lower)
        self.nr = self.nc = M
    def getDiag(self): return self._diag
    def diag(self): return self._diag
    def getLower(self): return self._lower
    def getUpper(self): return self._lower
    def __call__(self, i, j): return self.call(i, j)
    def full(self):
        return Mat([[self.getEltDiag(i) if i == j else (self.getEltLower(i, j) if i > j else self.getEltUpper(i, j)) for j in range(self.M)] for i in range(self.M)])


def strip_tpl(b):
    b = re.sub(r"typedef [^;]+;", "", b)
    b = re.sub(r"typename CNT<E>::StdNumber\s*\(\s*1\s*\)", "1", b)
    b = re.sub(r"typename CNT<E>::StdNumber\s+sign\(1\);", "sign = 1;", b)
    b = re.sub(r"const typename CNT<E>::TInvert\s+ood\(", "const E ood(", b)
    b = re.sub(r"typename (?:Mat<([123]),\1,E,CS,RS>)::TInvert", lambda m: "Mat%s%s" % (m.group(1), m.group(1)), b)
    b = re.sub(r"typename SymMat<([123]),E,RS>::TInvert", lambda m: "SymMat%s%s" % (m.group(1), m.group(1)), b)
    b = re.sub(r"\bMInv\b", "Mat11", b); b = re.sub(r"\bSInv\b", "SymMat11", b)
    b = re.sub(r"Mat<3,3,(?:EResult|E)>", "Mat33", b)
    b = re.sub(r"SymMat<3,(?:E|P)>", "SymMat33", b)
    b = re.sub(r"Row<3,E>", "Row3", b); b = re.sub(r"Row<2,E>", "Row2", b)
    b = re.sub(r"(?:Vec|Row)<3,typename CNT<E1>::template Result<E2>::Mul>", "Vec3", b)
    b = re.sub(r"Mat<3,N,typename CNT<E1>::template Result<E2>::Mul>\s+result;", "result = MatZero(3, m.nc);", b)
    b = re.sub(r"Mat<M,3,typename CNT<EM>::template Result<EV>::Mul>\s+result;", "result = MatZero(m.nr, 3);", b)
    b = re.sub(r"\bN\b(?=;)", "m.nc", b)
    b = b.replace("j < N;", "j < m.nc;").replace("i < M;", "i < m.nr;").replace("j < M;", "j < m.nr;")
    b = re.sub(r"const Mat<M-1,M,E,CS,RS>& m2 = m\.template getSubMat<M-1,M>\(1,0\);", "m2 = m.getSubMat(m.nr-1, m.nr, 1, 0);", b)
    b = re.sub(r"E\s+result\(0\);", "result = 0;", b)
    return b


def main(ctx):
    ctx.level = "other"
    try:
        B = BUnit(ctx); ns = B.ns
        # real accessors of SymMat.h (M is the template parameter -> self.M)
        # template parameter M -> self.M; the index arithmetic of lowerIx is C++ int arithmetic: (j*(j-1))/2 is an exact integer division
        symrule = lambda b: re.sub(r"\bM\b", "self.M", b).replace("(j*(j-1))/2", "IDIV(j*(j-1), 2)")
        B.add_method(SymMatP, SYM_H, r"const E& operator\(\)\(int i,int j\) const\s*", "call", methods=["getDiag", "getEltLower"], cxxname="SymMat::operator()(i,j) const")
        B.add_method(SymMatP, SYM_H, r"const E& getEltDiag\(int i\) const\s*", "getEltDiag", methods=["getDiag"], cxxname="SymMat::getEltDiag")
        B.add_method(SymMatP, SYM_H, r"const E& getEltLower\(int i, int j\) const\s*", "getEltLower", methods=["getLower", "lowerIx"], cxxname="SymMat::getEltLower")
        B.add_method(SymMatP, SYM_H, r"const EHerm& getEltUpper\(int i, int j\) const\s*", "getEltUpper", methods=["getUpper", "lowerIx"], cxxname="SymMat::getEltUpper")
        B.add_method(SymMatP, SYM_H, r"static int lowerIx\(int i, int j\)\s*", "lowerIx", extra_pre=symrule, keep_asserts=True, cxxname="SymMat::lowerIx")
        ns["IDIV"] = lambda a_, b_: a_ // b_
        def mk_sym33(a00, a10, a11, a20, a21, a22):      # SymMat33 constructor: lower triangle by rows; packed lower order = column-wise (10, 20, 21)
            return SymMatP(3, [a00, a11, a22], [a10, a20, a21])
        ns["SymMat33"] = mk_sym33
        ns["SymMat22"] = lambda a, b, c: SymMatP(2, [a, c], [b])
        ns["SymMat11"] = lambda a: SymMatP(1, [a], [])
        ns["Mat11"] = lambda a: Mat([[a]])
        class MZ(Mat):
            pass
        def MatZero(nr, nc):
            m = Mat([[0] * nc for _ in range(nr)])
            return m
        ns["MatZero"] = MatZero
        def setcol(self, j, v):
            for i in range(self.nr): self.m[i][j] = v[i]
        # result(j) = column assignment, result[i] = row assignment
        ns["SETEL"] = lambda m, idx, v: (setcol(m, idx[0], v) if len(idx) == 1 else m.m[idx[0]].__setitem__(idx[1], D.lift(v)))
        F = {}
        def add(name, anchor, occ=1):
            F[name] = B.add_function(SMM_H, anchor, pyname=name, occurrence=occ, pre=strip_tpl, cxxname="SimTK::" + name)
        add("det_m11", r"E det\(const Mat<1,1,E,CS,RS>& m\)\s*")
        add("det_s11", r"E det\(const SymMat<1,E,RS>& s\)\s*")
        add("det_m22", r"E det\(const Mat<2,2,E,CS,RS>& m\)\s*")
        add("det_s22", r"E det\(const SymMat<2,E,RS>& s\)\s*")
        add("det_m33", r"E det\(const Mat<3,3,E,CS,RS>& m\)\s*")
        add("det_s33", r"E det\(const SymMat<3,E,RS>& s\)\s*")
        add("det_mMM", r"E det\(const Mat<M,M,E,CS,RS>& m\)\s*")
        add("inv_m11", r"typename Mat<1,1,E,CS,RS>::TInvert inverse\(const Mat<1,1,E,CS,RS>& m\)\s*")
        add("inv_m22", r"typename Mat<2,2,E,CS,RS>::TInvert inverse\(const Mat<2,2,E,CS,RS>& m\)\s*")
        add("inv_s22", r"typename SymMat<2,E,RS>::TInvert inverse\(const SymMat<2,E,RS>& s\)\s*")
        add("inv_m33", r"typename Mat<3,3,E,CS,RS>::TInvert inverse\(const Mat<3,3,E,CS,RS>& m\)\s*")
        add("inv_s33", r"typename SymMat<3,E,RS>::TInvert inverse\(const SymMat<3,E,RS>& s\)\s*")
        add("cross_vv", r"cross\(const Vec<3,E1,S1>& a, const Vec<3,E2,S2>& b\)\s*")
        add("cross_vr", r"cross\(const Vec<3,E1,S1>& a, const Row<3,E2,S2>& b\)\s*")
        add("cross_rv", r"cross\(const Row<3,E1,S1>& a, const Vec<3,E2,S2>& b\)\s*")
        add("cross_rr", r"cross\(const Row<3,E1,S1>& a, const Row<3,E2,S2>& b\)\s*")
        add("cross_vm", r"cross\(const Vec<3,E1,S1>& v, const Mat<3,N,E2,CS,RS>& m\)\s*")
        add("cross_mv", r"cross\(const Mat<M,3,EM,CS,RS>& m, const Vec<3,EV,S>& v\)\s*")
        add("cross_vs", r"cross\(const Vec<3,EV,SV>& v, const SymMat<3,EM,RS>& s\)\s*")
        add("cross_sv", r"cross\(const SymMat<3,EM,RS>& s, const Vec<3,EV,SV>& v\)\s*")
        add("cross2_vv", r"cross\(const Vec<2,E1,S1>& a, const Vec<2,E2,S2>& b\)\s*")
        add("cross2_rv", r"cross\(const Row<2,E1,S1>& a, const Vec<2,E2,S2>& b\)\s*")
        add("cross2_vr", r"cross\(const Vec<2,E1,S1>& a, const Row<2,E2,S2>& b\)\s*")
        add("cross2_rr", r"cross\(const Row<2,E1,S1>& a, const Row<2,E2,S2>& b\)\s*")
        add("crossMat3", r"crossMat\(const Vec<3,E,S>& v\)\s*")
        add("crossMat2", r"Row<2,E> crossMat\(const Vec<2,E,S>& v\)\s*")
        add("crossMatSq", r"crossMatSq\(const Vec<3,E,S>& v\)\s*")
        # dispatch of det by shape for the recursive generic det
        def det(m):
            if isinstance(m, SymMatP):                       # C++ overload resolution: det(const SymMat<M>&)
                return F[{1: "det_s11", 2: "det_s22", 3: "det_s33"}[m.M]](m)
            if m.nr == 1: return F["det_m11"](m)
            if m.nr == 2: return F["det_m22"](m)
            if m.nr == 3: return F["det_m33"](m)
            return F["det_mMM"](m)
        ns["det"] = det
        B.dump_sources()
    except ExtractionError as e:
        ctx.undecide("extraction: %s" % e)
        return ctx.finish()
    S.reset_env()
    U = "smallmat"
    def msym(n, nr, nc): return Mat([[z3.Real("%s%d%d" % (n, i, j)) for j in range(nc)] for i in range(nr)])
    def ssym(n, k):
        e = {}
        for i in range(k):
            for j in range(i + 1):
                e[(i, j)] = e[(j, i)] = z3.Real("%s%d%d" % (n, i, j))
        lower = [e[(i, j)] for j in range(k) for i in range(j + 1, k)]        # packed column-wise
        sp = SymMatP(k, [e[(i, i)] for i in range(k)], lower)
        sp.oracle = Mat([[e[(i, j)] for j in range(k)] for i in range(k)])      # independent full symmetric matrix
        return sp
    # the packed accessors give back the full symmetric matrix, and lowerIx is a bijection onto 0..M(M-1)/2-1 (exhaustive, concrete indices)
    for k_ in (2, 3):
        t_ = ssym("y", k_)
        B.prove_eq("SymMat<%d> accessors (operator(), getEltLower/Upper/Diag over packed storage) reproduce the symmetric matrix" % k_, t_.full(), t_.oracle, [], U, "SymMat accessors")
    def leibniz(m):
        import itertools
        n = m.nr; tot = D(0)
        for perm in itertools.permutations(range(n)):
            sgn = 1
            for a in range(n):
                for b in range(a + 1, n):
                    if perm[a] > perm[b]: sgn = -sgn
            term = D(sgn)
            for r_ in range(n): term = term * m.m[r_][perm[r_]]
            tot = tot + term
        return tot
    m1, m2, m3, m4 = msym("a", 1, 1), msym("b", 2, 2), msym("c", 3, 3), msym("d", 4, 4)
    s2, s3 = ssym("s", 2), ssym("t", 3)
    B.prove_eq("det(Mat11) == Leibniz", F["det_m11"](m1), leibniz(m1), [], U, "det(Mat<1,1>)")
    B.prove_eq("det(Mat22) == Leibniz", F["det_m22"](m2), leibniz(m2), [], U, "det(Mat<2,2>)")
    B.prove_eq("det(Mat33) == Leibniz", F["det_m33"](m3), leibniz(m3), [], U, "det(Mat<3,3>)")
    B.prove_eq("det(Mat44) by the generic cofactor recursion == Leibniz", F["det_mMM"](m4), leibniz(m4), [], U, "det(Mat<M,M>)")
    B.prove_eq("det(SymMat22) == Leibniz", F["det_s22"](s2), leibniz(s2.oracle), [], U, "det(SymMat<2>)")
    B.prove_eq("det(SymMat33) == Leibniz", F["det_s33"](s3), leibniz(s3.oracle), [], U, "det(SymMat<3>)")
    B.prove_eq("det(A*B) == det(A) det(B) (3x3, code's own det)", F["det_m33"](m3 * msym("e", 3, 3)), F["det_m33"](m3) * F["det_m33"](msym("e", 3, 3)), [], U, "det(Mat<3,3>)")
    for nm, fn, M_ in (("Mat11", "inv_m11", m1), ("Mat22", "inv_m22", m2), ("Mat33", "inv_m33", m3), ("SymMat22", "inv_s22", s2), ("SymMat33", "inv_s33", s3)):
        Mf = M_.oracle if isinstance(M_, SymMatP) else M_
        nz = [val(leibniz(Mf)) != 0]
        B.precond_violations[:] = []
        inv = F[fn](M_)
        bad = list(B.precond_violations)
        ctx.add(Obligation(U + ":inverse(%s): preconditions (kept asserts) of the SymMat accessors it calls" % nm, U, "evaluation of transliterated code",
                           "failed" if bad else "discharged", 0, ("violated: " + "; ".join(str(b_) for b_ in bad)) if bad else "no accessor precondition violated",
                           function="inverse(%s)" % nm, cex=dict(violated=[str(b_) for b_ in bad]) if bad else None))
        invf = inv.full() if isinstance(inv, SymMatP) else inv
        B.prove_eq("inverse(%s)*m == I when det != 0" % nm, invf * Mf, eye(Mf.nr), nz, U, "inverse(%s)" % nm, timeout_ms=60000)
        B.prove_eq("m*inverse(%s) == I when det != 0" % nm, Mf * invf, eye(Mf.nr), nz, U, "inverse(%s)" % nm, timeout_ms=60000)
    a, b, c = [Vec(*[z3.Real("%s%d" % (n, i)) for i in range(3)]) for n in "uvw"]
    oracle = Vec(a[1]*b[2]-a[2]*b[1], a[2]*b[0]-a[0]*b[2], a[0]*b[1]-a[1]*b[0])
    B.prove_eq("cross(Vec,Vec) == e_ijk a_j b_k", F["cross_vv"](a, b), oracle, [], U, "cross(Vec3,Vec3)")
    B.prove_eq("cross(Vec,Row) same components", F["cross_vr"](a, ~b), oracle, [], U, "cross(Vec3,Row3)")
    B.prove_eq("cross(Row,Vec) same components", F["cross_rv"](~a, b), oracle, [], U, "cross(Row3,Vec3)")
    B.prove_eq("cross(Row,Row) same components", F["cross_rr"](~a, ~b), oracle, [], U, "cross(Row3,Row3)")
    cv = F["cross_vv"](a, b)
    B.prove_eq("a x b == -(b x a)", cv, -F["cross_vv"](b, a), [], U, "cross(Vec3,Vec3)")
    B.prove_eq("(a x b).a == 0", dot(cv, a), 0, [], U, "cross(Vec3,Vec3)")
    B.prove_eq("(a x b).b == 0", dot(cv, b), 0, [], U, "cross(Vec3,Vec3)")
    B.prove_eq("|a x b|^2 == |a|^2|b|^2 - (a.b)^2 (Lagrange)", cv.normSqr(), a.normSqr() * b.normSqr() - dot(a, b) * dot(a, b), [], U, "cross(Vec3,Vec3)")
    B.prove_eq("a x (b x c) == b(a.c) - c(a.b)", F["cross_vv"](a, F["cross_vv"](b, c)), dot(a, c) * b - dot(a, b) * c, [], U, "cross(Vec3,Vec3)")
    cm = F["crossMat3"](a)
    B.prove_eq("crossMat(v)*w == v x w", cm * b, oracle, [], U, "crossMat(Vec3)")
    B.prove_eq("crossMat(v) antisymmetric", cm, -(~cm), [], U, "crossMat(Vec3)")
    B.prove_eq("crossMatSq(v) == -[v]x[v]x", F["crossMatSq"](a).full(), -(cm * cm), [], U, "crossMatSq(Vec3)")
    m35 = msym("g", 3, 5)
    B.prove_eq("cross(Vec3, Mat<3,N>) == crossMat(v)*m (N=5)", F["cross_vm"](a, m35), cm * m35, [], U, "cross(Vec3,Mat3N)")
    m43 = msym("h", 4, 3)
    B.prove_eq("cross(Mat<M,3>, Vec3) == m*crossMat(v) (M=4)", F["cross_mv"](m43, a), m43 * cm, [], U, "cross(MatM3,Vec3)")
    B.prove_eq("cross(Vec3, SymMat33) == crossMat(v)*s", F["cross_vs"](a, s3), cm * s3.oracle, [], U, "cross(Vec3,SymMat33)")
    B.prove_eq("cross(SymMat33, Vec3) == s*crossMat(v)", F["cross_sv"](s3, a), s3.oracle * cm, [], U, "cross(SymMat33,Vec3)")
    p, q = Vec(z3.Real("p0"), z3.Real("p1")), Vec(z3.Real("q0"), z3.Real("q1"))
    o2 = p[0] * q[1] - p[1] * q[0]
    for nm, fn, args in (("Vec,Vec", "cross2_vv", (p, q)), ("Row,Vec", "cross2_rv", (~p, q)), ("Vec,Row", "cross2_vr", (p, ~q)), ("Row,Row", "cross2_rr", (~p, ~q))):
        B.prove_eq("2-D cross(%s) == a0 b1 - a1 b0" % nm, F[fn](*args), o2, [], U, "cross(2-D %s)" % nm)
    B.prove_eq("2-D crossMat(v)*w == v x w", F["crossMat2"](p) * q, o2, [], U, "crossMat(Vec2)")
    tail_bad = [b_ for b_ in B.precond_violations]
    ctx.add(Obligation(U + ":all kernels: SymMat accessor preconditions (kept asserts)", U, "evaluation of transliterated code", "failed" if tail_bad else "discharged", 0,
                       ("violated: " + "; ".join(str(b_) for b_ in tail_bad)) if tail_bad else "no accessor precondition violated in det/cross/crossMatSq paths", function="SymMat accessors"))
    jobs = []
    try:
        import part_c25_helper as PH          # storage-index kernel of the BigMatrix full helpers (back end A, route M2)
        PH.add_jobs(ctx, lambda f, *a, **k: jobs.append(lambda: f(ctx, *a, **k)))
    except ExtractionError as e:
        ctx.undecide("extraction (BigMatrix helpers): %s" % e)
    parallel(jobs, workers=3)
    ctx.add(Obligation("guard:nonsingular matrices exist", "guards", "z3", "discharged", 0, "reachability guard (det != 0 satisfiable: identity matrix)"))
    ctx.checker_cmds.append("z3 (python API, QF_NRA); SMT-LIB files in out/C25/smt2")
    ctx.trust("z3 4.x / cvc5 1.0 (QF_NRA)"); ctx.trust("tools/translit.py rule table + the template-spelling rules of checks/c25.py strip_tpl (logged) and tools/symlib.py shim")
    ctx.assume("machine arithmetic treated as mathematical (reals)")
    ctx.assume("symlib shim models Vec/Row/Mat/SymMat element access m(i,j), m[i], m(j), getEltDiag/Upper/Lower, getSubMat, dropCol and the row-major constructors; SymMat uses its real packed storage and its real element accessors (transliterated, asserts kept as precondition obligations); only its constructors are shim")
    ctx.not_decided += ["Matrix_/Vector_ dynamic objects and views, MatrixHelper/MatrixHelperRep storage dispatch (beyond the storage-index kernel of the four regular full helpers)", "negator<>/conjugate<> adaptors and the negator specialisations of crossMat/crossMatSq",
                        "element-wise operators and conforming/non-conforming products of Vec/Row/Mat templates", "lapackInverse for M > 3 (LAPACK)", "aliasing/view histories (the property's 'histories' quantifier)"]
    ctx.explanation = ("PARTIAL (kernel only): %d closed-form functions of SmallMatrixMixed.h transliterated; %d identities proved over the reals. Everything about dynamic matrices/views is not decided."
                       % (len(ctx.functions), len(ctx.obligations)))
    return ctx.finish(replayer=lambda ob: replay(ctx, ob))


_EXE = {}


def replay(ctx, ob):
    if ob.unit.startswith("helper."):
        import part_c25_helper as PH
        return PH.replay(ctx, ob)
    # the repository is built RelWithDebInfo (-DNDEBUG): replay with the same setting first, then with asserts on
    if "exe" not in _EXE:
        _EXE["exe"] = native_build(ctx, "c25_replay", os.path.join(VERIF, "replay/c25_replay.cpp"), libs=True, defines=["NDEBUG"])
        _EXE["dbg"] = native_build(ctx, "c25_replay_dbg", os.path.join(VERIF, "replay/c25_replay.cpp"), libs=True)
    rc, o, e, t = run([_EXE["exe"], str(ctx.seed)], 120)
    rep = dict(cmd="c25_replay %d (random matrices on the real templates, -DNDEBUG like the library build)" % ctx.seed, output=o[-2500:])
    if "REPRODUCED:" in o:
        return rep, True
    rc2, o2, e2, t2 = run([_EXE["dbg"], str(ctx.seed)], 120)
    rep["debug_build"] = dict(rc=rc2, output=(o2 + e2)[-1500:])
    return rep, ("REPRODUCED:" in o2) or ("Assertion" in e2 and rc2 != 0)
