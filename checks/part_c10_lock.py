"""Part of C10: the lock protocol of MobilizedBodyImpl (Simbody/src/MobilizedBody.cpp) and the prescribed-udot
computation of MobilizedBodyImpl::realizeDynamics under contract.

Back end A, route M2.  lock / lockAt / unlock / getLockLevel / getLockValueAsVector (MobilizedBody.cpp), isLocked
(MobilizedBody.h) and realizeDynamics are cut from the tree on each run (tools/extract.py), rewritten to C by logged
rules and verified with CBMC function contracts (goto-instrument --dfcc) over a small stand-in of the State
(specs/C10lock/lock_pre.h).  The loops over a mobilizer's own slots run at most 7 (q) / 6 (u) times (type invariant of
a mobilizer) and are unwound completely (--unwinding-assertions).

  lock(level):    Position -> lockedQs[own] := current q, u[own] := +0;  Velocity -> lockedUs[own] := current u;
                  Acceleration -> lockedUs[own] := +0 FROM ANY PRIOR CONTENTS;  level[me] := level;  frame for every
                  other slot / mobilizer;  throws (nothing changed) iff stage < Model
  lockAt(v,level) the stored value is v at that level (and q := v, u := 0 at Position); wrong length throws
  unlock():       level[me] := NoLevel, nothing else assignable
  lemmas:         lockAt(v, Velocity|Acceleration) [unlock] lock(Acceleration) and lock(Velocity) [unlock] lock(Acceleration)
                  end with +0 in every own lockedUs slot;  lock; isLocked; unlock; !isLocked
  realizeDynamics: lock branch copies lockedUs[own] to the own presUDotPool slots; position-level Motion with N != I hands
                  (qdotdot - NDot*u) element-wise to multiplyByNInv whose result goes to the own pool slots; other levels copy.

run(ctx) adds units `lock.*` and returns a replayer."""
import os, re, time
import vlib
from vlib import *
from extract import *
from part_c38_gravity import errchk_to_throw

SPEC = os.path.join(VERIF, "specs", "C10lock")
SRC = os.path.join(REPO, "Simbody/src")
MB_CPP = os.path.join(SRC, "MobilizedBody.cpp")
MB_H = os.path.join(REPO, "Simbody/include/simbody/internal/MobilizedBody.h")
MOTION_H = os.path.join(REPO, "Simbody/include/simbody/internal/Motion.h")
STAGE_H = os.path.join(REPO, "SimTKcommon/Simulation/include/SimTKcommon/internal/Stage.h")


def read_enum(path, begin, name, need):
    c = cut_region(path, begin, r"\}\s*;", name)
    vals = dict((m.group(1), int(m.group(2))) for m in re.finditer(r"\b(\w+)\s*=\s*(-?\d+)\s*,?", blank_comments(c.text)))
    for n in need:
        if n not in vals:
            raise ExtractionError("%s: enumerator %s not found in %s" % (name, n, path))
    return c, vals


def common(r):
    z = dict(count=None, min_count=0)
    r.sub("implicit this: getMyMatterSubsystemRep().getStage(s)", r"getMyMatterSubsystemRep\(\)\s*\.\s*getStage\((\w+)\)", r"getStage(self, \1)", **z)
    r.sub("references -> pointers + implicit this: SBInstanceVars& iv = getMyMatterSubsystemRep().xInstanceVars(s)",
          r"(const\s+)?SBInstanceVars&\s*iv\s*=\s*getMyMatterSubsystemRep\(\)\s*\.\s*(upd|get)InstanceVars\((\w+)\)\s*;",
          r"\1struct SBInstanceVars* iv = \2InstanceVars(self, \3);", **z)
    r.sub("implicit this: getMyMobilizedBodyIndex()", r"(?<![\w.>])getMyMobilizedBodyIndex\(\)", "getMyMobilizedBodyIndex(self)", **z)
    r.sub("container access (write): iv.mobilizerLockLevel[i] =", r"\biv\.mobilizerLockLevel\[((?:[^\[\]])+)\]\s*=(?!=)", r"*lev_upd(&iv->mobilizerLockLevel, \1) =", **z)
    r.sub("container access (read): iv.mobilizerLockLevel[i]", r"\biv\.mobilizerLockLevel\[((?:[^\[\]])+)\]", r"lev_get(&iv->mobilizerLockLevel, \1)", **z)
    r.sub("references -> pointers + implicit this: findMobilizerXs(state, start, n)",
          r"\bfindMobilizer(U|Q)s\((\w+),\s*(\w+),\s*(\w+)\)", r"findMobilizer\1s(self, \2, &\3, &\4)", **z)
    r.sub("constructor syntax: const XIndex e(a+b)", r"\bconst (U|Q)Index (\w+)\((\w+)\s*\+\s*(\w+)\)\s*;", r"const \1Index \2 = \3+\4;", **z)
    r.sub("index cast: XIndex(a+b)", r"\b(?:U|Q)Index\((\w+)\s*\+\s*(\w+)\)", r"(\1+\2)", **z)
    r.sub("references -> pointers: Vector& x = state.updX()/getX()", r"(const\s+)?Vector&\s*(\w+)\s*=\s*(\w+)\.(upd|get)(U|Q)\(\)\s*;", r"\1struct Vector* \2 = State_\4\5(\3);", **z)
    r.sub("container -> stub: iv.lockedXs.size()", r"\biv\.(lockedQs|lockedUs)\.size\(\)", r"vec_size(&iv->\1)", **z)
    r.sub("container -> stub: q.size()/u.size()", r"(?<![\w.>])(q|u)\.size\(\)", r"vec_size(\1)", **z)
    r.sub("container access (write): iv.lockedXs[i] =", r"\biv\.(lockedQs|lockedUs)\[((?:[^\[\]])+)\]\s*=(?!=)", r"*vec_upd(&iv->\1, \2) =", **z)
    r.sub("container access (read): iv.lockedXs[i]", r"\biv\.(lockedQs|lockedUs)\[((?:[^\[\]])+)\]", r"vec_get(&iv->\1, \2)", **z)
    r.sub("container access (write): q[i] = / u[i] =", r"(?<![\w.>&])(q|u)\[(\w+)\]\s*=(?!=)", r"*vec_upd(\1, \2) =", **z)
    r.sub("container access (read): q[i] / u[i]", r"(?<![\w.>&])(q|u)\[(\w+)\]", r"vec_get(\1, \2)", **z)
    r.sub("local Vector: declaration", r"(?<![\w.>])Vector\s+value\s*;", "struct Vector value; vec_ctor(&value);", **z)
    r.sub("container -> stub: value.resize(n)", r"\bvalue\.resize\((\w+)\)", r"vec_resize(&value, \1)", **z)
    r.sub("container access (write): value[i] =", r"(?<![\w.>*])value\[(\w+)\]\s*=(?!=)", r"*vec_upd(&value, \1) =", **z)
    r.sub("scope flattening: Motion::X", r"\bMotion::(\w+)", r"Motion_\1", **z)
    r.sub("scope flattening: Stage::X", r"\bStage::(\w+)", r"Stage_\1", **z)
    r.sub("implicit this: getLockLevel(state)", r"(?<![\w.>])getLockLevel\((\w+)\)", r"MI_getLockLevel(self, \1)", **z)
    return r


def functions():
    S, I = "struct State*", "const struct MobodImpl* self"
    return [
        ("MobilizedBodyImpl::lock", MB_CPP, r"void MobilizedBodyImpl::\s*lock\(State& state, Motion::Level level\) const\s*", "void MI_lock(%s, %s state, Motion_Level level)" % (I, S), ""),
        ("MobilizedBodyImpl::lockAt", MB_CPP, r"void MobilizedBodyImpl::\s*lockAt\(State& state, int n, const Real\* value, Motion::Level level\) const\s*",
         "void MI_lockAt(%s, %s state, int n, const Real* value, Motion_Level level)" % (I, S), ""),
        ("MobilizedBodyImpl::unlock", MB_CPP, r"void MobilizedBodyImpl::unlock\(State& state\) const\s*", "void MI_unlock(%s, %s state)" % (I, S), ""),
        ("MobilizedBodyImpl::getLockLevel", MB_CPP, r"Motion::Level MobilizedBodyImpl::getLockLevel\(const State& state\) const\s*", "Motion_Level MI_getLockLevel(%s, const %s state)" % (I, S), ""),
        ("MobilizedBody::isLocked", MB_H, r"bool isLocked\(const State& state\) const\s*", "bool MB_isLocked(%s, const %s state)" % (I, S), ""),
        ("MobilizedBodyImpl::getLockValueAsVector", MB_CPP, r"Vector MobilizedBodyImpl::\s*getLockValueAsVector\(const State& state\) const\s*",
         "struct Vector MI_getLockValueAsVector(%s, const %s state)" % (I, S), ""),
    ]


PINNED_HITS = {}


def build_unit(ctx, with_dynamics=True):
    import part_c38_cache as PC
    sc, stages = PC.read_stages()
    ctx.add_function(STAGE_H, "Stage::Level (enum values)", sc.start, sc.end, sc.text, "M2 (scope flattening Stage::X -> Stage_X)")
    stage_h = os.path.join(ctx.out, "lock_stage_enum.h")
    open(stage_h, "w").write("/* generated from %s */\nenum { %s };\n" % (STAGE_H, ", ".join("Stage_%s = %d" % kv for kv in sorted(stages.items(), key=lambda x: x[1]))))
    lc, levels = read_enum(MOTION_H, r"enum Level \{", "Motion::Level", ("NoLevel", "Acceleration", "Velocity", "Position"))
    mc, methods = read_enum(MOTION_H, r"enum Method \{", "Motion::Method", ("Prescribed", "Free", "Zero"))
    for c in (lc, mc):
        ctx.add_function(MOTION_H, c.name + " (enum values)", c.start, c.end, c.text, "M2 (scope flattening Motion::X -> Motion_X)")
    both = dict(levels); both.update(methods)
    motion_h = os.path.join(ctx.out, "lock_motion_enum.h")
    open(motion_h, "w").write("/* generated from %s */\nenum { %s };\n" % (MOTION_H, ", ".join("Motion_%s = %d" % kv for kv in sorted(both.items(), key=lambda x: x[1]))))
    parts = ['#define STAGE_ENUM_H "%s"' % stage_h, '#define MOTION_ENUM_H "%s"' % motion_h,
             '#include "%s/lock_pre.h"' % SPEC, '#include "%s/lock_contracts.h"' % SPEC]
    for name, path, anchor, sig, ret in functions():
        c = cut_function(path, anchor, name, expect_total=1)
        r = Rewriter(c.body, name)
        errchk_to_throw(r, ret)
        common(r)
        ctx.add_function(path, name, c.start, c.end, c.text, "M2", r.dropped, r.log)
        parts.append("/* %s  (%s:%d-%d) */\n%s\n{%s}\n" % (name, os.path.relpath(path, REPO), c.start, c.end, sig, r.text))
    if with_dynamics:
        import part_c10_lock_dyn as DYN
        parts += DYN.build(ctx, SPEC)
        parts.append('#define WITH_DYNAMICS 1\n#define DYNAMICS_LEMMA_H "%s/dynamics_lemma.h"' % SPEC)
    parts.append('#include "%s/lock_harness.h"' % SPEC)
    path = os.path.join(ctx.out, "lock_unit.c")
    open(path, "w").write("\n".join(parts))
    return path


ARGS = ["--bounds-check", "--pointer-check", "--signed-overflow-check", "--object-bits", "10", "--unwind", "9", "--unwinding-assertions", "--no-malloc-may-fail"]
ARGS_DFCC = ["--bounds-check", "--pointer-check", "--signed-overflow-check", "--object-bits", "10"]      # loop-free bodies: no unwinding bound
CEX_VARS = ("gq", "gu", "gm", "gi", "gp", "g_nqt", "g_nut", "g_nb", "level", "l", "n", "ghost_threw")
PROTO = ["MI_lock", "MI_lockAt", "MI_unlock", "MI_getLockLevel", "MB_isLocked"]


def units(with_dynamics):
    U = []
    def u(name, h, enf, repl=(), req=(), fn=None, minob=5, plain=False):
        U.append(dict(name="lock." + name, h=h, enf=enf, repl=list(repl), req=list(req), fn=fn or enf, minob=minob, plain=plain))
    # functions with loops over the own slots: plain harness asserting the contract's clause list (dfcc write-set instrumentation does not finish on the unwound loops)
    u("lock", "hp_lock", None, req=[r"hp_lock\.assertion\.12$", r"unwind"], fn="MobilizedBodyImpl::lock", plain=True)
    u("lockAt", "hp_lockAt", None, req=[r"hp_lockAt\.assertion\.11$", r"unwind"], fn="MobilizedBodyImpl::lockAt", plain=True)
    u("unlock", "h_unlock", "MI_unlock", req=[r"postcondition\.4$"], fn="MobilizedBodyImpl::unlock")
    u("getLockLevel", "h_getLockLevel", "MI_getLockLevel", req=[r"postcondition\.1$"], fn="MobilizedBodyImpl::getLockLevel", minob=2)
    u("isLocked", "h_isLocked", "MB_isLocked", ["MI_getLockLevel"], req=[r"postcondition\.1$"], fn="MobilizedBody::isLocked", minob=2)
    u("getLockValueAsVector", "hp_getLockValueAsVector", None, req=[r"hp_getLockValueAsVector\.assertion\.6$", r"unwind"], fn="MobilizedBodyImpl::getLockValueAsVector", plain=True)
    u("lemma.lockAt_unlock_lockAcc", "h_L1", "L_lockAt_then_lockAcc", PROTO, req=[r"postcondition\.5$"],
      fn="composition: lockAt(v, Velocity|Acceleration); [unlock;] lock(Acceleration)")
    u("lemma.lockVel_unlock_lockAcc", "h_L2", "L_lockVel_then_lockAcc", PROTO, req=[r"postcondition\.5$"],
      fn="composition: lock(Velocity); [unlock;] lock(Acceleration)")
    u("lemma.lock_unlock_observers", "h_L3", "L_lock_then_unlock_observers", PROTO, req=[r"postcondition\.1$"],
      fn="composition: lock(level); isLocked; getLockLevel; unlock; !isLocked")
    if with_dynamics:
        import part_c10_lock_dyn as DYN
        DYN.units(u)
    return U


def run(ctx, workers=3, with_dynamics=True):
    with_dynamics = with_dynamics and os.path.exists(os.path.join(VERIF, "checks", "part_c10_lock_dyn.py"))
    try:
        unit_c = build_unit(ctx, with_dynamics)
    except ExtractionError as e:
        ctx.undecide("extraction (lock protocol): %s" % e)
        return None
    jobs = []
    for d in units(with_dynamics):
        jobs.append(lambda d=d: cbmc_unit(ctx, d["name"], [unit_c], d["h"], enforce=d["enf"], replace=d["repl"], cbmc_args=ARGS if d["plain"] else ARGS_DFCC, no_dfcc=d["plain"],
                                          require_props=d["req"], min_obligations=d["minob"], function=d["fn"], timeout=240, cex_vars=CEX_VARS))
    ncover = 7
    if with_dynamics:
        import part_c10_lock_dyn as DYN
        ncover += DYN.COVER_POINTS
        DYN.notes(ctx)
    jobs.append(lambda: cover_unit(ctx, "lock.cover", [unit_c], "h_cover", cc_args=["-DCOVER_ONLY"], expect_min=ncover, function="lock protocol / realizeDynamics: contract and harness preconditions"))
    t0 = time.time()
    parallel(jobs, workers=workers)
    ctx.extra["lock_part"] = dict(units=len(jobs), wall_s=round(time.time() - t0, 1), workers=workers)
    ctx.assume("Lock unit: State stand-in (specs/C10lock/lock_pre.h): this subsystem's q/u, SBInstanceVars{mobilizerLockLevel[], lockedQs, lockedUs} reached through "
               "getMyMatterSubsystemRep().updInstanceVars/getInstanceVars (upd marks the Instance stage invalid: ghost flag), the subsystem stage; lockedQs/lockedUs are sized like q/u "
               "(realizeModel; the source asserts it); element access is bounds-checked raw storage")
    ctx.assume("Lock unit: findMobilizerQs/Us return this mobilizer's slot range [first, first+n) with n <= 7 (q) / 6 (u) inside the pools; slot ranges of different mobilizers are disjoint "
               "(RigidBodyNode slot allocation), so 'all other mobilizers' slots' is 'every index outside the own range'")
    ctx.assume("Lock unit: exceptions (SimTK_STAGECHECK_GE_ALWAYS, SimTK_ERRCHK3_ALWAYS) modelled by a ghost flag and an immediate return; the PIMPL handle forwards "
               "(MobilizedBody::lock/lockAt<N>/unlock/getLockLevel/getLockValueAsVector -> getImpl().x) are not cut; fewer than 100000 coordinates / bodies")
    ctx.trust("rewrite rules in checks/part_c10_lock.py / part_c10_lock_dyn.py (every rule, hit and dropped text is listed per function in extraction_report.json)")
    ctx.not_decided += ["Lock unit: that State::updU()/updQ() write through to the subsystem's slice of the global y vector (C18/C26); lockByDefault (realizeTopology/realizeModel transfer: "
                        "SimbodyMatterSubsystemRep.cpp:632-642 overwrites lockedUs of default Acceleration locks with 0; not cut)",
                        "Lock unit: the documentation sentence 'when locking at velocity level lockAt() sets this mobilizer's u in the state to the value': the code only records the value; "
                        "u takes it at the next prescribeU (C10 prescribe units)"]
    return lambda ob: replay(ctx, ob)


# ----------------------------------------------------------------------
_exe = {}


def replay(ctx, ob):
    if not ob.unit.startswith("lock."):
        return {}, None
    if "exe" not in _exe:
        _exe["exe"] = native_build(ctx, "c10_lock_replay", os.path.join(VERIF, "replay/c10_lock_replay.cpp"), libs=True,
                                   extra_srcs=[MB_CPP], extra_inc=[SRC])
    mode = "motion" if ob.unit.startswith("lock.realizeDynamics") else "lock"
    rc, o, e, t = vlib.run([_exe["exe"], mode], 120)
    rep = re.search(r"^REPRODUCED:", o, re.M) is not None
    lines = [l for l in o.splitlines() if l.startswith(("MISMATCH", "REPRODUCED", "NOT-REPRODUCED", "exception"))]
    return dict(cmd="c10_lock_replay %s (real MobilizedBody lock/lockAt/unlock sequences and a position-level Motion::Custom on a Ball, public API, MobilizedBody.cpp of the tree compiled in)" % mode,
                output="\n".join(l[:400] for l in lines[:10]), witness_class="lock-protocol-or-prescribed-udot-mismatch"), rep
