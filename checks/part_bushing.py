"""Force::LinearBushing under contract (parts of C13, C12 and C38; back end B, route M3).

Every run cuts from the CURRENT tree (Simbody/src/Force_LinearBushing.cpp, Rotation.h):
  * LinearBushingImpl::ensurePositionCacheValid / ensureVelocityCacheValid / ensureForceCacheValid /
    ensurePotentialEnergyValid / calcForce / calcPotentialEnergy / realizeAcceleration,
  * the one-line State plumbing members of the class (get/upd/is/mark for the four cache entries and the
    instance variables), the State-based setters and getters of the handle Force::LinearBushing,
  * the allocation table of realizeTopology (which index is allocated with which depends-on / invalidates stage),
  * Rotation::calcNForBodyXYZInBodyFrame (both overloads, REAL code),
transliterates them mechanically (tools/translit.py; plumbing rewrites of this file are counted and logged) and runs
them on symbolic reals / dual numbers.

Entry points (plugged into the existing checks by the coordinator):
    c13_part(ctx)   action-reaction of the applied spatial forces
    c12_part(ctx)   power of the applied forces == -(d/dt PE) - sum c_i qdot_i^2 along any rigid motion
    c38_part(ctx)   documented law + parameter changes take effect (lazy cache entries, valid flags)
    replay(ctx, ob) native driver replay/bushing_replay.cpp with Force_LinearBushing.cpp of the current tree

Kinematic chart (used by c13/c12/law): the configuration is described by
    R_GF = R(e), |e| = 1 (unit quaternion chart),   R_FM = Rx(q0) Ry(q1) Rz(q2) (body-fixed x-y-z angles q, symbolic
    (cos,sin) pairs),   p_FM in F,   p of body 1,   frame origins p_B1F, p_B2M (symbolic),
and the two body poses are DERIVED from these (R_GM = R_GF R_FM, p_GM = p_GF + R_GF p_FM). The motion is given by
w_GB1, v_GB1 (free), the coordinate rates r = d/dt q and u = d/dt p_FM (free); body 2's spatial velocity is the
derivative of its derived pose (lemma chart.*). `Rotation::convertRotationToBodyFixedXYZ` is NOT executed: it is
replaced by its contract (proved in C27 away from the singularity): it hands back the chart angles q, which is
legitimate because the code's R_FM is proved equal to Rxyz(q) (obligations `converter contract instance`)."""
import os, re, z3, time
import symlib as S
from symlib import *
from blib import BUnit
from vlib import REPO, VERIF, Obligation, native_build, run
from extract import cut_function, ExtractionError, strip_comments

BUSH_CPP = os.path.join(REPO, "Simbody/src/Force_LinearBushing.cpp")
ROT_H = os.path.join(REPO, "SimTKcommon/Mechanics/include/SimTKcommon/internal/Rotation.h")
IMPLN = "Force::LinearBushingImpl"
HANDLEN = "Force::LinearBushing"

STAGES = ["Empty", "Topology", "Model", "Instance", "Time", "Position", "Velocity", "Dynamics", "Acceleration", "Report", "Infinity"]
SIX = {n: i for i, n in enumerate(STAGES)}


# ----------------------------------------------------------------------
# plumbing rewrites (counted, logged into the extraction report of the function they were applied to)
# ----------------------------------------------------------------------
class Plumb:
    RULES = [
        ("subvector-view read  x.getSubVec<N>(k) -> x.getSubVec(N,k)", r"\.getSubVec<(\d)>\((\d)\)", r".getSubVec(\1, \2)"),
        ("subvector-view write x.updSubVec<N>(k) = e -> SETSUB(x,N,k,e)", r"([\w.]+)\.updSubVec<(\d)>\((\d)\)\s*=\s*([^;]+);", r"SETSUB(\1, \2, \3, \4);"),
        ("assignment nested in a product split: a += (b[i]=e)*f -> { b[i]=e; a += (b[i])*f; }",
         r"([\w.]+)\s*\+=\s*\(\s*(\w+\[\w+\])\s*=\s*([^;()]+?)\)\s*\*\s*([^;]+);", r"{ \2 = \3; \1 += (\2)*\4; }"),
        ("Value<T>::downcast / updDowncast dropped (typed view of an AbstractValue)", r"Value<\s*\w+\s*>::(?:upd)?[dD]owncast\s*\(", "("),
        ("const_cast dropped", r"const_cast<[^>]*>\s*\(", "("),
    ]

    def __init__(self):
        self.hits = {}

    def __call__(self, body):
        for rule, rx, rep in self.RULES:
            n = len(re.findall(rx, body))
            if n:
                self.hits[rule] = self.hits.get(rule, 0) + n
                body = re.sub(rx, rep, body)
        return body

    def log(self):
        return [dict(rule="plumbing: " + r, hits=n, examples=[]) for r, n in self.hits.items()]


class Cell:
    """storage cell standing for a Real& returned by an upd accessor (Value<Real> cache entry, zdot slot)"""
    def __init__(self, v=None): self.v = v
    def set(self, v): self.v = v


# ----------------------------------------------------------------------
# local shim: Transform / Rotation with their textbook algebra (ASSUMED contract on Transform_ / Rotation_, C27)
# ----------------------------------------------------------------------
class RotM(S.Mat):
    """3x3 matrix standing for a Rotation; products and transposes of RotM stay RotM. The angle extraction is the
    converter's CONTRACT (see module docstring), supplied per scenario through `angles_of`."""
    angles_of = None

    def __mul__(a, b):
        r = S.Mat.__mul__(a, b)
        if isinstance(r, S.Mat) and not isinstance(r, RotM) and isinstance(b, RotM):
            r = RotM(r.m)
        return r

    def __invert__(a):
        return RotM([[a.m[i][j] for i in range(3)] for j in range(3)])

    def convertRotationToBodyFixedXYZ(self):
        if RotM.angles_of is None:
            raise ExtractionError("convertRotationToBodyFixedXYZ called outside a scenario")
        return RotM.angles_of(self)


class XF:
    """Transform X_AB = (R_AB, p_AB): X_AB * X_BC = (R_AB R_BC, p_AB + R_AB p_BC); ~X_AB = (~R_AB, -(~R_AB p_AB))"""
    def __init__(self, R=None, p=None):
        self._R = RotM(S.eye(3).m) if R is None else (R if isinstance(R, RotM) else RotM(R.m))
        self._p = Vec(0, 0, 0) if p is None else p
    def R(self): return self._R
    def p(self): return self._p
    def __invert__(self):
        Ri = ~self._R
        return XF(Ri, -(Ri * self._p))
    def __mul__(self, o):
        if isinstance(o, XF):
            return XF(self._R * o._R, self._p + self._R * o._p)
        if isinstance(o, S.Vec):
            return self._p + self._R * o
        return NotImplemented


def plain(x):
    if isinstance(x, XF):
        return XF(RotM(plain(x._R).m), plain(x._p))
    return S.vmap(lambda e: D(val(e)), x)


def dpart(x):
    return S.vmap(lambda e: D(der(e)), x)


def Rquat(q):
    q0, q1, q2, q3 = q[0], q[1], q[2], q[3]
    return Mat([[1 - 2*(q2*q2+q3*q3), 2*(q1*q2-q0*q3), 2*(q1*q3+q0*q2)],
                [2*(q1*q2+q0*q3), 1 - 2*(q1*q1+q3*q3), 2*(q2*q3-q0*q1)],
                [2*(q1*q3-q0*q2), 2*(q2*q3+q0*q1), 1 - 2*(q1*q1+q2*q2)]])


def v3(n): return Vec(*[z3.Real("%s%d" % (n, i)) for i in range(3)])


def axial(W):
    """axial vector of a (skew) matrix W: (W21, W02, W10)"""
    return Vec(W.m[2][1], W.m[0][2], W.m[1][0])


# ----------------------------------------------------------------------
# State / subsystem stand-in (explicit stage, stage versions and per-entry valid stamps)
# ----------------------------------------------------------------------
class MState:
    """What the real State does for the resources a LinearBushing allocates (ASSUMED contract; the State side is C18's):
       * updDiscreteVariable(ix) backs the stage up to (invalidates-stage - 1) and raises the version of every stage it
         invalidates (StateImpl::updDiscreteVariable -> invalidateAll -> PerSubsystemInfo::restoreToStage);
       * a lazy cache entry (computed-by Infinity) is realized iff stage >= depends-on stage and it was marked at the
         current version of its depends-on stage (CacheEntryInfo::isUpToDate / markAsUpToDate);
       * changing q / u / t (set_positions ...) invalidates Position / Velocity / Time likewise."""
    def __init__(self):
        self.stage = SIX["Empty"]
        self.version = [1] * len(STAGES)
        self.dvs, self.ces, self.zdot = [], [], {}
        self.trace = []

    def allocateDiscreteVariable(self, invalidates, value):
        self.dvs.append(dict(invalidates=SIX[invalidates], value=value)); return len(self.dvs) - 1

    def allocateCacheEntry(self, depends_on, computed_by, value):
        self.ces.append(dict(depends=SIX[depends_on], by=SIX[computed_by], stamp=0, value=value)); return len(self.ces) - 1

    def invalidate(self, g):
        """stage no higher than g-1; versions of the invalidated stages raised"""
        if self.stage > g - 1:
            for i in range(g, self.stage + 1):
                self.version[i] += 1
            self.stage = g - 1

    def realize(self, stage_name):
        self.stage = max(self.stage, SIX[stage_name])


class MSubsystem:
    """GeneralForceSubsystem stand-in: forwards to the State model"""
    def getDiscreteVariable(self, s, ix): return s.dvs[ix]["value"]
    def updDiscreteVariable(self, s, ix):
        s.trace.append(("updDiscreteVariable", ix))
        s.invalidate(s.dvs[ix]["invalidates"])
        return s.dvs[ix]["value"]
    def getCacheEntry(self, s, ix):
        v = s.ces[ix]["value"]
        return v.v if isinstance(v, Cell) else v
    def updCacheEntry(self, s, ix): return s.ces[ix]["value"]
    def isCacheValueRealized(self, s, ix):
        ce = s.ces[ix]
        if s.stage >= ce["by"]: return True
        if s.stage < ce["depends"]: return False
        return ce["stamp"] == s.version[ce["depends"]]
    def markCacheValueRealized(self, s, ix):
        ce = s.ces[ix]
        assert s.stage >= ce["depends"] - 1, "markCacheValueRealized below the depends-on stage"
        ce["stamp"] = s.version[ce["depends"]]
        s.trace.append(("mark", ix))


class Bag:
    pass


# ----------------------------------------------------------------------
# extraction
# ----------------------------------------------------------------------
ONE_LINERS = [   # (python name, anchor inside the class body)
    ("getInstanceVars", r"const InstanceVars& getInstanceVars\(const State& s\) const\s*"),
    ("updInstanceVars", r"InstanceVars& updInstanceVars\(State& s\) const\s*"),
    ("getPositionCache", r"const PositionCache& getPositionCache\(const State& s\) const\s*"),
    ("getPotentialEnergyCache", r"const Real& getPotentialEnergyCache\(const State& s\) const\s*"),
    ("getVelocityCache", r"const VelocityCache& getVelocityCache\(const State& s\) const\s*"),
    ("getForceCache", r"const ForceCache& getForceCache\(const State& s\) const\s*"),
    ("updPositionCache", r"PositionCache& updPositionCache\(const State& s\) const\s*"),
    ("updPotentialEnergyCache", r"Real& updPotentialEnergyCache\(const State& s\) const\s*"),
    ("updVelocityCache", r"VelocityCache& updVelocityCache\(const State& s\) const\s*"),
    ("updForceCache", r"ForceCache& updForceCache\(const State& s\) const\s*"),
    ("isPositionCacheValid", r"bool isPositionCacheValid\(const State& s\) const\s*"),
    ("isPotentialEnergyValid", r"bool isPotentialEnergyValid\(const State& s\) const\s*"),
    ("isVelocityCacheValid", r"bool isVelocityCacheValid\(const State& s\) const\s*"),
    ("isForceCacheValid", r"bool isForceCacheValid\(const State& s\) const\s*"),
    ("markPositionCacheValid", r"void markPositionCacheValid\(const State& s\) const\s*"),
    ("markPotentialEnergyValid", r"void markPotentialEnergyValid\(const State& s\) const\s*"),
    ("markVelocityCacheValid", r"void markVelocityCacheValid\(const State& s\) const\s*"),
    ("markForceCacheValid", r"void markForceCacheValid\(const State& s\) const\s*"),
]
IMPL_FUNCS = [
    ("ensurePositionCacheValid", r"void Force::LinearBushingImpl::\s*ensurePositionCacheValid\(const State& state\) const\s*"),
    ("ensureVelocityCacheValid", r"void Force::LinearBushingImpl::\s*ensureVelocityCacheValid\(const State& state\) const\s*"),
    ("ensureForceCacheValid", r"void Force::LinearBushingImpl::\s*ensureForceCacheValid\(const State& state\) const\s*"),
    ("ensurePotentialEnergyValid", r"void Force::LinearBushingImpl::\s*ensurePotentialEnergyValid\(const State& state\) const\s*"),
    ("calcForce", r"void Force::LinearBushingImpl::\s*calcForce\(const State& state, Vector_<SpatialVec>& bodyForces,\s*Vector_<Vec3>& particleForces, Vector& mobilityForces\) const\s*"),
    ("calcPotentialEnergy", r"Real Force::LinearBushingImpl::\s*calcPotentialEnergy\(const State& state\) const\s*"),
    ("realizeAcceleration", r"void realizeAcceleration\(const State& s\) const override\s*"),
]
HANDLE_FUNCS = [
    ("setFrameOnBody1", r"const Force::LinearBushing& Force::LinearBushing::\s*setFrameOnBody1\(State& state, const Transform& X_B1F\) const\s*"),
    ("setFrameOnBody2", r"const Force::LinearBushing& Force::LinearBushing::\s*setFrameOnBody2\(State& state, const Transform& X_B2M\) const\s*"),
    ("setStiffness", r"const Force::LinearBushing& Force::LinearBushing::\s*setStiffness\(State& state, const Vec6& stiffness\) const\s*"),
    ("setDamping", r"const Force::LinearBushing& Force::LinearBushing::\s*setDamping\(State& state, const Vec6& damping\) const\s*"),
    ("getFrameOnBody1", r"const Transform& Force::LinearBushing::\s*getFrameOnBody1\(const State& state\) const\s*"),
    ("getFrameOnBody2", r"const Transform& Force::LinearBushing::\s*getFrameOnBody2\(const State& state\) const\s*"),
    ("getStiffness", r"const Vec6& Force::LinearBushing::\s*getStiffness\(const State& state\) const\s*"),
    ("getDamping", r"const Vec6& Force::LinearBushing::\s*getDamping\(const State& state\) const\s*"),
    ("getQ", r"const Vec6& Force::LinearBushing::\s*getQ\(const State& s\) const\s*"),
    ("getQDot", r"const Vec6& Force::LinearBushing::\s*getQDot\(const State& s\) const\s*"),
    ("getF", r"const Vec6& Force::LinearBushing::\s*getF\(const State& s\) const\s*"),
    ("getX_GF", r"const Transform& Force::LinearBushing::\s*getX_GF\(const State& s\) const\s*"),
    ("getX_GM", r"const Transform& Force::LinearBushing::\s*getX_GM\(const State& s\) const\s*"),
    ("getX_FM", r"const Transform& Force::LinearBushing::\s*getX_FM\(const State& s\) const\s*"),
    ("getV_GF", r"const SpatialVec& Force::LinearBushing::\s*getV_GF\(const State& s\) const\s*"),
    ("getV_GM", r"const SpatialVec& Force::LinearBushing::\s*getV_GM\(const State& s\) const\s*"),
    ("getV_FM", r"const SpatialVec& Force::LinearBushing::\s*getV_FM\(const State& s\) const\s*"),
    ("getF_GF", r"const SpatialVec& Force::LinearBushing::\s*getF_GF\(const State& s\) const\s*"),
    ("getF_GM", r"const SpatialVec& Force::LinearBushing::\s*getF_GM\(const State& s\) const\s*"),
    ("getPotentialEnergy", r"Real Force::LinearBushing::\s*getPotentialEnergy\(const State& s\) const\s*"),
    ("getPowerDissipation", r"Real Force::LinearBushing::\s*getPowerDissipation\(const State& s\) const\s*"),
]
IMPL_MEMBERS = ["matter", "body1x", "body2x", "instanceVarsIx", "dissipatedEnergyIx", "positionCacheIx", "potEnergyCacheIx", "velocityCacheIx", "forceCacheIx"]
IMPL_METHODS = [n for n, _ in ONE_LINERS] + [n for n, _ in IMPL_FUNCS] + ["getForceSubsystem", "updDissipatedEnergyDeriv"]
ALLOC_RX = re.compile(r"mThis->(\w+)\s*=\s*getForceSubsystem\(\)\s*\.\s*(allocateDiscreteVariable|allocateCacheEntry|allocateLazyCacheEntry|allocateZ)\s*\(\s*s\s*,\s*"
                      r"(?:Stage::(\w+)\s*,\s*(?:Stage::(\w+)\s*,)?)?")

_BUILT = {}


def build(ctx):
    """cut + transliterate; returns a Bag(B, Impl, Handle, alloc, N) cached per ctx"""
    if id(ctx) in _BUILT:
        return _BUILT[id(ctx)]
    B = BUnit(ctx); ns = B.ns
    ns["SpatialVec"] = S.SpatialVec
    def SETSUB(v, n, k, e):
        e = list(e) if not isinstance(e, list) else e
        assert len(e) == n
        for i in range(n):
            v[k + i] = e[i]
    ns["SETSUB"] = SETSUB
    ns["SETEL"] = lambda f, args, v: f(*args).set(v)
    Impl = type("LinearBushingImpl", (object,), {})
    Handle = type("LinearBushing", (object,), {})
    def attach(cls, path, anchor, name, members, methods, cxx):
        pl = Plumb()
        B.add_method(cls, path, anchor, name, members=members, methods=methods, extra_pre=pl, cxxname=cxx)
        ctx.extraction[-1]["rewrites"] = list(ctx.extraction[-1]["rewrites"]) + pl.log()
    for name, anchor in ONE_LINERS:
        attach(Impl, BUSH_CPP, anchor, name, IMPL_MEMBERS, IMPL_METHODS, IMPLN + "::" + name)
    for name, anchor in IMPL_FUNCS:
        attach(Impl, BUSH_CPP, anchor, name, IMPL_MEMBERS, IMPL_METHODS, IMPLN + "::" + name)
    for name, anchor in HANDLE_FUNCS:
        attach(Handle, BUSH_CPP, anchor, name, [], ["getImpl", "updImpl"], HANDLEN + "::" + name)
    # Rotation::calcNForBodyXYZInBodyFrame, REAL code, both overloads (same anchors as checks/c28.py)
    for params in ((r"const Vec3P&\s*q",), (r"const Vec3P&\s*cq", r"const Vec3P&\s*sq")):
        B.add_function(ROT_H, r"static Mat33P\s+calcNForBodyXYZInBodyFrame\s*\(\s*" + r"\s*,\s*".join(params) + r"\s*\)\s*",
                       pyname="calcNForBodyXYZInBodyFrame", cxxname="Rotation_<P>::calcNForBodyXYZInBodyFrame")
    ns["Rotation_calcNForBodyXYZInBodyFrame"] = ns["calcNForBodyXYZInBodyFrame"]
    # allocation table of realizeTopology
    c = cut_function(BUSH_CPP, r"void realizeTopology\(State& s\) const override\s*", "realizeTopology")
    alloc = {}
    for m in ALLOC_RX.finditer(strip_comments(c.body)):
        alloc[m.group(1)] = dict(call=m.group(2), stage1=m.group(3), stage2=m.group(4))
    ctx.add_function(BUSH_CPP, IMPLN + "::realizeTopology/1", c.start, c.end, c.text,
                     "M2 (allocation table read by pattern: member index <- allocate*(s, Stage...) ; payload values dropped)",
                     [dict(rule="payload of the allocation calls (initial values) dropped", text="new Value<...>(...)")],
                     [dict(rule="allocation table", hits=len(alloc), examples=["%s <- %s(%s,%s)" % (k, v["call"], v["stage1"], v["stage2"]) for k, v in alloc.items()])])
    B.dump_sources()
    Impl.getForceSubsystem = lambda self: self._subsys
    Impl.updDissipatedEnergyDeriv = lambda self, s: s.zdot.setdefault(self.dissipatedEnergyIx, Cell())
    Handle.getImpl = lambda self: self._impl
    Handle.updImpl = lambda self: self._impl
    bag = Bag(); bag.B, bag.Impl, bag.Handle, bag.alloc, bag.ns = B, Impl, Handle, alloc, ns
    _BUILT[id(ctx)] = bag
    return bag


# ----------------------------------------------------------------------
# scenarios: kinematic chart + mocked matter API
# ----------------------------------------------------------------------
class MBody:
    """MobilizedBody stand-in (ASSUMED contract on the matter API): getBodyTransform = X_GB, getBodyVelocity = V_GB = (w_GB, v of the body origin)"""
    def __init__(self, name, X, V, counter):
        self.name, self.X, self.V, self.counter = name, X, V, counter
    def getBodyTransform(self, state):
        assert state.stage >= SIX["Position"], "getBodyTransform before Stage::Position"
        self.counter["X"] = self.counter.get("X", 0) + 1
        return self.X
    def getBodyVelocity(self, state):
        assert state.stage >= SIX["Velocity"], "getBodyVelocity before Stage::Velocity"
        self.counter["V"] = self.counter.get("V", 0) + 1
        return self.V


class MMatter:
    def __init__(self, bodies): self.bodies = bodies
    def getMobilizedBody(self, ix): return self.bodies[int(ix)]


KINDS = ("two moving bodies", "body1 is Ground", "body2 is Ground", "both frames on one body")


class Scen:
    """One symbolic bushing: chart symbols, derived body poses/velocities, mocked matter, element + state stand-ins."""
    def __init__(self, bag, kind, dual=True, tag=""):
        assert kind in KINDS
        self.bag, self.kind, self.dual = bag, kind, dual
        S.reset_env()
        self.env = S.ENV
        t = tag
        R = lambda n: z3.Real(t + n)
        self.e = Vec(*[R("e%d" % i) for i in range(4)])
        self.unit = [val(self.e.normSqr()) == 1]
        self.qv = [R("q%d" % i) for i in range(3)]
        moving_q = kind != "both frames on one body"
        self.r = [R("r%d" % i) if moving_q else z3.RealVal(0) for i in range(3)]           # d/dt q (chart rates)
        dd = (lambda v, d: D(v, d)) if dual else (lambda v, d: D(v))
        self.q = [dd(self.qv[i], self.r[i]) for i in range(3)]
        Rq = S.Rx(self.q[0]) * S.Ry(self.q[1]) * S.Rz(self.q[2])                         # R_FM = Rxyz(q): documented body-fixed x-y-z sequence
        self.Rxyz = Rq
        self.cs = [(val(cos(D(v))), val(sin(D(v)))) for v in self.qv]
        self.c1 = self.cs[1][0]
        # omega: angular velocity of M in F expressed in M, as determined by the chart rates r. Written here independently of the code
        # under test (Kane, body-three 1-2-3, inverse relation: no division) and CERTIFIED by lemma chart.L1: d/dt Rxyz(q) == Rxyz(q) [omega]x
        Rq_full = S.Rx(D(self.qv[0], self.r[0])) * S.Ry(D(self.qv[1], self.r[1])) * S.Rz(D(self.qv[2], self.r[2]))
        self.Rq_full = Rq_full
        (c0, s0), (c1, s1), (c2, s2) = [(D(a), D(b)) for a, b in self.cs]
        r0, r1, r2 = [D(x) for x in self.r]
        self.omega = Vec(c1 * c2 * r0 + s2 * r1, -(c1 * s2) * r0 + c2 * r1, s1 * r0 + r2)
        self.omegaF = plain(Rq_full) * self.omega                    # the same angular velocity expressed in F
        Rg = Rquat(self.e)
        pF, pM = v3(t + "pF"), v3(t + "pM")
        self.pF, self.pM = pF, pM
        self.k = Vec(*[R("k%d" % i) for i in range(6)]); self.c = Vec(*[R("c%d" % i) for i in range(6)])
        self.param_side = [val(x) >= 0 for x in list(self.k) + list(self.c)]
        zero3 = Vec(0, 0, 0)
        I3 = S.eye(3)
        def moving(Rv, w):            # dual rotation with d/dt R = [w]x R
            Rd = crossMat(w) * Rv
            return Mat([[dd(val(Rv.m[i][j]), val(Rd.m[i][j])) for j in range(3)] for i in range(3)])
        def dualvec(pv, v): return Vec(*[dd(val(pv[i]), val(v[i])) for i in range(3)])
        self.counter = {}
        self.moving_derived = None    # the body whose pose is derived from the chart (its velocity needs the chart lemmas)
        if kind in ("two moving bodies", "body1 is Ground"):
            if kind == "two moving bodies":
                self.w1, self.v1, p1 = v3(t + "w1"), v3(t + "v1"), v3(t + "p1")
                R_GB1 = moving(Rg, self.w1); p_GB1 = dualvec(p1, self.v1)
                X_B1F = XF(None, pF)
                R_GF = R_GB1
            else:
                self.w1, self.v1 = zero3, zero3
                R_GB1 = I3; p_GB1 = zero3
                X_B1F = XF(Rg, pF)                                  # a frame fixed on Ground may have any orientation
                R_GF = Rg
            p_GF = p_GB1 + R_GB1 * pF
            self.pf = v3(t + "pf"); self.u = v3(t + "u")
            p_FM = dualvec(self.pf, self.u)
            R_GM = R_GF * Rq
            p_GM = p_GF + R_GF * p_FM
            R_GB2 = R_GM; X_B2M = XF(None, pM)
            p_GB2 = p_GM - R_GB2 * pM
            self.w2 = self.w1 + plain(R_GF) * self.omegaF
            # velocity of body 2's origin: rigid-body transfer from OM (d/dt p_GM is computed by the dual arithmetic from the chart)
            self.v2 = dpart(p_GM) - cross(self.w2, plain(R_GB2) * pM)
            self.moving_derived = dict(name="body 2", R=R_GB2, w=self.w2, p=p_GB2, v=self.v2, p_frame=p_GM, arm=pM)
        elif kind == "body2 is Ground":
            self.w2, self.v2 = zero3, zero3
            R_GB2 = I3; p_GB2 = zero3
            X_B2M = XF(Rg, pM)
            R_GM = Rg; p_GM = pM
            R_GF = Rg * ~Rq
            self.pf = v3(t + "pf"); self.u = v3(t + "u")
            p_FM = dualvec(self.pf, self.u)
            p_GF = p_GM - R_GF * p_FM
            R_GB1 = R_GF; X_B1F = XF(None, pF)
            p_GB1 = p_GF - R_GB1 * pF
            self.w1 = -(Rg * self.omega)
            self.v1 = dpart(p_GF) - cross(self.w1, plain(R_GB1) * pF)
            self.moving_derived = dict(name="body 1", R=R_GB1, w=self.w1, p=p_GB1, v=self.v1, p_frame=p_GF, arm=pF)
        else:
            self.w1, self.v1, p1 = v3(t + "w1"), v3(t + "v1"), v3(t + "p1")
            R_GB1 = moving(Rg, self.w1); p_GB1 = dualvec(p1, self.v1)
            R_GB2, p_GB2, self.w2, self.v2 = R_GB1, p_GB1, self.w1, self.v1
            X_B1F = XF(None, pF); X_B2M = XF(Rq, pM)                   # constant angles: frame M is turned by Rxyz(q) against frame F on the same body
            R_GF = R_GB1; R_GM = R_GB1 * Rq
            p_GF = p_GB1 + R_GB1 * pF; p_GM = p_GB1 + R_GB1 * pM
            self.pf = pM - pF; self.u = zero3
            p_FM = self.pf
        self.R_GF, self.R_GM, self.p_GF, self.p_GM, self.p_FM = R_GF, R_GM, p_GF, p_GM, p_FM
        self.X_GB1, self.X_GB2 = XF(R_GB1, p_GB1), XF(R_GB2, p_GB2)
        self.X_B1F, self.X_B2M = X_B1F, X_B2M
        same = kind == "both frames on one body"
        b1 = MBody("B1", self.X_GB1, S.SpatialVec(self.w1, self.v1), self.counter)
        b2 = b1 if same else MBody("B2", self.X_GB2, S.SpatialVec(self.w2, self.v2), self.counter)
        if kind == "body1 is Ground":
            self.bodies, self.ix1, self.ix2 = [b1, b2], 0, 1
        elif kind == "body2 is Ground":
            self.bodies, self.ix1, self.ix2 = [b2, b1], 1, 0
        elif same:
            self.bodies, self.ix1, self.ix2 = [MBody("G", XF(), S.SpatialVec(zero3, zero3), self.counter), b1], 1, 1
        else:
            self.bodies, self.ix1, self.ix2 = [MBody("G", XF(), S.SpatialVec(zero3, zero3), self.counter), b1, b2], 1, 2
        self.V = {self.ix1: (self.w1, self.v1), self.ix2: (self.w2, self.v2)}
        self.origin = {self.ix1: plain(self.X_GB1.p()), self.ix2: plain(self.X_GB2.p())}
        self.converted = []
        self.make_element()

    def angles(self, Rm):
        self.converted.append(Rm)
        return Vec(*self.q)

    def make_element(self, k=None, c=None, X_B1F=None, X_B2M=None):
        """element + State stand-ins as realizeTopology leaves them (allocation table read from the source)"""
        bag = self.bag
        st = MState(); sub = MSubsystem()
        impl = bag.Impl(); impl._subsys = sub
        impl.matter, impl.body1x, impl.body2x = MMatter(self.bodies), self.ix1, self.ix2
        iv = Bag(); iv.X_B1F, iv.X_B2M = X_B1F or self.X_B1F, X_B2M or self.X_B2M
        iv.k, iv.c = (k if k is not None else self.k), (c if c is not None else self.c)
        payload = dict(instanceVarsIx=lambda: iv, positionCacheIx=lambda: self.fresh_pc(), potEnergyCacheIx=lambda: Cell(),
                       velocityCacheIx=lambda: self.fresh_vc(), forceCacheIx=lambda: Bag())
        for member, a in bag.alloc.items():
            if a["call"] == "allocateDiscreteVariable":
                setattr(impl, member, st.allocateDiscreteVariable(a["stage1"], payload[member]()))
            elif a["call"] in ("allocateCacheEntry", "allocateLazyCacheEntry"):
                setattr(impl, member, st.allocateCacheEntry(a["stage1"], a["stage2"] or ("Infinity" if a["call"] == "allocateLazyCacheEntry" else a["stage1"]), payload[member]()))
            elif a["call"] == "allocateZ":
                setattr(impl, member, 0)
        missing = [m for m in ("instanceVarsIx", "positionCacheIx", "potEnergyCacheIx", "velocityCacheIx", "forceCacheIx") if not hasattr(impl, m)]
        if missing:
            raise ExtractionError("realizeTopology: no allocation found for %s" % ", ".join(missing))
        st.stage = SIX["Model"]
        h = bag.Handle(); h._impl = impl
        self.state, self.impl, self.handle = st, impl, h
        return st, impl, h

    @staticmethod
    def fresh_pc():
        pc = Bag(); pc.q = Vec([0] * 6); return pc

    @staticmethod
    def fresh_vc():
        vc = Bag(); vc.qdot = Vec([0] * 6); return vc

    def run(self, stage="Dynamics"):
        """realize and evaluate force and energy through the real calcForce / calcPotentialEnergy"""
        RotM.angles_of = self.angles
        try:
            self.state.realize(stage)
            z = lambda: S.SpatialVec(Vec(0, 0, 0), Vec(0, 0, 0))
            bf = [z() for _ in self.bodies]
            self.impl.calcForce(self.state, bf, [], None)
            pe = self.impl.calcPotentialEnergy(self.state)
        finally:
            RotM.angles_of = None
        self.bf, self.pe = bf, pe
        self.pc = self.impl.getPositionCache(self.state); self.vc = self.impl.getVelocityCache(self.state); self.fc = self.impl.getForceCache(self.state)
        return bf, pe

    def side(self):
        return self.unit + list(self.env.side) + [self.c1 != 0]
