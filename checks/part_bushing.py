"""Force::LinearBushing under contract (parts of C13, C12 and C38; back end B, route M3).

Every run cuts from the CURRENT tree (Simbody/src/Force_LinearBushing.cpp, Rotation.h):
  * LinearBushingImpl::ensurePositionCacheValid / ensureVelocityCacheValid / ensureForceCacheValid /
    ensurePotentialEnergyValid / calcForce / calcPotentialEnergy / realizeAcceleration,
  * the one-line State plumbing members of the class (get/upd/is/mark for the four cache entries and the
    instance variables), the State-based setters and 17 getters of the handle Force::LinearBushing,
  * the allocation table of realizeTopology (which index is allocated with which depends-on / invalidates stage),
  * Rotation::calcNForBodyXYZInBodyFrame (both overloads, REAL code),
transliterates them mechanically (tools/translit.py; plumbing rewrites of this file are counted and logged) and runs
them on symbolic reals / dual numbers.

Entry points (plugged into the existing checks by the coordinator; each adds obligations / assumptions / not_decided to ctx):
    c13_part(ctx)   units bushing.reaction      action-reaction of the applied spatial forces
    c12_part(ctx)   units bushing.power         power of the applied forces == -(d/dt PE) - sum c_i qdot_i^2 along any rigid motion
    c38_part(ctx)   units bushing.law / .cache  documented law + parameter changes take effect (lazy cache entries, valid flags)
    replay(ctx, ob) native driver replay/bushing_replay.cpp with Force_LinearBushing.cpp of the current tree compiled in

Method (callers verified against callee contracts, README rule 3): the three lazily evaluated stages are verified ONE AT A TIME. The real
ensurePositionCacheValid runs on the symbolic configuration and the position-cache CONTRACT is proved; the cache is then overwritten
with the contract values and the real ensureVelocityCacheValid runs against them (velocity-cache contract), likewise the force stage.
Goals that are instances of general facts are proved in generalised form (Prover: rewriting with established equalities, heavy
subterms replaced by fresh variables) and chained by transitivity obligations.

Kinematic chart: the configuration is described by
    R_GF = R(e), |e| = 1 (unit quaternion chart),   R_FM = Rx(q0) Ry(q1) Rz(q2) (body-fixed x-y-z angles q, symbolic
    (cos,sin) pairs),   p_FM in F,   origin of body 1,   frame origins p_B1F, p_B2M (symbolic),
and the two body poses are DERIVED from these (R_GM = R_GF R_FM, p_GM = p_GF + R_GF p_FM). The motion is given by
w_GB1, v_GB1 (free), the coordinate rates r = d/dt q and u = d/dt p_FM (free); the other body's spatial velocity follows
(lemmas `chart ...`, which involve no code under test). `Rotation::convertRotationToBodyFixedXYZ` is NOT executed: it is
replaced by its contract (proved in C27 away from the singularity): it hands back the chart angles q, which is
legitimate because the code's R_FM is proved equal to Rxyz(q) (obligations `converter contract instance`)."""
import os, re, z3, time, fractions, random
import symlib as S
from symlib import *
from blib import BUnit
from vlib import REPO, VERIF, Obligation, native_build, run
from extract import cut_function, ExtractionError, strip_comments

BUSH_CPP = os.path.join(REPO, "Simbody/src/Force_LinearBushing.cpp")
ROT_H = os.path.join(REPO, "SimTKcommon/Mechanics/include/SimTKcommon/internal/Rotation.h")
IMPLN = "Force::LinearBushingImpl"
HANDLEN = "Force::LinearBushing"

STAGES = ["Empty", "Topology", "Model", "Instance", "Time", "Position", "Velocity", "Dynamics", "Acceleration", "Report", "Infinity"]
SIX = {n: i for i, n in enumerate(STAGES)}


# ----------------------------------------------------------------------
# plumbing rewrites (counted, logged into the extraction report of the function they were applied to)
# ----------------------------------------------------------------------
class Plumb:
    RULES = [
        ("subvector-view read  x.getSubVec<N>(k) -> x.getSubVec(N,k)", r"\.getSubVec<(\d)>\((\d)\)", r".getSubVec(\1, \2)"),
        ("subvector-view write x.updSubVec<N>(k) = e -> SETSUB(x,N,k,e)", r"([\w.]+)\.updSubVec<(\d)>\((\d)\)\s*=\s*([^;]+);", r"SETSUB(\1, \2, \3, \4);"),
        ("assignment nested in a product split: a += (b[i]=e)*f -> { b[i]=e; a += (b[i])*f; }",
         r"([\w.]+)\s*\+=\s*\(\s*(\w+\[\w+\])\s*=\s*([^;()]+?)\)\s*\*\s*([^;]+);", r"{ \2 = \3; \1 += (\2)*\4; }"),
        ("Value<T>::downcast / updDowncast dropped (typed view of an AbstractValue)", r"Value<\s*\w+\s*>::(?:upd)?[dD]owncast\s*\(", "("),
        ("const_cast dropped", r"const_cast<[^>]*>\s*\(", "("),
    ]

    def __init__(self):
        self.hits = {}

    def __call__(self, body):
        for rule, rx, rep in self.RULES:
            n = len(re.findall(rx, body))
            if n:
                self.hits[rule] = self.hits.get(rule, 0) + n
                body = re.sub(rx, rep, body)
        return body

    def log(self):
        return [dict(rule="plumbing: " + r, hits=n, examples=[]) for r, n in self.hits.items()]


class Cell:
    """storage cell standing for a Real& returned by an upd accessor (Value<Real> cache entry, zdot slot)"""
    def __init__(self, v=None): self.v = v
    def set(self, v): self.v = v


# ----------------------------------------------------------------------
# local shim: Transform / Rotation with their textbook algebra (ASSUMED contract on Transform_ / Rotation_, C27)
# ----------------------------------------------------------------------
class RotM(S.Mat):
    """3x3 matrix standing for a Rotation; products and transposes of RotM stay RotM. The angle extraction is the
    converter's CONTRACT (see module docstring), supplied per scenario through `angles_of`."""
    angles_of = None

    def __mul__(a, b):
        r = S.Mat.__mul__(a, b)
        if isinstance(r, S.Mat) and not isinstance(r, RotM) and isinstance(b, RotM):
            r = RotM(r.m)
        return r

    def __invert__(a):
        return RotM([[a.m[i][j] for i in range(3)] for j in range(3)])

    def convertRotationToBodyFixedXYZ(self):
        if RotM.angles_of is None:
            raise ExtractionError("convertRotationToBodyFixedXYZ called outside a scenario")
        return RotM.angles_of(self)


class XF:
    """Transform X_AB = (R_AB, p_AB): X_AB * X_BC = (R_AB R_BC, p_AB + R_AB p_BC); ~X_AB = (~R_AB, -(~R_AB p_AB))"""
    def __init__(self, R=None, p=None):
        self._R = RotM(S.eye(3).m) if R is None else (R if isinstance(R, RotM) else RotM(R.m))
        self._p = Vec(0, 0, 0) if p is None else p
    def R(self): return self._R
    def p(self): return self._p
    def __invert__(self):
        Ri = ~self._R
        return XF(Ri, -(Ri * self._p))
    def __mul__(self, o):
        if isinstance(o, XF):
            return XF(self._R * o._R, self._p + self._R * o._p)
        if isinstance(o, S.Vec):
            return self._p + self._R * o
        return NotImplemented


def plain(x):
    if isinstance(x, XF):
        return XF(RotM(plain(x._R).m), plain(x._p))
    return S.vmap(lambda e: D(val(e)), x)


def dpart(x):
    return S.vmap(lambda e: D(der(e)), x)


def Rquat(q):
    q0, q1, q2, q3 = q[0], q[1], q[2], q[3]
    return Mat([[1 - 2*(q2*q2+q3*q3), 2*(q1*q2-q0*q3), 2*(q1*q3+q0*q2)],
                [2*(q1*q2+q0*q3), 1 - 2*(q1*q1+q3*q3), 2*(q2*q3-q0*q1)],
                [2*(q1*q3-q0*q2), 2*(q2*q3+q0*q1), 1 - 2*(q1*q1+q2*q2)]])


def v3(n): return Vec(*[z3.Real("%s%d" % (n, i)) for i in range(3)])


def axial(W):
    """axial vector of a (skew) matrix W: (W21, W02, W10)"""
    return Vec(W.m[2][1], W.m[0][2], W.m[1][0])


# ----------------------------------------------------------------------
# State / subsystem stand-in (explicit stage, stage versions and per-entry valid stamps)
# ----------------------------------------------------------------------
class MState:
    """What the real State does for the resources a LinearBushing allocates (ASSUMED contract; the State side is C18's):
       * updDiscreteVariable(ix) backs the stage up to (invalidates-stage - 1) and raises the version of every stage it
         invalidates (StateImpl::updDiscreteVariable -> invalidateAll -> PerSubsystemInfo::restoreToStage);
       * a lazy cache entry (computed-by Infinity) is realized iff stage >= depends-on stage and it was marked at the
         current version of its depends-on stage (CacheEntryInfo::isUpToDate / markAsUpToDate);
       * changing q / u / t (set_positions ...) invalidates Position / Velocity / Time likewise."""
    def __init__(self):
        self.stage = SIX["Empty"]
        self.version = [1] * len(STAGES)
        self.dvs, self.ces, self.zdot = [], [], {}
        self.trace = []

    def allocateDiscreteVariable(self, invalidates, value):
        self.dvs.append(dict(invalidates=SIX[invalidates], value=value)); return len(self.dvs) - 1

    def allocateCacheEntry(self, depends_on, computed_by, value):
        self.ces.append(dict(depends=SIX[depends_on], by=SIX[computed_by], stamp=0, value=value)); return len(self.ces) - 1

    def invalidate(self, g):
        """stage no higher than g-1; versions of the invalidated stages raised"""
        if self.stage > g - 1:
            for i in range(g, self.stage + 1):
                self.version[i] += 1
            self.stage = g - 1

    def realize(self, stage_name):
        self.stage = max(self.stage, SIX[stage_name])


class MSubsystem:
    """GeneralForceSubsystem stand-in: forwards to the State model"""
    def getDiscreteVariable(self, s, ix): return s.dvs[ix]["value"]
    def updDiscreteVariable(self, s, ix):
        s.trace.append(("updDiscreteVariable", ix))
        s.invalidate(s.dvs[ix]["invalidates"])
        return s.dvs[ix]["value"]
    def getCacheEntry(self, s, ix):
        assert self.isCacheValueRealized(s, ix), "getCacheEntry on a cache entry that is not realized (the real State throws here)"
        v = s.ces[ix]["value"]
        return v.v if isinstance(v, Cell) else v
    def updCacheEntry(self, s, ix): return s.ces[ix]["value"]
    def isCacheValueRealized(self, s, ix):
        ce = s.ces[ix]
        if s.stage >= ce["by"]: return True
        if s.stage < ce["depends"]: return False
        return ce["stamp"] == s.version[ce["depends"]]
    def markCacheValueRealized(self, s, ix):
        ce = s.ces[ix]
        assert s.stage >= ce["depends"] - 1, "markCacheValueRealized below the depends-on stage"
        ce["stamp"] = s.version[ce["depends"]]
        s.trace.append(("mark", ix))


class Bag:
    pass


# ----------------------------------------------------------------------
# extraction
# ----------------------------------------------------------------------
ONE_LINERS = [   # (python name, anchor inside the class body)
    ("getInstanceVars", r"const InstanceVars& getInstanceVars\(const State& s\) const\s*"),
    ("updInstanceVars", r"InstanceVars& updInstanceVars\(State& s\) const\s*"),
    ("getPositionCache", r"const PositionCache& getPositionCache\(const State& s\) const\s*"),
    ("getPotentialEnergyCache", r"const Real& getPotentialEnergyCache\(const State& s\) const\s*"),
    ("getVelocityCache", r"const VelocityCache& getVelocityCache\(const State& s\) const\s*"),
    ("getForceCache", r"const ForceCache& getForceCache\(const State& s\) const\s*"),
    ("updPositionCache", r"PositionCache& updPositionCache\(const State& s\) const\s*"),
    ("updPotentialEnergyCache", r"Real& updPotentialEnergyCache\(const State& s\) const\s*"),
    ("updVelocityCache", r"VelocityCache& updVelocityCache\(const State& s\) const\s*"),
    ("updForceCache", r"ForceCache& updForceCache\(const State& s\) const\s*"),
    ("isPositionCacheValid", r"bool isPositionCacheValid\(const State& s\) const\s*"),
    ("isPotentialEnergyValid", r"bool isPotentialEnergyValid\(const State& s\) const\s*"),
    ("isVelocityCacheValid", r"bool isVelocityCacheValid\(const State& s\) const\s*"),
    ("isForceCacheValid", r"bool isForceCacheValid\(const State& s\) const\s*"),
    ("markPositionCacheValid", r"void markPositionCacheValid\(const State& s\) const\s*"),
    ("markPotentialEnergyValid", r"void markPotentialEnergyValid\(const State& s\) const\s*"),
    ("markVelocityCacheValid", r"void markVelocityCacheValid\(const State& s\) const\s*"),
    ("markForceCacheValid", r"void markForceCacheValid\(const State& s\) const\s*"),
]
IMPL_FUNCS = [
    ("ensurePositionCacheValid", r"void Force::LinearBushingImpl::\s*ensurePositionCacheValid\(const State& state\) const\s*"),
    ("ensureVelocityCacheValid", r"void Force::LinearBushingImpl::\s*ensureVelocityCacheValid\(const State& state\) const\s*"),
    ("ensureForceCacheValid", r"void Force::LinearBushingImpl::\s*ensureForceCacheValid\(const State& state\) const\s*"),
    ("ensurePotentialEnergyValid", r"void Force::LinearBushingImpl::\s*ensurePotentialEnergyValid\(const State& state\) const\s*"),
    ("calcForce", r"void Force::LinearBushingImpl::\s*calcForce\(const State& state, Vector_<SpatialVec>& bodyForces,\s*Vector_<Vec3>& particleForces, Vector& mobilityForces\) const\s*"),
    ("calcPotentialEnergy", r"Real Force::LinearBushingImpl::\s*calcPotentialEnergy\(const State& state\) const\s*"),
    ("realizeAcceleration", r"void realizeAcceleration\(const State& s\) const override\s*"),
]
HANDLE_FUNCS = [
    ("setFrameOnBody1", r"const Force::LinearBushing& Force::LinearBushing::\s*setFrameOnBody1\(State& state, const Transform& X_B1F\) const\s*"),
    ("setFrameOnBody2", r"const Force::LinearBushing& Force::LinearBushing::\s*setFrameOnBody2\(State& state, const Transform& X_B2M\) const\s*"),
    ("setStiffness", r"const Force::LinearBushing& Force::LinearBushing::\s*setStiffness\(State& state, const Vec6& stiffness\) const\s*"),
    ("setDamping", r"const Force::LinearBushing& Force::LinearBushing::\s*setDamping\(State& state, const Vec6& damping\) const\s*"),
    ("getFrameOnBody1", r"const Transform& Force::LinearBushing::\s*getFrameOnBody1\(const State& state\) const\s*"),
    ("getFrameOnBody2", r"const Transform& Force::LinearBushing::\s*getFrameOnBody2\(const State& state\) const\s*"),
    ("getStiffness", r"const Vec6& Force::LinearBushing::\s*getStiffness\(const State& state\) const\s*"),
    ("getDamping", r"const Vec6& Force::LinearBushing::\s*getDamping\(const State& state\) const\s*"),
    ("getQ", r"const Vec6& Force::LinearBushing::\s*getQ\(const State& s\) const\s*"),
    ("getQDot", r"const Vec6& Force::LinearBushing::\s*getQDot\(const State& s\) const\s*"),
    ("getF", r"const Vec6& Force::LinearBushing::\s*getF\(const State& s\) const\s*"),
    ("getX_GF", r"const Transform& Force::LinearBushing::\s*getX_GF\(const State& s\) const\s*"),
    ("getX_GM", r"const Transform& Force::LinearBushing::\s*getX_GM\(const State& s\) const\s*"),
    ("getX_FM", r"const Transform& Force::LinearBushing::\s*getX_FM\(const State& s\) const\s*"),
    ("getV_GF", r"const SpatialVec& Force::LinearBushing::\s*getV_GF\(const State& s\) const\s*"),
    ("getV_GM", r"const SpatialVec& Force::LinearBushing::\s*getV_GM\(const State& s\) const\s*"),
    ("getV_FM", r"const SpatialVec& Force::LinearBushing::\s*getV_FM\(const State& s\) const\s*"),
    ("getF_GF", r"const SpatialVec& Force::LinearBushing::\s*getF_GF\(const State& s\) const\s*"),
    ("getF_GM", r"const SpatialVec& Force::LinearBushing::\s*getF_GM\(const State& s\) const\s*"),
    ("getPotentialEnergy", r"Real Force::LinearBushing::\s*getPotentialEnergy\(const State& s\) const\s*"),
    ("getPowerDissipation", r"Real Force::LinearBushing::\s*getPowerDissipation\(const State& s\) const\s*"),
]
IMPL_MEMBERS = ["matter", "body1x", "body2x", "instanceVarsIx", "dissipatedEnergyIx", "positionCacheIx", "potEnergyCacheIx", "velocityCacheIx", "forceCacheIx"]
IMPL_METHODS = [n for n, _ in ONE_LINERS] + [n for n, _ in IMPL_FUNCS] + ["getForceSubsystem", "updDissipatedEnergyDeriv"]
ALLOC_RX = re.compile(r"mThis->(\w+)\s*=\s*getForceSubsystem\(\)\s*\.\s*(allocateDiscreteVariable|allocateCacheEntry|allocateLazyCacheEntry|allocateZ)\s*\(\s*s\s*,\s*"
                      r"(?:Stage::(\w+)\s*,\s*(?:Stage::(\w+)\s*,)?)?")



def build(ctx):
    """cut + transliterate; returns a Bag(B, Impl, Handle, alloc, N) cached per ctx"""
    if getattr(ctx, "_bushing_bag", None) is not None:
        return ctx._bushing_bag
    B = BUnit(ctx); ns = B.ns
    ns["SpatialVec"] = S.SpatialVec
    def SETSUB(v, n, k, e):
        e = list(e) if not isinstance(e, list) else e
        assert len(e) == n
        for i in range(n):
            v[k + i] = e[i]
    ns["SETSUB"] = SETSUB
    ns["SETEL"] = lambda f, args, v: f(*args).set(v)
    Impl = type("LinearBushingImpl", (object,), {})
    Handle = type("LinearBushing", (object,), {})
    def attach(cls, path, anchor, name, members, methods, cxx):
        pl = Plumb()
        B.add_method(cls, path, anchor, name, members=members, methods=methods, extra_pre=pl, cxxname=cxx)
        ctx.extraction[-1]["rewrites"] = list(ctx.extraction[-1]["rewrites"]) + pl.log()
    for name, anchor in ONE_LINERS:
        attach(Impl, BUSH_CPP, anchor, name, IMPL_MEMBERS, IMPL_METHODS, IMPLN + "::" + name)
    for name, anchor in IMPL_FUNCS:
        attach(Impl, BUSH_CPP, anchor, name, IMPL_MEMBERS, IMPL_METHODS, IMPLN + "::" + name)
    for name, anchor in HANDLE_FUNCS:
        attach(Handle, BUSH_CPP, anchor, name, [], ["getImpl", "updImpl"], HANDLEN + "::" + name)
    # Rotation::calcNForBodyXYZInBodyFrame, REAL code, both overloads (same anchors as checks/c28.py)
    for params in ((r"const Vec3P&\s*q",), (r"const Vec3P&\s*cq", r"const Vec3P&\s*sq")):
        B.add_function(ROT_H, r"static Mat33P\s+calcNForBodyXYZInBodyFrame\s*\(\s*" + r"\s*,\s*".join(params) + r"\s*\)\s*",
                       pyname="calcNForBodyXYZInBodyFrame", cxxname="Rotation_<P>::calcNForBodyXYZInBodyFrame")
    ns["Rotation_calcNForBodyXYZInBodyFrame"] = ns["calcNForBodyXYZInBodyFrame"]
    # allocation table of realizeTopology
    c = cut_function(BUSH_CPP, r"void realizeTopology\(State& s\) const override\s*", "realizeTopology")
    alloc = {}
    for m in ALLOC_RX.finditer(strip_comments(c.body)):
        alloc[m.group(1)] = dict(call=m.group(2), stage1=m.group(3), stage2=m.group(4))
    ctx.add_function(BUSH_CPP, IMPLN + "::realizeTopology/1", c.start, c.end, c.text,
                     "M2 (allocation table read by pattern: member index <- allocate*(s, Stage...) ; payload values dropped)",
                     [dict(rule="payload of the allocation calls (initial values) dropped", text="new Value<...>(...)")],
                     [dict(rule="allocation table", hits=len(alloc), examples=["%s <- %s(%s,%s)" % (k, v["call"], v["stage1"], v["stage2"]) for k, v in alloc.items()])])
    B.dump_sources()
    Impl.getForceSubsystem = lambda self: self._subsys
    Impl.updDissipatedEnergyDeriv = lambda self, s: s.zdot.setdefault(self.dissipatedEnergyIx, Cell())
    Handle.getImpl = lambda self: self._impl
    Handle.updImpl = lambda self: self._impl
    bag = Bag(); bag.B, bag.Impl, bag.Handle, bag.alloc, bag.ns = B, Impl, Handle, alloc, ns
    ctx._bushing_bag = bag
    return bag


# ----------------------------------------------------------------------
# scenarios: kinematic chart + mocked matter API
# ----------------------------------------------------------------------
class MBody:
    """MobilizedBody stand-in (ASSUMED contract on the matter API): getBodyTransform = X_GB, getBodyVelocity = V_GB = (w_GB, v of the body origin)"""
    def __init__(self, name, X, V, counter):
        self.name, self.X, self.V, self.counter = name, X, V, counter
    def getBodyTransform(self, state):
        assert state.stage >= SIX["Position"], "getBodyTransform before Stage::Position"
        self.counter["X"] = self.counter.get("X", 0) + 1
        return self.X
    def getBodyVelocity(self, state):
        assert state.stage >= SIX["Velocity"], "getBodyVelocity before Stage::Velocity"
        self.counter["V"] = self.counter.get("V", 0) + 1
        return self.V


class MMatter:
    def __init__(self, bodies): self.bodies = bodies
    def getMobilizedBody(self, ix): return self.bodies[int(ix)]


KINDS = ("two moving bodies", "body1 is Ground", "body2 is Ground", "both frames on one body")


class Scen:
    """One symbolic bushing: chart symbols, derived body poses/velocities, mocked matter, element + state stand-ins."""
    def __init__(self, bag, kind, dual=True, tag=""):
        assert kind in KINDS
        self.bag, self.kind, self.dual = bag, kind, dual
        S.reset_env()
        self.env = S.ENV
        t = tag
        R = lambda n: z3.Real(t + n)
        self.e = Vec(*[R("e%d" % i) for i in range(4)])
        self.unit = [val(self.e.normSqr()) == 1]
        self.qv = [R("q%d" % i) for i in range(3)]
        moving_q = kind != "both frames on one body"
        self.r = [R("r%d" % i) if moving_q else z3.RealVal(0) for i in range(3)]           # d/dt q (chart rates)
        dd = (lambda v, d: D(v, d)) if dual else (lambda v, d: D(v))
        self.q = [dd(self.qv[i], self.r[i]) for i in range(3)]
        Rq = S.Rx(self.q[0]) * S.Ry(self.q[1]) * S.Rz(self.q[2])                         # R_FM = Rxyz(q): documented body-fixed x-y-z sequence
        self.Rxyz = Rq
        self.cs = [(val(cos(D(v))), val(sin(D(v)))) for v in self.qv]
        self.c1 = self.cs[1][0]
        # omega: angular velocity of M in F expressed in M, as determined by the chart rates r. Written here independently of the code
        # under test (Kane, body-three 1-2-3, inverse relation: no division) and CERTIFIED by lemma chart.L1: d/dt Rxyz(q) == Rxyz(q) [omega]x
        Rq_full = S.Rx(D(self.qv[0], self.r[0])) * S.Ry(D(self.qv[1], self.r[1])) * S.Rz(D(self.qv[2], self.r[2]))
        self.Rq_full = Rq_full
        (c0, s0), (c1, s1), (c2, s2) = [(D(a), D(b)) for a, b in self.cs]
        r0, r1, r2 = [D(x) for x in self.r]
        self.omega = Vec(c1 * c2 * r0 + s2 * r1, -(c1 * s2) * r0 + c2 * r1, s1 * r0 + r2)
        self.omegaF = plain(Rq_full) * self.omega                    # the same angular velocity expressed in F
        Rg = Rquat(self.e)
        pF, pM = v3(t + "pF"), v3(t + "pM")
        self.pF, self.pM = pF, pM
        self.k = Vec(*[R("k%d" % i) for i in range(6)]); self.c = Vec(*[R("c%d" % i) for i in range(6)])
        self.param_side = [val(x) >= 0 for x in list(self.k) + list(self.c)]
        zero3 = Vec(0, 0, 0)
        I3 = S.eye(3)
        def moving(Rv, w):            # dual rotation with d/dt R = [w]x R
            Rd = crossMat(w) * Rv
            return Mat([[dd(val(Rv.m[i][j]), val(Rd.m[i][j])) for j in range(3)] for i in range(3)])
        def dualvec(pv, v): return Vec(*[dd(val(pv[i]), val(v[i])) for i in range(3)])
        self.counter = {}
        self.moving_derived = None    # the body whose pose is derived from the chart (its velocity needs the chart lemmas)
        if kind in ("two moving bodies", "body1 is Ground"):
            if kind == "two moving bodies":
                self.w1, self.v1, p1 = v3(t + "w1"), v3(t + "v1"), v3(t + "p1")
                R_GB1 = moving(Rg, self.w1); p_GB1 = dualvec(p1, self.v1)
                X_B1F = XF(None, pF)
                R_GF = R_GB1
            else:
                self.w1, self.v1 = zero3, zero3
                R_GB1 = I3; p_GB1 = zero3
                X_B1F = XF(Rg, pF)                                  # a frame fixed on Ground may have any orientation
                R_GF = Rg
            p_GF = p_GB1 + R_GB1 * pF
            self.pf = v3(t + "pf"); self.u = v3(t + "u")
            p_FM = dualvec(self.pf, self.u)
            R_GM = R_GF * Rq
            p_GM = p_GF + R_GF * p_FM
            R_GB2 = R_GM; X_B2M = XF(None, pM)
            p_GB2 = p_GM - R_GB2 * pM
            self.w2 = self.w1 + plain(R_GF) * self.omegaF
            # velocity of body 2's origin: rigid-body transfer from OM (d/dt p_GM is computed by the dual arithmetic from the chart)
            self.v2 = dpart(p_GM) - cross(self.w2, plain(R_GB2) * pM)
            self.moving_derived = dict(name="body 2", R=R_GB2, w=self.w2, p=p_GB2, v=self.v2, p_frame=p_GM, arm=pM)
        elif kind == "body2 is Ground":
            # same chart; body 2 is Ground, so R_GM = R_GF R_FM and p_GM must be CONSTANT: this fixes body 1's velocity (w_GB1 = -R_GF omegaF,
            # lemma chart.ground2) and frame M has the arbitrary constant orientation R_B2M = R(e) Rxyz(q), origin p_B2M
            self.w2, self.v2 = zero3, zero3
            R_GB2 = I3; p_GB2 = zero3
            self.w1 = -(Rg * self.omegaF)
            R_GB1 = moving(Rg, self.w1); R_GF = R_GB1; X_B1F = XF(None, pF)
            R_GM = plain(Rg * Rq); p_GM = pM
            X_B2M = XF(R_GM, pM)
            self.pf = v3(t + "pf"); self.u = v3(t + "u")
            p_FM = dualvec(self.pf, self.u)
            p_GF = p_GM - R_GF * p_FM
            p_GB1 = p_GF - R_GB1 * pF
            self.v1 = dpart(p_GF) - cross(self.w1, plain(R_GB1) * pF)
            self.moving_derived = dict(name="body 1", R=R_GB1, w=self.w1, p=p_GB1, v=self.v1, p_frame=p_GF, arm=pF)
        else:
            self.w1, self.v1, p1 = v3(t + "w1"), v3(t + "v1"), v3(t + "p1")
            R_GB1 = moving(Rg, self.w1); p_GB1 = dualvec(p1, self.v1)
            R_GB2, p_GB2, self.w2, self.v2 = R_GB1, p_GB1, self.w1, self.v1
            X_B1F = XF(None, pF); X_B2M = XF(Rq, pM)                   # constant angles: frame M is turned by Rxyz(q) against frame F on the same body
            R_GF = R_GB1; R_GM = R_GB1 * Rq
            p_GF = p_GB1 + R_GB1 * pF; p_GM = p_GB1 + R_GB1 * pM
            self.pf = pM - pF; self.u = zero3
            p_FM = self.pf
        self.R_GF, self.R_GM, self.p_GF, self.p_GM, self.p_FM = R_GF, R_GM, p_GF, p_GM, p_FM
        self.X_GB1, self.X_GB2 = XF(R_GB1, p_GB1), XF(R_GB2, p_GB2)
        self.X_B1F, self.X_B2M = X_B1F, X_B2M
        same = kind == "both frames on one body"
        b1 = MBody("B1", self.X_GB1, S.SpatialVec(self.w1, self.v1), self.counter)
        b2 = b1 if same else MBody("B2", self.X_GB2, S.SpatialVec(self.w2, self.v2), self.counter)
        if kind == "body1 is Ground":
            self.bodies, self.ix1, self.ix2 = [b1, b2], 0, 1
        elif kind == "body2 is Ground":
            self.bodies, self.ix1, self.ix2 = [b2, b1], 1, 0
        elif same:
            self.bodies, self.ix1, self.ix2 = [MBody("G", XF(), S.SpatialVec(zero3, zero3), self.counter), b1], 1, 1
        else:
            self.bodies, self.ix1, self.ix2 = [MBody("G", XF(), S.SpatialVec(zero3, zero3), self.counter), b1, b2], 1, 2
        self.V = {self.ix1: (self.w1, self.v1), self.ix2: (self.w2, self.v2)}
        self.origin = {self.ix1: plain(self.X_GB1.p()), self.ix2: plain(self.X_GB2.p())}
        self.converted = []
        self.make_element()

    def angles(self, Rm):
        self.converted.append(Rm)
        return Vec(*self.q)

    def make_element(self, k=None, c=None, X_B1F=None, X_B2M=None, install=True):
        """element + State stand-ins as realizeTopology leaves them (allocation table read from the source)"""
        bag = self.bag
        st = MState(); sub = MSubsystem()
        impl = bag.Impl(); impl._subsys = sub
        impl.matter, impl.body1x, impl.body2x = MMatter(self.bodies), self.ix1, self.ix2
        iv = Bag(); iv.X_B1F, iv.X_B2M = X_B1F or self.X_B1F, X_B2M or self.X_B2M
        iv.k, iv.c = (k if k is not None else self.k), (c if c is not None else self.c)
        payload = dict(instanceVarsIx=lambda: iv, positionCacheIx=lambda: self.fresh_pc(), potEnergyCacheIx=lambda: Cell(),
                       velocityCacheIx=lambda: self.fresh_vc(), forceCacheIx=lambda: Bag())
        for member, a in bag.alloc.items():
            if a["call"] == "allocateDiscreteVariable":
                setattr(impl, member, st.allocateDiscreteVariable(a["stage1"], payload[member]()))
            elif a["call"] in ("allocateCacheEntry", "allocateLazyCacheEntry"):
                setattr(impl, member, st.allocateCacheEntry(a["stage1"], a["stage2"] or ("Infinity" if a["call"] == "allocateLazyCacheEntry" else a["stage1"]), payload[member]()))
            elif a["call"] == "allocateZ":
                setattr(impl, member, 0)
        missing = [m for m in ("instanceVarsIx", "positionCacheIx", "potEnergyCacheIx", "velocityCacheIx", "forceCacheIx") if not hasattr(impl, m)]
        if missing:
            raise ExtractionError("realizeTopology: no allocation found for %s" % ", ".join(missing))
        st.stage = SIX["Model"]
        h = bag.Handle(); h._impl = impl
        if install:
            self.state, self.impl, self.handle = st, impl, h
        return st, impl, h

    @staticmethod
    def fresh_pc():
        pc = Bag(); pc.q = Vec([0] * 6); return pc

    @staticmethod
    def fresh_vc():
        vc = Bag(); vc.qdot = Vec([0] * 6); return vc

    def side(self):
        return self.unit + list(self.env.side) + [self.c1 != 0]


# ----------------------------------------------------------------------
# proving helper: lemma chains with rewriting by established equalities and generalisation of heavy subterms
# ----------------------------------------------------------------------
def _terms(x):
    return [val(e) for e in S.elements(x)]


def _trivial(t):
    t = z3.simplify(t)
    return z3.is_rational_value(t) or z3.is_const(t)


def fvars(e_, acc=None):
    acc = set() if acc is None else acc
    stack = [e_]; seen = set()
    while stack:
        t = stack.pop()
        if t.get_id() in seen:
            continue
        seen.add(t.get_id())
        if z3.is_const(t) and t.decl().kind() == z3.Z3_OP_UNINTERPRETED:
            acc.add(str(t))
        stack.extend(t.children())
    return acc


def _consts(e_, acc):
    stack = [e_]; seen = set()
    while stack:
        t = stack.pop()
        if t.get_id() in seen:
            continue
        seen.add(t.get_id())
        if z3.is_const(t) and t.decl().kind() == z3.Z3_OP_UNINTERPRETED:
            acc[str(t)] = t
        stack.extend(t.children())
    return acc


_CIRCLE_T = [fractions.Fraction(1, 2), fractions.Fraction(-1, 3), fractions.Fraction(2, 3), fractions.Fraction(3, 4), fractions.Fraction(-2, 5), fractions.Fraction(1, 4), fractions.Fraction(-3, 5), fractions.Fraction(4, 7)]
_QUATS = [(1, 2, 2, 4, 5), (2, 4, 5, 6, 9), (1, 4, 4, 4, 7), (2, 2, 4, 5, 7), (1, 2, 4, 10, 11), (4, 1, 2, 2, 5), (5, 6, 2, 4, 9), (4, 10, 1, 2, 11)]


class Prover:
    """prove_eq with two sound goal transformations (both logged in the obligation detail):
       rw=[(A, B)]   : components of A are rewritten to the components of B; A == B must be an obligation established EARLIER
                       in the same run (its name is given in `by`), so the rewritten goal is equivalent under proved facts;
       opaque=[X]    : the component terms of X are replaced by fresh variables ('generalisation'): the goal proved is the
                       universally quantified lemma of which the original goal is the instance.
    Every goal is first tried without hypotheses (4 s; only `discharged` is accepted), then with exactly the hypotheses given."""
    def __init__(self, B, unit):
        self.B, self.unit, self.n, self.ok = B, unit, 0, {}
        self.circles, self.spheres = [], []
        self.rng = random.Random(20260922)
        self.second_left = 40        # thorough tier: cvc5 second opinion on the first 40 solver obligations of this unit (time-boxed in symlib)

    def set_chart(self, sc):
        """the (cos,sin) pairs and the unit quaternion of a scenario: sample points for the numeric refuter are taken ON these constraints"""
        self.circles = [(c_, s_) for c_, s_ in sc.cs]
        self.spheres = [[val(x) for x in sc.e]]

    def refute(self, g, hyps, tries=4):
        """cheap refutation: evaluate the goal at rational sample points that satisfy the hypotheses (exact arithmetic). A point where all
        hypotheses hold and the goal is false is a genuine counterexample; nothing is ever PROVED this way."""
        cs = {}
        _consts(g, cs)
        for h_ in hyps:
            _consts(h_, cs)
        for k in range(tries):
            asg = {}
            for j, (c_, s_) in enumerate(self.circles):
                t = _CIRCLE_T[(3 * k + j * 5 + self.rng.randrange(8)) % len(_CIRCLE_T)]
                asg[str(c_)] = (1 - t * t) / (1 + t * t); asg[str(s_)] = 2 * t / (1 + t * t)
            for e_ in self.spheres:
                qd = _QUATS[(k + self.rng.randrange(8)) % len(_QUATS)]
                sg = [self.rng.choice((-1, 1)) for _ in range(4)]
                for x, a_, sgn in zip(e_, qd[:4], sg):
                    asg[str(x)] = fractions.Fraction(sgn * a_, qd[4])
            pairs = []
            for nm, t in cs.items():
                v = asg.get(nm)
                if v is None:
                    v = fractions.Fraction(self.rng.randint(1, 9), self.rng.randint(1, 7)) * (1 if (k % 2 == 1 or self.rng.random() < 0.5) else -1)
                    asg[nm] = v
                pairs.append((t, z3.RealVal(str(v))))
            try:
                if not all(z3.is_true(z3.simplify(z3.substitute(h_, *pairs))) for h_ in hyps):
                    continue
                gv = z3.simplify(z3.substitute(g, *pairs))
            except z3.Z3Exception:
                continue
            if z3.is_false(gv):
                return {nm: str(v) for nm, v in asg.items() if nm in cs}
        return None

    def eq(self, name, lhs, rhs, hyps=(), rw=(), opaque=(), by=(), T=20000, function=None, nohyp_first=True):
        B = self.B
        broken = [b_ for b_ in by if self.ok.get(b_) is False]
        if broken:
            # a premise of this step (an equality it is rewritten with) was refuted above: the chain is broken here; no solver call
            B.ctx.add(Obligation("%s:%s" % (self.unit, name), self.unit, "python (lemma chain)", "failed", 0,
                                 "premise not established: %s" % "; ".join(broken)[:300], function=function))
            self.ok[name] = False
            return False
        pairs = []
        for A, Bt in rw:
            for a, b in zip(_terms(A), _terms(Bt)):
                if z3.is_rational_value(a) or z3.eq(a, b):
                    continue
                pairs.append((a, b))
        gens = []
        for X in opaque:
            for t in _terms(X):
                if not _trivial(t):
                    self.n += 1
                    gens.append((t, z3.Real("gen_%d" % self.n)))
        allok = True
        second = B.ctx.tier == "thorough" and len(B.ctx.obligations) < 600
        detail = "identity %s" % name
        if rw:
            detail += " [rewritten with established equalities: %s]" % "; ".join(by)
        if opaque:
            detail += " [generalised: %d heavy subterms replaced by fresh variables]" % len(gens)
        for i, g in S.eq_all(lhs, rhs):
            if pairs:
                g = z3.substitute(g, *pairs)
            if gens:
                g = z3.substitute(g, *gens)
            nm = "%s[%d]" % (name, i)
            r = None
            if nohyp_first and hyps:
                r0 = S.prove(g, side=[], timeout_ms=4000, name=nm, outdir=None)
                if r0.status == "discharged":
                    r = r0
            if r is None:
                cex = self.refute(g, list(hyps))
                if cex is not None:
                    r = S.Result("failed", 0.0, model=cex, backend="exact evaluation at a rational sample point satisfying the hypotheses")
            if r is None:
                so = second and self.second_left > 0
                self.second_left -= 1 if so else 0
                r = S.prove(g, side=list(hyps), timeout_ms=T, name=nm, outdir=os.path.join(B.ctx.out, "smt2"), second_opinion=so)
            B.record(nm, self.unit, r, function, detail)
            allok = allok and r.status == "discharged"
        self.ok[name] = allok
        return allok

    def holds(self, name, goal, hyps=(), T=20000, function=None):
        if z3.is_true(goal) or z3.is_false(goal):       # a fact established by the symbolic run itself (flags, counters, identities of objects)
            r = S.Result("discharged" if z3.is_true(goal) else "failed", 0.0, backend="python (fact of the symbolic execution)")
            self.B.record(name, self.unit, r, function, "lemma %s" % name)
        else:
            r = self.B.prove_bool(name, goal, list(hyps), self.unit, function, timeout_ms=T, minimal=True)
        self.ok[name] = r.status == "discharged"
        return self.ok[name]

    def transitivity(self, name, steps, function=None):
        """bookkeeping obligation: the conclusion follows from the named steps by transitivity of equality / instantiation"""
        good = all(self.ok.get(s_, False) for s_ in steps)
        bad = [s_ for s_ in steps if not self.ok.get(s_, False)]
        self.B.ctx.add(Obligation("%s:%s" % (self.unit, name), self.unit, "python (transitivity of the proved steps)", "discharged" if good else "failed", 0,
                                  "lemma chain: %s" % " ; ".join(steps) + ("" if good else " -- NOT established: %s" % "; ".join(bad)), function=function))
        self.ok[name] = good
        return good

    def guard(self, name, hyps):
        return self.B.guard_sat(name, list(hyps), self.unit)


FN_POS = IMPLN + "::ensurePositionCacheValid"
FN_VEL = IMPLN + "::ensureVelocityCacheValid"
FN_FRC = IMPLN + "::ensureForceCacheValid"
FN_PE = IMPLN + "::ensurePotentialEnergyValid"


def chart_lemmas(Pv, sc, tag):
    """facts about the CHART only (no code under test): the derived body's pose moves with the velocity handed to the code.
    Returns the names of the established facts (for the `by` lists)."""
    cs = list(sc.env.side)
    Rqv = plain(sc.Rq_full); y = v3("gy"); X = S.mat_sym("gX", 3, 3); w = v3("gw")
    Rg = Rquat(sc.e)
    FN = "kinematic chart (check-side definitions)"
    nL1 = "%s: chart L1: d/dt Rxyz(q) == Rxyz(q) [omega]x, omega = NInv(q) r (Kane 1-2-3 body-three, written in the check)" % tag
    nL2 = "%s: chart L2: Rxyz(q) [y]x == [Rxyz(q) y]x Rxyz(q) for every y (instance y = omega: Rxyz [omega]x == [omegaF]x Rxyz)" % tag
    nL3 = "%s: chart: d/dt R_FM == [omegaF]x R_FM (omegaF = R_FM omega: angular velocity of M in F, expressed in F)" % tag
    Pv.eq(nL1, dpart(sc.Rq_full), Rqv * crossMat(sc.omega), cs, function=FN)
    Pv.eq(nL2, Rqv * crossMat(y), crossMat(Rqv * y) * Rqv, cs, function=FN)
    Pv.transitivity(nL3, [nL1, nL2], function=FN)
    sc.fact_dRq = nL3
    if sc.kind == "both frames on one body":
        return
    nL4 = "%s: chart L4: [w]x (R X) + R ([y]x X) == [w + R y]x (R X) for every w, y, X; R = R(e), |e| = 1" % tag
    Pv.eq(nL4, crossMat(w) * (Rg * X) + Rg * (crossMat(y) * X), crossMat(w + Rg * y) * (Rg * X), sc.unit, function=FN)
    nL5 = "%s: chart: d/dt (R_GF R_FM) is the product rule (dual arithmetic), with d/dt R_FM rewritten by L3: [w_GB1]x R_GF R_FM + R_GF [omegaF]x R_FM" % tag
    md = sc.moving_derived
    prod = md["R"] if sc.kind in ("two moving bodies", "body1 is Ground") else sc.R_GF * sc.Rq_full      # R_GB2 of the chart / the product that must stay constant
    Pv.eq(nL5, dpart(prod), crossMat(sc.w1) * (Rg * Rqv) + Rg * (crossMat(sc.omegaF) * Rqv), sc.unit + cs,
          rw=[(dpart(sc.Rq_full), crossMat(sc.omegaF) * Rqv)], by=[nL3], opaque=[sc.omegaF, Rqv], function=FN)
    if sc.kind in ("two moving bodies", "body1 is Ground"):
        md = sc.moving_derived
        nR = "%s: chart: body 2 moves with the angular velocity handed to the code: d/dt R_GB2 == [w_GB2]x R_GB2, w_GB2 = w_GB1 + R_GF omegaF" % tag
        Pv.transitivity(nR, [nL3, nL5, nL4], function=FN)
        nP = "%s: chart: body 2's origin moves with the velocity handed to the code: d/dt p_GB2 == d/dt p_GM - w_GB2 x (R_GB2 p_B2M)" % tag
        Pv.eq(nP, dpart(md["p"]), md["v"], sc.unit + cs, rw=[(dpart(md["R"]), crossMat(md["w"]) * plain(md["R"]))], by=[nR], function=FN)
    else:
        nR = "%s: chart: frame M is fixed on Ground: d/dt (R_GF R_FM) == 0 for w_GB1 = -R_GF omegaF (instance w = -R y of L4)" % tag
        Pv.transitivity(nR, [nL3, nL5, nL4], function=FN)
        md = sc.moving_derived
        nP = "%s: chart: body 1's origin moves with the velocity handed to the code (d/dt R_GB1 = [w_GB1]x R_GB1 by construction)" % tag
        Pv.eq(nP, dpart(md["p"]), md["v"], sc.unit + cs, function=FN)
        Pv.eq("%s: chart: OM is fixed on Ground: p_GF + R_GF p_FM == p_B2M along the motion (value and d/dt)" % tag,
              dpart(sc.p_GF + sc.R_GF * sc.p_FM), Vec(0, 0, 0), sc.unit + cs, function=FN)


def stage_position(Pv, sc, tag, rates=True):
    """run the REAL ensurePositionCacheValid, prove the position-cache contract, then continue with the contract values"""
    st, impl = sc.state, sc.impl
    RotM.angles_of = sc.angles
    try:
        st.realize("Dynamics")
        good, _ = guarded(Pv, "%s: ensurePositionCacheValid" % tag, lambda: (impl.ensurePositionCacheValid(st), [getattr(impl.getPositionCache(st), a_) for a_ in ("X_GF", "X_GM", "X_FM", "p_B1F_G", "p_B2M_G", "p_FM_G")]), FN_POS)
    finally:
        RotM.angles_of = None
    pc = impl.getPositionCache(st)
    H = sc.unit + list(sc.env.side)
    ok = True
    if not good:
        for a_ in ("X_GF", "X_GM", "X_FM"):
            setattr(pc, a_, XF())
        pc.p_B1F_G = pc.p_B2M_G = pc.p_FM_G = Vec(0, 0, 0)
        impl.markPositionCacheValid(st)
    q6 = Vec(*(list(sc.q) + list(sc.p_FM)))
    want = [("X_GF.R == R_GB1 R_B1F", pc.X_GF.R(), sc.R_GF), ("X_GF.p == p_GB1 + R_GB1 p_B1F", pc.X_GF.p(), sc.p_GF),
            ("X_GM.R == R_GB2 R_B2M", pc.X_GM.R(), sc.R_GM), ("X_GM.p == p_GB2 + R_GB2 p_B2M", pc.X_GM.p(), sc.p_GM),
            ("X_FM.R == Rx(q0) Ry(q1) Rz(q2) (converter contract instance: the angles handed back reproduce the code's R_FM)", pc.X_FM.R(), sc.Rxyz),
            ("X_FM.p == p_FM (OF to OM, expressed in F)", pc.X_FM.p(), sc.p_FM),
            ("p_B1F_G == R_GB1 p_B1F", pc.p_B1F_G, sc.X_GB1.R() * sc.pF), ("p_B2M_G == R_GB2 p_B2M", pc.p_B2M_G, sc.X_GB2.R() * sc.pM),
            ("p_FM_G == p_GM - p_GF (OF to OM in G)", pc.p_FM_G, sc.p_GM - sc.p_GF),
            ("q == (angles of R_FM, p_FM)", pc.q, q6)]
    for nm, got, exp in want:
        ok = Pv.eq("%s: position cache %s" % (tag, nm), plain(got), plain(exp), H, function=FN_POS) and ok
    if rates:
        Rqv = plain(sc.Rq_full)
        if sc.kind == "body2 is Ground":
            # M is fixed: d/dt R_FM comes from F's motion alone; compare with the chart through d/dt R_FM == [omegaF]x R_FM
            ok = Pv.eq("%s: d/dt of the code's R_FM along the motion == d/dt Rxyz(q) with the chart rates r" % tag, dpart(pc.X_FM.R()), crossMat(sc.omegaF) * Rqv, H,
                       opaque=[sc.omegaF, Rqv], by=[getattr(sc, "fact_dRq", "chart: d/dt R_FM == [omegaF]x R_FM")], function=FN_POS) and ok
        else:
            ok = Pv.eq("%s: d/dt of the code's R_FM along the motion == d/dt Rxyz(q) with the chart rates r" % tag, dpart(pc.X_FM.R()), dpart(sc.Rxyz), H,
                       opaque=[dpart(sc.Rq_full), Rqv], function=FN_POS) and ok
        ok = Pv.eq("%s: d/dt of the code's q[3:6] along the motion == u" % tag, dpart(pc.q.getSubVec(3, 3)), sc.u, H, function=FN_POS) and ok
    ncalls = len(sc.converted)
    Pv.holds("%s: the converter is consulted exactly once, on the code's R_FM" % tag, z3.BoolVal(ncalls == 1 and sc.converted[0] is pc.X_FM.R()), function=FN_POS)
    # continue with the contract (values only; q keeps its rates for d/dt PE)
    pc.X_GF = XF(plain(sc.R_GF), plain(sc.p_GF)); pc.X_GM = XF(plain(sc.R_GM), plain(sc.p_GM)); pc.X_FM = XF(plain(sc.Rxyz), plain(sc.p_FM))
    pc.p_B1F_G = plain(sc.X_GB1.R() * sc.pF); pc.p_B2M_G = plain(sc.X_GB2.R() * sc.pM); pc.p_FM_G = plain(sc.p_GM - sc.p_GF)
    pc.q = q6
    sc.pc = pc
    return ok


def stage_velocity(Pv, sc, tag):
    """REAL ensureVelocityCacheValid against the position-cache CONTRACT; proves the velocity-cache contract, then continues with it"""
    st, impl = sc.state, sc.impl
    good, _ = guarded(Pv, "%s: ensureVelocityCacheValid" % tag, lambda: (impl.ensureVelocityCacheValid(st), [getattr(impl.getVelocityCache(st), a_) for a_ in ("V_GF", "V_GM", "V_FM")]), FN_VEL)
    vc = impl.getVelocityCache(st)
    if not good:
        zz = S.SpatialVec(Vec(0, 0, 0), Vec(0, 0, 0))
        vc.V_GF = vc.V_GM = vc.V_FM = zz
        impl.markVelocityCacheValid(st)
    H = sc.unit + list(sc.env.side) + [sc.c1 != 0]
    rd = Vec(*[D(x) for x in sc.r])
    ok = True
    ok = Pv.eq("%s: velocity cache V_GF == (w_GB1, d/dt p_GF)" % tag, plain(vc.V_GF), S.SpatialVec(sc.w1, dpart(sc.p_GF)), H, function=FN_VEL) and ok
    ok = Pv.eq("%s: velocity cache V_GM == (w_GB2, d/dt p_GM)" % tag, plain(vc.V_GM), S.SpatialVec(sc.w2, dpart(sc.p_GM)), H, function=FN_VEL) and ok
    n1 = "%s: velocity cache V_FM[0] == omegaF (angular velocity of M in F, in F)" % tag
    ok = Pv.eq(n1, plain(vc.V_FM[0]), sc.omegaF if sc.kind != "both frames on one body" else Vec(0, 0, 0), H, function=FN_VEL) and ok
    ok = Pv.eq("%s: velocity cache V_FM[1] == u (d/dt p_FM taken in F)" % tag, plain(vc.V_FM[1]), sc.u, H, function=FN_VEL) and ok
    if sc.kind != "both frames on one body":
        ok = Pv.eq("%s: velocity cache qdot[0:3] == r (the true rates of the angles: N(q) ~R_FM omegaF == r)" % tag, plain(vc.qdot.getSubVec(3, 0)), rd, H,
                   rw=[(plain(vc.V_FM[0]), sc.omegaF)], by=[n1], function=FN_VEL) and ok
    else:
        ok = Pv.eq("%s: velocity cache qdot[0:3] == 0 (both frames on one body)" % tag, plain(vc.qdot.getSubVec(3, 0)), rd, H, function=FN_VEL) and ok
    ok = Pv.eq("%s: velocity cache qdot[3:6] == u" % tag, plain(vc.qdot.getSubVec(3, 3)), sc.u, H, function=FN_VEL) and ok
    vc.V_GF = S.SpatialVec(sc.w1, dpart(sc.p_GF)); vc.V_GM = S.SpatialVec(sc.w2, dpart(sc.p_GM))
    vc.V_FM = S.SpatialVec(sc.omegaF if sc.kind != "both frames on one body" else Vec(0, 0, 0), sc.u)
    vc.qdot = Vec(*(list(rd) + list(sc.u)))
    sc.vc = vc
    return ok


def _nn(x):
    assert x is not None, "value never computed (None)"
    return x


def guarded(Pv, what, fn, function=None):
    """run a piece of the real code; reading a cache entry that was never filled (or a violated stand-in precondition) is a FAILED obligation, not a crash"""
    try:
        return True, fn()
    except (AttributeError, TypeError, AssertionError) as e:
        Pv.B.ctx.add(Obligation("%s:%s: runs on filled cache entries only" % (Pv.unit, what), Pv.unit, "python (symbolic execution)", "failed", 0,
                                "the real code read a cache entry / value that had never been computed, or broke a stand-in precondition: %r" % (e,), function=function))
        return False, None


def stage_force(sc, Pv=None, tag=""):
    """REAL calcForce / calcPotentialEnergy against the position- and velocity-cache contracts; returns None if the run itself failed"""
    st, impl = sc.state, sc.impl
    z = lambda: S.SpatialVec(Vec(0, 0, 0), Vec(0, 0, 0))
    bf = [z() for _ in sc.bodies]
    def go():
        impl.calcForce(st, bf, [], None)
        fc = impl.getForceCache(st)
        pe = _nn(impl.calcPotentialEnergy(st))
        for a_ in ("F_GF", "F_GM", "F_GB1", "F_GB2", "f", "power"):
            getattr(fc, a_)
        return fc, pe
    if Pv is None:
        sc.fc, sc.pe = go()
    else:
        ok, r = guarded(Pv, "%s: calcForce / calcPotentialEnergy" % tag, go, FN_FRC)
        if not ok:
            return None
        sc.fc, sc.pe = r
    sc.bf = bf
    sc.q6 = list(plain(Vec(*sc.q))) + list(plain(sc.p_FM))
    sc.qd6 = [D(x) for x in sc.r] + list(sc.u)
    return bf


# ----------------------------------------------------------------------
# C13: action-reaction
# ----------------------------------------------------------------------
def _assumptions(ctx):
    ctx.trust("z3 4.x / cvc5 1.0 (QF_NRA)"); ctx.trust("tools/translit.py rule table (logged), tools/symlib.py shim (dual numbers) and the local Transform/Rotation/State stand-ins of checks/part_bushing.py")
    ctx.assume("machine arithmetic treated as mathematical (reals)")
    ctx.assume("LinearBushing: matter API by contract (mock): getBodyTransform = X_GB, getBodyVelocity = (w_GB, velocity of the body origin); Transform/Rotation algebra by its textbook meaning "
               "(X*X composition, ~X inverse, R*v); time derivatives d/dt R = [w]x R, d/dt p = v (dual numbers)")
    ctx.assume("LinearBushing: Rotation::convertRotationToBodyFixedXYZ (angle extraction with atan2 branches) is replaced by its contract, proved in C27: angle extraction inverts "
               "setRotationToBodyFixedXYZ when cos(q1) != 0 -- the configuration is charted by the angles q (R_FM = Rx(q0) Ry(q1) Rz(q2), symbolic (cos,sin) pairs), the stand-in hands q back, "
               "and the code's own R_FM is proved equal to Rxyz(q) in every scenario; Rotation::calcNForBodyXYZInBodyFrame is the REAL code")
    ctx.assume("LinearBushing: generality of the configuration chart: R_GF = R(e) any unit quaternion, q any angles with cos(q1) != 0, p_FM, body origin, frame origins p_B1F, p_B2M and all velocities "
               "symbolic; the frames F, M are parallel to the body frames on MOVING bodies (a frame fixed on Ground has an arbitrary constant orientation; with both frames on one body M is turned "
               "by Rxyz(q) against F); surjectivity of the unit-quaternion chart onto the rotations is textbook")


def _not_decided(ctx, extra=()):
    for t in ("LinearBushing: float rounding; behaviour at and near the coordinate singularity cos(q1) = 0; angle wrap (the converter's branch choice, proved in C27 only away from the singularity)",
              "LinearBushing: time-derivative clauses (qdot is d/dt q, energy balance) for frames ROTATED against the body frame on a MOVING body are covered by reduction only (position stage proved for all "
              "3x3 matrices, later stages proved not to use the orientations except through the position cache; re-orienting the body frame parallel to the bushing frame changes neither R_GF, p_B1F_G, the body "
              "origin nor V_GB) -- the reduction step itself is argued, not machine-checked; rotated frames on Ground ARE machine-checked",
              "LinearBushing: default-parameter setters (setDefault*, Topology stage), dissipated-energy state variable (setDissipatedEnergy/getDissipatedEnergy and its integration)") + tuple(extra):
        if t not in ctx.not_decided:
            ctx.not_decided.append(t)


def c13_part(ctx):
    """action-reaction: the spatial forces added to bodyForces sum to zero force and zero moment about the Ground origin"""
    try:
        bag = build(ctx)
    except ExtractionError as e:
        ctx.undecide("extraction (LinearBushing): %s" % e); return
    U = "bushing.reaction"
    Pv = Prover(bag.B, U)
    FN = IMPLN + "::calcForce"
    for kind in KINDS:
        sc = Scen(bag, kind)
        Pv.set_chart(sc)
        H = sc.unit + list(sc.env.side)
        Pv.guard("LinearBushing %s chart" % kind, sc.side())
        stage_position(Pv, sc, kind, rates=False)
        bf = stage_force(sc, Pv, kind)          # velocity cache computed by the real code; its content is opaque to these identities
        if bf is None:
            continue
        fc = sc.fc
        op = [plain(fc.F_GM[0]), plain(fc.F_GM[1])]
        touched = sorted(set([sc.ix1, sc.ix2]))
        f = Vec(0, 0, 0); m = Vec(0, 0, 0)
        for ix in range(len(sc.bodies)):
            Fv = plain(bf[ix])
            origin = sc.origin.get(ix, Vec(0, 0, 0))
            f = f + Fv[1]; m = m + Fv[0] + cross(origin, Fv[1])
        Pv.eq("LinearBushing (%s): total force on all bodies == 0" % kind, f, Vec(0, 0, 0), H, opaque=op, function=FN)
        Pv.eq("LinearBushing (%s): total moment about the Ground origin == 0" % kind, m, Vec(0, 0, 0), H, opaque=op, function=FN)
        Pv.eq("LinearBushing (%s): F_GB1[1] + F_GB2[1] == 0 (equal and opposite forces)" % kind, plain(fc.F_GB1[1]) + plain(fc.F_GB2[1]), Vec(0, 0, 0), H, opaque=op, function=FN_FRC)
        # the pair is a force f at OM on body 2 and -f at the SAME point on body 1, plus equal and opposite moments
        a1 = plain(sc.p_GM) - sc.origin[sc.ix1]
        Pv.eq("LinearBushing (%s): F_GB1 == -(F_GM shifted from OM to body 1's origin)" % kind, plain(fc.F_GB1),
              S.SpatialVec(-(plain(fc.F_GM[0]) + cross(a1, plain(fc.F_GM[1]))), -plain(fc.F_GM[1])), H, opaque=op, function=FN_FRC)
        a2 = plain(sc.p_GM) - sc.origin[sc.ix2]
        Pv.eq("LinearBushing (%s): F_GB2 == F_GM shifted from OM to body 2's origin" % kind, plain(fc.F_GB2),
              S.SpatialVec(plain(fc.F_GM[0]) + cross(a2, plain(fc.F_GM[1])), plain(fc.F_GM[1])), H, opaque=op, function=FN_FRC)
        if kind == "both frames on one body":
            Pv.eq("LinearBushing (%s): net wrench applied to the body vanishes identically" % kind, plain(bf[sc.ix1]), S.SpatialVec(Vec(0, 0, 0), Vec(0, 0, 0)), H, opaque=op, function=FN)
        else:
            Pv.eq("LinearBushing (%s): bodyForces[body1] == F_GB1" % kind, plain(bf[sc.ix1]), plain(fc.F_GB1), [], function=FN)
            Pv.eq("LinearBushing (%s): bodyForces[body2] == F_GB2" % kind, plain(bf[sc.ix2]), plain(fc.F_GB2), [], function=FN)
        others = [ix for ix in range(len(sc.bodies)) if ix not in touched]
        for ix in others:
            Pv.eq("LinearBushing (%s): body %d (not connected) untouched" % (kind, ix), plain(bf[ix]), S.SpatialVec(Vec(0, 0, 0), Vec(0, 0, 0)), [], function=FN)
    general_frames(Pv, bag, same_body=False, reaction=True)
    general_frames(Pv, bag, same_body=True, reaction=True)
    _assumptions(ctx)
    ctx.assume("LinearBushing action-reaction: the generalized forces f and the moment ~N f are opaque in these identities (generalised to arbitrary vectors): the balance holds for ANY force law")
    _not_decided(ctx)


# ----------------------------------------------------------------------
# documented law of the force cache (shared by c12_part and c38_part)
# ----------------------------------------------------------------------
def law_obligations(Pv, sc, tag):
    """f_i = -(k_i q_i + c_i qdot_i); PE = sum k_i q_i^2 / 2; power = sum c_i qdot_i^2; moment on body 2 = R_GM ~N(q) f[0:3] (REAL N), force = R_GF f[3:6]
    applied at OM; the opposite wrench on body 1 at the same point. Returns the fact names."""
    fc, bag = sc.fc, sc.bag
    H = sc.unit + list(sc.env.side) + [sc.c1 != 0]
    q6, qd6 = sc.q6, sc.qd6
    names = {}
    names["f"] = "%s: f_i == -(k_i q_i + c_i qdot_i)" % tag
    Pv.eq(names["f"], plain(fc.f), Vec(*[-(sc.k[i] * q6[i] + sc.c[i] * qd6[i]) for i in range(6)]), [], function=FN_FRC)
    pe2 = D(0); pw = D(0)
    for i in range(6):
        pe2 = pe2 + sc.k[i] * q6[i] * q6[i]; pw = pw + sc.c[i] * qd6[i] * qd6[i]
    names["pe"] = "%s: potential energy == sum k_i q_i^2 / 2" % tag
    Pv.eq(names["pe"], D(val(sc.pe)), pe2 / 2, [], function=FN_FRC)
    names["pw"] = "%s: power dissipation == sum c_i qdot_i^2" % tag
    Pv.eq(names["pw"], D(val(fc.power)), pw, [], function=FN_FRC)
    Nm = bag.ns["calcNForBodyXYZInBodyFrame"](Vec(*[D(val(x)) for x in sc.q]))
    sc.Nm = Nm
    frot, ftr = plain(fc.f.getSubVec(3, 0)), plain(fc.f.getSubVec(3, 3))
    sc.mB2_M = (~Nm) * frot
    names["m"] = "%s: F_GM[0] == R_GM ~N(q) f[0:3] (moment on body 2; N = calcNForBodyXYZInBodyFrame, real code)" % tag
    Pv.eq(names["m"], plain(fc.F_GM[0]), plain(sc.R_GM) * sc.mB2_M, H, function=FN_FRC)
    names["ft"] = "%s: F_GM[1] == R_GF f[3:6] (translational force is aligned with F's axes)" % tag
    Pv.eq(names["ft"], plain(fc.F_GM[1]), plain(sc.R_GF) * ftr, H, function=FN_FRC)
    op = [plain(fc.F_GM[0]), plain(fc.F_GM[1])]
    d = plain(sc.p_GM) - plain(sc.p_GF)
    names["gf"] = "%s: F_GF == -(F_GM shifted from OM to OF)" % tag
    Pv.eq(names["gf"], plain(fc.F_GF), S.SpatialVec(-(plain(fc.F_GM[0]) + cross(d, plain(fc.F_GM[1]))), -plain(fc.F_GM[1])), H, opaque=op, function=FN_FRC)
    a1 = plain(sc.p_GM) - sc.origin[sc.ix1]; a2 = plain(sc.p_GM) - sc.origin[sc.ix2]
    names["b1"] = "%s: F_GB1 == -(F_GM shifted from OM to body 1's origin)" % tag
    Pv.eq(names["b1"], plain(fc.F_GB1), S.SpatialVec(-(plain(fc.F_GM[0]) + cross(a1, plain(fc.F_GM[1]))), -plain(fc.F_GM[1])), H, opaque=op, function=FN_FRC)
    names["b2"] = "%s: F_GB2 == F_GM shifted from OM to body 2's origin" % tag
    Pv.eq(names["b2"], plain(fc.F_GB2), S.SpatialVec(plain(fc.F_GM[0]) + cross(a2, plain(fc.F_GM[1])), plain(fc.F_GM[1])), H, opaque=op, function=FN_FRC)
    return names


# ----------------------------------------------------------------------
# C12: energy consistency
# ----------------------------------------------------------------------
def c12_part(ctx):
    """power of the applied forces == -(d/dt PE) - sum c_i qdot_i^2 along any rigid motion of the two bodies"""
    try:
        bag = build(ctx)
    except ExtractionError as e:
        ctx.undecide("extraction (LinearBushing): %s" % e); return
    U = "bushing.power"
    Pv = Prover(bag.B, U)
    FN = IMPLN + "::calcForce"
    for kind in KINDS:
        sc = Scen(bag, kind)
        Pv.set_chart(sc)
        cs = list(sc.env.side)
        H = sc.unit + cs + [sc.c1 != 0]
        Pv.guard("LinearBushing %s chart" % kind, sc.side() + sc.param_side)
        chart_lemmas(Pv, sc, kind)
        stage_position(Pv, sc, kind, rates=True)
        stage_velocity(Pv, sc, kind)
        bf = stage_force(sc, Pv, kind)
        if bf is None:
            continue
        fc = sc.fc
        L = law_obligations(Pv, sc, kind)
        Rg = Rquat(sc.e); Rqv = plain(sc.Rq_full)
        frot, ftr = plain(fc.f.getSubVec(3, 0)), plain(fc.f.getSubVec(3, 3))
        P = D(0)
        for ix in sorted(set([sc.ix1, sc.ix2])):
            w_, v_ = sc.V[ix]
            P = P + dot(plain(bf[ix][0]), w_) + dot(plain(bf[ix][1]), v_)
        fq = D(0)
        for i in range(6):
            fq = fq + plain(fc.f)[i] * sc.qd6[i]
        opF = [plain(fc.F_GM[0]), plain(fc.F_GM[1])]
        if kind == "both frames on one body":
            n0 = "LinearBushing (%s): power of the applied forces == 0 (no relative motion)" % kind
            Pv.eq(n0, P, D(0), H, opaque=opF, function=FN)
            n1 = "LinearBushing (%s): f . qdot == 0 (qdot == 0)" % kind
            Pv.eq(n1, fq, D(0), H, function=FN)
            nVW = "LinearBushing (%s): power of the applied forces == f . qdot (virtual work)" % kind
            Pv.transitivity(nVW, [n0, n1], function=FN)
        else:
            W = Rg * sc.omegaF; Uv = Rg * sc.u
            n2 = "LinearBushing (%s): V2: sum F_GB . V_GB == F_GM[0] . (R_GF omegaF) + F_GM[1] . (R_GF u), for every wrench F_GM" % kind
            Pv.eq(n2, P, dot(plain(fc.F_GM[0]), W) + dot(plain(fc.F_GM[1]), Uv), H, opaque=opF, function=FN)
            a = sc.mB2_M
            n3a = "LinearBushing (%s): V3a: (R_GM a) . (R_GF y) == (R_FM a) . y for all a, y (R_GM = R_GF R_FM, |e| = 1); instance a = ~N f[0:3], y = omegaF" % kind
            Pv.eq(n3a, dot(plain(fc.F_GM[0]), W), dot(Rqv * a, sc.omegaF), sc.unit, rw=[(plain(fc.F_GM[0]), plain(sc.R_GM) * a)], by=[L["m"]], opaque=[a, sc.omegaF, Rqv], function=FN)
            n3b = "LinearBushing (%s): V3b: (R_FM a) . (R_FM omega) == a . omega for all a, omega (Rxyz orthonormal)" % kind
            Pv.eq(n3b, dot(Rqv * a, sc.omegaF), dot(a, sc.omega), cs, opaque=[a, sc.omega], function=FN)
            n3c = "LinearBushing (%s): V3c: (~N f) . omega == f . (N omega) (transposition)" % kind
            Pv.eq(n3c, dot(a, sc.omega), dot(frot, sc.Nm * sc.omega), [], opaque=[frot, plain(sc.Nm), sc.omega], function=FN)
            n3d = "LinearBushing (%s): V3d: N(q) omega == r (REAL N inverts the chart's omega = NInv(q) r)" % kind
            Pv.eq(n3d, sc.Nm * sc.omega, Vec(*sc.r), cs + [sc.c1 != 0], function=FN)
            n4 = "LinearBushing (%s): V4: (R_GF f) . (R_GF u) == f . u for all f, u (|e| = 1); instance f = f[3:6]" % kind
            Pv.eq(n4, dot(plain(fc.F_GM[1]), Uv), dot(ftr, sc.u), sc.unit, rw=[(plain(fc.F_GM[1]), Rg * ftr)], by=[L["ft"]], opaque=[ftr], function=FN)
            n5 = "LinearBushing (%s): f . qdot == f[0:3] . r + f[3:6] . u (velocity-cache contract qdot == (r, u))" % kind
            Pv.eq(n5, fq, dot(frot, Vec(*sc.r)) + dot(ftr, sc.u), [], function=FN)
            nVW = "LinearBushing (%s): power of the applied forces == f . qdot (virtual work)" % kind
            Pv.transitivity(nVW, [n2, n3a, n3b, n3c, n3d, n4, n5], function=FN)
        n6 = "LinearBushing (%s): f . qdot == -(d/dt PE) - power dissipation (d/dt PE from the dual run of the real code)" % kind
        Pv.eq(n6, fq, -D(der(sc.pe)) - D(val(fc.power)), [], function=FN_FRC)
        Pv.transitivity("LinearBushing (%s): sum F_GB . V_GB == -(d/dt PE) - sum c_i qdot_i^2 along the motion (energy balance)" % kind, [nVW, n6, L["pw"], L["pe"]], function=FN)
        g = [z3.Real("gen_qd%d" % i) for i in range(6)]
        pw = sum((val(sc.c[i]) * g[i] * g[i] for i in range(1, 6)), val(sc.c[0]) * g[0] * g[0])
        Pv.holds("LinearBushing (%s): dissipation sum c_i qdot_i^2 >= 0 for c >= 0 (qdot generalised)" % kind, pw >= 0, [val(x) >= 0 for x in sc.c], function=FN_FRC)
        # d/dt of the code's coordinates are the code's qdot ("qdot is the true time derivative")
        Pv.transitivity("LinearBushing (%s): qdot is the true time derivative of q along the motion (d/dt R_FM == d/dt Rxyz(q; qdot[0:3]), d/dt q[3:6] == qdot[3:6])" % kind,
                        ["%s: d/dt of the code's R_FM along the motion == d/dt Rxyz(q) with the chart rates r" % kind, "%s: d/dt of the code's q[3:6] along the motion == u" % kind,
                         "%s: velocity cache qdot[0:3] == %s" % (kind, "r (the true rates of the angles: N(q) ~R_FM omegaF == r)" if kind != "both frames on one body" else "0 (both frames on one body)"),
                         "%s: velocity cache qdot[3:6] == u" % kind], function=FN_VEL)
    _assumptions(ctx)
    ctx.assume("LinearBushing energy: along the motion the angles q(t) stay on the converter's branch (no wrap, cos(q1) != 0), so d/dt q is determined by d/dt R_FM (chart lemmas L1-L3)")
    _not_decided(ctx)


# ----------------------------------------------------------------------
# C38: documented law + parameter changes take effect (lazy cache entries with their valid flags)
# ----------------------------------------------------------------------
ENTRY_NAMES = ("Position", "PotentialEnergy", "Velocity", "Force")


def _flags(impl, st):
    return (impl.isPositionCacheValid(st), impl.isPotentialEnergyValid(st), impl.isVelocityCacheValid(st), impl.isForceCacheValid(st))


class UFAngles:
    """converter stand-in for the cache scenarios: a deterministic FUNCTION of its argument (same matrix -> same angle symbols,
    another matrix -> other symbols), nothing else assumed"""
    def __init__(self): self.memo = {}; self.calls = 0
    def __call__(self, Rm):
        self.calls += 1
        key = tuple(val(x).sexpr() for x in S.elements(Rm))
        if key not in self.memo:
            n = len(self.memo)
            self.memo[key] = Vec(*[D(z3.Real("ang%d_%d" % (n, i))) for i in range(3)])
        return self.memo[key]


def _evaluate(sc, st, impl, h, uf, first=None):
    """everything a user can read, through the REAL handle getters / calcForce / calcPotentialEnergy (`first`: a getter to call before)"""
    RotM.angles_of = uf
    try:
        if first:
            getattr(h, first)(st)
        z = lambda: S.SpatialVec(Vec(0, 0, 0), Vec(0, 0, 0))
        bf = [z() for _ in sc.bodies]
        impl.calcForce(st, bf, [], None)
        out = dict(bodyForces=bf, pe=D.lift(_nn(impl.calcPotentialEnergy(st))), q=h.getQ(st), qdot=h.getQDot(st), f=h.getF(st), power=D.lift(_nn(h.getPowerDissipation(st))),
                   pe_handle=D.lift(_nn(h.getPotentialEnergy(st))), X_GF_R=h.getX_GF(st).R(), X_GF_p=h.getX_GF(st).p(), X_GM_R=h.getX_GM(st).R(), X_GM_p=h.getX_GM(st).p(),
                   X_FM_R=h.getX_FM(st).R(), X_FM_p=h.getX_FM(st).p(), V_GF=h.getV_GF(st), V_GM=h.getV_GM(st), V_FM=h.getV_FM(st), F_GF=h.getF_GF(st), F_GM=h.getF_GM(st))
    except (AttributeError, TypeError, AssertionError) as e:
        out = dict(error="a cache entry was read that had never been computed: %r" % (e,))
    finally:
        RotM.angles_of = None
    return out


def _same(Pv, name, a, b, function):
    """every readable quantity of evaluation a equals that of evaluation b (structural identity is accepted without a solver call)"""
    ok = True
    if "error" in a or "error" in b:
        Pv.B.ctx.add(Obligation("%s:%s" % (Pv.unit, name), Pv.unit, "python", "failed", 0, (a.get("error") or b.get("error"))[:300], function=function))
        Pv.ok[name] = False
        return False
    for key in a:
        xs = [y for o in (a[key] if isinstance(a[key], list) else [a[key]]) for y in S.elements(o)]
        ys = [y for o in (b[key] if isinstance(b[key], list) else [b[key]]) for y in S.elements(o)]
        if len(xs) == len(ys) and all(z3.eq(z3.simplify(val(x)), z3.simplify(val(y))) for x, y in zip(xs, ys)):
            Pv.B.ctx.add(Obligation("%s:%s: %s" % (Pv.unit, name, key), Pv.unit, "python (structural identity of the two symbolic results)", "discharged", 0, "identity " + name, function=function))
            continue
        ok = Pv.eq("%s: %s" % (name, key), Vec(*xs), Vec(*ys), [], function=function, T=20000) and ok
    Pv.ok[name] = ok
    return ok


def c38_part(ctx):
    try:
        bag = build(ctx)
    except ExtractionError as e:
        ctx.undecide("extraction (LinearBushing): %s" % e); return
    # ---------------- (A) documented law on the chart, every attachment configuration ----------------
    Pv = Prover(bag.B, "bushing.law")
    for kind in KINDS:
        sc = Scen(bag, kind)
        Pv.set_chart(sc)
        Pv.guard("LinearBushing %s chart" % kind, sc.side() + sc.param_side)
        chart_lemmas(Pv, sc, kind)
        stage_position(Pv, sc, kind, rates=True)
        stage_velocity(Pv, sc, kind)
        if stage_force(sc, Pv, kind) is None:
            continue
        law_obligations(Pv, sc, kind)
        # the PE-only route (force not evaluated) gives the same energy
        st2, impl2, h2 = sc.make_element(install=False)
        RotM.angles_of = sc.angles
        try:
            st2.realize("Position")
            good, pe_only = guarded(Pv, "%s: calcPotentialEnergy at Stage::Position" % kind, lambda: _nn(impl2.calcPotentialEnergy(st2)), FN_PE)
        finally:
            RotM.angles_of = None
        if not good:
            continue
        pc2 = impl2.getPositionCache(st2)
        Pv.eq("%s: potential energy computed without the force (ensurePotentialEnergyValid) == sum k_i q_i^2 / 2 on the code's own q" % kind, D(val(pe_only)),
              sum((sc.k[i] * D(val(pc2.q[i])) * D(val(pc2.q[i])) for i in range(1, 6)), sc.k[0] * D(val(pc2.q[0])) * D(val(pc2.q[0]))) / 2, [], function=FN_PE)
        Pv.holds("%s: the PE-only route realizes Position and PotentialEnergy entries only" % kind, z3.BoolVal(_flags(impl2, st2) == (True, True, False, False)), function=FN_PE)
        # realizeAcceleration: the dissipated-energy state derivative is the dissipation power
        good, _ = guarded(Pv, "%s: realizeAcceleration" % kind, lambda: (sc.impl.realizeAcceleration(sc.state), _nn(sc.state.zdot[sc.impl.dissipatedEnergyIx].v)), IMPLN + "::realizeAcceleration")
        if not good:
            continue
        Pv.eq("%s: realizeAcceleration: zdot[dissipatedEnergy] == power dissipation" % kind, D(val(sc.state.zdot[sc.impl.dissipatedEnergyIx].v)), D(val(sc.fc.power)), [], function=IMPLN + "::realizeAcceleration")
    general_frames(Pv, bag, same_body=False)
    general_frames(Pv, bag, same_body=True)
    # ---------------- (B)+(C) cache entries, valid flags, setters ----------------
    Pc = Prover(bag.B, "bushing.cache")
    FNS = HANDLEN + "::set*"
    sc = Scen(bag, "two moving bodies", dual=False)
    a = bag.alloc
    Pc.holds("allocation table of realizeTopology: InstanceVars is a discrete variable that invalidates Stage::Instance; the four cache entries are lazy (computed-by Infinity), "
             "Position and PotentialEnergy depend on Stage::Position, Velocity and Force on Stage::Velocity",
             z3.BoolVal(a.get("instanceVarsIx", {}).get("stage1") == "Instance" and all(a.get(m, {}).get("stage2") == "Infinity" or a.get(m, {}).get("call") == "allocateLazyCacheEntry" for m in ("positionCacheIx", "potEnergyCacheIx", "velocityCacheIx", "forceCacheIx"))
                        and a.get("positionCacheIx", {}).get("stage1") == "Position" and a.get("potEnergyCacheIx", {}).get("stage1") == "Position"
                        and a.get("velocityCacheIx", {}).get("stage1") == "Velocity" and a.get("forceCacheIx", {}).get("stage1") == "Velocity"), function=IMPLN + "::realizeTopology")
    def fresh(**kw):
        st, impl, h = sc.make_element(install=False, **kw)
        st.realize("Dynamics")
        return st, impl, h
    uf = UFAngles()
    # (B) lazy evaluation: nothing valid before the first request, everything valid after, no recomputation while valid
    st, impl, h = fresh()
    Pc.holds("after realize, before any request: no cache entry is valid", z3.BoolVal(_flags(impl, st) == (False, False, False, False)), function=IMPLN + "::is*Valid")
    sc.counter.clear(); c0 = uf.calls
    ev0 = _evaluate(sc, st, impl, h, uf)
    first = dict(sc.counter); conv1 = uf.calls - c0
    Pc.holds("after evaluation all four entries are marked valid", z3.BoolVal(_flags(impl, st) == (True, True, True, True)), function=IMPLN + "::mark*Valid")
    ev0b = _evaluate(sc, st, impl, h, uf)
    Pc.holds("while valid nothing is recomputed (no further matter-API or converter call on the second evaluation; first evaluation: %s, converter %d)" % (first, conv1),
             z3.BoolVal(dict(sc.counter) == first and uf.calls - c0 == conv1 and conv1 == 1), function=IMPLN + "::ensure*Valid")
    _same(Pc, "second evaluation returns the cached values", ev0b, ev0, IMPLN + "::ensure*Valid")
    if "error" in ev0:
        Pc.B.ctx.add(Obligation("bushing.cache:first evaluation on a fresh state", "bushing.cache", "python", "failed", 0, ev0["error"][:300], function=FN_FRC))
        _assumptions(ctx); _not_decided(ctx)
        return
    Pc.eq("calcPotentialEnergy == getPotentialEnergy (one energy, whichever route filled the entry)", ev0["pe"], ev0["pe_handle"], [], function=FN_PE)
    # PE first, then force: the same values as force first
    st, impl, h = fresh()
    RotM.angles_of = uf
    try:
        good, pe_first = guarded(Pc, "PE request before the force", lambda: D.lift(_nn(impl.calcPotentialEnergy(st))), FN_PE)
    finally:
        RotM.angles_of = None
    if not good:
        pe_first = D(z3.Real("never_computed"))
    Pc.holds("PE request alone marks Position and PotentialEnergy only", z3.BoolVal(_flags(impl, st) == (True, True, False, False)), function=FN_PE)
    ev_pe_first = _evaluate(sc, st, impl, h, uf)
    _same(Pc, "evaluation order PE-then-force gives the same results as force-then-PE", ev_pe_first, ev0, FN_FRC)
    Pc.eq("PE from ensurePotentialEnergyValid == PE from ensureForceCacheValid", pe_first, ev0["pe"], [], function=FN_PE)
    for g in ("getQ", "getQDot", "getPotentialEnergy", "getX_FM", "getV_FM"):
        st, impl, h = fresh()
        evg = _evaluate(sc, st, impl, h, uf, first=g)
        _same(Pc, "evaluation after a first request %s gives the same results as force first" % g, evg, ev0, HANDLEN + "::" + g)
    # (C) setters: State-based parameter changes
    k1 = Vec(*[z3.Real("k%d_new" % i) for i in range(6)]); c1 = Vec(*[z3.Real("c%d_new" % i) for i in range(6)])
    XF1 = XF(RotM(S.mat_sym("RF_new", 3, 3).m), v3("pF_new")); XM1 = XF(RotM(S.mat_sym("RM_new", 3, 3).m), v3("pM_new"))
    cases = [("setStiffness", k1, dict(k=k1), "getStiffness"), ("setDamping", c1, dict(c=c1), "getDamping"),
             ("setFrameOnBody1", XF1, dict(X_B1F=XF1), "getFrameOnBody1"), ("setFrameOnBody2", XM1, dict(X_B2M=XM1), "getFrameOnBody2")]
    getters = ("getStiffness", "getDamping", "getFrameOnBody1", "getFrameOnBody2")
    for setter, newval, kw, getter in cases:
        st, impl, h = fresh()
        before = {g: getattr(h, g)(st) for g in getters}
        _evaluate(sc, st, impl, h, uf)
        Pc.holds("%s: precondition of the scenario: all four entries valid before the change" % setter, z3.BoolVal(_flags(impl, st) == (True, True, True, True)), function=HANDLEN + "::" + setter)
        ntrace = len(st.trace)
        ret = getattr(h, setter)(st, newval)
        tr = st.trace[ntrace:]
        Pc.holds("%s: writes through updInstanceVars (State contract: an Instance-stage discrete variable; the State backs the stage up to Model and invalidates every lazy entry depending on a later stage)" % setter,
                 z3.BoolVal(tr == [("updDiscreteVariable", impl.instanceVarsIx)] and st.stage == SIX["Model"]), function=HANDLEN + "::" + setter)
        Pc.holds("%s: afterwards none of the four cache entries is valid (consequence of the State's invalidation, seen through the element's own is*Valid)" % setter,
                 z3.BoolVal(_flags(impl, st) == (False, False, False, False)), function=HANDLEN + "::" + setter)
        Pc.holds("%s: %s returns the new value, the other three parameters are unchanged, the handle is returned" % (setter, getter),
                 z3.BoolVal(getattr(h, getter)(st) is newval and all(getattr(h, g)(st) is before[g] for g in getters if g != getter) and ret is h), function=HANDLEN + "::" + setter)
        st.realize("Dynamics")
        after = _evaluate(sc, st, impl, h, uf)
        st_f, impl_f, h_f = fresh(**kw)
        ref = _evaluate(sc, st_f, impl_f, h_f, uf)
        _same(Pc, "%s: the next evaluation equals that of a fresh element built with the new parameter (every readable quantity)" % setter, after, ref, HANDLEN + "::" + setter)
    # state changes other than parameters: which entries survive (depends-on stages of the allocation)
    st, impl, h = fresh()
    _evaluate(sc, st, impl, h, uf)
    st.invalidate(SIX["Velocity"])            # State contract: updU invalidates Stage::Velocity
    Pc.holds("after a velocity change (State invalidates Stage::Velocity): Position and PotentialEnergy stay valid, Velocity and Force entries are invalid",
             z3.BoolVal(_flags(impl, st) == (True, True, False, False)), function=IMPLN + "::realizeTopology")
    newV = {}
    for b in set(sc.bodies):
        if b.name != "G":
            newV[b] = b.V
            b.V = S.SpatialVec(v3("w_new_" + b.name), v3("v_new_" + b.name))
    st.realize("Dynamics")
    sc.counter.clear(); c0 = uf.calls
    after = _evaluate(sc, st, impl, h, uf)
    Pc.holds("after a velocity change the position level is not recomputed (the converter is not consulted again), the velocity level is (both body velocities requested once)",
             z3.BoolVal(uf.calls == c0 and sc.counter.get("V", 0) == 2), function=FN_VEL)
    st_f, impl_f, h_f = fresh()
    ref = _evaluate(sc, st_f, impl_f, h_f, uf)
    _same(Pc, "after a velocity change the next evaluation equals a fresh evaluation at the new velocities", after, ref, FN_VEL)
    for b, V in newV.items():
        b.V = V
    for stage_name, what in (("Position", "position change (updQ)"), ("Time", "time change (updTime)"), ("Instance", "instance-variable change")):
        st, impl, h = fresh()
        _evaluate(sc, st, impl, h, uf)
        st.invalidate(SIX[stage_name])
        st.realize("Dynamics")
        Pc.holds("after a %s (State invalidates Stage::%s) all four entries are invalid" % (what, stage_name), z3.BoolVal(_flags(impl, st) == (False, False, False, False)), function=IMPLN + "::realizeTopology")
    _assumptions(ctx)
    ctx.assume("LinearBushing parameter changes: WHICH invalidation is whose -- the State-based setters (setStiffness, setDamping, setFrameOnBody1, setFrameOnBody2) contain no invalidation call of their own: "
               "they write through updInstanceVars = getForceSubsystem().updDiscreteVariable(state, instanceVarsIx). That this call backs the State up to Stage::Model and thereby invalidates every lazy cache entry whose "
               "depends-on stage is Instance or later (the element allocates Position/PotentialEnergy with depends-on Stage::Position and Velocity/Force with depends-on Stage::Velocity, all computed-by Infinity) is the "
               "STATE's contract (stand-in MState: stage versions + per-entry stamps as in StateImpl.h; proved on the State side by C18), assumed here. The ELEMENT's own part, proved here on the cut code: the stages "
               "in the allocation table, each ensure* returns early only when its own is*Valid is true, recomputes otherwise from the current instance variables, marks exactly its own entry "
               "(ensureForceCacheValid additionally fills and marks the PotentialEnergy entry with the same value ensurePotentialEnergyValid computes), and the getters read the entries they ensured")
    ctx.assume("LinearBushing cache scenarios: the angle converter is an arbitrary deterministic function of the code's R_FM (fresh angle symbols per distinct matrix); default-parameter setters "
               "(setDefault*, Topology stage) and the dissipated-energy integral (setDissipatedEnergy/getDissipatedEnergy, a z state variable) are not covered")
    _not_decided(ctx)


# ----------------------------------------------------------------------
# native replay
# ----------------------------------------------------------------------
_EXE = {}


def replay(ctx, ob):
    """real Force::LinearBushing (Force_LinearBushing.cpp of the CURRENT tree compiled into the driver) on random systems against the
    documented law, action-reaction, energy balance (finite differences) and the setter sequences; the verdict is taken on the
    category of checks that corresponds to the failed obligation's unit"""
    if _EXE.get("repo") != REPO or not os.path.exists(_EXE.get("exe", "")):
        src = os.path.join(REPO, "Simbody/src")
        _EXE["exe"] = native_build(ctx, "bushing_replay", os.path.join(VERIF, "replay/bushing_replay.cpp"), libs=True,
                                   extra_srcs=[os.path.join(src, "Force_LinearBushing.cpp")], extra_inc=[src])
        _EXE["repo"] = REPO
    unit = getattr(ob, "unit", "") or ""
    focus = "reaction" if unit.startswith("bushing.reaction") else "power" if unit.startswith("bushing.power") else "cache" if unit.startswith("bushing.cache") else "law" if unit.startswith("bushing.law") else "all"
    if "filled cache entries" in (getattr(ob, "name", "") or ""):
        focus = "cache"          # the real code consumed a cache entry it had not filled: a request-order defect
    if focus == "power" and ob is not None and re.search(r"position cache|velocity cache|F_G|f_i ==|potential energy|power dissipation ==", ob.name or ""):
        focus = "law"            # a lemma of the energy chain that is a clause of the documented law
    rc, o, e, t = run([_EXE["exe"], str(ctx.seed), focus], 300)
    return dict(cmd="bushing_replay %d %s (real Force::LinearBushing vs documented law / action-reaction / energy balance by finite differences / setter sequences)" % (ctx.seed, focus),
                output=(o + e)[-3000:]), "REPRODUCED:" in o


# ----------------------------------------------------------------------
# arbitrary frame orientations: position stage for ALL 3x3 matrices + "later stages see the orientations only through the cache"
# ----------------------------------------------------------------------
class PoisonUsed(Exception):
    pass


class Poison:
    """stands for a body / frame orientation or offset AFTER the position stage: it may be fetched (dead locals of the real code do that)
    but any arithmetic with it raises"""
    def __init__(self, what): self.what = what
    def _boom(self, *a, **k): raise PoisonUsed(self.what)
    __mul__ = __rmul__ = __add__ = __radd__ = __sub__ = __rsub__ = __mod__ = __rmod__ = __invert__ = __neg__ = __getitem__ = __call__ = __truediv__ = __iter__ = _boom


class PoisonXF:
    def __init__(self, what): self.what = what
    def R(self): return Poison(self.what + ".R()")
    def p(self): return Poison(self.what + ".p()")
    def _boom(self, *a, **k): raise PoisonUsed(self.what)
    __mul__ = __rmul__ = __invert__ = _boom


def general_frames(Pv, bag, same_body=False, reaction=False):
    """position stage with body and frame orientations as FREE 3x3 matrices (superset of all rotations), then the velocity and force stages
    with the orientations poisoned; optionally the action-reaction identities with R_GF rewritten to the unit-quaternion chart"""
    S.reset_env()
    tag = "arbitrary frame orientations (%s)" % ("both frames on one body" if same_body else "two bodies")
    A1, BF, BM = S.mat_sym("A1_", 3, 3), S.mat_sym("BF_", 3, 3), S.mat_sym("BM_", 3, 3)
    A2 = A1 if same_body else S.mat_sym("A2_", 3, 3)
    p1 = v3("gp1_"); p2 = p1 if same_body else v3("gp2_")
    pF, pM = v3("gpF_"), v3("gpM_")
    counter = {}
    b1 = MBody("B1", XF(A1, p1), S.SpatialVec(v3("gw1_"), v3("gv1_")), counter)
    b2 = b1 if same_body else MBody("B2", XF(A2, p2), S.SpatialVec(v3("gw2_"), v3("gv2_")), counter)
    bodies = [MBody("G", XF(), S.SpatialVec(Vec(0, 0, 0), Vec(0, 0, 0)), counter), b1] + ([] if same_body else [b2])
    holder = Bag()
    holder.bag, holder.bodies, holder.ix1, holder.ix2 = bag, bodies, 1, (1 if same_body else 2)
    holder.X_B1F, holder.X_B2M = XF(BF, pF), XF(BM, pM)
    holder.k, holder.c = Vec(*[z3.Real("gk%d" % i) for i in range(6)]), Vec(*[z3.Real("gc%d" % i) for i in range(6)])
    holder.fresh_pc, holder.fresh_vc = Scen.fresh_pc, Scen.fresh_vc
    st, impl, h = Scen.make_element(holder, install=False)
    uf = UFAngles()
    RotM.angles_of = uf
    try:
        st.realize("Dynamics")
        impl.ensurePositionCacheValid(st)
    finally:
        RotM.angles_of = None
    pc = impl.getPositionCache(st)
    G = A1 * BF; M = A2 * BM
    pGF = p1 + A1 * pF; pGM = p2 + A2 * pM
    pFM = (~G) * (pGM - pGF)
    for nm, got, exp in (("X_GF == X_GB1 o X_B1F (rotation)", pc.X_GF.R(), G), ("X_GF == X_GB1 o X_B1F (origin)", pc.X_GF.p(), pGF),
                         ("X_GM == X_GB2 o X_B2M (rotation)", pc.X_GM.R(), M), ("X_GM == X_GB2 o X_B2M (origin)", pc.X_GM.p(), pGM),
                         ("X_FM.R == ~R_GF R_GM", pc.X_FM.R(), (~G) * M), ("X_FM.p == ~R_GF (p_GM - p_GF)", pc.X_FM.p(), pFM),
                         ("p_B1F_G == R_GB1 p_B1F", pc.p_B1F_G, A1 * pF), ("p_B2M_G == R_GB2 p_B2M", pc.p_B2M_G, A2 * pM),
                         ("p_FM_G == R_GF p_FM", pc.p_FM_G, G * pFM), ("q[3:6] == p_FM", pc.q.getSubVec(3, 3), pFM)):
        Pv.eq("%s: position cache %s, for ALL 3x3 matrices" % (tag, nm), plain(got), plain(exp), [], function=FN_POS)
    key = tuple(val(x).sexpr() for x in S.elements(pc.X_FM.R()))
    Pv.holds("%s: q[0:3] is what the converter returns for the code's R_FM (consulted exactly once)" % tag,
             z3.BoolVal(uf.calls == 1 and key in uf.memo and all(z3.eq(val(a), val(b)) for a, b in zip(pc.q.getSubVec(3, 0), uf.memo[key]))), function=FN_POS)
    # p_FM_G is the vector OF -> OM in G once R_GF is a rotation (product of the two rotations R_GB1, R_B1F; charted by a unit quaternion)
    e = Vec(*[z3.Real("ge%d" % i) for i in range(4)]); Rg = Rquat(e); unit = [val(e.normSqr()) == 1]
    Pv.guard("%s unit quaternion" % tag, unit)
    Pv.spheres, Pv.circles = [[val(x) for x in e]], []
    nFM = "%s: p_FM_G == p_GM - p_GF when R_GF = R_GB1 R_B1F is a rotation (its entries rewritten to R(e), |e| = 1)" % tag
    Pv.eq(nFM, plain(pc.p_FM_G), pGM - pGF, unit, rw=[(G, Rg)], by=["closure of the rotations under products, surjectivity of the quaternion chart (assumed, textbook / C27)"], function=FN_POS)
    # later stages: orientations and offsets poisoned
    iv = impl.getInstanceVars(st)
    iv.X_B1F, iv.X_B2M = PoisonXF("X_B1F"), PoisonXF("X_B2M")
    for b in set(bodies):
        b.X = PoisonXF("X_GB of " + b.name)
    z = lambda: S.SpatialVec(Vec(0, 0, 0), Vec(0, 0, 0))
    bf = [z() for _ in bodies]
    used = None
    RotM.angles_of = uf
    try:
        impl.calcForce(st, bf, [], None)
        impl.calcPotentialEnergy(st)
    except PoisonUsed as ex:
        used = str(ex)
    finally:
        RotM.angles_of = None
    Pv.holds("%s: the velocity and force stages use the body poses and the frames X_B1F, X_B2M only through the position cache%s" % (tag, "" if used is None else " -- USED: " + used),
             z3.BoolVal(used is None and uf.calls == 1), function=FN_FRC)
    if reaction and used is None:
        fc = impl.getForceCache(st)
        op = [plain(fc.F_GM[0]), plain(fc.F_GM[1])]
        origin = {1: p1, 2: p2}
        f = Vec(0, 0, 0); m = Vec(0, 0, 0)
        for ix in range(1, len(bodies)):
            Fv = plain(bf[ix]); f = f + Fv[1]; m = m + Fv[0] + cross(origin[ix], Fv[1])
        FN = IMPLN + "::calcForce"
        Pv.eq("LinearBushing (%s): total force on all bodies == 0" % tag, f, Vec(0, 0, 0), [], opaque=op, function=FN)
        Pv.eq("LinearBushing (%s): total moment about the Ground origin == 0" % tag, m, Vec(0, 0, 0), unit,
              rw=[(plain(pc.p_FM_G), pGM - pGF)], by=[nFM], opaque=op, function=FN)
        if same_body:
            Pv.eq("LinearBushing (%s): net wrench applied to the body vanishes identically" % tag, plain(bf[1]), S.SpatialVec(Vec(0, 0, 0), Vec(0, 0, 0)), unit,
                  rw=[(plain(pc.p_FM_G), pGM - pGF)], by=[nFM], opaque=op, function=FN)
