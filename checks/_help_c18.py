"""C18 helper: mechanical extraction (routes M1 + M2) of the State stage/cache machinery
from Stage.h, StateImpl.h and State.cpp into CBMC units.  Nothing here contains a copy of
a /repo function body: every body is cut from the working tree on every run and rewritten
by must-fire rules from the closed list of DESIGN 2.2."""
import os, re
from vlib import *
from extract import *

PID = "C18"
SPEC = os.path.join(VERIF, "specs", PID)
SIMDIR = os.path.join(REPO, "SimTKcommon/Simulation")
STAGE_H = os.path.join(SIMDIR, "include/SimTKcommon/internal/Stage.h")
STATEIMPL_H = os.path.join(SIMDIR, "include/SimTKcommon/internal/StateImpl.h")
STATE_H = os.path.join(SIMDIR, "include/SimTKcommon/internal/State.h")
STATE_CPP = os.path.join(SIMDIR, "src/State.cpp")


# ----------------------------------------------------------------------------
# small extraction helpers (built on extract.py; all must-fire)
# ----------------------------------------------------------------------------
def drop_block(r, rule, head_rx, replacement, keep_head=True):
    """Replace the brace block that follows the unique match of head_rx by `replacement`
    (rule 'opaque statements -> body-less framed call'). The removed text is logged as dropped."""
    blank = blank_comments(r.text)
    ms = list(re.finditer(head_rx, blank))
    if len(ms) != 1:
        raise ExtractionError("%s: block rule '%s' /%s/ matched %d times, expected 1" % (r.name, rule, head_rx, len(ms)))
    m = ms[0]
    ob = blank.find("{", m.end() - 1 if blank[m.end() - 1] == "{" else m.end())
    if ob < 0:
        raise ExtractionError("%s: block rule '%s': no '{' after head" % (r.name, rule))
    cb = match_brace(blank, ob)
    body = r.text[ob + 1:cb]
    r.dropped.append(dict(rule=rule, text=body))
    r.log.append(dict(rule=rule, pattern=head_rx, replacement=replacement, hits=1, examples=[body.strip()[:120]]))
    r.text = r.text[:ob + 1] + " " + replacement + " " + r.text[cb:]
    return r


def loop_to_induction(r, rule, loop_rx, tag, args):
    """Textual loop-contract transformation (what goto-instrument --apply-loop-contracts does, done by the
    extractor so that the unit stays a plain C program):
        for (INIT; COND; INCR) BODY
     -> { INIT; VF_LOOP_HEAD_tag(args)  if (COND) { BODY INCR; VF_LOOP_STEP_tag(args) } }
    VF_LOOP_HEAD asserts the invariant (base), snapshots loop-entry values, havocs the loop's assigns
    targets and assumes the invariant; VF_LOOP_STEP asserts the invariant again (step) plus the frame of
    the body, then cuts the path (assume false). The code after the block runs under invariant && !COND.
    INIT, COND, INCR and BODY are the real text."""
    blank = blank_comments(r.text)
    ms = list(re.finditer(loop_rx, blank))
    if len(ms) != 1:
        raise ExtractionError("%s: loop rule '%s' /%s/ matched %d times, expected 1" % (r.name, rule, loop_rx, len(ms)))
    m = ms[0]
    op = blank.find("(", m.start())
    cp = match_brace(blank, op)
    parts = r.text[op + 1:cp].split(";")
    if len(parts) != 3:
        raise ExtractionError("%s: loop rule '%s': header is not INIT;COND;INCR" % (r.name, rule))
    init, cond, incr = [x.strip() for x in parts]
    k = cp + 1
    while blank[k].isspace():
        k += 1
    if blank[k] == "{":
        e = match_brace(blank, k)
    else:
        e = blank.find(";", k)
    body = r.text[k:e + 1]
    new = "{ %s; VF_LOOP_HEAD_%s(%s)\n  if (%s) { %s %s; VF_LOOP_STEP_%s(%s) } }" % (init, tag, args, cond, body, incr, tag, args)
    r.log.append(dict(rule=rule, pattern=loop_rx, replacement="<loop -> base/havoc/step form>", hits=1, examples=[r.text[m.start():e + 1][:160]]))
    r.text = r.text[:m.start()] + new + r.text[e + 1:]
    return r


def pick_decl(ctx, path, cls, decl_rx, what):
    """Cut one data-member declaration `... name[...]{init};` located by decl_rx (must be unique)."""
    src = open(path).read()
    blank = blank_comments(src)
    ms = list(re.finditer(decl_rx, blank))
    if len(ms) != 1:
        raise ExtractionError("%s: member declaration /%s/ matched %d times, expected 1" % (path, decl_rx, len(ms)))
    m = ms[0]
    semi = blank.find(";", m.start())
    text = src[m.start():semi + 1]
    line = src.count("\n", 0, m.start()) + 1
    ctx.add_function(path, "%s (data member %s)" % (cls, what), line, src.count("\n", 0, semi) + 1, text, "M2")
    return text


def member_to_c(text):
    """`mutable StageVersion stageVersions[Stage::NValid];` / `ValueVersion qVersion{1};`
    -> (C declaration, name, default initializer or None)."""
    t = strip_comments(text).strip()
    t = re.sub(r"\bmutable\s+", "", t)
    t = re.sub(r"Stage::(\w+)", r"Stage_\1", t)
    init = None
    m = re.search(r"\{([^{}]*)\}\s*;$", t)
    if m:
        init = m.group(1).strip()
        t = t[:m.start()] + ";"
    m = re.match(r"^([\w ]+?)\s+(\w+)\s*(\[[^\]]*\])?\s*;$", t)
    if not m:
        raise ExtractionError("cannot read member declaration: %r" % text)
    return "%s %s%s;" % (m.group(1).strip(), m.group(2), m.group(3) or ""), m.group(2), init


def common_rules(r):
    """Rules applied to every cut body."""
    r.sub("scope-flatten Stage::X", r"\bStage::(\w+)", r"Stage_\1", None, 0)
    return r


class Unit:
    """Accumulates the generated C text of the M2 unit."""
    def __init__(self, ctx):
        self.ctx = ctx
        self.parts = []
        self.inits = {}

    def fn(self, path, anchor, name, header, rules=None, members=(), expect_total=1, occurrence=1, self_prefix="self->"):
        c = cut_function(path, anchor, name, occurrence=occurrence, expect_total=expect_total)
        r = Rewriter("{" + c.body + "}", name)
        common_rules(r)
        if rules:
            rules(r)
        r.members(list(members), prefix=self_prefix)
        self.ctx.add_function(path, name, c.start, c.end, c.text, "M2", r.dropped, r.log)
        self.parts.append("/* ---- %s  (%s:%d-%d) ---- */\n%s\n%s\n" % (name, os.path.relpath(path, REPO), c.start, c.end, header, r.text))
        return r.text


# ----------------------------------------------------------------------------
# M1: the real class Stage
# ----------------------------------------------------------------------------
def build_stage_m1(ctx):
    c = cut_region(STAGE_H, r"class Stage\s*\{", r"namespace Exception", "class Stage")
    r = Rewriter(c.body, "class Stage")
    # getName() returns SimTK::String (libstdc++ behind it) and contains assert(!"literal"): dropped, not under contract
    blank = blank_comments(r.text)
    ms = list(re.finditer(r"String getName\(\) const\s*\{", blank))
    if len(ms) != 1:
        raise ExtractionError("class Stage: getName() anchor matched %d times" % len(ms))
    ob = blank.find("{", ms[0].start())
    cb = match_brace(blank, ob)
    r.dropped.append(dict(rule="drop Stage::getName (needs SimTK::String)", text=r.text[ms[0].start():cb + 1]))
    r.text = r.text[:ms[0].start()] + r.text[cb + 1:]
    ctx.add_function(STAGE_H, "SimTK::Stage (class: ctor, operator int, compare, ++/--, next, prev, invalidate, isInRuntimeRange)",
                     c.start, c.end, c.text, "M1 (class text placed unmodified in a C++ TU; only getName() dropped)", r.dropped, r.log)
    path = os.path.join(ctx.out, "stage_m1.cpp")
    open(path, "w").write('#include <cassert>\nnamespace SimTK {\n%s\n}\n#include "%s/stage_wrappers.h"\n' % (r.text, SPEC))
    return path


def stage_prelude(ctx):
    """typedefs + enum of stage levels, cut from Stage.h, for the M2 unit."""
    out = []
    for nm in ("StageVersion", "ValueVersion"):
        t = pick_decl(ctx, STAGE_H, "Stage.h", r"typedef long long %s\b" % nm, "typedef " + nm)
        out.append(strip_comments(t).strip())
    c = cut_region(STAGE_H, r"enum Level \{", r"Stage\(\) : level", "Stage::Level + NValid enums")
    r = Rewriter(c.body, "Stage enums")
    r.sub("enum-head", r"enum Level \{", "enum {", 1)
    # scope flattening of enumerators: X -> Stage_X (declarations and uses inside the enums)
    r.sub("scope-flatten enumerators", r"\b(Empty|Topology|Model|Instance|Time|Position|Velocity|Dynamics|Acceleration|Report|Infinity|LowestValid|HighestValid|LowestRuntime|HighestRuntime|NValid|NRuntime)\b",
          r"Stage_\1", None, 17)
    ctx.add_function(STAGE_H, "Stage::Level / Stage::NValid (enumerators)", c.start, c.end, c.text, "M2", r.dropped, r.log)
    out.append(r.text.strip())
    return "\n".join(out) + "\n"


# ----------------------------------------------------------------------------
# M2: PerSubsystemInfo / CacheEntryInfo / DiscreteVarInfo / StateImpl
# ----------------------------------------------------------------------------
# accessor table: (C name, anchor regex in StateImpl.h, documented invalidated stage, value versions bumped, doc source)
# The stage is the DOCUMENTED one (State.h comments / class docs), not read from the body.
ACCESSORS = [
    # global
    ("updTime",            r"Real& updTime\(\)\s*",                       "Time",     "",    "State.h: updTime() // Back up to Stage::Time-1"),
    ("updY",               r"Vector& updY\(\)\s*",                        "Position", "quz", "StateImpl.h: updY() Back to Stage::Position-1 (y contains q)"),
    ("updQ",               r"Vector& updQ\(\)\s*",                        "Position", "q",   "State.h: updQ() // Back up to Stage::Position-1"),
    ("updU",               r"Vector& updU\(\)\s*",                        "Velocity", "u",   "State.h: updU() // Back up to Stage::Velocity-1"),
    ("updZ",               r"Vector& updZ\(\)\s*",                        "Dynamics", "z",   "State.h: updZ() // Back up to Stage::Dynamics-1"),
    ("updUWeights",        r"Vector& updUWeights\(\)\s*",                 "Report",   "",    "State.h: updUWeights() will invalidate just Report stage"),
    ("updZWeights",        r"Vector& updZWeights\(\)\s*",                 "Report",   "",    "State.h: updZWeights() will invalidate just Report stage"),
    ("updQErrWeights",     r"Vector& updQErrWeights\(\)\s*",              "Position", "",    "State.h: updQErrWeights() Position stage is invalidated"),
    ("updUErrWeights",     r"Vector& updUErrWeights\(\)\s*",              "Velocity", "",    "State.h: updUErrWeights() Velocity stage is invalidated"),
    # per subsystem
    ("updQ_sub",           r"Vector& updQ\(SubsystemIndex subsys\)\s*",           "Position", "q", "same stage as updQ()"),
    ("updU_sub",           r"Vector& updU\(SubsystemIndex subsys\)\s*",           "Velocity", "u", "same stage as updU()"),
    ("updZ_sub",           r"Vector& updZ\(SubsystemIndex subsys\)\s*",           "Dynamics", "z", "same stage as updZ()"),
    ("updUWeights_sub",    r"Vector& updUWeights\(SubsystemIndex subsys\)\s*",    "Report",   "",  "same stage as updUWeights()"),
    ("updZWeights_sub",    r"Vector& updZWeights\(SubsystemIndex subsys\)\s*",    "Report",   "",  "same stage as updZWeights()"),
    ("updQErrWeights_sub", r"Vector& updQErrWeights\(SubsystemIndex subsys\)\s*", "Position", "",  "same stage as updQErrWeights()"),
    ("updUErrWeights_sub", r"Vector& updUErrWeights\(SubsystemIndex subsys\)\s*", "Velocity", "",  "same stage as updUErrWeights()"),
]


# accessors whose code invalidates an EARLIER stage than documented (over-invalidation is conservative: not a
# violation of the property statement; only the soundness clauses are checked for them, see evidence notes)
CONSERVATIVE_OK = {"updZWeights": "StateImpl::updZWeights() calls invalidateAll(Stage::Dynamics); State.h documents 'invalidate just Report stage' "
                                  "and updZWeights(SubsystemIndex) uses Stage::Report"}


def build_state_unit(ctx):
    U = Unit(ctx)
    P = U.parts
    P.append("/* GENERATED by checks/_help_c18.py from the working tree of %s -- do not edit */\n" % REPO)
    P.append(stage_prelude(ctx))
    P.append('#include "%s/state_pre.h"\n' % SPEC)

    # ---------------- data members (cut declarations) ----------------
    def members(cls, specs):
        decls, inits = [], {}
        for rx, what in specs:
            t = pick_decl(ctx, STATEIMPL_H, cls, rx, what)
            d, nm, init = member_to_c(t)
            decls.append("  " + d)
            if init is not None:
                inits[nm] = re.sub(r"Stage::(\w+)", r"Stage_\1", init)
        return decls, inits

    ce_decls, ce_init = members("CacheEntryInfo", [
        (r"Stage\s+m_allocationStage; *(?=//[^\n]*lifetime|\s*\n\s*Stage\s+m_dependsOnStage)", "m_allocationStage"),
        (r"Stage\s+m_dependsOnStage;", "m_dependsOnStage"),
        (r"Stage\s+m_computedByStage;", "m_computedByStage"),
        (r"ValueVersion\s+m_valueVersion\{1\};(?=\s*StageVersion\s+m_dependsOnVersionWhenLastComputed)", "m_valueVersion"),
        (r"StageVersion\s+m_dependsOnVersionWhenLastComputed\{", "m_dependsOnVersionWhenLastComputed"),
        (r"bool\s+m_isUpToDateWithPrerequisites\{", "m_isUpToDateWithPrerequisites"),
    ])
    pick_decl(ctx, STATEIMPL_H, "CacheEntryInfo", r"CacheEntryKey\s+m_myKey;", "m_myKey (pair<SubsystemIndex,CacheEntryIndex> -> two ints)")
    P.append("struct CacheEntryInfo {\n  int m_myKey_first, m_myKey_second;   /* CacheEntryKey m_myKey */\n%s\n"
             "  struct ListOfDependents m_dependents;   /* container: opaque */\n"
             "  bool g_fresh;   /* GHOST (history): marked valid after the last change to the depends-on stage */\n};\n" % "\n".join(ce_decls))
    dv_decls, dv_init = members("DiscreteVarInfo", [
        (r"Stage\s+m_invalidatedStage;", "m_invalidatedStage"),
        (r"CacheEntryIndex\s+m_autoUpdateEntry;", "m_autoUpdateEntry"),
        (r"ValueVersion\s+m_valueVersion\{1\};(?=\s*Real\s+m_timeLastUpdated)", "m_valueVersion"),
        (r"Real\s+m_timeLastUpdated\{", "m_timeLastUpdated"),
    ])
    P.append("typedef int CacheEntryIndex;\nstruct DiscreteVarInfo {\n%s\n  struct ListOfDependents m_dependents;   /* container: opaque */\n};\n" % "\n".join(dv_decls))
    ss_decls, _ = members("PerSubsystemInfo", [
        (r"mutable Stage\s+currentStage;", "currentStage"),
        (r"mutable StageVersion\s+stageVersions\[Stage::NValid\];", "stageVersions"),
    ])
    pick_decl(ctx, STATEIMPL_H, "PerSubsystemInfo", r"mutable Array_<CacheEntryInfo>\s+cacheInfo;", "cacheInfo (Array_ -> C array + length)")
    pick_decl(ctx, STATEIMPL_H, "PerSubsystemInfo", r"Array_<DiscreteVarInfo>\s+discreteInfo;", "discreteInfo (Array_ -> C array + length)")
    P.append("struct PerSubsystemInfo {\n%s\n"
             "  int cacheInfo_size;    struct CacheEntryInfo* g_ce;   /* Array_<CacheEntryInfo> cacheInfo: ghost length + GHOST element [ghost_c] */\n"
             "  int discreteInfo_size; struct DiscreteVarInfo* g_dv;  /* Array_<DiscreteVarInfo> discreteInfo: ghost length + GHOST element [ghost_d] */\n};\n" % "\n".join(ss_decls))
    si_decls, si_init = members("StateImpl", [
        (r"mutable Stage\s+currentSystemStage\{", "currentSystemStage"),
        (r"mutable StageVersion\s+systemStageVersions\[Stage::NValid\];", "systemStageVersions"),
        (r"ValueVersion\s+qVersion\{", "qVersion"),
        (r"ValueVersion\s+uVersion\{", "uVersion"),
        (r"ValueVersion\s+zVersion\{", "zVersion"),
        (r"Real\s+t\{NaN\};", "t"),
    ])
    pick_decl(ctx, STATEIMPL_H, "StateImpl", r"Array_<PerSubsystemInfo>\s+subsystems;", "subsystems (Array_ -> C array + length)")
    P.append("struct StateImpl {\n%s\n"
             "  int subsystems_size; struct PerSubsystemInfo* g_sub;   /* Array_<PerSubsystemInfo> subsystems: ghost length + GHOST element [ghost_k] */\n"
             "  struct ListOfDependents qDependents, uDependents, zDependents;   /* containers: opaque */\n};\n" % "\n".join(si_decls))
    for k, v in list(ce_init.items()):
        P.append("#define INIT_CE_%s (%s)" % (k, v))
    for k, v in list(dv_init.items()):
        P.append("#define INIT_DV_%s (%s)" % (k, v))
    for k, v in list(si_init.items()):
        P.append("#define INIT_SI_%s (%s)" % (k, v))
    P.append('\n#include "%s/state_contracts.h"\n' % SPEC)

    SS = ["currentStage", "stageVersions"]
    # ---------------- PerSubsystemInfo ----------------
    def x_getters(r):
        pass
    U.fn(STATEIMPL_H, r"SimTK_FORCE_INLINE Stage getCurrentStage\(\) const\s*", "PerSubsystemInfo::getCurrentStage",
         "Stage getCurrentStage(const struct PerSubsystemInfo* self)", members=SS)
    U.fn(STATEIMPL_H, r"SimTK_FORCE_INLINE StageVersion getStageVersion\(Stage g\) const\s*", "PerSubsystemInfo::getStageVersion",
         "StageVersion getStageVersion(const struct PerSubsystemInfo* self, Stage g)", members=SS)

    def x_container_get(arr):
        def f(r):
            r.sub("exception plumbing: index check -> assertion", r"SimTK_INDEXCHECK\(", "VF_INDEXCHECK(", 1)
            r.sub("container access: .size() -> ghost length", r"\(int\)%s\.size\(\)" % arr, "self->%s_size" % arr, 1)
            r.sub("container access -> contracted stub (element)", r"return %s\[(\w+)\];" % arr, r"return vf_%s_at(self, \1);" % arr, 1)
        return f
    U.fn(STATEIMPL_H, r"getCacheEntryInfo\(CacheEntryIndex index\) const\s*", "PerSubsystemInfo::getCacheEntryInfo",
         "struct CacheEntryInfo* PerSubsystemInfo_getCacheEntryInfo(const struct PerSubsystemInfo* self, int index)", x_container_get("cacheInfo"))
    U.fn(STATEIMPL_H, r"updCacheEntryInfo\(CacheEntryIndex index\) const\s*", "PerSubsystemInfo::updCacheEntryInfo",
         "struct CacheEntryInfo* PerSubsystemInfo_updCacheEntryInfo(const struct PerSubsystemInfo* self, int index)", x_container_get("cacheInfo"))
    U.fn(STATEIMPL_H, r"updDiscreteVarInfo\(DiscreteVariableIndex index\)\s*", "PerSubsystemInfo::updDiscreteVarInfo",
         "struct DiscreteVarInfo* PerSubsystemInfo_updDiscreteVarInfo(struct PerSubsystemInfo* self, int index)", x_container_get("discreteInfo"))

    U.fn(STATEIMPL_H, r"getSubsystem\(SubsystemIndex subx\) const\s*", "StateImpl::getSubsystem",
         "struct PerSubsystemInfo* StateImpl_getSubsystem(const struct StateImpl* self, int subx)", x_container_get("subsystems"))
    U.fn(STATEIMPL_H, r"updSubsystem\(SubsystemIndex subx\)\s*", "StateImpl::updSubsystem",
         "struct PerSubsystemInfo* StateImpl_updSubsystem(struct StateImpl* self, int subx)", x_container_get("subsystems"))

    def x_initialize(r):
        r.sub("implicit-this call", r"\bclearAllStacks\(\)", "clearAllStacks(self)", 1)
        r.drop("opaque payload: index-handle resets", r"\b\w+(\[j\])?\.invalidate\(\);", ";", 7)
    U.fn(STATEIMPL_H, r"void initialize\(\)\s*", "PerSubsystemInfo::initialize",
         "void initialize(struct PerSubsystemInfo* self)", x_initialize, members=SS)

    def x_restore(r):
        r.sub("implicit-this call", r"\b(clearReferencesToInstanceStageGlobals|clearReferencesToModelStageGlobals|initialize)\(\)", r"\1(self)", 3)
        r.sub("implicit-this call", r"\bpopAllStacksBackToStage\(g\)", "popAllStacksBackToStage(self, g)", 1)
    U.fn(STATE_CPP, r"void PerSubsystemInfo::restoreToStage\(Stage g\)\s*", "PerSubsystemInfo::restoreToStage",
         "void restoreToStage(struct PerSubsystemInfo* self, Stage g)", x_restore, members=SS)

    def x_invjust(r):
        r.sub("Stage::prev by contract", r"\bg\.prev\(\)", "Stage_prev(g)", 1)
        r.sub("implicit-this call", r"\brestoreToStage\(", "restoreToStage(self, ", 1)
    U.fn(STATEIMPL_H, r"void invalidateStageJustThisSubsystem\(Stage g\)\s*", "PerSubsystemInfo::invalidateStageJustThisSubsystem",
         "void invalidateStageJustThisSubsystem(struct PerSubsystemInfo* self, Stage g)", x_invjust, members=SS)

    def x_advance(r):
        r.sub("Stage::prev by contract", r"\bg\.prev\(\)", "Stage_prev(g)", 1)
    U.fn(STATEIMPL_H, r"void advanceToStage\(Stage g\) const\s*", "PerSubsystemInfo::advanceToStage",
         "void advanceToStage(struct PerSubsystemInfo* self, Stage g)", x_advance, members=SS)

    def x_copyfrom(r):
        r.sub("std::min", r"std::min<Stage>\(", "vf_min_Stage(", 1)
        r.drop("opaque payload: name/version strings", r"\bname\s*=\s*src\.name;", "", 1)
        r.drop("opaque payload: name/version strings", r"\bversion\s*=\s*src\.version;", "", 1)
        r.sub("references -> pointers", r"\bsrc\.", "src->", None, 3)
        r.sub("implicit-this call", r"\b(clearReferencesToInstanceStageGlobals|clearReferencesToModelStageGlobals)\(\)", r"\1(self)", 2)
        r.sub("implicit-this call", r"\brestoreToStage\(", "restoreToStage(self, ", 1)
        r.sub("implicit-this call", r"\bcopyAllStacksThroughStage\(src, ", "copyAllStacksThroughStage(self, src, ", 1)
    U.fn(STATE_CPP, r"void PerSubsystemInfo::copyFrom\(const PerSubsystemInfo& src, Stage maxStage\)\s*", "PerSubsystemInfo::copyFrom",
         "void PerSubsystemInfo_copyFrom(struct PerSubsystemInfo* self, const struct PerSubsystemInfo* src, Stage maxStage)", x_copyfrom, members=SS)

    # ---------------- CacheEntryInfo ----------------
    CE = ["m_allocationStage", "m_dependsOnStage", "m_computedByStage", "m_valueVersion",
          "m_dependsOnVersionWhenLastComputed", "m_isUpToDateWithPrerequisites"]

    def x_ce_common(r):
        r.lit("references -> pointers (owning subsystem)", "const PerSubsystemInfo& subsys = stateImpl.getSubsystem(m_myKey.first);",
              "const struct PerSubsystemInfo* subsys = StateImpl_getSubsystem(stateImpl, self->m_myKey_first);", 1)
        r.lit("references -> pointers (self-location assert)", "assert(&subsys.getCacheEntryInfo(m_myKey.second) == this);",
              "assert(PerSubsystemInfo_getCacheEntryInfo(subsys, self->m_myKey_second) == self);", 1)
        r.sub("references -> pointers", r"\bsubsys\.getCurrentStage\(\)", "getCurrentStage(subsys)", None, 0)
        r.sub("references -> pointers", r"\bsubsys\.getStageVersion\(", "getStageVersion(subsys, ", 1)
    U.fn(STATEIMPL_H, r"isUpToDate\(const StateImpl& stateImpl\) const\s*", "CacheEntryInfo::isUpToDate",
         "bool CacheEntryInfo_isUpToDate(const struct CacheEntryInfo* self, const struct StateImpl* stateImpl)", x_ce_common, members=CE)
    U.fn(STATEIMPL_H, r"markAsUpToDate\(const StateImpl& stateImpl\)\s*", "CacheEntryInfo::markAsUpToDate",
         "void CacheEntryInfo_markAsUpToDate(struct CacheEntryInfo* self, const struct StateImpl* stateImpl)", x_ce_common, members=CE)

    def x_ce_invalidate(r):
        r.lit("functional cast", "StageVersion(0)", "(StageVersion)(0)", 1)
        r.lit("container access -> contracted stub", "m_dependents.notePrerequisiteChange(stateImpl)",
              "ListOfDependents_notePrerequisiteChange(&self->m_dependents, stateImpl)", 1)
    U.fn(STATEIMPL_H, r"void invalidate\(const StateImpl& stateImpl\)\s*", "CacheEntryInfo::invalidate",
         "void CacheEntryInfo_invalidate(struct CacheEntryInfo* self, const struct StateImpl* stateImpl)", x_ce_invalidate, members=CE)

    # ---------------- StateImpl ----------------
    SI = ["currentSystemStage", "systemStageVersions", "qVersion", "uVersion", "zVersion", "t"]

    def x_note(v):
        def f(r):
            r.lit("container access -> contracted stub", "%sDependents.notePrerequisiteChange(*this)" % v,
                  "ListOfDependents_notePrerequisiteChange(&self->%sDependents, self)" % v, 1)
        return f
    for v in "quz":
        U.fn(STATEIMPL_H, r"void note%sChange\(\)\s*" % v.upper(), "StateImpl::note%sChange" % v.upper(),
             "void note%sChange(struct StateImpl* self)" % v.upper(), x_note(v), members=SI)
    U.fn(STATEIMPL_H, r"void noteYChange\(\)\s*", "StateImpl::noteYChange", "void noteYChange(struct StateImpl* self)",
         lambda r: r.sub("implicit-this call", r"\bnote([QUZ])Change\(\)", r"note\1Change(self)", 3), members=SI)

    LOOP_IDX = "  __CPROVER_assigns(i)\n  __CPROVER_loop_invariant(0 <= i && i <= self->subsystems_size)\n  __CPROVER_decreases(self->subsystems_size - i)"

    def x_subsys_loop(r, n, call_rx, call_repl, ncalls):
        r.sub("unique index type -> int", r"SubsystemIndex i\(0\)", "int i=0", n)
        r.sub("container access: .size() -> ghost length", r"\(int\)subsystems\.size\(\)", "self->subsystems_size", n)
        r.sub("container access -> contracted stub (element)", call_rx, call_repl, ncalls)

    def x_invsys(r):
        r.drop("opaque payload: loops that only clear subsystem views into the global pools",
               r"for \(SubsystemIndex i\(0\); i < \(int\)subsystems\.size\(\); \+\+i\)\s*subsystems\[i\]\.clearReferencesTo(Instance|Model)StageGlobals\(\);", ";", 2)
        r.drop("opaque payload: pool / view clearing", r"\b\w+(\[j\])?\.(clear|unlockShape)\(\);", ";", 31)
        r.sub("implicit-this call", r"\bnoteYChange\(\)", "noteYChange(self)", 1)
        r.sub("Stage::prev by contract", r"\bstg\.prev\(\)", "Stage_prev(stg)", 1)
    U.fn(STATE_CPP, r"void StateImpl::invalidateJustSystemStage\(Stage stg\)\s*", "StateImpl::invalidateJustSystemStage",
         "void invalidateJustSystemStage(struct StateImpl* self, Stage stg)", x_invsys, members=SI)

    def x_invall(r):
        x_subsys_loop(r, 1, r"subsystems\[i\]\.invalidateStageJustThisSubsystem\(", "invalidateStageJustThisSubsystem(vf_subsystems_at(self, i), ", 1)
        r.sub("implicit-this call", r"\binvalidateJustSystemStage\(", "invalidateJustSystemStage(self, ", 1)
        loop_to_induction(r, "loop-contract:invalidateAll#loop1 (ghost subsystem index)", r"for \(int i=0;[^;]*;[^)]*\)", "INVALIDATE_ALL", "self, g")
    # callers (the upd* accessors) are verified against invalidateAll's CONTRACT: in units compiled with
    # -DINVALIDATEALL_BY_CONTRACT the real body is renamed and state_harness.h supplies the contract in
    # assert-requires / havoc / assume-ensures form (the same relation macros that unit state.invalidateAll proves)
    P.append("#ifdef INVALIDATEALL_BY_CONTRACT\n#define invalidateAll invalidateAll_real\n#endif")
    U.fn(STATEIMPL_H, r"void invalidateAll\(Stage g\)\s*", "StateImpl::invalidateAll",
         "void invalidateAll(struct StateImpl* self, Stage g)", x_invall, members=SI)
    P.append("#ifdef INVALIDATEALL_BY_CONTRACT\n#undef invalidateAll\nvoid invalidateAll(struct StateImpl* self, Stage g);\n#endif")

    def x_invcache(r):
        r.sub("exception plumbing", r"SimTK_STAGECHECK_GE_ALWAYS\(", "VF_STAGECHECK_GE_ALWAYS(", 1)
        r.drop("const_cast alias of this", r"StateImpl\* mthis = const_cast<StateImpl\*>\(this\);", "", 1)
        r.sub("unique index type -> int", r"SubsystemIndex i\(0\)", "int i=0", 1)
        r.sub("container access: .size() -> ghost length", r"\(int\)subsystems\.size\(\)", "self->subsystems_size", 1)
        r.sub("container access -> contracted stub (element)", r"mthis->subsystems\[i\]\.invalidateStageJustThisSubsystem\(", "invalidateStageJustThisSubsystem(vf_subsystems_at(self, i), ", 1)
        r.sub("const_cast alias of this", r"mthis->invalidateJustSystemStage\(", "invalidateJustSystemStage(self, ", 1)
        loop_to_induction(r, "loop-contract:invalidateAllCacheAtOrAbove#loop1 (ghost subsystem index)", r"for \(int i=0;[^;]*;[^)]*\)", "INVALIDATE_ALL", "self, g")
    U.fn(STATEIMPL_H, r"void invalidateAllCacheAtOrAbove\(Stage g\) const\s*", "StateImpl::invalidateAllCacheAtOrAbove",
         "void invalidateAllCacheAtOrAbove(struct StateImpl* self, Stage g)", x_invcache, members=SI)

    U.fn(STATEIMPL_H, r"const Stage& getSystemStage\(\) const\s*", "StateImpl::getSystemStage", "Stage getSystemStage(const struct StateImpl* self)", members=SI)
    acc_lines = []
    for (cname, anchor_rx, docstage, bumps, doc) in ACCESSORS:
        per_sub = cname.endswith("_sub")

        def x_acc(r, bumps=bumps):
            r.sub("exception plumbing", r"SimTK_STAGECHECK_GE\(", "VF_STAGECHECK_GE(", 1)
            r.sub("implicit-this call", r"\bgetSystemStage\(\)", "getSystemStage(self)", 1)
            r.sub("implicit-this call", r"\binvalidateAll\(", "invalidateAll(self, ", 1)
            r.sub("implicit-this call", r"\bnote([QUZY])Change\(\)", r"note\1Change(self)", None, 0)
            r.drop("opaque payload: returned reference to the variable's storage", r"return [^;]*;", "return;", 1)
        U.fn(STATEIMPL_H, anchor_rx, "StateImpl::" + cname.replace("_sub", "(SubsystemIndex)") + ("()" if not per_sub else ""),
             "void StateImpl_%s(struct StateImpl* self%s)" % (cname, ", int subsys" if per_sub else ""), x_acc, members=SI)
        acc_lines.append((cname, docstage, bumps, per_sub, doc))
    U.accessors = acc_lines

    path = os.path.join(ctx.out, "state_unit.c")
    P.append('#include "%s/state_harness.h"\n' % SPEC)
    # accessor harnesses (generated from the ACCESSORS table: documented stage, value versions that must change)
    P.append("#ifdef PLAIN_WORLD")
    minsys = {"updTime": "Stage_Topology", "updQErrWeights": "Stage_Instance", "updUErrWeights": "Stage_Instance",
              "updQErrWeights_sub": "Stage_Instance", "updUErrWeights_sub": "Stage_Instance"}
    for (cname, docstage, bumps, per_sub, doc) in U.accessors:
        call = "StateImpl_%s(&W_st%s)" % (cname, ", vf_any_subsys" if per_sub else "")
        macro = "ACCESSOR_HARNESS_CONSERVATIVE" if cname in CONSERVATIVE_OK else "ACCESSOR_HARNESS"
        P.append("/* %s */\n%s(%s, %s, Stage_%s, %d, %d, %d, %s)" % (doc, macro, cname, call, docstage, "q" in bumps, "u" in bumps, "z" in bumps,
                                                                 minsys.get(cname, "Stage_Model")))
    P.append("#endif")
    open(path, "w").write("\n".join(P))
    return path, U.accessors
