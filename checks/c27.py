"""C27 - Rotations are proper, conversions round-trip.  Back end B (route M3) on the real
Rotation.h / Rotation.cpp / CoordinateAxis.h text, transliterated each run."""
import os, re, json, itertools, z3
from vlib import *
from extract import *
import symlib as S
from symlib import *
from blib import BUnit

PID = "C27"
META = dict(
    category="proof",
    text=("CoordinateAxis integer algebra checked exhaustively against the Levi-Civita oracle on the transliterated real methods; "
          "Rotation setters (about X/Y/Z/axis, all 9 two-angle and all 27 three-angle sequences, body- and space-fixed) proved equal to the "
          "documented product of elementary rotations and proper orthonormal for ALL angles; setRotationFromQuaternion proper orthonormal for all "
          "unit quaternions; convertRotationToQuaternion round-trips on each of its branches; reexpressSymMat33 == R S ~R. Over the reals (z3 QF_NRA)."),
    note=("Assumes real arithmetic; trusts z3/cvc5, transliterator rules (logged), symlib shim. Float tolerances, the branch selection of the "
          "converters in float, angle extraction (atan2) and closest-rotation fitting are not decided."),
    technique="symbolic execution of transliterated real code over the reals + SMT (z3 QF_NRA); exhaustive evaluation for the finite CoordinateAxis domain",
    design_ref="4 C27")

MECH_INC = os.path.join(REPO, "SimTKcommon/Mechanics/include/SimTKcommon/internal")
ROT_H = os.path.join(MECH_INC, "Rotation.h")
AXIS_H = os.path.join(MECH_INC, "CoordinateAxis.h")
ROT_CPP = os.path.join(REPO, "SimTKcommon/Mechanics/src/Rotation.cpp")

AX_METHODS = ["getNextAxis", "getPreviousAxis", "getThirdAxis", "isXAxis", "isYAxis", "isZAxis", "isNextAxis", "isPreviousAxis",
              "isSameAxis", "areAllSameAxes", "isDifferentAxis", "areAllDifferentAxes", "isForwardCyclical", "isReverseCyclical",
              "dotProduct", "crossProductSign", "crossProductAxis"]
AX_SIG = {
    "getNextAxis": r"CoordinateAxis getNextAxis\(\) const\s*", "getPreviousAxis": r"CoordinateAxis getPreviousAxis\(\) const\s*",
    "getThirdAxis": r"CoordinateAxis getThirdAxis\( const CoordinateAxis& axis2 \) const\s*",
    "isXAxis": r"bool isXAxis\(\) const\s*", "isYAxis": r"bool isYAxis\(\) const\s*", "isZAxis": r"bool isZAxis\(\) const\s*",
    "isNextAxis": r"bool isNextAxis\( const CoordinateAxis& axis2 \) const\s*", "isPreviousAxis": r"bool isPreviousAxis\( const CoordinateAxis& axis2 \) const\s*",
    "isSameAxis": r"bool isSameAxis\( const CoordinateAxis& axis2 \) const\s*",
    "areAllSameAxes": r"bool areAllSameAxes\( const CoordinateAxis& axis2,\s*const CoordinateAxis &axis3 \) const\s*",
    "isDifferentAxis": r"bool isDifferentAxis\( const CoordinateAxis& axis2 \) const\s*",
    "areAllDifferentAxes": r"bool areAllDifferentAxes\( const CoordinateAxis& axis2,\s*const CoordinateAxis& axis3 \) const\s*",
    "isForwardCyclical": r"bool isForwardCyclical\( const CoordinateAxis& axis2 \) const\s*",
    "isReverseCyclical": r"bool isReverseCyclical\( const CoordinateAxis& axis2 \) const\s*",
    "dotProduct": r"int dotProduct\(  const CoordinateAxis& axis2 \) const\s*",
    "crossProductSign": r"int crossProductSign\( const CoordinateAxis& axis2 \) const\s*",
    "crossProductAxis": r"CoordinateAxis crossProductAxis\( const CoordinateAxis& axis2 \) const\s*",
}

CONV_METHODS = ["convertOneAxisRotationToOneAngle", "convertTwoAxesRotationToTwoAngles", "convertThreeAxesRotationToThreeAngles",
                "convertTwoAxesBodyFixedRotationToTwoAngles", "convertTwoAxesBodyFixedRotationToThreeAngles", "convertThreeAxesBodyFixedRotationToThreeAngles"]
ROT_METHODS = CONV_METHODS + ["setRotationFromAngleAboutX", "setRotationFromAngleAboutY", "setRotationFromAngleAboutZ", "setRotationFromAngleAboutAxis",
               "setRotationFromTwoAnglesTwoAxes", "setRotationFromThreeAnglesThreeAxes",
               "setTwoAngleTwoAxesBodyFixedForwardCyclicalRotation", "setThreeAngleTwoAxesBodyFixedForwardCyclicalRotation",
               "setThreeAngleThreeAxesBodyFixedForwardCyclicalRotation", "setRotationFromQuaternion", "convertRotationToQuaternion",
               "reexpressSymMat33", "asMat33"]


def build(ctx):
    B = BUnit(ctx)

    class CoordinateAxis:
        def __init__(self, i):
            assert i in (0, 1, 2), "CoordinateAxis(%r)" % (i,)
            self.m_myAxisId = i
        def __int__(self): return self.m_myAxisId
        def __index__(self): return self.m_myAxisId
        def __eq__(self, o): return int(self) == int(o)
        __hash__ = None
    B.ns["CoordinateAxis"] = CoordinateAxis
    for m in AX_METHODS:
        B.add_method(CoordinateAxis, AXIS_H, AX_SIG[m], m, members=["m_myAxisId"], methods=AX_METHODS)
    for i, n in enumerate(("XAxis", "YAxis", "ZAxis")):
        B.ns[n] = CoordinateAxis(i)
    B.ns["BodyRotationSequence"], B.ns["SpaceRotationSequence"] = 0, 1

    class Rot(Mat):
        def __init__(self):
            Mat.__init__(self, [[1, 0, 0], [0, 1, 0], [0, 0, 1]])
        def asMat33(self): return self
    B.ns["Rot"] = Rot
    B.ns["Quaternion__P"] = lambda v, flag=True: v
    B.ns["SymMat33P"] = B.ns["SymMat_3_P"] = S.symmat33
    B.ns["Mat32P"] = B.ns["Mat32"]; B.ns["Mat22P"] = B.ns["Mat22"]
    RM = [m for m in ROT_METHODS if m != "asMat33"]
    def rot(path, anchor, name, occurrence=1, extra=None):
        B.add_method(Rot, path, anchor, name, methods=RM + ["asMat33"], occurrence=occurrence, extra_pre=extra, cxxname="Rotation_<P>::" + name)
    for ax in "XYZ":
        rot(ROT_H, r"Rotation_&\s+setRotationFromAngleAbout%s\( RealP angle \)\s*" % ax, "setRotationFromAngleAbout" + ax)
        rot(ROT_H, r"Rotation_&\s+setRotationFromAngleAbout%s\( RealP cosAngle, RealP sinAngle \)\s*" % ax, "setRotationFromAngleAbout" + ax)
    rot(ROT_H, r"Rotation_& setRotationFromAngleAboutAxis\(RealP angle, const CoordinateAxis& axis\)\s*", "setRotationFromAngleAboutAxis")
    rot(ROT_CPP, r"Rotation_<P>::setRotationFromTwoAnglesTwoAxes\s*\(\s*BodyOrSpaceType bodyOrSpace,\s*RealP angle1, const CoordinateAxis& axis1In,\s*RealP angle2, const CoordinateAxis& axis2In \)\s*", "setRotationFromTwoAnglesTwoAxes")
    rot(ROT_CPP, r"Rotation_<P>::setRotationFromThreeAnglesThreeAxes\s*\(\s*BodyOrSpaceType bodyOrSpace,\s*RealP angle1, const CoordinateAxis& axis1In,\s*RealP angle2, const CoordinateAxis& axis2,\s*RealP angle3, const CoordinateAxis& axis3In \)\s*", "setRotationFromThreeAnglesThreeAxes")
    rot(ROT_CPP, r"Rotation_<P>::setTwoAngleTwoAxesBodyFixedForwardCyclicalRotation\s*\([^)]*\)\s*", "setTwoAngleTwoAxesBodyFixedForwardCyclicalRotation")
    rot(ROT_CPP, r"Rotation_<P>::setThreeAngleTwoAxesBodyFixedForwardCyclicalRotation\s*\([^)]*\)\s*", "setThreeAngleTwoAxesBodyFixedForwardCyclicalRotation")
    rot(ROT_CPP, r"Rotation_<P>::setThreeAngleThreeAxesBodyFixedForwardCyclicalRotation\s*\([^)]*\)\s*", "setThreeAngleThreeAxesBodyFixedForwardCyclicalRotation")
    rot(ROT_CPP, r"Rotation_<P>::setRotationFromQuaternion\( const Quaternion_<P>& q \)\s*", "setRotationFromQuaternion",
        extra=lambda b: b.replace("Mat33P::operator=(", "self.assign("))
    rot(ROT_CPP, r"Rotation_<P>::convertRotationToQuaternion\(\) const\s*", "convertRotationToQuaternion")
    rot(ROT_CPP, r"Rotation_<P>::reexpressSymMat33\(const SymMat33P& S_BB\) const\s*", "reexpressSymMat33",
        extra=lambda b: b.replace("R.template getSubMat<3,2>(0,0)", "R.getSubMat(3,2,0,0)").replace("this->asMat33()", "self.asMat33()"))
    for nm in CONV_METHODS:
        rot(ROT_CPP, r"Rotation_<P>::%s\s*\([^)]*\)\s*const\s*" % nm, nm)
    QUAT_CPP = os.path.join(REPO, "SimTKcommon/Mechanics/src/Quaternion.cpp")
    class Quat(S.Vec):
        pass
    B.ns["Quat"] = Quat
    B.add_method(Quat, QUAT_CPP, r"Quaternion_<P>::convertQuaternionToAngleAxis\(\) const\s*", "convertQuaternionToAngleAxis",
                 extra_pre=lambda b: b.replace("this->template getSubVec<3>(1)", "self.getSubVec(3,1)").replace("(*this)[0]", "self[0]")
                                      .replace("NTraits<P>::getEps()", "EPS_CONST").replace("NTraits<P>::getPi()", "PI_CONST"),
                 cxxname="Quaternion_<P>::convertQuaternionToAngleAxis")
    B.dump_sources()
    return B, CoordinateAxis, Rot


def elem_rot(k, a):
    return (Rx, Ry, Rz)[k](a)


def main(ctx):
    ctx.level = "proof"
    try:
        B, CA, Rot = build(ctx)
    except ExtractionError as e:
        ctx.undecide("extraction: %s" % e)
        return ctx.finish()
    ns = B.ns
    # ---------------- CoordinateAxis: exhaustive against Levi-Civita ----------------
    U0 = "axis.exhaustive"
    def eps(i, j, k):
        return {(0, 1, 2): 1, (1, 2, 0): 1, (2, 0, 1): 1, (0, 2, 1): -1, (2, 1, 0): -1, (1, 0, 2): -1}.get((i, j, k), 0)
    def chk(name, cond):
        ctx.add(Obligation(U0 + ":" + name, U0, "exhaustive evaluation of transliterated code", "discharged" if cond else "failed", 0,
                           ("holds: " if cond else "FAILS: ") + name, function="CoordinateAxis", cex=None if cond else dict(case=name)))
    try:
        for i in range(3):
            a = CA(i)
            chk("getNextAxis(%d)==(i+1)%%3" % i, int(a.getNextAxis()) == (i + 1) % 3)
            chk("getPreviousAxis(%d)==(i+2)%%3" % i, int(a.getPreviousAxis()) == (i + 2) % 3)
            chk("isX/Y/ZAxis(%d)" % i, (a.isXAxis(), a.isYAxis(), a.isZAxis()) == (i == 0, i == 1, i == 2))
            for j in range(3):
                b = CA(j)
                sgn = sum(eps(i, j, k) for k in range(3))
                chk("crossProductSign(%d,%d)==sum_k eps_ijk" % (i, j), a.crossProductSign(b) == sgn)
                chk("dotProduct(%d,%d)==delta_ij" % (i, j), a.dotProduct(b) == (1 if i == j else 0))
                chk("isSameAxis/isDifferentAxis(%d,%d)" % (i, j), a.isSameAxis(b) == (i == j) and a.isDifferentAxis(b) == (i != j))
                chk("isNextAxis/isForwardCyclical(%d,%d)" % (i, j), a.isNextAxis(b) == (j == (i + 1) % 3) == a.isForwardCyclical(b))
                chk("isPreviousAxis/isReverseCyclical(%d,%d)" % (i, j), a.isPreviousAxis(b) == (j == (i + 2) % 3) == a.isReverseCyclical(b))
                if i != j:
                    k3 = 3 - i - j
                    chk("getThirdAxis(%d,%d)==%d" % (i, j, k3), int(a.getThirdAxis(b)) == k3)
                    chk("crossProductAxis(%d,%d)==%d and eps!=0" % (i, j, k3), int(a.crossProductAxis(b)) == k3 and eps(i, j, k3) == sgn)
                else:
                    chk("crossProductAxis(%d,%d)==self" % (i, j), int(a.crossProductAxis(b)) == i)
                for k in range(3):
                    c = CA(k)
                    chk("areAllSameAxes(%d,%d,%d)" % (i, j, k), a.areAllSameAxes(b, c) == (i == j == k))
                    chk("areAllDifferentAxes(%d,%d,%d)" % (i, j, k), a.areAllDifferentAxes(b, c) == (len({i, j, k}) == 3))
    except Exception as e:
        ctx.undecide("CoordinateAxis evaluation raised %r" % (e,))

    # ---------------- Rotation setters ----------------
    S.reset_env()
    th = [Angle("t%d" % i) for i in range(3)]
    side = list(S.ENV.side)
    def proper(name, R, sd, unit, fn):
        Rv = S.vmap(val, R)
        B.prove_eq(name + ": R*~R==I", Rv * ~Rv, eye(3), sd, unit, fn)
        B.prove_eq(name + ": det R==1", S.det3(Rv), 1, sd, unit, fn)
    U1 = "rot.oneangle"
    for k, ax in enumerate("XYZ"):
        R = Rot(); getattr(R, "setRotationFromAngleAbout" + ax)(th[0])
        B.prove_eq("AboutX/Y/Z %s == elementary rotation" % ax, R, elem_rot(k, th[0]), side, U1, "setRotationFromAngleAbout" + ax)
        R2 = Rot(); R2.setRotationFromAngleAboutAxis(th[0], CA(k))
        B.prove_eq("AboutAxis(%s) == elementary rotation" % ax, R2, elem_rot(k, th[0]), side, U1, "setRotationFromAngleAboutAxis")
        proper("About" + ax, R, side, U1, "setRotationFromAngleAbout" + ax)
    U2 = "rot.twoangles"
    names = "XYZ"
    for bs, bsn in ((0, "body"), (1, "space")):
        for i, j in itertools.product(range(3), repeat=2):
            R = Rot(); R.setRotationFromTwoAnglesTwoAxes(bs, th[0], CA(i), th[1], CA(j))
            oracle = elem_rot(i, th[0]) * elem_rot(j, th[1]) if bs == 0 else elem_rot(j, th[1]) * elem_rot(i, th[0])
            nm = "%s %s%s" % (bsn, names[i], names[j])
            B.prove_eq(nm + " == product of elementary rotations", R, oracle, side, U2, "setRotationFromTwoAnglesTwoAxes")
            if ctx.tier == "thorough" or (i != j):
                proper(nm, R, side, U2, "setRotationFromTwoAnglesTwoAxes")
    U3 = "rot.threeangles"
    for bs, bsn in ((0, "body"), (1, "space")):
        for i, j, k in itertools.product(range(3), repeat=3):
            R = Rot(); R.setRotationFromThreeAnglesThreeAxes(bs, th[0], CA(i), th[1], CA(j), th[2], CA(k))
            if bs == 0:
                oracle = elem_rot(i, th[0]) * elem_rot(j, th[1]) * elem_rot(k, th[2])
            else:
                oracle = elem_rot(k, th[2]) * elem_rot(j, th[1]) * elem_rot(i, th[0])
            nm = "%s %s%s%s" % (bsn, names[i], names[j], names[k])
            B.prove_eq(nm + " == product of elementary rotations", R, oracle, side, U3, "setRotationFromThreeAnglesThreeAxes")
            if ctx.tier == "thorough" or (i != j and j != k):
                proper(nm, R, side, U3, "setRotationFromThreeAnglesThreeAxes")
    converters(ctx, B, CA, Rot, th)
    # ---------------- quaternion ----------------
    U4 = "rot.quaternion"
    S.reset_env()
    p = Vec(*[z3.Real("p%d" % i) for i in range(4)])
    unit = [val(p.normSqr()) == 1]
    R = Rot(); R.setRotationFromQuaternion(p)
    def Rquat(q):
        q0, q1, q2, q3 = q[0], q[1], q[2], q[3]
        return Mat([[1 - 2*(q2*q2+q3*q3), 2*(q1*q2-q0*q3), 2*(q1*q3+q0*q2)],
                    [2*(q1*q2+q0*q3), 1 - 2*(q1*q1+q3*q3), 2*(q2*q3-q0*q1)],
                    [2*(q1*q3-q0*q2), 2*(q2*q3+q0*q1), 1 - 2*(q1*q1+q2*q2)]])
    B.prove_eq("setRotationFromQuaternion == textbook quaternion rotation (|q|=1)", R, Rquat(p), unit, U4, "setRotationFromQuaternion")
    proper("setRotationFromQuaternion", R, unit, U4, "setRotationFromQuaternion")
    # convertRotationToQuaternion: on every branch, the returned q reproduces R and has unit norm
    seen = set()
    nb = 0
    def run():
        S.reset_env()
        Rm = Rot(); Rm.setRotationFromQuaternion(p)
        return Rm, Rm.convertRotationToQuaternion()
    for path, script, (Rm, q) in B.run_paths(run, 4):
        key = tuple(str(c) for c in path)
        if key in seen:
            continue
        seen.add(key); nb += 1
        sd = unit + list(S.ENV.side) + path
        s = z3.Solver(); s.set("timeout", 10000); s.add(*sd)
        feas = s.check()
        if feas == z3.unsat:
            continue                      # infeasible branch combination
        tag = "branch#%d" % nb
        Rback = Rot(); Rback.setRotationFromQuaternion(q)
        B.prove_eq("convertRotationToQuaternion %s: round trip R(q(R))==R" % tag, Rback, Rm, sd, U4, "convertRotationToQuaternion", timeout_ms=60000)
        B.prove_eq("convertRotationToQuaternion %s: |q|==1" % tag, q.normSqr(), 1, sd, U4, "convertRotationToQuaternion", timeout_ms=60000)
        B.prove_bool("convertRotationToQuaternion %s: canonical q0>=0" % tag, val(q[0]) >= 0, sd, U4, "convertRotationToQuaternion", timeout_ms=60000)
    if nb < 4:
        ctx.undecide("convertRotationToQuaternion: only %d feasible paths explored, expected >= 4" % nb)
    # ---------------- reexpressSymMat33 ----------------
    U5 = "rot.reexpress"
    S.reset_env()
    Rq = Rot(); Rq.setRotationFromQuaternion(p)
    sm = S.symmat33(*[z3.Real("S%d" % i) for i in range(6)])
    out = Rq.reexpressSymMat33(sm)
    B.prove_eq("reexpressSymMat33 == R*S*~R", out, Rq * sm * ~Rq, unit, U5, "reexpressSymMat33", timeout_ms=60000)

    for nm, sd in (("angle side conditions satisfiable", side), ("unit quaternion satisfiable", unit)):
        s = z3.Solver(); s.add(*sd)
        ctx.add(Obligation("guard:" + nm, "guards", "z3", "discharged" if s.check() == z3.sat else "undecided", 0, "reachability guard: " + nm))
    ctx.checker_cmds.append("z3 (python API, QF_NRA); SMT-LIB files in out/C27/smt2; cvc5 re-check in thorough tier")
    ctx.trust("z3 4.x / cvc5 1.0 (QF_NRA)"); ctx.trust("tools/translit.py rule table (logged) and tools/symlib.py shim")
    ctx.assume("machine arithmetic treated as mathematical (reals); float tolerances are not covered")
    ctx.assume("symlib shim gives Mat/Vec/Row/SymMat operators and constructors their textbook meaning; angle sums use the addition formulas")
    ctx.assume("the three-axis oracle is the documented convention: body-fixed = R1*R2*R3 (left to right), space-fixed = R3*R2*R1")
    ctx.not_decided += ["float-precision tolerances and single precision", "two-angle extraction convertTwoAxes*ToTwoAngles (sqrt-averaged estimates under sign ternaries: goals time out)", "angle extraction within the tolerance band around a singularity (only the exact singularity is proved) and for sequences with repeated adjacent axes (angle/2, angle/3)",
                        "setRotationFromApproximateMat33 closest-rotation fit", "setRotationFromAngleAboutUnitVector (half-angle trig via Quaternion.cpp)",
                        "Transform/InverseRotation/UnitVec::perp", "float branch selection in convertRotationToQuaternion (each branch is proved under its own condition)"]
    ctx.explanation = "%d functions transliterated; %d obligations." % (len(ctx.functions), len(ctx.obligations))
    return ctx.finish(replayer=lambda ob: replay(ctx, ob))


_EXE = {}


def converters(ctx, B, CA, Rot, th):
    """angle-extraction round trips: angles -> R (documented product) -> convert...ToAngles -> R' == R, on every branch.
    atan2 enters through its defining equations (symlib.atan2_); at the singular branches the round trip is exact only at the
    exact singularity (sin/cos of the middle angle == 0), which is then a hypothesis (the tolerance band is a float matter)."""
    U = "rot.toangles"
    names = "XYZ"
    eps = z3.Real("Eps")
    B.ns["Eps"] = D(eps)
    FN3 = "convertThreeAxesRotationToThreeAngles"
    T = 40000
    def setR(M):
        R = Rot(); R.assign(M); return R
    for bs, bsn in ((0, "body"), (1, "space")):
        for i, j, k in itertools.product(range(3), repeat=3):
            if i == j or j == k:
                continue                      # repeated adjacent axes use angle/2, angle/3: outside the (cos,sin) abstraction
            two_axis = (i == k)
            nm = "%s %s%s%s" % (bsn, names[i], names[j], names[k])
            seen = set(); npaths = 0
            def run():
                S.reset_env()
                S.ENV.assume(eps > 0)
                t = [Angle("t%d" % q_) for q_ in range(3)]
                o = elem_rot(i, t[0]) * elem_rot(j, t[1]) * elem_rot(k, t[2]) if bs == 0 else elem_rot(k, t[2]) * elem_rot(j, t[1]) * elem_rot(i, t[0])
                R0 = setR(o)
                ang = R0.convertThreeAxesRotationToThreeAngles(bs, CA(i), CA(j), CA(k))
                return t, R0, ang
            for path, script, (t, R0, ang) in B.run_paths(run, 2):
                key = tuple(str(c_) for c_ in path)
                if key in seen: continue
                seen.add(key)
                singular = bool(path) and "Not" in str(path[0])[:4]
                hyp = list(path)
                if singular:                   # exact gimbal lock only
                    hyp.append((t[1].s == 0) if two_axis else (t[1].c == 0))
                s_ = z3.Solver(); s_.set("timeout", 10000); s_.add(*(list(S.ENV.side) + hyp))
                if s_.check() == z3.unsat: continue
                npaths += 1
                R1 = Rot(); R1.setRotationFromThreeAnglesThreeAxes(bs, ang[0], CA(i), ang[1], CA(j), ang[2], CA(k))
                B.prove_eq("%s branch %d%s: R(convertToAngles(R)) == R" % (nm, npaths, " (exact singularity)" if singular else ""), R1, R0, hyp, U, FN3, timeout_ms=T)
            if npaths < 3:
                ctx.undecide("%s: only %d feasible branches of the angle extraction explored" % (nm, npaths))
    # two-angle extraction (convertTwoAxesBodyFixedRotationToTwoAngles averages a direct and a sqrt-based estimate under four sign
    # ternaries): 16 sign branches x 12 sequences of sqrt-heavy NRA goals do not discharge within the budget -> not decided (listed)
    # one-angle
    for k_ in range(3):
        S.reset_env()
        t0 = Angle("t0")
        R0 = setR(elem_rot(k_, t0))
        a = R0.convertOneAxisRotationToOneAngle(CA(k_))
        R1 = Rot(); R1.setRotationFromAngleAboutAxis(a, CA(k_))
        B.prove_eq("%s: R(convertOneAxisRotationToOneAngle(R)) == R" % names[k_], R1, R0, [], U, "convertOneAxisRotationToOneAngle", timeout_ms=T)
    # quaternion -> angle-axis describes the same rotation (Rodrigues oracle)
    U6 = "quat.angleaxis"
    Quat = B.ns["Quat"]
    B.ns["PI_CONST"] = S.PiMult(1)
    eps2 = z3.Real("EpsQ"); B.ns["EPS_CONST"] = D(eps2)
    seen = set(); npaths = 0
    def runq():
        S.reset_env()
        S.ENV.assume(eps2 > 0)
        qv = [z3.Real("p%d" % q_) for q_ in range(4)]
        return qv, Quat(*qv).convertQuaternionToAngleAxis()
    for path, script, (qv, av) in B.run_paths(runq, 2):
        key = tuple(str(c_) for c_ in path)
        if key in seen: continue
        seen.add(key)
        p_ = Vec(*qv)
        hyp = [val(p_.normSqr()) == 1] + list(path)
        small = bool(path) and "Not" not in str(path[0])[:4]
        if small:
            hyp.append(z3.And(qv[1] == 0, qv[2] == 0, qv[3] == 0))       # exact identity rotation only
        s_ = z3.Solver(); s_.set("timeout", 10000); s_.add(*(list(S.ENV.side) + hyp))
        if s_.check() == z3.unsat: continue
        npaths += 1
        ang, ax = av[0], Vec(av[1], av[2], av[3])
        c_, s__ = cos(ang), sin(ang)
        aaT = Mat([[ax[r_] * ax[c2] for c2 in range(3)] for r_ in range(3)])
        rod = c_ * eye(3) + (1 - c_) * aaT + s__ * crossMat(ax)
        q0, q1, q2, q3 = [D(x_) for x_ in qv]
        Rq = Mat([[1 - 2*(q2*q2+q3*q3), 2*(q1*q2-q0*q3), 2*(q1*q3+q0*q2)], [2*(q1*q2+q0*q3), 1 - 2*(q1*q1+q3*q3), 2*(q2*q3-q0*q1)], [2*(q1*q3-q0*q2), 2*(q2*q3+q0*q1), 1 - 2*(q1*q1+q2*q2)]])
        B.prove_eq("convertQuaternionToAngleAxis branch %d: Rodrigues(angle,axis) == R(q) for every unit q (canonical or not)" % npaths, rod, Rq, hyp, U6, "Quaternion_::convertQuaternionToAngleAxis", timeout_ms=T)
        B.prove_eq("convertQuaternionToAngleAxis branch %d: returned axis is a unit vector" % npaths, ax.normSqr(), 1, hyp, U6, "Quaternion_::convertQuaternionToAngleAxis", timeout_ms=T)
    if npaths < 3:
        ctx.undecide("convertQuaternionToAngleAxis: only %d feasible branches explored" % npaths)


def replay(ctx, ob):
    mech = os.path.join(REPO, "SimTKcommon/Mechanics/src")
    if 'exe' not in _EXE:
        _EXE['exe'] = native_build(ctx, "c27_replay", os.path.join(VERIF, "replay/c27_replay.cpp"), libs=True,
                           extra_srcs=[os.path.join(mech, x) for x in ("Rotation.cpp", "Quaternion.cpp", "CoordinateAxis.cpp")])
    exe = _EXE['exe']
    m = ob.cex or {}
    import math, fractions
    def num(k, d):
        v = m.get(k)
        try:
            return float(fractions.Fraction(v.rstrip("?"))) if v is not None else d
        except Exception:
            try: return float(v.rstrip("?"))
            except Exception: return d
    ang = [math.atan2(num("s_t%d" % i, [0.6, -0.28, 0.96][i]), num("c_t%d" % i, [0.8, 0.96, 0.28][i])) for i in range(3)]
    pq = [num("p%d" % i, [0.5, -0.5, 0.5, 0.5][i]) for i in range(4)]
    args = [repr(x) for x in ang + pq]
    rc, o, e, t = run([exe] + args, 120)
    return dict(cmd="c27_replay " + " ".join(args), output=o[-3000:]), "REPRODUCED:" in o
