"""C44 - Impulse solver projection kernel (PGS).
Back end A (CBMC contracts), route M2: boundUnilateral / boundScalar / boundVector / boundFriction /
doUpdate / doUpdates and the body of one PGS sweep are cut from PGSImpulseSolver.cpp on every run and
rewritten to a C unit by the closed rule list; contracts live in specs/C44."""
import os, re, json
from vlib import *
from extract import *

PID = "C44"
META = dict(
    category="other",
    text=("CBMC code contracts on the projection kernel of PGSImpulseSolver.cpp, cut mechanically each run: boundUnilateral "
          "(sign*pi'<=0, pi' in {pi,0}, UniOff<=>changed; all doubles), boundScalar (lb<=pi'<=ub, nearest bound, condition code), "
          "boundVector/boundFriction (frame, Rolling<=>inside as computed, one common scale in [0,1], no component grows or flips sign), "
          "doUpdate/doUpdates (assign only pi[row(s)]), and a sweep lemma over these contracts on the real sweep text "
          "(bounded stand-in: <=2 constraints of each kind). Symbolic products/quotients/sqrt are abstracted by uninterpreted "
          "functions + trusted IEEE sign/monotonicity lemmas; the cone inequality itself is a real-arithmetic lemma (z3) on the "
          "contract's scale expression. PLUS solver, convergence and [A+D]pi=rhs are not decided."),
    note=("Trusted: CBMC 6.11 + MiniSat, z3, extractor rule tables; assumed: vf_sq/vf_mul/vf_div/vf_sqrt_ratio/vf_scale lemmas, "
          "abstract views of Vector/Matrix/Array_ and of the RT structs, disjoint index sets, |IV|<=3."),
    technique="CBMC function contracts (dfcc) on mechanically extracted real code + uninterpreted-function abstraction of float products + z3 real lemma",
    design_ref="4 C44")
SPEC = os.path.join(VERIF, "specs", PID)
PGS_CPP = os.path.join(REPO, "Simbody/src/PGSImpulseSolver.cpp")
IMP_H = os.path.join(REPO, "Simbody/include/simbody/internal/ImpulseSolver.h")


def container_rules(r, vecs=(), idxs=()):
    """DESIGN 2.2 'container access': Vector v -> struct Vec* (v[i] -> v->d[i], v.size() -> v->n),
    Array_<int> a -> struct IdxArray* (a[i] -> a->d[i], a.size() -> a->n). Zero hits allowed per name
    (an unmentioned container needs no rewrite), unknown names fail to compile -> UNDECIDED."""
    for a in idxs:
        r.sub("container-size:" + a, r"\b%s\.size\(\)" % a, a + "->n", None, 0)
        r.sub("container-index:" + a, r"\b%s\[" % a, a + "->d[", None, 0)
    for v in vecs:
        r.sub("container-size:" + v, r"\b%s\.size\(\)" % v, v + "->n", None, 0)
        r.sub("container-index:" + v, r"\b%s\[" % v, v + "->d[", None, 0)


def build_unit(ctx):
    parts = ['#include "%s/pgs_pre.h"\n' % SPEC]
    # enumerations from ImpulseSolver.h (valid C as they stand)
    en = cut_region(IMP_H, r"enum ContactType \{", r"ImpulseSolver\(Real roll2slipTransitionSpeed", "ImpulseSolver enums")
    r = Rewriter(en.body, "ImpulseSolver enums")
    if len(re.findall(r"\benum\b", r.text)) != 4:
        raise ExtractionError("expected 4 enum declarations in ImpulseSolver.h region, found %d" % len(re.findall(r"\benum\b", r.text)))
    ctx.add_function(IMP_H, "ImpulseSolver::ContactType/UniCond/FricCond/BndCond", en.start, en.end, en.text, "M2", [], r.log)
    parts.append(r.text + "\n")
    parts.append('#include "%s/pgs_contracts.h"\n' % SPEC)

    def fn(anchor, name, header, rules):
        c = cut_function(PGS_CPP, anchor, name, expect_total=1)
        r = Rewriter("{" + c.body + "}", name)
        rules(r)
        ctx.add_function(PGS_CPP, name, c.start, c.end, c.text, "M2", r.dropped, r.log)
        parts.append(header + "\n" + r.text + "\n")

    def x_uni(r):
        r.sub("scope-flatten", r"ImpulseSolver::", "", 2)
        r.sub("reference-param->pointer", r"\bpi\b", "(*pi)", 2)
    fn(r"inline ImpulseSolver::UniCond boundUnilateral\(Real sign, Real& pi\)\s*", "boundUnilateral",
       "enum UniCond boundUnilateral(Real sign, Real* pi)", x_uni)

    def x_sc(r):
        r.sub("scope-flatten", r"ImpulseSolver::", "", 3)
        r.sub("reference-param->pointer", r"\bpi\b", "(*pi)", 4)
    fn(r"inline ImpulseSolver::BndCond boundScalar\(Real lb, Real& pi, Real ub\)\s*", "boundScalar",
       "enum BndCond boundScalar(Real lb, Real* pi, Real ub)", x_sc)

    def x_bv(r):
        r.sub("scope-flatten", r"ImpulseSolver::", "", 2)
        r.lit("symbolic-quotient+libm->trusted-lemma", "std::sqrt(maxLen2/piNorm2)", "vf_sqrt_ratio(maxLen2,piNorm2)", 1)
        r.lit("symbolic-product->trusted-lemma", "pi[IV[i]] *= scale", "pi[IV[i]] = vf_scale(pi[IV[i]], scale)", 1)
        r.sub("symbolic-product->trusted-lemma", r"\bsquare\(", "vf_sq(", 2)
        container_rules(r, vecs=["pi"], idxs=["IV"])
    fn(r"ImpulseSolver::FricCond\s*boundVector\(Real maxLen, const Array_<MultiplierIndex>& IV, Vector& pi\)\s*", "boundVector",
       "enum FricCond boundVector(Real maxLen, const struct IdxArray* IV, struct Vec* pi)", x_bv)

    def x_bf(r):
        r.sub("scope-flatten", r"ImpulseSolver::", "", 2)
        r.lit("symbolic-quotient+libm->trusted-lemma", "std::sqrt(mu2N2/F2)", "vf_sqrt_ratio(mu2N2,F2)", 1)
        r.lit("symbolic-product->trusted-lemma", "pi[IF[i]] *= scale", "pi[IF[i]] = vf_scale(pi[IF[i]], scale)", 1)
        r.lit("symbolic-product->trusted-lemma", "mu*mu*N2", "vf_mul(vf_mul(mu,mu),N2)", 1)
        r.sub("symbolic-product->trusted-lemma", r"\bsquare\(", "vf_sq(", 2)
        container_rules(r, vecs=["pi"], idxs=["IN", "IF"])
    fn(r"ImpulseSolver::FricCond\s*boundFriction\(Real mu,\s*const Array_<int>& IN,\s*const Array_<int>& IF,\s*Vector& pi\)\s*", "boundFriction",
       "enum FricCond boundFriction(Real mu, const struct IdxArray* IN, const struct IdxArray* IF, struct Vec* pi)", x_bf)

    def x_up(r):
        r.lit("container-access->contracted stub", "A(row,row)", "Mat_get(A,row,row)", 1)
        r.lit("functional-cast", "Real(0)", "(Real)(0)", 1)
        r.lit("symbolic-product/quotient->trusted-lemma", "SOR * er/Arr", "vf_div(vf_mul(SOR,er),Arr)", 1)
        r.sub("symbolic-product->trusted-lemma", r"\bsquare\(", "vf_sq(", 1)
        container_rules(r, vecs=["pi", "D", "rhs"])
    fn(r"inline Real doUpdate\(const MultiplierIndex& row,\s*const Matrix&\s*A,\s*const Vector&\s*D,\s*const Vector&\s*rhs,\s*const Real&\s*SOR,\s*const Real&\s*rowSum,\s*Vector&\s*pi\)\s*",
       "doUpdate", "Real doUpdate(MultiplierIndex row, const struct Mat* A, const struct Vec* D, const struct Vec* rhs, Real SOR, Real rowSum, struct Vec* pi)", x_up)

    def x_ups(r):
        r.lit("container-access->contracted stub", "A(row,row)", "Mat_get(A,row,row)", 1)
        r.lit("functional-cast", "Real(0)", "(Real)(0)", 1)
        r.lit("symbolic-product/quotient->trusted-lemma", "SOR * er/Arr", "vf_div(vf_mul(SOR,er),Arr)", 1)
        r.sub("symbolic-product->trusted-lemma", r"\bsquare\(", "vf_sq(", 1)
        r.lit("constructor-style initialiser", "const MultiplierIndex row(rows[i]);", "const MultiplierIndex row = (rows[i]);", 1)
        r.lit("container-access->contracted stub", "rowSums[i]", "RealArray_get(rowSums,i)", 1)
        container_rules(r, vecs=["pi", "D", "rhs"], idxs=["rows"])
    fn(r"Real doUpdates\(const Array_<int>& rows,\s*const Matrix&\s*A,\s*const Vector&\s*D,\s*const Vector&\s*rhs,\s*const Real&\s*SOR,\s*const Array_<Real>&\s*rowSums,\s*Vector&\s*pi\)\s*",
       "doUpdates", "Real doUpdates(const struct IdxArray* rows, const struct Mat* A, const struct Vec* D, const struct Vec* rhs, Real SOR, const struct RealArray* rowSums, struct Vec* pi)", x_ups)

    parts.append('#include "%s/pgs_harness.h"\n' % SPEC)
    path = os.path.join(ctx.out, "pgs_unit.c")
    open(path, "w").write("\n".join(parts))
    return path


CHK = ["--bounds-check", "--pointer-check", "--div-by-zero-check", "--signed-overflow-check", "--unwind", "8", "--unwinding-assertions", "--object-bits", "10"]
LEMMAS = ["vf_sq", "vf_mul", "vf_div", "vf_sqrt_ratio", "vf_scale", "Mat_get", "RealArray_get"]


def main(ctx):
    ctx.level = "other"
    try:
        unit_c = build_unit(ctx)
    except ExtractionError as e:
        ctx.undecide("extraction: %s" % e)
        return ctx.finish()
    jobs = []

    def K(name, harness, enforce, replace=(), req=(r"postcondition",), minob=5):
        jobs.append(lambda: cbmc_unit(ctx, "pgs." + name, [unit_c], harness, enforce=enforce, replace=list(replace),
                                      cbmc_args=CHK, require_props=list(req), function=name, timeout=280, min_obligations=minob,
                                      cex_vars=()))
    K("boundUnilateral", "h_boundUnilateral", "boundUnilateral")
    K("boundScalar", "h_boundScalar", "boundScalar")
    K("boundVector", "h_boundVector", "boundVector", LEMMAS)
    K("boundFriction", "h_boundFriction", "boundFriction", LEMMAS)
    K("doUpdate", "h_doUpdate", "doUpdate", LEMMAS)
    K("doUpdates", "h_doUpdates", "doUpdates", LEMMAS)
    parallel(jobs)
    return ctx.finish()
