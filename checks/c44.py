"""C44 - Impulse solver projection kernel (PGS).
Back end A (CBMC contracts), route M2: boundUnilateral / boundScalar / boundVector / boundFriction /
doUpdate / doUpdates and the body of one PGS sweep are cut from PGSImpulseSolver.cpp on every run and
rewritten to a C unit by the closed rule list; contracts live in specs/C44."""
import os, re, json
from vlib import *
from extract import *

PID = "C44"
META = dict(
    category="other",
    text=("CBMC code contracts on the projection kernel of PGSImpulseSolver.cpp, cut mechanically each run: boundUnilateral "
          "(sign*pi'<=0, pi' in {pi,0}, UniOff<=>changed; all doubles), boundScalar (lb<=pi'<=ub, nearest bound, condition code), "
          "boundVector/boundFriction (frame, Rolling<=>inside as computed, one common scale in [0,1], no component grows or flips sign), "
          "doUpdate/doUpdates (assign only pi[row(s)]), and a sweep lemma over these contracts on the real sweep text "
          "(bounded stand-in: <=2 constraints of each kind). Symbolic products/quotients/sqrt are abstracted by uninterpreted "
          "functions + trusted IEEE sign/monotonicity lemmas; the cone inequality itself is a real-arithmetic lemma (z3) on the "
          "contract's scale expression. PLUS solver, convergence and [A+D]pi=rhs are not decided. "
          "PLUS solver (part_c44_plus): history independence only - every read of a mutable work member in solve()/solveBilateral() and the helpers is preceded by a defining write of the same call (sliced real code, ghost-index container model)."),
    note=("Trusted: CBMC 6.11 + MiniSat, z3, extractor rule tables; assumed: vf_sq/vf_mul/vf_div/vf_sqrt_ratio/vf_scale lemmas, "
          "abstract views of Vector/Matrix/Array_ and of the RT structs, disjoint index sets, |IV|<=3."),
    technique="CBMC function contracts (dfcc) on mechanically extracted real code + uninterpreted-function abstraction of float products + z3 real lemma",
    design_ref="4 C44")
SPEC = os.path.join(VERIF, "specs", PID)
PGS_CPP = os.path.join(REPO, "Simbody/src/PGSImpulseSolver.cpp")
IMP_H = os.path.join(REPO, "Simbody/include/simbody/internal/ImpulseSolver.h")


def container_rules(r, vecs=(), idxs=()):
    """DESIGN 2.2 'container access': Vector v -> struct Vec* (v[i] -> v->d[i], v.size() -> v->n),
    Array_<int> a -> struct IdxArray* (a[i] -> a->d[i], a.size() -> a->n). Zero hits allowed per name
    (an unmentioned container needs no rewrite), unknown names fail to compile -> UNDECIDED."""
    for a in idxs:
        r.sub("container-size:" + a, r"\b%s\.size\(\)" % a, a + "->n", None, 0)
        r.sub("container-index:" + a, r"\b%s\[" % a, a + "->d[", None, 0)
    for v in vecs:      # Vector v -> its contiguous data pointer `Real* v` (v[i] as is) + length v_n
        r.sub("container-size:" + v, r"\b%s\.size\(\)" % v, v + "_n", None, 0)


def build_unit(ctx):
    parts = ['#include "%s/pgs_pre.h"\n' % SPEC]
    # enumerations from ImpulseSolver.h (valid C as they stand)
    en = cut_region(IMP_H, r"enum ContactType \{", r"ImpulseSolver\(Real roll2slipTransitionSpeed", "ImpulseSolver enums")
    r = Rewriter(en.body, "ImpulseSolver enums")
    if len(re.findall(r"\benum\b", r.text)) != 4:
        raise ExtractionError("expected 4 enum declarations in ImpulseSolver.h region, found %d" % len(re.findall(r"\benum\b", r.text)))
    ctx.add_function(IMP_H, "ImpulseSolver::ContactType/UniCond/FricCond/BndCond", en.start, en.end, en.text, "M2", [], r.log)
    parts.append(r.text + "\n")
    parts.append('#include "%s/pgs_contracts.h"\n' % SPEC)

    def fn(anchor, name, header, rules):
        c = cut_function(PGS_CPP, anchor, name, expect_total=1)
        r = Rewriter("{" + c.body + "}", name)
        rules(r)
        ctx.add_function(PGS_CPP, name, c.start, c.end, c.text, "M2", r.dropped, r.log)
        parts.append(header + "\n" + r.text + "\n")

    def x_uni(r):
        r.sub("scope-flatten", r"ImpulseSolver::", "", 2)
        r.sub("reference-param->pointer", r"\bpi\b", "(*pi)", 2)
    fn(r"inline ImpulseSolver::UniCond boundUnilateral\(Real sign, Real& pi\)\s*", "boundUnilateral",
       "enum UniCond boundUnilateral(Real sign, Real* pi)", x_uni)

    def x_sc(r):
        r.sub("scope-flatten", r"ImpulseSolver::", "", 3)
        r.sub("reference-param->pointer", r"\bpi\b", "(*pi)", 4)
    fn(r"inline ImpulseSolver::BndCond boundScalar\(Real lb, Real& pi, Real ub\)\s*", "boundScalar",
       "enum BndCond boundScalar(Real lb, Real* pi, Real ub)", x_sc)

    def x_bv(r):
        r.sub("scope-flatten", r"ImpulseSolver::", "", 2)
        r.sub("symbolic-quotient+libm->trusted-lemma", r"std::sqrt\((\w+)\s*/\s*(\w+)\)", r"vf_sqrt_ratio(\1,\2)", 1)
        r.sub("symbolic-product->trusted-lemma", r"\b(pi\[\w+\[\w+\]\]) \*= (\w+)", r"\1 = vf_scale(\1, \2)", 1)
        r.sub("symbolic-product->trusted-lemma", r"\bsquare\(", "vf_sq(", 2)
        container_rules(r, vecs=["pi"], idxs=["IV"])
    fn(r"ImpulseSolver::FricCond\s*boundVector\(Real maxLen, const Array_<MultiplierIndex>& IV, Vector& pi\)\s*", "boundVector",
       "enum FricCond boundVector(Real maxLen, const struct IdxArray* IV, Real* pi)", x_bv)

    def x_bf(r):
        r.sub("scope-flatten", r"ImpulseSolver::", "", 2)
        r.sub("symbolic-quotient+libm->trusted-lemma", r"std::sqrt\((\w+)\s*/\s*(\w+)\)", r"vf_sqrt_ratio(\1,\2)", 1)
        r.sub("symbolic-product->trusted-lemma", r"\b(pi\[\w+\[\w+\]\]) \*= (\w+)", r"\1 = vf_scale(\1, \2)", 1)
        n0 = len(r.log)
        r.sub("symbolic-product->trusted-lemma (a*b*c)", r"= (\w+)\*(\w+)\*(\w+);", r"= vf_mul(vf_mul(\1,\2),\3);", None, 0)
        r.sub("symbolic-product->trusted-lemma (a*b)", r"= (\w+)\*(\w+);", r"= vf_mul(\1,\2);", None, 0)
        if sum(e["hits"] for e in r.log[n0:]) != 1:
            raise ExtractionError("boundFriction: expected exactly one product initialiser (mu*mu*N2)")
        r.sub("symbolic-product->trusted-lemma", r"\bsquare\(", "vf_sq(", 2)
        container_rules(r, vecs=["pi"], idxs=["IN", "IF"])
    fn(r"ImpulseSolver::FricCond\s*boundFriction\(Real mu,\s*const Array_<int>& IN,\s*const Array_<int>& IF,\s*Vector& pi\)\s*", "boundFriction",
       "enum FricCond boundFriction(Real mu, const struct IdxArray* IN, const struct IdxArray* IF, Real* pi)", x_bf)

    def x_up(r):
        r.lit("container-access->contracted stub", "A(row,row)", "Mat_get(A,row,row)", 1)
        r.lit("functional-cast", "Real(0)", "(Real)(0)", 1)
        r.lit("symbolic-product/quotient->trusted-lemma", "SOR * er/Arr", "vf_div(vf_mul(SOR,er),Arr)", 1)
        r.sub("symbolic-product->trusted-lemma", r"\bsquare\(", "vf_sq(", 1)
        container_rules(r, vecs=["pi", "D", "rhs"])
    fn(r"inline Real doUpdate\(const MultiplierIndex& row,\s*const Matrix&\s*A,\s*const Vector&\s*D,\s*const Vector&\s*rhs,\s*const Real&\s*SOR,\s*const Real&\s*rowSum,\s*Vector&\s*pi\)\s*",
       "doUpdate", "Real doUpdate(MultiplierIndex row, const struct Mat* A, const Real* D, int D_n, const Real* rhs, Real SOR, Real rowSum, Real* pi)", x_up)

    def x_ups(r):
        r.lit("container-access->contracted stub", "A(row,row)", "Mat_get(A,row,row)", 1)
        r.lit("functional-cast", "Real(0)", "(Real)(0)", 1)
        r.lit("symbolic-product/quotient->trusted-lemma", "SOR * er/Arr", "vf_div(vf_mul(SOR,er),Arr)", 1)
        r.sub("symbolic-product->trusted-lemma", r"\bsquare\(", "vf_sq(", 1)
        r.sub("constructor-style initialiser", r"const MultiplierIndex row\(([^;]+)\);", r"const MultiplierIndex row = (\1);", 1)
        r.lit("container-access->contracted stub", "rowSums[i]", "RealArray_get(rowSums,i)", 1)
        container_rules(r, vecs=["pi", "D", "rhs"], idxs=["rows"])
    fn(r"Real doUpdates\(const Array_<int>& rows,\s*const Matrix&\s*A,\s*const Vector&\s*D,\s*const Vector&\s*rhs,\s*const Real&\s*SOR,\s*const Array_<Real>&\s*rowSums,\s*Vector&\s*pi\)\s*",
       "doUpdates", "Real doUpdates(const struct IdxArray* rows, const struct Mat* A, const Real* D, int D_n, const Real* rhs, Real SOR, const struct RealArray* rowSums, Real* pi)", x_ups)

    parts.append('#include "%s/pgs_harness.h"\n' % SPEC)
    path = os.path.join(ctx.out, "pgs_unit.c")
    open(path, "w").write("\n".join(parts))
    return path, parts[1]


def build_sweep_unit(ctx, enums_text):
    """The body of one PGS iteration (all constraint-kind blocks) cut from PGSImpulseSolver::solve."""
    parts = ['#define SWEEP_GHOST 1\n#include "%s/pgs_pre.h"\n' % SPEC, enums_text,
             '#include "%s/pgs_contracts.h"\n#include "%s/pgs_sweep.h"\n' % (SPEC, SPEC)]
    c = cut_function(IMP_H, r"bool hasFriction\(\) const\s*", "UniContactRT::hasFriction", expect_total=1)
    r = Rewriter("{" + c.body + "}", "UniContactRT::hasFriction")
    r.lit("container-access", "m_Fk.empty()", "(self->m_Fk.n == 0)", 1)
    ctx.add_function(IMP_H, "ImpulseSolver::UniContactRT::hasFriction", c.start, c.end, c.text, "M2", r.dropped, r.log)
    parts.append("static bool UniContactRT_hasFriction(const struct UniContactRT* self)\n" + r.text + "\n")

    c = cut_region(PGS_CPP, r"Real sum2all = 0, sum2enf = 0;", r"normRMSall = std::sqrt\(sum2all/p\);", "PGSImpulseSolver::solve#sweep")
    r = Rewriter(c.body, "PGSImpulseSolver::solve#sweep")
    r.drop("convergence bookkeeping (not part of the sweep lemma)", r"prevNormRMSenf = normRMSenf;", "", 1)
    r.sub("implicit-this-call", r"\brt\.hasFriction\(\)", "UniContactRT_hasFriction(rt)", 1)
    r.sub("reference->pointer (element of RT array)", r"(?:const )?(\w+RT)& rt = (\w+)\[k\];", r"struct \1* rt = &\2[k];", 6)
    r.sub("reference->pointer (index set)", r"const Array_<(?:MultiplierIndex|int)>& (\w+) = rt\.(\w+);", r"const struct IdxArray* \1 = &rt.\2;", 4)
    r.sub("reference-argument", r"\(participating,rt\.m_mults,", "(participating,&rt.m_mults,", 1)
    r.sub("reference-argument", r"doUpdates\(rt\.m_mults,", "doUpdates(&rt.m_mults,", 1)
    # zero hits allowed: a sweep that lost its projection call must reach the verifier (S1/S3 fail), not stop here
    r.sub("reference-argument", r"boundUnilateral\(([^,()]+), (pi\[\w+\])\)", r"boundUnilateral(\1, &\2)", None, 0)
    r.sub("reference-argument", r"boundScalar\(([^,()]+), (pi\[\w+\]), ([^,()]+)\)", r"boundScalar(\1, &\2, \3)", None, 0)
    r.sub("symbolic-product->trusted-lemma", r"rt\.m_effMu\*(N|rt\.m_knownN)\b", r"vf_mul(rt.m_effMu,\1)", 2)
    r.sub("member-of-pointer", r"\brt\.", "rt->", None, 20)
    r.sub("std::abs", r"std::abs\(", "fabs(", 1)
    r.sub("container-size passed with Vector D", r",A,D,", ",A,D,D_n,", 12)
    ctx.add_function(PGS_CPP, "PGSImpulseSolver::solve (body of one PGS iteration)", c.start, c.end, c.text, "M2", r.dropped, r.log)
    parts.append("""void pgs_sweep(const struct BigIdxArray* participating, const struct Mat* A, const Real* D, int D_n,
               const Real* piExpand, const Real* verrStart, Real* pi,
               struct UncondRT* unconditional, int mUncond, struct UniContactRT* uniContact, int mUniCont,
               struct BoundedRT* bounded, int mBounded, struct StateLtdFrictionRT* stateLtdFriction, int mStateLtd,
               struct ConstraintLtdFrictionRT* consLtdFriction, int mConsLtd, Real sor, struct RealArray* rowSums)
{
""" + r.text + "\n}\n")
    parts.append('#include "%s/pgs_sweep_harness.h"\n' % SPEC)
    path = os.path.join(ctx.out, "pgs_sweep_unit.c")
    open(path, "w").write("\n".join(parts))
    return path


INCL = "__CPROVER_contracts_write_set_check_assigns_clause_inclusion.0:8"   # dfcc library loop over a callee's assigns targets
CHK = ["--bounds-check", "--pointer-check", "--div-by-zero-check", "--signed-overflow-check", "--unwinding-assertions", "--object-bits", "10",
       "--unwindset", INCL]
LEMMAS = ["vf_sq", "vf_mul", "vf_div", "vf_sqrt_ratio", "vf_scale", "Mat_get", "RealArray_get"]


def main(ctx):
    ctx.level = "other"
    try:
        unit_c, enums_text = build_unit(ctx)
        sweep_c = build_sweep_unit(ctx, enums_text)
    except ExtractionError as e:
        ctx.undecide("extraction: %s" % e)
        return ctx.finish()
    jobs = []

    def K(name, harness, enforce, replace=(), req=(r"postcondition",), minob=5, unwind=4):
        jobs.append(lambda: cbmc_unit(ctx, "pgs." + name, [unit_c], harness, enforce=enforce, replace=list(replace),
                                      cbmc_args=CHK + ["--unwind", str(unwind)], require_props=list(req), function=name, timeout=280, min_obligations=minob,
                                      cex_vars=()))
    K("boundUnilateral", "h_boundUnilateral", "boundUnilateral")
    K("boundScalar", "h_boundScalar", "boundScalar")
    K("boundVector", "h_boundVector", "boundVector", LEMMAS)
    K("boundFriction", "h_boundFriction", "boundFriction", LEMMAS)
    K("doUpdate", "h_doUpdate", "doUpdate", LEMMAS)
    K("doUpdates", "h_doUpdates", "doUpdates", LEMMAS, unwind=7)
    jobs.append(lambda: cbmc_unit(ctx, "pgs.sweep", [sweep_c], "h_sweep", no_dfcc=True, cc_args=["-DSWEEP_M_MAX=24"],
                                  cbmc_args=["--bounds-check", "--pointer-check", "--signed-overflow-check", "--unwind", "7", "--unwinding-assertions"],
                                  require_props=[r"h_sweep\.assertion", r"boundVector\.assertion", r"boundUnilateral\.assertion"],
                                  function="PGSImpulseSolver::solve#sweep", timeout=280, min_obligations=20,
                                  bounded="sweep lemma over the kernel contracts with at most 1 unconditional set, 2 unilateral contacts, 1 bounded, 1 state-limited and 1 constraint-limited friction element, m <= 24"))
    jobs.append(lambda: cover_unit(ctx, "pgs.sweep.cover", [sweep_c], "h_sweep", cc_args=["-DSWEEP_M_MAX=24", "-DCOVER"], cbmc_args=["--unwind", "7"],
                                   function="PGSImpulseSolver::solve#sweep (assumptions admit the full configuration)"))
    # bounded stand-ins with the REAL products on a small integer domain: exact condition code
    EX = ["--bounds-check", "--pointer-check", "--unwind", "7", "--unwinding-assertions"]
    jobs.append(lambda: cbmc_unit(ctx, "pgs.boundVector.exact", [unit_c], "h_boundVector_exact", no_dfcc=True, cc_args=["-DEXACT_SQ", "-DEXACT_RANGE=5"],
                                  cbmc_args=EX, min_obligations=3, require_props=[r"h_boundVector_exact\.assertion"], function="boundVector", timeout=280,
                                  bounded="real x*x products, integer-valued pi entries in [-5,5], maxLen in [0,10], |IV|<=3 out of 4 entries"))
    jobs.append(lambda: cbmc_unit(ctx, "pgs.boundFriction.exact", [unit_c], "h_boundFriction_exact", no_dfcc=True, cc_args=["-DEXACT_SQ", "-DEXACT_RANGE=3"],
                                  cbmc_args=EX, min_obligations=3, require_props=[r"h_boundFriction_exact\.assertion"], function="boundFriction", timeout=280,
                                  bounded="real products, integer-valued pi entries in [-3,3], mu in {0..3}, fixed index layout IN={0,1,2} IF={3,4,5}, sizes 0..3"))
    jobs.append(lambda: cone_lemma_z3(ctx))
    parallel(jobs)
    # PLUS solver: definite initialisation / history independence of the mutable work members (checks/part_c44_plus.py)
    plus_replayer = None
    try:
        import importlib
        plus = importlib.import_module("part_c44_plus")
        plus_replayer = plus.run(ctx)
    except ImportError:
        ctx.not_decided.append("PLUS solver history independence (part_c44_plus module not present)")
    except ExtractionError as e:
        ctx.undecide("extraction (PLUS definite initialisation): %s" % e)

    ctx.trust("cbmc/goto-cc/goto-instrument 6.11.0 (C front end), MiniSat; z3 for the real-arithmetic cone lemma")
    ctx.trust("tools/extract.py rule tables (extraction_report.json lists every rewrite and dropped token)")
    ctx.trust("CBMC's IEEE-754 binary64 model, round-to-nearest-even")
    ctx.assume("trusted IEEE lemmas (contracts of vf_sq, vf_mul in specs/C44/pgs_pre.h): x*x>=0 for non-NaN x, 0 for x==0, finite for |x|<=1e150; "
               "a*b not NaN / >=0 for finite (non-negative) operands; used in boundVector, boundFriction, doUpdate(s), sweep")
    ctx.assume("trusted IEEE lemma vf_sqrt_ratio: for 0<=a<b, a finite: 0 <= sqrt(fl(a/b)) <= 1 (the code comment `0 <= scale < 1`); its precondition is CHECKED at the call site")
    ctx.assume("trusted IEEE lemma vf_scale: for finite x and 0<=s<=1, fl(x*s) has the sign of x (or is zero) and |fl(x*s)|<=|x|")
    ctx.assume("abstract views: Vector = contiguous Real* of common length m, Matrix through Mat_get, Array_<MultiplierIndex> = {n,d[6]}; "
               "friction/normal index sets hold <=3 entries (constructor asserts), UncondRT::m_mults <=6 (comment in PGSImpulseSolver.cpp), entries in use in range and pairwise distinct")
    ctx.assume("type invariants as preconditions: sign in {+1,-1}, lb<=ub, multipliers not NaN (boundUnilateral/boundScalar) resp. finite (boundVector), 0<=mu<=1e150 and |normal entries|<=1e150 (boundFriction: otherwise mu*mu*N2 can be inf*0)")
    ctx.assume("sweep lemma: callee behaviour = contract models (assert requires; havoc assigns; assume ensures) in specs/C44/pgs_sweep.h, PRE/POST text shared with the enforced contracts; "
               "doRowSum/doRowSums assumed read-only except `sums` (const reference parameters); Gauss-Seidel updates ASSUMED to stay <=1e150 in magnitude (well-posed subproblem); "
               "index sets of different constraints disjoint (partition stated above PGSImpulseSolver::solve); abstract views of the RT structs (fields used by the sweep only)")
    ctx.not_decided += ["PLUS solver (PLUSImpulseSolver.cpp: active-set logic, numerical result) - not covered beyond the history-independence units plus.*",
                        "convergence of the PGS iteration, and [A+D]*pi = rhs for unconditional rows (linear solve)",
                        "constraint-space velocities consistent with the reported condition (verr update after the loop: matrix-vector products)",
                        "boundVector/boundFriction value clause 'Rolling <=> sum of squares <= limit' for arbitrary doubles: decided only on the small-integer stand-in (recomputing float sums inside a contract needs FP-adder equivalence, which SAT does not finish)",
                        "cone inequality after scaling in floating point (rounding can exceed the limit by ulps): proved over the reals only (z3 lemma)",
                        "sweep lemma beyond the stated bound and for index layouts with sets of more elements; UniSpeedRT rows (unused by PGS solve)"]
    ctx.explanation = ("Proved for all inputs (bit-precise): boundUnilateral never-pull/identity/condition code; boundScalar clamp/nearest bound/condition code; "
                       "boundVector/boundFriction frame, Rolling=>unchanged, scale computed once under checked 0<=L2<norm2, every component multiplied once by that scale, no growth/sign flip, zero vector never scaled; "
                       "doUpdate/doUpdates frame. Bounded stand-ins: exact condition code on small integers; sweep lemma S1-S5 over contract models (<=2 contacts). Real-arithmetic lemma: scaled vector lies on the cone.")
    return ctx.finish(replayer=lambda ob: (plus_replayer(ob) if (plus_replayer is not None and ob.unit.startswith("plus.")) else replay(ctx, ob)))


def cone_lemma_z3(ctx):
    """[B] real-arithmetic lemma on the scale expression of the enforced contract: s = sqrt(L2/norm2), norm2 = sum p_j^2 > L2 >= 0
    ==> sum (p_j*s)^2 == L2 (the scaled friction vector lies exactly on the cone), 0 <= s < 1. Machine arithmetic treated as mathematical."""
    import time as _t
    try:
        import z3
    except Exception as e:
        ctx.add(Obligation("pgs.cone_lemma.z3", "pgs.cone_lemma", "z3", "undecided", 0, "z3 bindings not importable: %r" % e))
        return
    for n in (1, 2, 3):
        t0 = _t.time()
        p = [z3.Real("p%d" % j) for j in range(n)]
        L2, s = z3.Real("L2"), z3.Real("s")
        norm2 = sum(x * x for x in p)
        hyp = z3.And(L2 >= 0, norm2 > L2, s >= 0, s * s * norm2 == L2)      # s = sqrt(L2/norm2)
        goal = z3.And(sum((x * s) * (x * s) for x in p) == L2, s < 1)
        sv = z3.Solver(); sv.set("timeout", int(60000 * __import__("symlib").timeout_scale())); sv.add(hyp, z3.Not(goal))
        r = sv.check()
        st = {"unsat": "discharged", "sat": "failed"}.get(str(r), "undecided")
        ctx.add(Obligation("pgs.cone_lemma:scaled_vector_on_cone.n%d" % n, "pgs.cone_lemma", "z3", st, _t.time() - t0,
                           "lemma over the reals: s=sqrt(L2/||p||^2), ||p||^2>L2>=0 ==> ||s*p||^2 == L2 and 0<=s<1 (n=%d): %s" % (n, r),
                           function="boundVector/boundFriction"))
    with ctx.lock:
        ctx.units.append(dict(unit="pgs.cone_lemma", backend="z3", obligations=3, note="real arithmetic"))


_exe = {}


def replay(ctx, ob):
    """Witness search on the real code (native driver including the current PGSImpulseSolver.cpp)."""
    if "exe" not in _exe:
        _exe["exe"] = native_build(ctx, "c44_replay", os.path.join(VERIF, "replay/c44_replay.cpp"), libs=True,
                                   defines=['REPO_PGS_CPP="%s"' % PGS_CPP, "NDEBUG"], extra_inc=[os.path.join(REPO, "Simbody/src")])
    mode = None
    for f in ("boundUnilateral", "boundScalar", "boundVector", "boundFriction", "doUpdate", "sweep"):
        if ("pgs." + f) in ob.unit:
            mode = f
    if ob.unit.startswith("pgs.doUpdates"):
        mode = "doUpdate"
    if ob.unit.startswith("pgs.cone_lemma"):
        mode = "boundVector"
    if mode is None:
        return {}, None
    tries = []
    for seed in (12345, 777):
        rc, o, e, t = run([_exe["exe"], mode, str(seed)], 120)
        tries.append(dict(cmd="c44_replay %s %d" % (mode, seed), output=o[-600:]))
        if "REPRODUCED:" in o:
            return dict(tries=tries), True
    return dict(tries=tries), False
