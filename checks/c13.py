"""C13 - Interaction forces obey Newton's third law (two-point elements and HuntCrossley contact).
Back end B (route M3): the transliterated real calcForce bodies are run on a symbolic world and the
total force and total moment about the ground origin of everything they apply is proved zero."""
import os, re, json, z3
from vlib import *
from extract import *
import symlib as S
from symlib import *
import forcelib as FL

PID = "C13"
META = dict(
    category="proof",
    text=("TwoPointLinearSpring, TwoPointLinearDamper and TwoPointConstantForce: the spatial forces applied to all bodies (Ground included) sum to zero force and zero "
          "moment about the ground origin, for all real poses, velocities, stations and parameters, in three attachment configurations (two moving bodies, one end on Ground, "
          "both ends on the same body); HuntCrossleyForce: on every branch the two applied forces are equal and opposite and act at the same ground point. "
          "Force::LinearBushing (agent-built part_bushing): total force and total moment about the Ground origin vanish, F_GB1/F_GB2 are -/+ the same wrench shifted from the "
          "common point OM, in four attachment configurations (two bodies, either end on Ground, both frames on one body), for any force law value. "
          "Cable springs and the other contact models are not covered."),
    note="Assumes real arithmetic and the mocked matter/contact API contracts listed; trusts z3/cvc5, transliterator rules, symlib shim.",
    technique="symbolic execution of transliterated real code over the reals + SMT (z3 QF_NRA)",
    design_ref="4 C12/C13")


def main(ctx):
    ctx.level = "proof"
    try:
        B, C = FL.build(ctx, want=("springs",))
    except ExtractionError as e:
        ctx.undecide("extraction: %s" % e)
        return ctx.finish()
    W = FL.World(3, rot="free"); side = list(W.side); st = object(); U = "reaction"
    s1 = Vec(*[z3.Real("s1_%d" % i) for i in range(3)]); s2 = Vec(*[z3.Real("s2_%d" % i) for i in range(3)])
    k, x0, c, F0 = z3.Reals("k x0 c F0")
    def mk(name):
        e = C[name]()
        e.matter, e.station1, e.station2 = W, s1, s2
        if name == "TwoPointLinearSpring": e.k, e.x0 = D(k), D(x0)
        if name == "TwoPointLinearDamper": e.damping = D(c)
        if name == "TwoPointConstantForce": e.force = D(F0)
        return e
    for name in ("TwoPointLinearSpring", "TwoPointLinearDamper", "TwoPointConstantForce"):
        for (ba, bb, tag) in ((1, 2, "two moving bodies"), (0, 2, "one end on Ground"), (2, 0, "other end on Ground"), (1, 1, "same body twice")):
            S.reset_env()
            e = mk(name); e.body1, e.body2 = ba, bb
            bf, pf, mf = W.fresh_forces(); e.calcForce(st, bf, pf, mf)
            roots = [v for kk_, v in S._TRIG.items() if kk_[0] == "sqrt" and v[1] is S.ENV]
            sd = side + list(S.ENV.side) + [r_[0] > 0 for r_ in roots]
            f, m = W.net_force_and_moment_about_ground_origin(bf)
            B.prove_eq("%s (%s): total force == 0" % (name, tag), f, Vec(0, 0, 0), sd, U, name + "::calcForce", timeout_ms=60000)
            B.prove_eq("%s (%s): total moment about the ground origin == 0" % (name, tag), m, Vec(0, 0, 0), sd, U, name + "::calcForce", timeout_ms=60000)
            B.prove_bool("%s (%s): no mobility force applied" % (name, tag), z3.BoolVal(len(mf.f) == 0), [], U, name + "::calcForce")
    # HuntCrossley: action/reaction clauses of the per-contact law (shared with C37)
    try:
        import c37
        c37.law(ctx, only_reaction=True, U="reaction.huntcrossley")
    except ExtractionError as e:
        ctx.undecide("extraction (HuntCrossley): %s" % e)
    s_ = z3.Solver(); s_.add(*side)
    ctx.add(Obligation("guard:world side conditions satisfiable", "guards", "z3", "discharged" if s_.check() == z3.sat else "undecided", 0, "reachability guard"))
    ctx.checker_cmds.append("z3 (python API, QF_NRA); SMT-LIB files in out/C13/smt2")
    ctx.trust("z3 4.x / cvc5 1.0 (QF_NRA)"); ctx.trust("tools/translit.py rule table (logged) and tools/symlib.py shim")
    ctx.assume("machine arithmetic treated as mathematical (reals)")
    for a in FL.world_assumptions(): ctx.assume(a)
    ctx.assume("body orientations enter as arbitrary 3x3 matrices (superset of rotations): the balance identities proved do not need orthonormality")
    ctx.assume("HuntCrossley: a pair of equal and opposite forces applied at one ground point has zero total force and moment (textbook; the pair and the common point are what is proved)")
    import part_bushing
    part_bushing.c13_part(ctx)
    ctx.not_decided += ["CableSpring, ElasticFoundationForce, CompliantContactSubsystem, SmoothSphereHalfSpaceForce, ExponentialSpringForce"]
    ctx.explanation = "%d functions under contract; %d obligations." % (len(ctx.functions), len(ctx.obligations))
    return ctx.finish(replayer=lambda ob: part_bushing.replay(ctx, ob) if (ob.unit or "").startswith("bushing.") else replay(ctx, ob))


_EXE = {}


def replay(ctx, ob):
    src = os.path.join(REPO, "Simbody/src")
    if ob.unit.startswith("reaction.huntcrossley"):
        if "hc" not in _EXE:
            _EXE["hc"] = native_build(ctx, "c37_law_replay", os.path.join(VERIF, "replay/c37_law_replay.cpp"), libs=True,
                                      extra_srcs=[os.path.join(src, "HuntCrossleyForce.cpp")], extra_inc=[src])
        rc, o, e, t = run([_EXE["hc"], str(ctx.seed)], 300)
        return dict(cmd="c37_law_replay %d" % ctx.seed, output=o[-3000:]), "REPRODUCED:" in o
    if "exe" not in _EXE:
        _EXE["exe"] = native_build(ctx, "c38_replay", os.path.join(VERIF, "replay/c38_replay.cpp"), libs=True,
                                   extra_srcs=[os.path.join(src, "Force.cpp"), os.path.join(src, "Force_Gravity.cpp")], extra_inc=[src])
    rc, o, e, t = run([_EXE["exe"], str(ctx.seed)], 300)
    return dict(cmd="c38_replay %d (documented laws, power vs dPE/dt, action/reaction sums on the real elements)" % ctx.seed, output=o[-3000:]), "REPRODUCED:" in o
