"""C28 - Angular-velocity rate helpers are exact derivatives.  Back end B (route M3):
the real static helpers of Rotation.h are transliterated each run and executed on
symbolic reals / dual numbers; obligations are polynomial identities under
c_i^2+s_i^2=1, c_1 != 0, discharged by z3 (cvc5 second opinion in the thorough tier)."""
import os, re, json, z3
from vlib import *
from extract import *
import symlib as S
from symlib import *
from blib import BUnit

PID = "C28"
META = dict(
    category="proof",
    text=("Every static angular-velocity/rate helper of Rotation.h is transliterated mechanically from the current source and run on symbolic reals "
          "and dual numbers; N*NInv=I, the kinematic equation Rdot = R[w]x = [w]xR for qdot=N w, NDot = d/dt N, the qdotdot helpers = d/dt(N w), "
          "the fast multiplyBy forms, the 321 sequence and the quaternion helpers are proved as polynomial identities over the reals for ALL "
          "orientations away from c1=0 and all rates (z3 QF_NRA). Float rounding is not covered."),
    note=("Assumes real arithmetic for machine arithmetic; trusts z3/cvc5, the transliterator rule table (logged per run) and the symlib Vec/Mat shim "
          "(assumed contract on SimTK SmallMatrix operators). Oracle (R=Rx Ry Rz, quaternion rotation formula, kinematic equation) is written in the check, independent of the code."),
    technique="weakest-precondition style symbolic execution of transliterated real code over the reals + SMT (z3 QF_NRA), dual numbers for d/dt",
    design_ref="4 C28")

ROT_H = os.path.join(REPO, "SimTKcommon/Mechanics/include/SimTKcommon/internal/Rotation.h")
V3 = r"const Vec3P&\s*"
V2 = r"const Vec2P&\s*"
V4 = r"const Vec4P&\s*"


def sig(name, *params, ret=r"(?:Vec[34]P|Mat\d\dP|Mat<\d,\d,P>)"):
    return r"static " + ret + r"\s+" + name + r"\s*\(\s*" + r"\s*,\s*".join(params) + r"\s*\)\s*"


FUNCS = [
    ("multiplyByBodyXYZ_N_P", (V2 + "cosxy", V2 + "sinxy", r"RealP\s+oocosy", V3 + "w_PB")),
    ("multiplyByBodyXYZ_NT_P", (V2 + "cosxy", V2 + "sinxy", r"RealP\s+oocosy", V3 + "q")),
    ("multiplyByBodyXYZ_NInv_P", (V2 + "cosxy", V2 + "sinxy", V3 + "qdot")),
    ("multiplyByBodyXYZ_NInvT_P", (V2 + "cosxy", V2 + "sinxy", V3 + "v_P")),
    ("calcNForBodyXYZInBodyFrame", (V3 + "q",)),
    ("calcNForBodyXYZInBodyFrame", (V3 + "cq", V3 + "sq")),
    ("calcNForBodyXYZInParentFrame", (V3 + "q",)),
    ("calcNForBodyXYZInParentFrame", (V3 + "cq", V3 + "sq")),
    ("calcNDotForBodyXYZInBodyFrame", (V3 + "q", V3 + "qdot")),
    ("calcNDotForBodyXYZInBodyFrame", (V3 + "cq", V3 + "sq", V3 + "qdot")),
    ("calcNDotForBodyXYZInParentFrame", (V3 + "q", V3 + "qdot")),
    ("calcNDotForBodyXYZInParentFrame", (V2 + "cq", V2 + "sq", r"RealP ooc1", V3 + "qdot")),
    ("calcNInvForBodyXYZInBodyFrame", (V3 + "q",)),
    ("calcNInvForBodyXYZInBodyFrame", (V3 + "cq", V3 + "sq")),
    ("calcNInvForBodyXYZInParentFrame", (V3 + "q",)),
    ("calcNInvForBodyXYZInParentFrame", (V3 + "cq", V3 + "sq")),
    ("calcUnnormalizedNForQuaternion", (V4 + "q",)),
    ("calcUnnormalizedNDotForQuaternion", (V4 + "qdot",)),
    ("calcUnnormalizedNInvForQuaternion", (V4 + "q",)),
    ("convertAngVelToBodyFixed321Dot", (V3 + "q", V3 + "w_PB_B")),
    ("convertBodyFixed321DotToAngVel", (V3 + "q", V3 + "qd")),
    ("convertAngVelDotToBodyFixed321DotDot", (V3 + "q", V3 + "w_PB_B", V3 + "wdot_PB_B")),
    ("convertAngVelInBodyFrameToBodyXYZDot", (V3 + "q", V3 + "w_PB_B")),
    ("convertAngVelInBodyFrameToBodyXYZDot", (V3 + "cq", V3 + "sq", V3 + "w_PB_B")),
    ("convertBodyXYZDotToAngVelInBodyFrame", (V3 + "q", V3 + "qdot")),
    ("convertBodyXYZDotToAngVelInBodyFrame", (V3 + "cq", V3 + "sq", V3 + "qdot")),
    ("convertAngVelDotInBodyFrameToBodyXYZDotDot", (V3 + "q", V3 + "w_PB_B", V3 + "wdot_PB_B")),
    ("convertAngVelDotInBodyFrameToBodyXYZDotDot", (V3 + "cq", V3 + "sq", V3 + "w_PB_B", V3 + "wdot_PB_B")),
    ("convertAngVelToQuaternionDot", (V4 + "q", V3 + "w_PB_P")),
    ("convertQuaternionDotToAngVel", (V4 + "q", V4 + "qdot")),
    ("convertAngVelDotToQuaternionDotDot", (V4 + "q", V3 + "w_PB", V3 + "b_PB")),
    ("convertAngVelInParentToBodyXYZDot", (V2 + "cosxy", V2 + "sinxy", r"RealP\s+oocosy", V3 + "w_PB")),
    ("convertAngAccInParentToBodyXYZDotDot", (V2 + "cosxy", V2 + "sinxy", r"RealP\s+oocosy", V3 + "qdot", V3 + "b_PB")),
    ("convertAngVelToBodyFixed123Dot", (V3 + "q", V3 + "w_PB_B")),
    ("convertBodyFixed123DotToAngVel", (V3 + "q", V3 + "qdot")),
    ("convertAngVelDotToBodyFixed123DotDot", (V3 + "q", V3 + "w_PB_B", V3 + "wdot_PB_B")),
]


def load(ctx):
    B = BUnit(ctx)
    for name, params in FUNCS:
        B.add_function(ROT_H, sig(name, *params), pyname=name, cxxname="Rotation_<P>::" + name)
    B.dump_sources()
    return B


def syms(prefix, n):
    return [z3.Real("%s%d" % (prefix, i)) for i in range(n)]


def main(ctx):
    ctx.level = "proof"
    try:
        B = load(ctx)
    except ExtractionError as e:
        ctx.undecide("extraction: %s" % e)
        return ctx.finish()
    f = B.ns
    U = "rot.bodyXYZ"
    # ---------------- body-fixed XYZ ----------------
    S.reset_env()
    w = Vec(*syms("w", 3)); wd = Vec(*syms("wd", 3)); qd = Vec(*syms("qd", 3))
    a = [Angle("q%d" % i) for i in range(3)]               # value-only angles
    cq = Vec(*[cos(x) for x in a]); sq = Vec(*[sin(x) for x in a])
    side = list(S.ENV.side) + [cq[1] != 0]
    NB = f["calcNForBodyXYZInBodyFrame"](cq, sq); NBi = f["calcNInvForBodyXYZInBodyFrame"](cq, sq)
    NP = f["calcNForBodyXYZInParentFrame"](cq, sq); NPi = f["calcNInvForBodyXYZInParentFrame"](cq, sq)
    B.prove_eq("N_B*NInv_B==I", NB * NBi, eye(3), side, U, "calcN/NInvForBodyXYZInBodyFrame")
    B.prove_eq("NInv_B*N_B==I", NBi * NB, eye(3), side, U, "calcN/NInvForBodyXYZInBodyFrame")
    B.prove_eq("N_P*NInv_P==I", NP * NPi, eye(3), side, U, "calcN/NInvForBodyXYZInParentFrame")
    B.prove_eq("NInv_P*N_P==I", NPi * NP, eye(3), side, U, "calcN/NInvForBodyXYZInParentFrame")
    # angle forms agree with the (cos,sin) forms (they pick the right components)
    q = Vec(*a)                        # a "Vec" of Angle objects; only indexed
    for nm in ("calcNForBodyXYZInBodyFrame", "calcNInvForBodyXYZInBodyFrame", "calcNForBodyXYZInParentFrame", "calcNInvForBodyXYZInParentFrame"):
        B.prove_eq(nm + "(q)==(cq,sq) form", f[nm](q), f[nm](cq, sq), side, U, nm)
    B.prove_eq("calcNDotBody(q,qd)==(cq,sq,qd) form", f["calcNDotForBodyXYZInBodyFrame"](q, qd), f["calcNDotForBodyXYZInBodyFrame"](cq, sq, qd), side, U, "calcNDotForBodyXYZInBodyFrame")
    B.prove_eq("calcNDotParent(q,qd)==(cq,sq,1/c1,qd) form", f["calcNDotForBodyXYZInParentFrame"](q, qd),
               f["calcNDotForBodyXYZInParentFrame"](Vec(cq[0], cq[1]), Vec(sq[0], sq[1]), 1 / cq[1], qd), side, U, "calcNDotForBodyXYZInParentFrame")
    # kinematic equation: with qdot = N w the rotation R = Rx Ry Rz moves with angular velocity w
    def R_of(rates):
        ang = []
        for i in range(3):
            x = Angle.__new__(Angle); x.c, x.s, x.rate = a[i].c, a[i].s, rates[i]
            ang.append(x)
        return ang, Rx(ang[0]) * Ry(ang[1]) * Rz(ang[2])
    qdot_B = NB * w
    angB, RB = R_of(list(qdot_B))
    Rv = S.vmap(val, RB); Rd = S.vmap(der, RB)
    B.prove_eq("kinematics body: d/dt R(q) == R*[w_B]x for qdot=N_B*w_B", Rd, Rv * crossMat(w), side, U, "calcNForBodyXYZInBodyFrame")
    qdot_P = NP * w
    angP, RP = R_of(list(qdot_P))
    B.prove_eq("kinematics parent: d/dt R(q) == [w_P]x*R for qdot=N_P*w_P", S.vmap(der, RP), crossMat(w) * S.vmap(val, RP), side, U, "calcNForBodyXYZInParentFrame")
    B.prove_eq("N_P == N_B*~R", NP, NB * ~S.vmap(val, RP), side, U, "calcNForBodyXYZInParentFrame")
    # NDot == d/dt N  (dual execution of the code's own N with arbitrary rates qd)
    angd, _ = R_of(list(qd))
    cqd = Vec(*[cos(x) for x in angd]); sqd = Vec(*[sin(x) for x in angd])
    NBdual = f["calcNForBodyXYZInBodyFrame"](cqd, sqd)
    B.prove_eq("NDot_B == d/dt N_B", f["calcNDotForBodyXYZInBodyFrame"](cq, sq, qd), S.vmap(der, NBdual), side, U, "calcNDotForBodyXYZInBodyFrame")
    NPdual = f["calcNForBodyXYZInParentFrame"](cqd, sqd)
    B.prove_eq("NDot_P == d/dt N_P", f["calcNDotForBodyXYZInParentFrame"](Vec(cq[0], cq[1]), Vec(sq[0], sq[1]), 1 / cq[1], qd),
               S.vmap(der, NPdual), side, U, "calcNDotForBodyXYZInParentFrame")
    # fast products
    c2, s2 = Vec(cq[0], cq[1]), Vec(sq[0], sq[1])
    x = Vec(*syms("x", 3))
    B.prove_eq("multiplyByBodyXYZ_N_P == N_P*w", f["multiplyByBodyXYZ_N_P"](c2, s2, 1 / cq[1], x), NP * x, side, U, "multiplyByBodyXYZ_N_P")
    B.prove_eq("multiplyByBodyXYZ_NT_P == ~N_P*q", f["multiplyByBodyXYZ_NT_P"](c2, s2, 1 / cq[1], x), (~NP) * x, side, U, "multiplyByBodyXYZ_NT_P")
    B.prove_eq("multiplyByBodyXYZ_NInv_P == NInv_P*qdot", f["multiplyByBodyXYZ_NInv_P"](c2, s2, x), NPi * x, side, U, "multiplyByBodyXYZ_NInv_P")
    B.prove_eq("multiplyByBodyXYZ_NInvT_P == ~NInv_P*v", f["multiplyByBodyXYZ_NInvT_P"](c2, s2, x), (~NPi) * x, side, U, "multiplyByBodyXYZ_NInvT_P")
    B.prove_eq("convertAngVelInParentToBodyXYZDot == N_P*w", f["convertAngVelInParentToBodyXYZDot"](c2, s2, 1 / cq[1], x), NP * x, side, U, "convertAngVelInParentToBodyXYZDot")
    B.prove_eq("convertAngVelInBodyFrameToBodyXYZDot == N_B*w", f["convertAngVelInBodyFrameToBodyXYZDot"](cq, sq, x), NB * x, side, U, "convertAngVelInBodyFrameToBodyXYZDot")
    B.prove_eq("convertAngVelInBodyFrameToBodyXYZDot(q,.) == N_B*w", f["convertAngVelInBodyFrameToBodyXYZDot"](q, x), NB * x, side, U, "convertAngVelInBodyFrameToBodyXYZDot")
    B.prove_eq("convertBodyXYZDotToAngVelInBodyFrame == NInv_B*qdot", f["convertBodyXYZDotToAngVelInBodyFrame"](cq, sq, x), NBi * x, side, U, "convertBodyXYZDotToAngVelInBodyFrame")
    B.prove_eq("convertBodyXYZDotToAngVelInBodyFrame(q,.) == NInv_B*qdot", f["convertBodyXYZDotToAngVelInBodyFrame"](q, x), NBi * x, side, U, "convertBodyXYZDotToAngVelInBodyFrame")
    B.prove_eq("123 alias Dot", f["convertAngVelToBodyFixed123Dot"](q, x), NB * x, side, U, "convertAngVelToBodyFixed123Dot")
    B.prove_eq("123 alias DotToAngVel", f["convertBodyFixed123DotToAngVel"](q, x), NBi * x, side, U, "convertBodyFixed123DotToAngVel")
    # second derivatives: qdotdot helper == d/dt (N(q(t)) w(t)) along qdot = N w
    wdual = Vec(*[D(w[i], wd[i]) for i in range(3)])
    cB = Vec(*[cos(t) for t in angB]); sB = Vec(*[sin(t) for t in angB])
    qdd_true = S.vmap(der, f["calcNForBodyXYZInBodyFrame"](cB, sB) * wdual)
    B.prove_eq("qdotdot body == d/dt(N_B w)", f["convertAngVelDotInBodyFrameToBodyXYZDotDot"](cq, sq, w, wd), qdd_true, side, U, "convertAngVelDotInBodyFrameToBodyXYZDotDot")
    B.prove_eq("qdotdot body (q form) == d/dt(N_B w)", f["convertAngVelDotInBodyFrameToBodyXYZDotDot"](q, w, wd), qdd_true, side, U, "convertAngVelDotInBodyFrameToBodyXYZDotDot")
    B.prove_eq("123 alias DotDot", f["convertAngVelDotToBodyFixed123DotDot"](q, w, wd), qdd_true, side, U, "convertAngVelDotToBodyFixed123DotDot")
    cP = Vec(*[cos(t) for t in angP]); sP = Vec(*[sin(t) for t in angP])
    qdd_true_P = S.vmap(der, f["calcNForBodyXYZInParentFrame"](cP, sP) * wdual)
    B.prove_eq("qdotdot parent == d/dt(N_P w)", f["convertAngAccInParentToBodyXYZDotDot"](c2, s2, 1 / cq[1], qdot_P, wd), qdd_true_P, side, U, "convertAngAccInParentToBodyXYZDotDot")

    # ---------------- body-fixed 321 (ZYX) ----------------
    U2 = "rot.body321"
    E321 = [f["convertAngVelToBodyFixed321Dot"](q, Vec(*[1 if i == j else 0 for i in range(3)])) for j in range(3)]   # columns of E
    E = ~Mat([list(c.e) for c in E321])
    Ei = ~Mat([list(f["convertBodyFixed321DotToAngVel"](q, Vec(*[1 if i == j else 0 for i in range(3)])).e) for j in range(3)])
    B.prove_eq("321: Einv*E==I", Ei * E, eye(3), side, U2, "convertBodyFixed321DotToAngVel")
    B.prove_eq("321: E*Einv==I", E * Ei, eye(3), side, U2, "convertAngVelToBodyFixed321Dot")
    qd321 = f["convertAngVelToBodyFixed321Dot"](q, w)
    ang321, _ = R_of(list(qd321))
    R321 = Rz(ang321[0]) * Ry(ang321[1]) * Rx(ang321[2])
    B.prove_eq("321 kinematics: d/dt R == R*[w_B]x for qdot=E*w_B", S.vmap(der, R321), S.vmap(val, R321) * crossMat(w), side, U2, "convertAngVelToBodyFixed321Dot")
    q321 = Vec(*ang321)
    qdd321 = S.vmap(der, f["convertAngVelToBodyFixed321Dot"](q321, wdual))
    B.prove_eq("321 qdotdot == d/dt(E w)", f["convertAngVelDotToBodyFixed321DotDot"](q, w, wd), qdd321, side, U2, "convertAngVelDotToBodyFixed321DotDot")

    # ---------------- quaternions (possibly unnormalised) ----------------
    U3 = "rot.quaternion"
    e = Vec(*syms("e", 4)); ed = Vec(*syms("ed", 4))
    N = f["calcUnnormalizedNForQuaternion"](e); Ni = f["calcUnnormalizedNInvForQuaternion"](e)
    n2 = e.normSqr()
    B.prove_eq("NInv*N == |q|^2 I", Ni * N, n2 * eye(3), [], U3, "calcUnnormalizedN/NInvForQuaternion")
    B.prove_eq("q . (N w) == 0 (length preserved)", (~e) * (N * w), 0, [], U3, "calcUnnormalizedNForQuaternion")
    B.prove_eq("convertAngVelToQuaternionDot == N w", f["convertAngVelToQuaternionDot"](e, w), N * w, [], U3, "convertAngVelToQuaternionDot")
    B.prove_eq("convertQuaternionDotToAngVel == NInv qdot", f["convertQuaternionDotToAngVel"](e, ed), Ni * ed, [], U3, "convertQuaternionDotToAngVel")
    edual = Vec(*[D(e[i], ed[i]) for i in range(4)])
    B.prove_eq("NDot(qdot) == d/dt N(q)", f["calcUnnormalizedNDotForQuaternion"](ed), S.vmap(der, f["calcUnnormalizedNForQuaternion"](edual)), [], U3, "calcUnnormalizedNDotForQuaternion")
    # kinematics: R(q) (unit q) moves with angular velocity w (in parent) when qdot = N w
    qdq = N * w
    eq = Vec(*[D(e[i], qdq[i]) for i in range(4)])
    def Rquat(q):
        q0, q1, q2, q3 = q[0], q[1], q[2], q[3]
        return Mat([[q0*q0+q1*q1-q2*q2-q3*q3, 2*(q1*q2-q0*q3), 2*(q1*q3+q0*q2)],
                    [2*(q1*q2+q0*q3), q0*q0-q1*q1+q2*q2-q3*q3, 2*(q2*q3-q0*q1)],
                    [2*(q1*q3-q0*q2), 2*(q2*q3+q0*q1), q0*q0-q1*q1-q2*q2+q3*q3]])
    Rq = Rquat(eq)
    B.prove_eq("quaternion kinematics: d/dt R(q) == [w_P]x R(q) for qdot=N w, |q|=1", S.vmap(der, Rq), crossMat(w) * S.vmap(val, Rq), [n2 == 1], U3, "calcUnnormalizedNForQuaternion")
    qdd_q = S.vmap(der, f["calcUnnormalizedNForQuaternion"](eq) * wdual)
    B.prove_eq("quaternion qdotdot == d/dt(N(q) w) along qdot=N w", f["convertAngVelDotToQuaternionDotDot"](e, w, wd), qdd_q, [], U3, "convertAngVelDotToQuaternionDotDot")
    B.prove_eq("w == NInv (N w) for |q|=1", Ni * (N * w), w, [n2 == 1], U3, "calcUnnormalizedNInvForQuaternion")

    # vacuity guard: the side conditions are satisfiable (otherwise everything would be proved)
    for nm, sd in (("bodyXYZ side conditions satisfiable", side), ("unit quaternion satisfiable", [n2 == 1])):
        s = z3.Solver(); s.add(*sd)
        ok = s.check() == z3.sat
        ctx.add(Obligation("guard:" + nm, "guards", "z3", "discharged" if ok else "undecided", 0, "reachability guard: " + nm))
    ctx.units.append(dict(unit="rot.*", backend="z3 QF_NRA", obligations=len(ctx.obligations)))
    ctx.checker_cmds.append("z3 (python API, QF_NRA, 20 s/obligation); SMT-LIB files in out/C28/smt2; cvc5 re-check in thorough tier")
    ctx.trust("z3 4.x / cvc5 1.0 (QF_NRA)")
    ctx.trust("tools/translit.py rule table (per-function log in extraction_report.json) and tools/symlib.py Vec/Mat shim")
    ctx.assume("machine arithmetic treated as mathematical (reals): float rounding, overflow and the behaviour near c1 -> 0 are not covered")
    ctx.assume("symlib shim gives SimTK Vec/Mat/Row operators (+,-,*,~,%, element access, row-major Mat constructors) their textbook meaning")
    ctx.assume("cos/sin enter only through (c,s) with c^2+s^2=1; d/dt c = -s*rate, d/dt s = c*rate")
    ctx.not_decided += ["single precision / float rounding", "behaviour at the coordinate singularity c1 = 0"]
    ctx.explanation = "All %d static rate helpers of Rotation.h, %d identities (one obligation per matrix/vector entry)." % (len(FUNCS), len(ctx.obligations))
    return ctx.finish(replayer=lambda ob: replay(ctx, ob))


_EXE = {}


def replay(ctx, ob):
    """evaluate the real C++ helpers natively at the counter-model and compare with finite differences"""
    mech = os.path.join(REPO, "SimTKcommon/Mechanics/src")
    if 'exe' not in _EXE:
        _EXE['exe'] = native_build(ctx, "c28_replay", os.path.join(VERIF, "replay/c28_replay.cpp"), libs=True,
                           extra_srcs=[os.path.join(mech, x) for x in ("Rotation.cpp", "Quaternion.cpp", "CoordinateAxis.cpp")])
    exe = _EXE['exe']
    m = ob.cex or {}
    def num(k, default):
        v = m.get(k)
        if v is None:
            return default
        try:
            import fractions
            return float(fractions.Fraction(v.rstrip("?")))
        except Exception:
            try:
                return float(v.rstrip("?"))
            except Exception:
                return default
    import math
    ang = []
    for i in range(3):
        c, s = num("c_q%d" % i, 0.8), num("s_q%d" % i, 0.6)
        ang.append(math.atan2(s, c))
    args = [repr(x) for x in ang] + [repr(num("w%d" % i, 0.3 + 0.2 * i)) for i in range(3)] + [repr(num("wd%d" % i, -0.4 + 0.3 * i)) for i in range(3)]
    args += [repr(num("e%d" % i, [0.5, 0.5, -0.5, 0.5][i])) for i in range(4)]
    rc, o, e, t = run([exe] + args, 60)
    return dict(cmd="c28_replay " + " ".join(args), output=o[-3000:]), "REPRODUCED" in o and "NOT-REPRODUCED" not in o.replace("REPRODUCED:", "")
