"""C32 - values survive text round trips: the clause "conversion from text succeeds exactly for
strings that denote a value of the requested type apart from surrounding white space, and fails
otherwise (for example when characters trail the number)".
Back end A (CBMC contracts), route M2: String::tryConvertToBool/Float/Double, consumedWholeString,
cleanUp (String.cpp), the generic tryConvertStringTo<T> (String.h) and, character level,
String::trimWhiteSpace / toLower (String.cpp) are cut from /repo each run; std::istringstream is
replaced by a contracted abstract stream (assumed contract on libstdc++)."""
import os, re, json
from vlib import *
from extract import *

PID = "C32"
META = dict(
    category="other",
    text=("CBMC code contracts on String::tryConvertToBool/Float/Double, consumedWholeString and the generic "
          "tryConvertStringTo<T>, cut mechanically from String.cpp/String.h each run, against a contracted abstract "
          "std::istringstream (ghost hasValidPrefix/consumedAll/restIsBlank): conversion succeeds iff the text is a "
          "special literal (true/false, nan, [+-]inf[inity]) or a valid literal followed by nothing but white space; "
          "special literals are decided before the stream and give NaN/+-Inf/true/false; character level: "
          "trimWhiteSpace/toLower/cleanUp leave no leading/trailing blank and no upper-case letter (loop contracts). "
          "Value-exact round trips (printf/strtod, Serialize, the XML reader) are not decided. "
          "XML writer, escaping side (checks/part_c32_xml.py; hexCharRefLength, TiXmlBase::EncodeString and TiXmlAttribute::Print cut from tinyxml.cpp each run, loop contracts, "
          "any length): the output is the ghost-indexed concatenation of enc(c_i) with well-formed &#x<hexdigits>; references copied, contains no raw < > (nor a raw quote unless "
          "keepQuotes), every & starts an entity or a character reference, and the written attribute value never contains its delimiter unescaped."),
    note=("Assumed: the abstract stream contract (operator>> consumes the longest valid prefix, fail() iff none, eofbit "
          "only at end of text, std::ws sets eofbit iff only blanks remain), std::string==literal by ghost "
          "classification, NTraits<T>::getNaN/getInfinity, <cctype> isspace/tolower tables. Trusted: CBMC 6.11, extractor rules."),
    technique="CBMC function contracts (dfcc) + loop contracts on mechanically extracted real code; abstract stream by contract",
    design_ref="4 C32")
SPEC = os.path.join(VERIF, "specs", PID)
STRING_CPP = os.path.join(REPO, "SimTKcommon/src/String.cpp")
STRING_H = os.path.join(REPO, "SimTKcommon/include/SimTKcommon/internal/String.h")

TYPES = {"Bool": "bool", "Float": "float", "Double": "double"}


def stream_rules(r, out_type):
    """Closed-list rewrites for the abstract stream (zero hits allowed where the text differs between
    the pre-fix and post-fix tree: anything left over fails to compile as C -> UNDECIDED)."""
    r.sub("container->contracted-stub: istringstream ctor", r"std::istringstream\s+sstream\((\w+)\);",
          lambda m: "struct IStream sstream_obj; struct IStream* sstream = &sstream_obj; iss_init(sstream, %s);"
          % (m.group(1) if m.group(1) == "value" else "&" + m.group(1)), 1)
    r.sub("container->contracted-stub: fail()", r"\bsstream\.fail\(\)", "iss_fail(sstream)", None, 0)
    r.sub("container->contracted-stub: eof()", r"\bsstream\.eof\(\)", "iss_eof(sstream)", None, 0)
    r.sub("container->contracted-stub: std::ws", r"std::ws\(sstream\)", "iss_ws(sstream)", None, 0)
    if out_type:
        r.sub("container->contracted-stub: operator>>", r"\bsstream\s*>>\s*out;", "iss_extract_%s(sstream, out);" % out_type, 1)


def build_unit(ctx):
    parts = ['#include "%s/string_pre.h"\n#include "%s/string_contracts.h"\n' % (SPEC, SPEC)]
    have = {}
    # --- consumedWholeString (added by fix 96c7bb91: absent on a pre-fix tree) ---
    try:
        c = cut_function(STRING_CPP, r"static bool consumedWholeString\(std::istringstream& sstream\)\s*", "consumedWholeString")
        r = Rewriter("{" + c.body + "}", "consumedWholeString")
        r.sub("container->contracted-stub: fail()", r"\bsstream\.fail\(\)", "iss_fail(sstream)", None, 1)
        r.sub("container->contracted-stub: eof()", r"\bsstream\.eof\(\)", "iss_eof(sstream)", None, 1)
        r.sub("container->contracted-stub: std::ws", r"std::ws\(sstream\)", "iss_ws(sstream)", None, 0)
        ctx.add_function(STRING_CPP, "consumedWholeString", c.start, c.end, c.text, "M2", r.dropped, r.log)
        parts.append("bool consumedWholeString(struct IStream* sstream)\n" + r.text + "\n")
        parts.append("#define HAVE_consumedWholeString 1\n")
        have["consumedWholeString"] = True
    except ExtractionError:
        have["consumedWholeString"] = False      # helper introduced by our own fix; its callers are still cut below

    # --- String::tryConvertToBool/Float/Double ---
    for T, ct in TYPES.items():
        nm = "String::tryConvertTo" + T
        c = cut_function(STRING_CPP, r"bool String::tryConvertTo%s\(%s& out\) const\s*" % (T, ct), nm, expect_total=1)
        r = Rewriter("{" + c.body + "}", nm)
        r.sub("type-name+reference->pointer: cleanUp(*this)", r"const String adjusted = cleanUp\(\*this\);",
              "const struct String adjusted = cleanUp(self);", 1)
        r.sub("container->contracted-stub: string==literal", r"\badjusted\s*==\s*(\"[^\"]*\")", r"str_eq_lit(&adjusted, \1)", None, 2)
        r.sub("reference->pointer: out", r"\bout\s*=(?!=)", "*out =", None, 2)
        r.sub("scope-flatten: NTraits", r"NTraits<(\w+)>::(\w+)\(\)", r"NTraits_\1_\2()", None, 0)
        stream_rules(r, ct)
        ctx.add_function(STRING_CPP, nm, c.start, c.end, c.text, "M2", r.dropped, r.log)
        parts.append("bool String_tryConvertTo%s(const struct String* self, %s* out)\n%s\n" % (T, ct, r.text))

    # --- generic tryConvertStringTo<T> (String.h) ---
    c = cut_function(STRING_H, r"bool tryConvertStringTo\(const String& value, T& out\)\s*", "tryConvertStringTo<T>", expect_total=1)
    r = Rewriter("{" + c.body + "}", "tryConvertStringTo<T>")
    stream_rules(r, None)
    r.sub("container->contracted-stub: operator>> via stringStreamExtractHelper", r"stringStreamExtractHelper\(sstream, out, true\);",
          "iss_extract_T(sstream, out);", 1)
    ctx.add_function(STRING_H, "tryConvertStringTo<T>", c.start, c.end, c.text, "M2", r.dropped, r.log)
    parts.append("bool tryConvertStringTo_T(const struct String* value, struct TVal* out)\n" + r.text + "\n")

    parts.append('#include "%s/string_harness.h"\n' % SPEC)
    path = os.path.join(ctx.out, "string_unit.c")
    open(path, "w").write("\n".join(parts))
    return path, have


def main(ctx):
    ctx.level = "other"
    try:
        unit_c, have = build_unit(ctx)
        chars_c = build_chars_unit(ctx)
    except ExtractionError as e:
        ctx.undecide("extraction: %s" % e)
        return ctx.finish()
    CHK = ["--bounds-check", "--pointer-check", "--div-by-zero-check", "--object-bits", "10"]
    STREAM = ["iss_init", "iss_extract_bool", "iss_extract_float", "iss_extract_double", "iss_extract_T", "iss_ws",
              "str_eq_lit", "NTraits_double_getNaN", "NTraits_double_getInfinity", "NTraits_float_getNaN", "NTraits_float_getInfinity"]
    jobs = []

    def J(f, *a, **k):
        jobs.append(lambda: f(ctx, *a, **k))
    for T in TYPES:
        J(cbmc_unit, "string.tryConvertTo" + T, [unit_c], "h_tryConvertTo" + T, enforce="String_tryConvertTo" + T,
          replace=STREAM + ["cleanUp", "consumedWholeString"], cbmc_args=CHK, require_props=[r"postcondition\.1$", r"postcondition\.3$"],
          min_obligations=6, function="String::tryConvertTo" + T, timeout=300)
    J(cbmc_unit, "string.tryConvertStringTo_T", [unit_c], "h_tryConvertStringTo_T", enforce="tryConvertStringTo_T",
      replace=STREAM, cbmc_args=CHK, require_props=[r"postcondition\.1$", r"postcondition\.3$"], min_obligations=4,
      function="tryConvertStringTo<T>", timeout=300)
    if have["consumedWholeString"]:
        J(cbmc_unit, "string.consumedWholeString", [unit_c], "h_consumedWholeString", enforce="consumedWholeString",
          replace=STREAM, cbmc_args=CHK, require_props=[r"postcondition"], function="consumedWholeString", timeout=300)
    J(cover_unit, "string.cover", [unit_c], "h_cover", expect_min=5, function="WF_STRING precondition")
    chars_jobs(ctx, J, chars_c)
    try:
        import part_c32_xml as PX          # XML writer, escaping side
        PX.add_jobs(ctx, J)
    except ExtractionError as e:
        ctx.undecide("extraction (XML writer): %s" % e)
    parallel(jobs)

    ctx.trust("cbmc/goto-cc/goto-instrument 6.11.0 (C front end), MiniSat")
    ctx.trust("tools/extract.py + the rewrite tables in checks/c32.py (extraction_report.json lists every rewrite)")
    ctx.assume("abstract std::istringstream contract (libstdc++ behaviour, assumed): construction gives a good stream at the start; "
               "operator>>(T&) skips leading white space and consumes the longest valid prefix, failbit <=> no valid prefix, "
               "eofbit set only if the end of the text was reached, value = the prefix's value; fail()/eof() read the bits; "
               "std::ws skips white space and sets eofbit <=> only white space (or nothing) remained, failbit if eofbit was already set")
    ctx.assume("std::string == \"literal\" on the cleaned string decided by the ghost classification lit (the literal set "
               "true,false,nan,inf,infinity,+inf,+infinity,-inf,-infinity is read from the calls in the code; an unknown literal fails the stub precondition)")
    ctx.assume("NTraits<T>::getNaN()/getInfinity() return a NaN / +infinity (numeric_limits)")
    ctx.assume("ghost attributes of a String classify its trimmed, lower-cased text; cleanUp keeps the classification and turns 'rest is blank' into "
               "'rest is empty' (link between the abstract unit and the character-level units string.chars.*: assumed)")
    ctx.assume("<cctype>: std::isspace(c) for c in 0..255 is true exactly for ' ', \\t \\n \\v \\f \\r; std::tolower maps 'A'..'Z' to 'a'..'z' and is the identity elsewhere (C locale)")
    ctx.assume("std::string(in, pos, n) copies n characters from position pos; copy construction/assignment copy the text (character-level unit stubs)")
    ctx.not_decided += ["value-exact round trips: String(double) via snprintf(\"%.17g\") and operator>> via strtod (external library code)",
                        "unformatted write/read of Vec/Mat/Vector/Array (Serialize.h) and XML documents (TinyXML)",
                        "which concrete texts operator>> accepts for each T (the stream's grammar is the assumed contract)"]
    ctx.explanation = ("Proved (unbounded, all classifications of the text): tryConvertToBool/Float/Double and tryConvertStringTo<T> return true iff "
                       "the text is a special literal or a valid literal followed only by white space, with the documented values for the special literals; "
                       "consumedWholeString == ACCEPTS; trimWhiteSpace/toLower/cleanUp character-level postconditions with loop contracts (any length). "
                       "XML writer (units xml.*): hexCharRefLength, TiXmlBase::EncodeString (loop contract, any length) and TiXmlAttribute::Print against the escaping contract; "
                       "every dfcc unit of that part has a reachability guard (xml.reach.*). "
                       "Assumed: the abstract stream contract and the other items in 'assumptions'. Not decided: see clauses_not_decided.")
    return ctx.finish(replayer=lambda ob: replay(ctx, ob))


# ----------------------------------------------------------------------
# character level: String::trimWhiteSpace(const std::string&), toLower(), trimWhiteSpace(), cleanUp
# ----------------------------------------------------------------------
def build_chars_unit(ctx):
    parts = ['#include "%s/string_chars_pre.h"\n' % SPEC]
    # static String String::trimWhiteSpace(const std::string& in)
    c = cut_function(STRING_CPP, r"String String::trimWhiteSpace\(const std::string& in\)\s*", "String::trimWhiteSpace(const std::string&)", expect_total=1)
    r = Rewriter("{" + c.body + "}", "trimWhiteSpace(in)")
    r.sub("container->contracted-stub: size()", r"\bin\.size\(\)", "cs_size(in)", 1)
    r.sub("container->contracted-stub: operator[]", r"\bin\[(\w+)\]", r"cs_at(in, \1)", 2)
    r.sub("libc: std::isspace", r"std::isspace\(", "vf_isspace(", 2)
    r.sub("ctor->contracted-stub: String()", r"return String\(\);", "return cs_empty();", 1)
    r.sub("ctor->contracted-stub: String(in,pos,n)", r"return String\(in, ", "return cs_substr(in, ", 1)
    r.splice_loop("loop-contract:trimWhiteSpace#loop1", r"\bfor\s*\(", "__CPROVER_assigns(firstNonWhite)\n"
                  "__CPROVER_loop_invariant(0 <= firstNonWhite && firstNonWhite <= inz && ((0 <= gk_lead && gk_lead < firstNonWhite) ==> VF_ISSPACE((unsigned char)in->data[gk_lead])))\n"
                  "__CPROVER_decreases(inz - firstNonWhite)", 1)
    r.splice_loop("loop-contract:trimWhiteSpace#loop2", r"\bfor\s*\(", "__CPROVER_assigns(lastNonWhite)\n"
                  "__CPROVER_loop_invariant(firstNonWhite <= lastNonWhite && lastNonWhite <= inz-1 && ((gk_trail > lastNonWhite && gk_trail < inz) ==> VF_ISSPACE((unsigned char)in->data[gk_trail])))\n"
                  "__CPROVER_decreases(lastNonWhite + 1)", 2)
    ctx.add_function(STRING_CPP, "String::trimWhiteSpace(const std::string&)", c.start, c.end, c.text, "M2", r.dropped, r.log)
    parts.append('#include "%s/string_chars_contracts.h"\n' % SPEC)
    parts.append("struct CStr String_trimWhiteSpace_s(const struct CStr* in)\n" + r.text + "\n")

    # String& String::toLower()
    c = cut_function(STRING_CPP, r"String& String::toLower\(\)\s*", "String::toLower", expect_total=1)
    r = Rewriter("{" + c.body + "}", "toLower")
    r.sub("implicit-this: size()", r"(?<![\w.>])size\(\)", "cs_size(self)", 1)
    r.sub("implicit-this+container: (*this)[i]", r"\(\*this\)\[i\]", "self->data[i]", 2)
    r.sub("libc: std::tolower", r"std::tolower\(", "vf_tolower(", 1)
    r.sub("reference->pointer: return *this", r"return \*this;", "return self;", 1)
    r.splice_loop("loop-contract:toLower#loop1", r"\bfor\s*\(", "__CPROVER_assigns(i, __CPROVER_object_whole(self->data))\n"
                  "__CPROVER_loop_invariant(0 <= i && i <= self->len"
                  " && ((gk_idx < i) ==> self->data[gk_idx] == (char)VF_TOLOWER((int)__CPROVER_loop_entry(self->data[gk_idx < self->len ? gk_idx : self->len])))"
                  " && ((gk_idx >= i && gk_idx < self->len) ==> self->data[gk_idx] == __CPROVER_loop_entry(self->data[gk_idx < self->len ? gk_idx : self->len])))\n"
                  "__CPROVER_decreases(self->len - i)", 1)
    ctx.add_function(STRING_CPP, "String::toLower", c.start, c.end, c.text, "M2", r.dropped, r.log)
    parts.append("struct CStr* String_toLower(struct CStr* self)\n" + r.text + "\n")

    # String& String::trimWhiteSpace()  (in-place member)
    c = cut_function(STRING_CPP, r"String& String::trimWhiteSpace\(\)\s*", "String::trimWhiteSpace()", expect_total=1)
    r = Rewriter("{" + c.body + "}", "trimWhiteSpace()")
    r.sub("implicit-this: *this = trimWhiteSpace(*this)", r"\*this = trimWhiteSpace\(\*this\);", "*self = String_trimWhiteSpace_s(self);", 1)
    r.sub("reference->pointer: return *this", r"return \*this;", "return self;", 1)
    ctx.add_function(STRING_CPP, "String::trimWhiteSpace()", c.start, c.end, c.text, "M2", r.dropped, r.log)
    parts.append("struct CStr* String_trimWhiteSpace_m(struct CStr* self)\n" + r.text + "\n")

    # static String cleanUp(const String& in)
    c = cut_function(STRING_CPP, r"static String cleanUp\(const String& in\)\s*", "cleanUp", expect_total=1)
    r = Rewriter("{" + c.body + "}", "cleanUp")
    r.sub("method-chain on temporary -> explicit this", r"return String\(in\)\.trimWhiteSpace\(\)\.toLower\(\);",
          "struct CStr tmp; cs_copy(&tmp, in); return *String_toLower(String_trimWhiteSpace_m(&tmp));", 1)
    ctx.add_function(STRING_CPP, "cleanUp", c.start, c.end, c.text, "M2", r.dropped, r.log)
    parts.append("struct CStr cleanUp(const struct CStr* in)\n" + r.text + "\n")
    parts.append('#include "%s/string_chars_harness.h"\n' % SPEC)
    path = os.path.join(ctx.out, "string_chars_unit.c")
    open(path, "w").write("\n".join(parts))
    return path


def chars_jobs(ctx, J, chars_c):
    CHK = ["--bounds-check", "--pointer-check", "--signed-overflow-check", "--object-bits", "10"]
    STUBS_ = []
    J(cbmc_unit, "string.chars.trimWhiteSpace", [chars_c], "h_trimWhiteSpace_s", enforce="String_trimWhiteSpace_s", replace=STUBS_,
      loop_contracts=True, cbmc_args=CHK, require_props=[r"postcondition", r"loop_invariant_step", r"loop_invariant_base"],
      function="String::trimWhiteSpace(const std::string&)", timeout=300)
    J(cbmc_unit, "string.chars.toLower", [chars_c], "h_toLower", enforce="String_toLower", replace=STUBS_,
      loop_contracts=True, cbmc_args=CHK, require_props=[r"postcondition", r"loop_invariant_step", r"loop_invariant_base"],
      function="String::toLower", timeout=300)
    J(cbmc_unit, "string.chars.trimWhiteSpace_member", [chars_c], "h_trimWhiteSpace_m", enforce="String_trimWhiteSpace_m",
      replace=STUBS_, loop_contracts=True, cbmc_args=CHK, require_props=[r"postcondition", r"loop_invariant_step"],
      function="String::trimWhiteSpace()", timeout=300)
    J(cbmc_unit, "string.chars.cleanUp", [chars_c], "h_cleanUp", enforce="cleanUp",
      replace=STUBS_, loop_contracts=True, cbmc_args=CHK, require_props=[r"postcondition", r"loop_invariant_step"],
      function="cleanUp", timeout=300)


# ----------------------------------------------------------------------
_exe = {}


def replay_exe(ctx):
    if "exe" not in _exe:
        _exe["exe"] = native_build(ctx, "c32_replay", os.path.join(VERIF, "replay/c32_replay.cpp"),
                                   defines=['REPO_STRING_CPP="%s"' % STRING_CPP], libs=False)
    return _exe["exe"]


# concrete texts per ghost classification (hasValidPrefix, consumedAll, restIsBlank) used to turn the
# verifier's abstract counterexample into a concrete string for the real functions
WITNESS = {
    "double": {(1, 0, 0): ["1.5abc", "2e3x", " 7 , "], (1, 1, 1): ["1.5", " -2e3 ", "0"], (0, 0, 0): ["abc", "", "   "]},
    "float": {(1, 0, 0): ["2.5xyz", "1e2f"], (1, 1, 1): ["2.5", " 1e2\t"], (0, 0, 0): ["xyz", ""]},
    "bool": {(1, 0, 0): ["1x", "0 0"], (1, 1, 1): ["1", " 0 "], (0, 0, 0): ["yes", "2", ""]},
    "int": {(1, 0, 0): ["12abc"], (1, 1, 1): ["12"], (1, 0, 1): ["12  "], (0, 0, 0): ["abc", ""]},
}


def replay(ctx, ob):
    if ob.unit.startswith("xml."):
        import part_c32_xml as PX
        return PX.replay(ctx, ob)
    m = re.match(r"string\.(tryConvertTo(Bool|Float|Double)|tryConvertStringTo_T|consumedWholeString)", ob.unit)
    if not m:
        if ob.unit.startswith("string.chars"):
            exe = replay_exe(ctx)
            rc, o, e, t = run([exe, "chars"], 60)
            return dict(cmd="c32_replay chars", output=o[-1500:]), "REPRODUCED:" in o
        return {}, None
    exe = replay_exe(ctx)
    ty = {"Bool": "bool", "Float": "float", "Double": "double"}.get(m.group(2))
    types = [ty] if ty else (["int"] if "StringTo_T" in ob.unit else ["double", "float", "bool"])
    cex = ob.cex or {}

    def bit(name):
        for k, v in cex.items():
            if k.endswith("." + name) or k.endswith("->" + name):
                d = str(v.get("data", "")).lower()
                return 1 if d in ("true", "1") else 0
        return None
    cls = (bit("hasValidPrefix"), bit("consumedAll"), bit("restIsBlank"))
    tries = []
    for t_ in types:
        order = []
        if None not in cls and cls in WITNESS[t_]:
            order += WITNESS[t_][cls]
        for k, v in WITNESS[t_].items():       # fallback witness search over all classes
            order += [x for x in v if x not in order]
        # special literals with trailing characters / the literals themselves
        order += ["nan", "NaN", " -Infinity ", "+inf", "nanx", "infinity1", "true", "FALSE", "truex"]
        for s in order:
            rc, o, e, t = run([exe, "conv", t_, s], 60)
            tries.append(dict(cmd="c32_replay conv %s %r" % (t_, s), output=o.strip()[-300:]))
            if "REPRODUCED:" in o:
                return dict(abstract_counterexample=dict(hasValidPrefix=cls[0], consumedAll=cls[1], restIsBlank=cls[2]),
                            witness=s, type=t_, tries=tries[-3:], witness_class="trailing-characters-accepted"), True
    return dict(tries=tries[-12:]), False
